(* C14 — is_complete_signature is exact for bool, integers, enums, tuples/structs. *)
From SwayV Require Import Base.Util C14.Model C14.Spec C14.Basics C14.Ranges C14.Useful.
From Coq Require Import ZifyBool ZifyN.
Local Open Scope N_scope.

(* c is a root constructor of type t (what Σ holds for a well-typed column of type t) *)
Definition root_ok (t : ty) (c : pat) : Prop :=
  match t, c with
  | TBool, PBool _ => True
  | TInt mx, PInt lo hi => lo = hi /\ hi <= mx
  | TEnum vs, PEnum k PWild => (k < length vs)%nat
  | TTuple ts, PTuple ps => ps = wilds (length ts)
  | _, _ => False
  end.

Definition covers (sigma : list pat) (t : ty) : Prop :=
  forall v, has_ty v t -> exists c, In c sigma /\ matches c v = true.

Lemma all_bools_ok sigma : Forall (root_ok TBool) sigma ->
  exists bs, all_bools sigma = Ok bs /\ forall b, In b bs <-> In (PBool b) sigma.
Proof.
  induction 1 as [|c sigma Hc _ IH]; [exists []; split; [reflexivity|intros; cbn; tauto]|].
  destruct c; try contradiction. destruct IH as [bs [E Hb]]. cbn [all_bools]. rewrite E. cbn [bindo].
  eexists. split; [reflexivity|]. intros b'. cbn [In]. rewrite Hb. split; intros [H|H]; auto; left; congruence.
Qed.

Lemma all_ranges_ok mx sigma : Forall (root_ok (TInt mx)) sigma ->
  exists rs, all_ranges sigma = Ok rs /\ Forall sing rs /\ bounded mx rs /\
             (forall n, cov rs n <-> exists c, In c sigma /\ matches c (VInt n) = true) /\ (sigma <> [] -> rs <> []).
Proof.
  induction 1 as [|c sigma Hc _ IH].
  - exists []. split; [reflexivity|]. split; [constructor|]. split; [intros r []|]. split; [|tauto].
    intros n. rewrite cov_nil. split; [tauto|]. intros [c [[] _]].
  - destruct c; try contradiction. destruct Hc as [-> Hhi]. destruct IH as [rs [E [Hs [Hb [Hc Hn]]]]].
    cbn [all_ranges]. rewrite E. cbn [bindo]. eexists. split; [reflexivity|]. split; [constructor; [reflexivity|exact Hs]|].
    split; [intros r [<-|Hr]; [exact Hhi|now apply Hb]|]. split; [|discriminate].
    intros n. rewrite cov_cons, Hc. unfold inr. cbn [fst snd]. split.
    + intros [H|[c [Hin Hm]]]; [exists (PInt hi hi); split; [now left|cbn; lia]|exists c; split; [now right|exact Hm]].
    + intros [c [[<-|Hin] Hm]]; [left; cbn in Hm; lia|right; eauto].
Qed.

Lemma all_variants_ok vs sigma : Forall (root_ok (TEnum vs)) sigma ->
  exists ks, all_variants sigma = Ok ks /\ forall k, In k ks <-> In (PEnum k PWild) sigma.
Proof.
  induction 1 as [|c sigma Hc _ IH]; [exists []; split; [reflexivity|intros; cbn; tauto]|].
  destruct c as [| | |k p| |]; try contradiction. destruct p; try contradiction. destruct IH as [ks [E Hk]].
  cbn [all_variants]. rewrite E. cbn [bindo]. eexists. split; [reflexivity|]. intros k'. cbn [In]. rewrite Hk.
  split; intros [H|H]; auto; left; congruence.
Qed.

(* every variant of an enum type has a value (Sway: payload types are inhabited; `!` is not generated) *)
Definition payloads_inhabited (t : ty) : Prop :=
  match t with TEnum vs => Forall (fun tk => exists v, has_ty v tk) vs | _ => True end.

Theorem complete_signature_exact t sigma :
  payloads_inhabited t -> sigma <> [] -> Forall (root_ok t) sigma ->
  exists b, is_complete_signature t sigma = Ok b /\ (b = true <-> covers sigma t).
Proof.
  intros Hinh Hne Hok. unfold covers, has_ty. destruct sigma as [|c0 sigma0]; [congruence|]. set (sigma := c0 :: sigma0) in *.
  assert (Hc0 : root_ok t c0) by (inversion Hok; assumption).
  destruct t as [|mx|vs|ts]; destruct c0 as [|b0|lo hi|k p|ps|ps]; try contradiction; unfold is_complete_signature; fold sigma.
  - (* bool *)
    destruct (all_bools_ok sigma Hok) as [bs [E Hb]]. rewrite E. cbn [bindo]. eexists. split; [reflexivity|].
    rewrite andb_true_iff, !existsb_exists. split.
    + intros [[x [Hx Ex]] [y [Hy Ey]]] v Hv. destruct v as [b| | |]; try discriminate Hv.
      destruct x; [|discriminate]. destruct y; [discriminate|]. apply Hb in Hx, Hy.
      destruct b; [exists (PBool true)|exists (PBool false)]; split; auto.
    + intros H. split.
      * destruct (H (VBool true) eq_refl) as [c [Hin Hm]]. assert (Hr : root_ok TBool c) by (rewrite Forall_forall in Hok; auto).
        destruct c; try contradiction. destruct b; [|discriminate Hm]. exists true. split; [now apply Hb|reflexivity].
      * destruct (H (VBool false) eq_refl) as [c [Hin Hm]]. assert (Hr : root_ok TBool c) by (rewrite Forall_forall in Hok; auto).
        destruct c; try contradiction. destruct b; [discriminate Hm|]. exists false. split; [now apply Hb|reflexivity].
  - (* integers *)
    destruct (all_ranges_ok mx sigma Hok) as [rs [E [Hs [Hb [Hc Hn]]]]]. rewrite E. cbn [bindo int_max].
    destruct (ranges_cover_exact rs mx (Hn Hne) Hs Hb) as [b [Eb Hbb]]. exists b. split; [exact Eb|]. rewrite Hbb. split.
    + intros H v Hv. destruct v as [|n| |]; try discriminate Hv. cbn [has_tyb] in Hv. apply N.leb_le in Hv. apply Hc. apply H. exact Hv.
    + intros H n Hle. apply Hc. apply (H (VInt n)). cbn [has_tyb]. now apply N.leb_le.
  - (* enums *)
    destruct p; try contradiction.
    destruct (all_variants_ok vs sigma Hok) as [ks [E Hk]]. rewrite E. cbn [bindo nvariants]. eexists. split; [reflexivity|].
    rewrite forallb_forall. split.
    + intros H v Hv. destruct v as [| |k' v'|]; try discriminate Hv. cbn [has_tyb] in Hv.
      destruct (nth_error vs k') eqn:En; [|discriminate]. assert (Hlt : (k' < length vs)%nat) by (apply nth_error_Some; congruence).
      specialize (H k' (proj2 (in_seq _ _ _) (conj (Nat.le_0_l _) Hlt))). apply memn_In in H. apply Hk in H.
      exists (PEnum k' PWild). split; [exact H|]. cbn. now rewrite Nat.eqb_refl.
    + intros H k' Hin. apply in_seq in Hin. destruct Hin as [_ Hlt]. cbn in Hlt.
      destruct (nth_error vs k') as [tk|] eqn:En; [|apply nth_error_None in En; lia].
      assert (Hd : exists v', has_ty v' tk).
      { cbn in Hinh. rewrite Forall_forall in Hinh. apply Hinh. eapply nth_error_In; eauto. }
      destruct Hd as [v' Hv']. unfold has_ty in Hv'. destruct (H (VEnum k' v')) as [c [Hc Hm]]; [cbn; now rewrite En|].
      assert (Hr : root_ok (TEnum vs) c) by (rewrite Forall_forall in Hok; auto).
      destruct c as [| | |k2 p2| |]; try contradiction. destruct p2; try contradiction. cbn in Hm. rewrite andb_true_r in Hm.
      apply Nat.eqb_eq in Hm. subst k2. apply memn_In. now apply Hk.
  - (* tuples / structs *)
    cbn in Hc0. eexists. split; [reflexivity|]. split; [|intros _].
    + intros _ v Hv. destruct v as [| | |vs]; try discriminate Hv. rewrite has_tyb_tuple in Hv.
      exists (PTuple ps). split; [now left|]. rewrite matches_tuple. subst ps.
      assert (length vs = length ts) as <-; [|apply vmatches_wilds_true].
      clear -Hv. revert ts Hv. induction vs as [|v vs IH]; intros [|t ts] H; try discriminate H; [reflexivity|].
      cbn in H. apply andb_true_iff in H. cbn. f_equal. now apply IH.
    + apply forallb_forall. intros c Hc. assert (Hr : root_ok (TTuple ts) c) by (inversion Hok; subst; rewrite Forall_forall in H2; auto).
      destruct c; try contradiction. cbn in Hr. subst. cbn. unfold wilds. rewrite !repeat_length. apply Nat.eqb_refl.
Qed.
