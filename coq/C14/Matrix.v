(* C14 — facts about Σ, specialised/default matrices as sets of rows, and their typing. *)
From SwayV Require Import Base.Util C14.Model C14.Spec C14.Basics C14.Ranges C14.Useful C14.Complete C14.Typing.
From Coq Require Import ZifyBool ZifyN.
Local Open Scope N_scope.

(* ---------- pattern equality test ---------- *)
Lemma pat_eqb_eq : forall a b, pat_eqb a b = true -> a = b.
Proof.
  induction a as [|x|l h|k p IH|ps IH|ps IH] using pat_ind'; intros b H; destruct b; try discriminate H; cbn [pat_eqb] in H.
  - reflexivity.
  - apply eqb_prop in H. now subst.
  - apply andb_true_iff in H. destruct H as [H1 H2]. apply N.eqb_eq in H1, H2. now subst.
  - apply andb_true_iff in H. destruct H as [H1 H2]. apply Nat.eqb_eq in H1. subst. f_equal. now apply IH.
  - f_equal. revert ps0 H. induction IH as [|p ps Hp Hps IHps]; intros [|q qs] H; try discriminate H; [reflexivity|].
    apply andb_true_iff in H. destruct H as [H1 H2]. f_equal; [now apply Hp|now apply IHps].
  - f_equal. revert ps0 H. induction IH as [|p ps Hp Hps IHps]; intros [|q qs] H; try discriminate H; [reflexivity|].
    apply andb_true_iff in H. destruct H as [H1 H2]. f_equal; [now apply Hp|now apply IHps].
Qed.

Lemma pats_eqb_eq : forall a b, pats_eqb a b = true -> a = b.
Proof.
  induction a as [|p a IH]; intros [|q b] H; try discriminate H; [reflexivity|]. cbn in H.
  apply andb_true_iff in H. destruct H as [H1 H2]. f_equal; [now apply pat_eqb_eq|now apply IH].
Qed.

Lemma pat_mem_in p l : pat_mem p l = true -> In p l.
Proof. unfold pat_mem. intros H. apply existsb_exists in H. destruct H as [x [Hx He]]. apply pat_eqb_eq in He. now subst. Qed.

Lemma dedup_acc_in : forall l acc c, In c (dedup_acc acc l) <-> In c acc \/ In c l.
Proof.
  induction l as [|p l IH]; intros acc c; cbn [dedup_acc].
  - cbn. tauto.
  - destruct (pat_mem p acc) eqn:E; rewrite IH.
    + apply pat_mem_in in E. cbn. split; [tauto|]. intros [H|[<-|H]]; auto.
    + rewrite in_app_iff. cbn. tauto.
Qed.

Lemma sigma_in P c : In c (compute_sigma P) <-> exists p rest, In (p :: rest) P /\ In c (roots p).
Proof.
  unfold compute_sigma, remove_duplicates. rewrite dedup_acc_in. cbn [In]. rewrite in_flat_map. split.
  - intros [[]|[p [Hp Hc]]]. unfold first_col in Hp. apply in_flat_map in Hp. destruct Hp as [row [Hrow Hp]].
    destruct row as [|p' rest]; [destruct Hp|]. destruct Hp as [<-|[]]. eauto.
  - intros [p [rest [Hin Hc]]]. right. exists p. split; [|exact Hc]. unfold first_col. apply in_flat_map.
    exists (p :: rest). split; [exact Hin|now left].
Qed.

(* ---------- matrices as sets of rows ---------- *)
Lemma concat_rows_in f : forall P s, concat_rows f P = Ok s ->
  forall r, In r s <-> exists row x, In row P /\ f row = Ok x /\ In r x.
Proof.
  induction P as [|row P IH]; intros s H r; cbn [concat_rows] in H.
  - injection H as <-. split; [intros []|]. intros [row [x [[] _]]].
  - destruct (f row) as [a| | |] eqn:Ea; try discriminate H. cbn [bindo] in H.
    destruct (concat_rows f P) as [b| | |] eqn:Eb; try discriminate H. cbn [bindo] in H. injection H as <-.
    rewrite in_app_iff, (IH b eq_refl). split.
    + intros [Hr|[row' [x [Hin [Hf Hx]]]]]; [exists row, a; cbn; auto|exists row', x; cbn; auto].
    + intros [row' [x [[<-|Hin] [Hf Hx]]]]; [left; congruence|right; eauto].
Qed.

Lemma spec_matrix_in c P qlen s : compute_specialized_matrix c P qlen = Ok s ->
  forall r, In r s <-> exists p rest, In (p :: rest) P /\ In r (spec_pat c p rest).
Proof.
  unfold compute_specialized_matrix. intros H.
  destruct (concat_rows (spec_row c) P) as [s'| | |] eqn:E; try discriminate H. cbn [bindo] in H.
  destruct (m_n s') as [mn| | |]; try discriminate H. cbn [bindo] in H.
  destruct (negb (Nat.eqb (fst mn) 0) && negb (Nat.eqb (snd mn) (arity c + qlen - 1))); [discriminate H|]. injection H as <-.
  intros r. rewrite (concat_rows_in _ _ _ E). split.
  - intros [row [x [Hin [Hf Hx]]]]. destruct row as [|p rest]; [discriminate Hf|]. cbn in Hf. injection Hf as <-. eauto.
  - intros [p [rest [Hin Hx]]]. exists (p :: rest), (spec_pat c p rest). auto.
Qed.

Lemma default_matrix_in P qlen s : compute_default_matrix P qlen = Ok s ->
  forall r, In r s <-> exists p rest, In (p :: rest) P /\ In r (default_pat p rest).
Proof.
  unfold compute_default_matrix. intros H.
  destruct (concat_rows default_row P) as [s'| | |] eqn:E; try discriminate H. cbn [bindo] in H.
  destruct (m_n s') as [mn| | |]; try discriminate H. cbn [bindo] in H.
  destruct (negb (Nat.eqb (fst mn) 0) && negb (Nat.eqb (snd mn) (qlen - 1))); [discriminate H|]. injection H as <-.
  intros r. rewrite (concat_rows_in _ _ _ E). split.
  - intros [row [x [Hin [Hf Hx]]]]. destruct row as [|p rest]; [discriminate Hf|]. cbn in Hf. injection Hf as <-. eauto.
  - intros [p [rest [Hin Hx]]]. exists (p :: rest), (default_pat p rest). auto.
Qed.

(* ---------- typing of specialised and default rows ---------- *)
Lemma spec_pat_typed c t ts_rest : root_ok t c ->
  forall p rest, pat_okb p t = true -> row_okb rest ts_rest = true ->
  forall r, In r (spec_pat c p rest) -> row_okb r (arg_tys c t ++ ts_rest) = true.
Proof.
  intros Hroot. induction p as [|b|lo hi|k p IH|ps IH|ps IH] using pat_ind'; intros rest Hp Hrest r Hr; cbn [spec_pat] in Hr.
  - destruct Hr as [<-|[]]. apply row_okb_app; [|exact Hrest]. rewrite <- (arg_tys_length t c Hroot). apply row_okb_wilds.
  - destruct (has_the_same_constructor c (PBool b)) eqn:E; [|destruct Hr]. destruct Hr as [<-|[]].
    destruct c; try discriminate E. destruct t; try contradiction. exact Hrest.
  - destruct (has_the_same_constructor c (PInt lo hi)) eqn:E; [|destruct Hr]. destruct Hr as [<-|[]].
    destruct c; try discriminate E. destruct t; try contradiction. exact Hrest.
  - destruct (has_the_same_constructor c (PEnum k p)) eqn:E; [|destruct Hr]. destruct Hr as [<-|[]].
    destruct c as [| | |k' p'| |]; try discriminate E. cbn in E. apply Nat.eqb_eq in E. subst k'.
    destruct t; try contradiction. cbn [pat_okb] in Hp. cbn [arg_tys sub_patterns].
    destruct (nth_error vs k) as [tk|]; [|discriminate Hp]. cbn [app row_okb]. now rewrite Hp.
  - destruct (has_the_same_constructor c (PTuple ps)) eqn:E; [|destruct Hr]. destruct Hr as [<-|[]].
    destruct c; try discriminate E. destruct t; try contradiction. rewrite pat_okb_tuple in Hp.
    cbn [arg_tys sub_patterns]. now apply row_okb_app.
  - apply in_flat_map in Hr. destruct Hr as [x [Hx Hr]]. rewrite pat_okb_or in Hp. apply andb_true_iff in Hp.
    destruct Hp as [_ Hp]. rewrite forallb_forall in Hp. rewrite Forall_forall in IH. eapply IH; eauto.
Qed.

Lemma default_pat_typed t ts_rest :
  forall p rest, pat_okb p t = true -> row_okb rest ts_rest = true ->
  forall r, In r (default_pat p rest) -> row_okb r ts_rest = true.
Proof.
  induction p as [|b|lo hi|k p IH|ps IH|ps IH] using pat_ind'; intros rest Hp Hrest r Hr; cbn [default_pat] in Hr; try (destruct Hr; fail).
  - destruct Hr as [<-|[]]. exact Hrest.
  - apply in_flat_map in Hr. destruct Hr as [x [Hx Hr]]. rewrite pat_okb_or in Hp. apply andb_true_iff in Hp.
    destruct Hp as [_ Hp]. rewrite forallb_forall in Hp. rewrite Forall_forall in IH. eapply IH; eauto.
Qed.

(* ---------- "Σ covers the type" is decidable by enumeration ---------- *)
Definition coversb (sigma : list pat) (t : ty) : bool :=
  forallb (fun v => existsb (fun c => matches c v) sigma) (enum_values t).

Lemma coversb_exact sigma t : coversb sigma t = true <-> covers sigma t.
Proof.
  unfold coversb, covers. rewrite forallb_forall. split.
  - intros H v Hv. specialize (H v (enum_complete _ _ Hv)). apply existsb_exists in H. exact H.
  - intros H v Hv. apply existsb_exists. apply H. now apply enum_sound.
Qed.

Lemma not_covers_witness sigma t : ~ covers sigma t ->
  exists v, has_tyb v t = true /\ forall c, In c sigma -> matches c v = false.
Proof.
  intros H. destruct (coversb sigma t) eqn:E; [exfalso; apply H; now apply coversb_exact|].
  unfold coversb in E. 
  assert (Hx : exists v, In v (enum_values t) /\ existsb (fun c => matches c v) sigma = false).
  { induction (enum_values t) as [|v l IH]; [discriminate E|]. cbn in E. apply andb_false_iff in E. destruct E as [E|E].
    - exists v. split; [now left|exact E].
    - destruct (IH E) as [v' [Hv' He]]. exists v'. split; [now right|exact He]. }
  destruct Hx as [v [Hv He]]. exists v. split; [now apply enum_sound|].
  intros c Hc. destruct (matches c v) eqn:Em; [|reflexivity].
  assert (existsb (fun c => matches c v) sigma = true) by (apply existsb_exists; eauto). congruence.
Qed.
