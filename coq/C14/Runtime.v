(* C14 — the condition built from matcher.rs requirement trees holds exactly when the scrutinee matches,
   so the desugared if-chain executes the first matching arm. *)
From SwayV Require Import Base.Util C14.Model C14.Spec C14.Basics C14.Typing C14.Source.
From Coq Require Import ZifyBool ZifyN.
Local Open Scope N_scope.

Lemma forallb_id_map {A} (f : A -> bool) l : forallb (fun b => b) (map f l) = forallb f l.
Proof. induction l as [|a l IH]; cbn; [reflexivity|]. now rewrite IH. Qed.
Lemma existsb_id_map {A} (f : A -> bool) l : existsb (fun b => b) (map f l) = existsb f l.
Proof. induction l as [|a l IH]; cbn; [reflexivity|]. now rewrite IH. Qed.

Definition sel (oc : option cexp) : list cexp := match oc with Some c => [c] | None => [] end.

Definition tuple_children (path : list step) : nat -> list scrut -> list rtree :=
  fix go (i : nat) (ss : list scrut) : list rtree :=
    match ss with [] => [] | s' :: ss' => matcher (path ++ [SField i]) s' :: go (S i) ss' end.
Definition struct_children (path : list step) : list (nat * option scrut) -> list rtree :=
  fix go (fs : list (nat * option scrut)) : list rtree :=
    match fs with
    | [] => []
    | (i, Some s') :: fs' => matcher (path ++ [SField i]) s' :: go fs'
    | (i, None) :: fs' => RDecl (path ++ [SField i]) :: go fs'
    end.
Lemma matcher_tuple path ss : matcher path (STuple ss) = RAnd (tuple_children path 0 ss).
Proof. reflexivity. Qed.
Lemma matcher_struct path nf fs : matcher path (SStruct nf fs) = RAnd (struct_children path fs).
Proof. reflexivity. Qed.
Lemma condition_and l : condition (RAnd l) = fold_cond CAnd (flat_map (fun r => sel (condition r)) l).
Proof. reflexivity. Qed.
Lemma condition_or l : condition (ROr l) =
  if existsb (fun r => match condition r with None => true | Some _ => false end) l then None
  else fold_cond COr (flat_map (fun r => sel (condition r)) l).
Proof. reflexivity. Qed.

Lemma access_app v0 : forall path st, access v0 (path ++ [st]) = match access v0 path with Some v => access v [st] | None => None end.
Proof.
  intros path. revert v0. induction path as [|s path IH]; intros v0 st; [cbn [app access]; destruct st; destruct v0; reflexivity|].
  cbn [app access]. destruct s; destruct v0; try reflexivity.
  - destruct (nth_error vs i); [apply IH|reflexivity].
  - destruct (Nat.eqb k k0); [apply IH|reflexivity].
Qed.

Section RT.
  Variable v0 : val.
  (* [None] = no requirement: the pattern must then match; otherwise the condition evaluates (no bad read) to b *)
  Definition cspec (oc : option cexp) (b : bool) : Prop :=
    match oc with None => b = true | Some c => eval_cexp v0 c = Some b end.

  Lemma and_cons c cs b B : eval_cexp v0 c = Some b -> cspec (fold_cond CAnd cs) B -> cspec (fold_cond CAnd (c :: cs)) (b && B).
  Proof.
    intros Hc HB. cbn [fold_cond]. destruct (fold_cond CAnd cs) as [r|]; cbn [cspec eval_cexp] in *.
    - rewrite Hc. destruct b; [exact HB|reflexivity].
    - subst B. now rewrite andb_true_r.
  Qed.
  Lemma and_cons_false c cs : eval_cexp v0 c = Some false -> cspec (fold_cond CAnd (c :: cs)) false.
  Proof. intros Hc. cbn [fold_cond]. destruct (fold_cond CAnd cs); cbn [cspec eval_cexp]; now rewrite Hc. Qed.

  Lemma and_child oc cs b B : cspec oc b -> cspec (fold_cond CAnd cs) B -> cspec (fold_cond CAnd (sel oc ++ cs)) (b && B).
  Proof. destruct oc as [c|]; cbn [sel app cspec]; [apply and_cons|]. intros -> H. exact H. Qed.

  Lemma and_list : forall l bs, Forall2 (fun r b => cspec (condition r) b) l bs ->
    cspec (fold_cond CAnd (flat_map (fun r => sel (condition r)) l)) (forallb (fun b => b) bs).
  Proof. induction 1 as [|r b l bs Hr _ IH]; [reflexivity|]. cbn [flat_map forallb]. now apply and_child. Qed.

  Lemma or_fold : forall cs bs, Forall2 (fun c b => eval_cexp v0 c = Some b) cs bs ->
    match fold_cond COr cs with None => cs = [] | Some c => eval_cexp v0 c = Some (existsb (fun b => b) bs) end.
  Proof.
    induction 1 as [|c b cs bs Hc Hcs IH]; [reflexivity|]. cbn [fold_cond existsb]. destruct (fold_cond COr cs) as [r|]; cbn [eval_cexp].
    - rewrite Hc. destruct b; [reflexivity|exact IH].
    - subst cs. inversion Hcs; subst. cbn. now rewrite orb_false_r.
  Qed.

  Lemma or_list : forall l bs, l <> [] -> Forall2 (fun r b => cspec (condition r) b) l bs ->
    cspec (condition (ROr l)) (existsb (fun b => b) bs).
  Proof.
    intros l bs Hne H. rewrite condition_or.
    destruct (existsb (fun r => match condition r with None => true | Some _ => false end) l) eqn:E.
    - cbn [cspec]. clear Hne. induction H as [|r b l bs Hr _ IH]; [discriminate E|]. cbn [existsb] in *. cbv beta in E.
      revert Hr E. destruct (condition r); intros Hr E; cbn [cspec] in Hr.
      + cbn [orb] in E. rewrite (IH E). apply orb_true_r.
      + now subst b.
    - assert (Hx : exists cs, flat_map (fun r => sel (condition r)) l = cs /\ Forall2 (fun c b => eval_cexp v0 c = Some b) cs bs /\ (l <> [] -> cs <> [])).
      { clear Hne. induction H as [|r b l bs Hr _ IH].
        - exists []. repeat split; auto.
        - cbn [existsb] in E. apply orb_false_iff in E. destruct E as [E1 E2]. cbv beta in E1. destruct (IH E2) as [cs [Ec [Hf _]]].
          cbn [flat_map]. rewrite Ec. revert Hr E1. destruct (condition r) as [c|]; intros Hr E1; [|discriminate E1]. cbn [cspec] in Hr. exists (c :: cs). cbn [sel app].
          repeat split; auto. discriminate. }
      destruct Hx as [cs [-> [Hf Hn]]]. assert (Hof := or_fold cs bs Hf). destruct (fold_cond COr cs); cbn [cspec]; [exact Hof|].
      exfalso. now apply (Hn Hne).
  Qed.

  Lemma matcher_spec : forall s t path v, scrut_okb s t = true -> has_tyb v t = true -> access v0 path = Some v ->
    cspec (condition (matcher path s)) (smatches s v).
  Proof.
    induction s as [| |b|n|k s IH|ss IH|nf fs IH|ss IH] using scrut_ind'; intros t path v H Hv Ha.
    - reflexivity.
    - reflexivity.
    - destruct t; try discriminate H. destruct v; try discriminate Hv. cbn [matcher condition cspec eval_cexp smatches]. now rewrite Ha.
    - destruct t; try discriminate H. destruct v; try discriminate Hv. cbn [matcher condition cspec eval_cexp smatches]. now rewrite Ha.
    - destruct t; try discriminate H. destruct v as [| |k' v'|]; try discriminate Hv. cbn [scrut_okb has_tyb] in H, Hv.
      cbn [matcher]. rewrite condition_and. cbn [flat_map condition sel app smatches].
      assert (Htag : eval_cexp v0 (CTag path k) = Some (Nat.eqb k k')) by (cbn [eval_cexp]; now rewrite Ha).
      destruct (Nat.eqb_spec k k') as [<-|Hne].
      + destruct (nth_error vs k) as [tk|]; [|discriminate H].
        assert (Ha' : access v0 (path ++ [SDowncast k]) = Some v') by (rewrite access_app, Ha; cbn; now rewrite Nat.eqb_refl).
        specialize (IH tk _ v' H Hv Ha'). rewrite app_nil_r.
        change (CTag path k :: sel (condition (matcher (path ++ [SDowncast k]) s))) with ([CTag path k] ++ sel (condition (matcher (path ++ [SDowncast k]) s))).
        cbn [app]. apply and_cons; [exact Htag|].
        destruct (condition (matcher (path ++ [SDowncast k]) s)); cbn [sel fold_cond cspec] in *; exact IH.
      + cbn [andb]. apply and_cons_false. exact Htag.
    - destruct t; try discriminate H. destruct v as [| | |vs]; try discriminate Hv. rewrite scrut_okb_tuple in H. rewrite has_tyb_tuple in Hv.
      rewrite matcher_tuple, condition_and, smatches_tuple'.
      assert (Hgen : forall ss' i vs' ts', Forall (fun s => forall t path v, scrut_okb s t = true -> has_tyb v t = true -> access v0 path = Some v -> cspec (condition (matcher path s)) (smatches s v)) ss' ->
                 (forall j v', nth_error vs' j = Some v' -> nth_error vs (i + j) = Some v') ->
                 scruts_okb ss' ts' = true -> vals_tyb vs' ts' = true ->
                 cspec (fold_cond CAnd (flat_map (fun r => sel (condition r)) (tuple_children path i ss'))) (svmatches ss' vs')).
      { induction ss' as [|s ss' IHs]; intros i vs' ts' HF Hidx Hs Hvs'; destruct ts' as [|t' ts']; destruct vs' as [|v' vs']; try discriminate Hs; try discriminate Hvs'.
        - reflexivity.
        - cbn [scruts_okb vals_tyb] in Hs, Hvs'. apply andb_true_iff in Hs, Hvs'. destruct Hs as [S1 S2]. destruct Hvs' as [V1 V2].
          cbn [tuple_children flat_map svmatches]. inversion HF as [|? ? F1 F2]; subst. apply and_child.
          + apply (F1 t'); auto. rewrite access_app, Ha. cbn [access]. specialize (Hidx O v' eq_refl). rewrite Nat.add_0_r in Hidx. now rewrite Hidx.
          + apply (IHs (S i) vs' ts'); auto. intros j v'' Hj. replace (S i + j)%nat with (i + S j)%nat by lia. now apply Hidx. }
      apply (Hgen ss O vs ts IH); auto.
    - destruct t; try discriminate H. destruct v as [| | |vs]; try discriminate Hv. rewrite scrut_okb_struct in H. rewrite has_tyb_tuple in Hv.
      apply andb_true_iff in H. destruct H as [H H3]. apply andb_true_iff in H. destruct H as [H1 H2]. apply Nat.eqb_eq in H1. subst nf.
      rewrite matcher_struct, condition_and, smatches_struct. assert (Hl := vals_tyb_length _ _ Hv). rewrite Hl, Nat.eqb_refl. cbn [andb].
      replace (forallb (field_smatch vs) fs) with (forallb (fun b => b) (map (field_smatch vs) fs)) by apply forallb_id_map.
      apply and_list. rewrite forallb_forall in H3. clear H2.
      induction IH as [|[i o] fs Hf Hfs IHfs]; [constructor|].
      assert (Hfo := H3 (i, o) (or_introl eq_refl)). unfold field_okb in Hfo. cbn [fst snd] in Hfo.
      destruct (nth_error ts i) as [ti|] eqn:Eti; [|discriminate Hfo].
      assert (Hlt : (i < length vs)%nat) by (rewrite Hl; apply nth_error_Some; congruence).
      destruct (nth_error vs i) as [v'|] eqn:Ev; [|apply nth_error_None in Ev; lia].
      assert (Ha' : access v0 (path ++ [SField i]) = Some v') by (rewrite access_app, Ha; cbn; now rewrite Ev).
      cbn [struct_children map]. destruct o as [s'|]; constructor.
      + unfold field_smatch. cbn [fst snd]. rewrite Ev. apply (Hf ti); auto. eapply vals_tyb_nth; eauto.
      + apply IHfs. intros x Hx. apply H3. now right.
      + unfold field_smatch. cbn [fst snd condition cspec]. now rewrite Ev.
      + apply IHfs. intros x Hx. apply H3. now right.
    - rewrite scrut_okb_or in H. apply andb_true_iff in H. destruct H as [Hne H2]. rewrite smatches_or.
      cbn [matcher]. replace (existsb (fun s => smatches s v) ss) with (existsb (fun b => b) (map (fun s => smatches s v) ss)) by apply existsb_id_map.
      apply or_list; [destruct ss; [discriminate Hne|discriminate]|].
      rewrite forallb_forall in H2. clear Hne. induction IH as [|s ss Hs Hss IHss]; [constructor|]. cbn [map]. constructor.
      + apply (Hs t); auto. apply H2. now left.
      + apply IHss. intros x Hx. apply H2. now right.
  Qed.
End RT.

Theorem runtime_first_match : forall t arms v,
  (forall s, In s arms -> scrut_okb s t = true) -> has_tyb v t = true ->
  run_match arms v = Some (first_match arms v).
Proof.
  intros t arms v Hok Hv. induction arms as [|s arms IH]; [reflexivity|]. cbn [run_match first_match].
  assert (Hs := matcher_spec v s t [] v (Hok s (or_introl eq_refl)) Hv eq_refl).
  assert (IH' := IH (fun x Hx => Hok x (or_intror Hx))).
  destruct (condition (matcher [] s)) as [c|]; cbn [cspec] in Hs.
  - rewrite Hs. destruct (smatches s v); [reflexivity|]. now rewrite IH'.
  - now rewrite Hs.
Qed.
