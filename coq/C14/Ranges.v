(* C14 — interval arithmetic of range.rs on singleton inputs: condense_ranges, do_ranges_equal_range,
   find_exclusionary_ranges are exact for every bound mx (u8/u16/u32/u64), including the end points. *)
From SwayV Require Import Base.Util C14.Model.
From Coq Require Import ZifyBool ZifyN.
Local Open Scope N_scope.

Definition inr (r : range) (n : N) : Prop := fst r <= n /\ n <= snd r.
Definition cov (l : list range) (n : N) : Prop := exists r, In r l /\ inr r n.
Definition sing (r : range) : Prop := fst r = snd r.

Fixpoint sep (l : list range) : Prop :=
  match l with
  | [] => True
  | a :: l' => fst a <= snd a /\ match l' with [] => True | b :: _ => snd a + 1 < fst b end /\ sep l'
  end.
Fixpoint desc (l : list range) : Prop :=
  match l with [] => True | a :: l' => (forall r, In r l' -> fst r <= fst a) /\ desc l' end.

Lemma cov_cons a l n : cov (a :: l) n <-> inr a n \/ cov l n.
Proof.
  unfold cov. split.
  - intros [r [[<-|Hr] Hn]]; eauto.
  - intros [H|[r [Hr Hn]]]; [exists a|exists r]; cbn; auto.
Qed.
Lemma cov_nil n : cov [] n <-> False.
Proof. unfold cov. split; [intros [r [[] _]]|tauto]. Qed.

Lemma insert_desc_in r l x : In x (insert_desc r l) <-> x = r \/ In x l.
Proof.
  induction l as [|a l IH]; cbn [insert_desc].
  - cbn. intuition.
  - destruct (fst a <=? fst r); cbn [In]; [intuition|]. rewrite IH. intuition.
Qed.
Lemma insert_desc_desc r l : desc l -> desc (insert_desc r l).
Proof.
  induction l as [|a l IH]; intros H; cbn [insert_desc].
  - cbn. split; [intros ? []|exact I].
  - destruct (fst a <=? fst r) eqn:E.
    + cbn [desc] in *. split; [|exact H]. intros x [<-|Hx]; [lia|]. destruct H as [H _]. specialize (H x Hx). lia.
    + cbn [desc] in *. destruct H as [H1 H2]. split; [|auto]. intros x Hx. apply insert_desc_in in Hx. destruct Hx as [->|Hx]; [lia|auto].
Qed.
Lemma sort_desc_in l x : In x (sort_desc l) <-> In x l.
Proof. induction l as [|a l IH]; cbn; [tauto|]. rewrite insert_desc_in, IH. intuition. Qed.
Lemma sort_desc_desc l : desc (sort_desc l).
Proof. induction l as [|a l IH]; cbn; [exact I|]. now apply insert_desc_desc. Qed.

Lemma sing_touch d f l :
  d <= f -> f <= l ->
  (overlaps (d, d) (f, l) || within_one (d, d) (f, l)) = true <-> d = f \/ d + 1 = f.
Proof.
  intros H1 H2. unfold overlaps, within_one. cbn [fst snd].
  repeat match goal with
         | |- context [?a <=? ?b] => destruct (N.leb_spec a b)
         | |- context [?a <? ?b] => destruct (N.ltb_spec a b)
         | |- context [?a =? ?b] => destruct (N.eqb_spec a b)
         end; cbn; split; intros; try discriminate; try lia.
Qed.

Lemma sing_join d f l :
  d <= f -> f <= l -> (d = f \/ d + 1 = f) -> join_ranges (d, d) (f, l) = Ok (d, l).
Proof.
  intros H1 H2 H3. unfold join_ranges.
  assert (E : (overlaps (d, d) (f, l) || within_one (d, d) (f, l)) = true) by (apply sing_touch; auto).
  replace (negb (overlaps (d, d) (f, l)) && negb (within_one (d, d) (f, l))) with false
    by (destruct (overlaps (d, d) (f, l)); destruct (within_one (d, d) (f, l)); try reflexivity; discriminate E).
  cbn [fst snd]. unfold from_double.
  destruct (N.ltb_spec d f); destruct (N.ltb_spec l d); try lia.
  - destruct (N.ltb_spec l d); [lia|reflexivity].
  - destruct (N.ltb_spec l f); [lia|]. f_equal. f_equal. lia.
Qed.

Lemma sep_below_lt : forall below top b, sep (top :: below) -> In b below -> snd top < fst b.
Proof.
  induction below as [|c below IHb]; intros top b Hsep []; subst.
  - cbn in Hsep. lia.
  - cbn [sep] in Hsep. destruct Hsep as [H1 [H2 [H3 [H4 H5]]]].
    assert (snd c < fst b) by (apply (IHb c); cbn [sep]; auto). lia.
Qed.

Lemma condense_loop_ok : forall rest top below,
  sep (top :: below) -> desc rest -> Forall sing rest -> (forall r, In r rest -> fst r <= fst top) ->
  exists st, condense_loop (top :: below) rest = Ok st /\ sep st /\ st <> [] /\
             (forall n, cov st n <-> cov (top :: below) n \/ cov rest n).
Proof.
  induction rest as [|r rest IH]; intros top below Hsep Hdesc Hsing Hle.
  - exists (top :: below). cbn [condense_loop]. split; [reflexivity|]. split; [exact Hsep|]. split; [discriminate|].
    intros n. split; [tauto|]. intros [H|H]; [exact H|]. apply cov_nil in H. tauto.
  - destruct r as [d d']. inversion Hsing as [|? ? Hs Hsing']; subst. unfold sing in Hs. cbn [fst snd] in Hs. subst d'.
    destruct top as [f l]. cbn [desc] in Hdesc. destruct Hdesc as [Hd1 Hd2].
    assert (Hdf : d <= f) by (apply (Hle (d, d)); now left).
    assert (Hfl : f <= l) by (cbn [sep fst snd] in Hsep; lia).
    cbn [condense_loop].
    destruct (overlaps (d, d) (f, l) || within_one (d, d) (f, l)) eqn:E.
    + apply sing_touch in E; auto. rewrite (sing_join d f l) by auto.
      destruct (IH (d, l) below) as [st [Hst [Hsep' [Hne Hcov]]]]; auto.
      * cbn [sep fst snd] in *. split; [lia|]. split; [|tauto]. destruct below; [exact I|tauto].
      * exists st. split; [exact Hst|]. split; [exact Hsep'|]. split; [exact Hne|].
        intros n. rewrite Hcov. rewrite !cov_cons. unfold inr. cbn [fst snd]. intuition lia.
    + assert (Hgap : d + 1 < f).
      { destruct (N.eq_dec d f) as [->|Hn1].
        - rewrite (proj2 (sing_touch f f l (N.le_refl _) Hfl)) in E by auto. discriminate.
        - destruct (N.eq_dec (d + 1) f) as [He|Hn2]; [|lia].
          rewrite (proj2 (sing_touch d f l Hdf Hfl)) in E by auto. discriminate. }
      destruct (IH (d, d) ((f, l) :: below)) as [st [Hst [Hsep' [Hne Hcov]]]]; auto.
      * cbn [sep fst snd] in *. split; [lia|]. split; [lia|]. exact Hsep.
      * exists st. split; [exact Hst|]. split; [exact Hsep'|]. split; [exact Hne|].
        intros n. rewrite Hcov. rewrite !cov_cons. tauto.
Qed.

Lemma condense_ok rs :
  rs <> [] -> Forall sing rs ->
  exists st, condense_ranges rs = Ok st /\ sep st /\ st <> [] /\ forall n, cov st n <-> cov rs n.
Proof.
  intros Hne Hs. unfold condense_ranges.
  assert (Hin := sort_desc_in rs). assert (Hd := sort_desc_desc rs).
  destruct (sort_desc rs) as [|f rest] eqn:E.
  - destruct rs as [|a rs]; [congruence|]. exfalso. apply (Hin a). now left.
  - assert (Hs' : Forall sing (f :: rest)) by (rewrite Forall_forall in *; intros x Hx; apply Hs, Hin, Hx).
    inversion Hs' as [|? ? Hsf Hsr]; subst. cbn [desc] in Hd. destruct Hd as [Hd1 Hd2].
    destruct (condense_loop_ok rest f []) as [st [Hst [Hsep [Hn Hcov]]]]; auto.
    + cbn. unfold sing in Hsf. lia.
    + exists st. split; [exact Hst|]. split; [exact Hsep|]. split; [exact Hn|]. intros n. rewrite Hcov. split.
      * intros [[r [[<-|[]] Hi]]|[r [Hr Hi]]].
        -- exists f. split; [apply Hin; now left|exact Hi].
        -- exists r. split; [apply Hin; now right|exact Hi].
      * intros [r [Hr Hi]]. apply Hin in Hr. destruct Hr as [<-|Hr].
        -- left. exists f. split; [now left|exact Hi].
        -- right. exists r. auto.
Qed.

(* ---- separated lists: gaps and complements ---- *)
Lemma sep_first_min a l n : sep (a :: l) -> cov (a :: l) n -> fst a <= n.
Proof.
  revert a. induction l as [|b l IH]; intros a Hs [r [[<-|Hr] Hi]]; unfold inr in *; try lia; [destruct Hr|].
  cbn [sep] in Hs. destruct Hs as [H1 [H2 H3]]. assert (fst b <= n) by (apply IH; [exact H3|exists r; auto]). lia.
Qed.

Definition bounded (mx : N) (l : list range) : Prop := forall r, In r l -> snd r <= mx.

Theorem ranges_cover_exact rs mx :
  rs <> [] -> Forall sing rs -> bounded mx rs ->
  exists b, do_ranges_equal_range rs mx = Ok b /\ (b = true <-> forall n, n <= mx -> cov rs n).
Proof.
  intros Hne Hs Hb. destruct (condense_ok rs Hne Hs) as [st [Hst [Hsep [Hn Hcov]]]].
  unfold do_ranges_equal_range. rewrite Hst. cbn [bindo].
  assert (Hbst : forall n, cov st n -> n <= mx).
  { intros n Hc. apply Hcov in Hc. destruct Hc as [r [Hr Hi]]. specialize (Hb r Hr). unfold inr in Hi. lia. }
  destruct st as [|a [|b st]]; [congruence| |].
  - eexists. split; [reflexivity|]. split.
    + intros H n Hle. apply Hcov. exists a. split; [now left|]. unfold inr. lia.
    + intros H. cbn [sep] in Hsep.
      assert (H0 : cov [a] 0) by (apply Hcov, H; lia). assert (Hm : cov [a] mx) by (apply Hcov, H; lia).
      destruct H0 as [r [[<-|[]] Hi0]]. destruct Hm as [r [[<-|[]] Him]]. unfold inr in *.
      assert (snd a <= mx) by (apply Hbst; exists a; split; [now left|unfold inr; lia]). lia.
  - eexists. split; [reflexivity|]. split; [discriminate|]. intros H. exfalso.
    cbn [sep] in Hsep. destruct Hsep as [H1 [H2 [H3 [H4 H5]]]].
    assert (Hbm : fst b <= mx) by (apply Hbst; exists b; split; [right; now left|unfold inr; lia]).
    assert (Hc : cov (a :: b :: st) (snd a + 1)) by (apply Hcov, H; lia).
    apply cov_cons in Hc. destruct Hc as [Hc|Hc]; [unfold inr in Hc; lia|].
    apply sep_first_min in Hc; [lia|]. cbn [sep]. auto.
Qed.

Lemma windows_cons2 mx a b l :
  windows mx (a :: b :: l) =
  (do f <- incr mx (snd a); do t <- decr (fst b); do r <- from_double f t; do rest <- windows mx (b :: l); Ok (r :: rest)).
Proof. reflexivity. Qed.

Lemma sep_last_ge : forall l b, sep (b :: l) -> snd b <= snd (last (b :: l) (0, 0)).
Proof.
  induction l as [|c l IHl]; intros b Hs; [cbn; lia|].
  cbn [sep] in Hs. destruct Hs as [H1 [H2 H3]]. specialize (IHl c H3).
  change (last (b :: c :: l) (0,0)) with (last (c :: l) (0,0)). cbn [sep] in H3. lia.
Qed.

Lemma windows_ok mx : forall l a, sep (a :: l) -> bounded mx (a :: l) ->
  exists w, windows mx (a :: l) = Ok w /\
            forall n, cov w n <-> (fst a <= n /\ n <= snd (last (a :: l) (0,0))) /\ ~ cov (a :: l) n.
Proof.
  induction l as [|b l IH]; intros a Hsep Hb.
  - exists []. split; [reflexivity|]. intros n. rewrite cov_nil. split; [tauto|]. cbn [last]. intros [[H1 H2] H3].
    apply H3. exists a. split; [now left|]. unfold inr. lia.
  - assert (Hsep0 := Hsep). cbn [sep] in Hsep. destruct Hsep as [H1 [H2 Hsep']].
    destruct (IH b) as [w [Hw Hcw]]; [exact Hsep'|intros r Hr; apply Hb; now right|].
    rewrite windows_cons2. unfold incr, decr, from_double.
    assert (Ha : snd a <= mx) by (apply Hb; now left).
    assert (Hbm : snd b <= mx) by (apply Hb; right; now left).
    assert (Hb1 : fst b <= snd b) by (cbn [sep] in Hsep'; tauto).
    assert (Hlast := sep_last_ge l b Hsep').
    destruct (N.leb_spec mx (snd a)); [lia|]. destruct (N.eqb_spec (fst b) 0) as [He0|He0]; [lia|]. cbn [bindo].
    destruct (N.ltb_spec (fst b - 1) (snd a + 1)); [lia|]. cbn [bindo]. rewrite Hw. cbn [bindo].
    eexists. split; [reflexivity|]. intros n. rewrite cov_cons. rewrite Hcw.
    change (last (a :: b :: l) (0, 0)) with (last (b :: l) (0, 0)).
    rewrite (cov_cons a (b :: l)). unfold inr. cbn [fst snd]. split.
    + intros [Hg|[[Hlo Hhi] Hnc]].
      * split; [lia|]. intros [H'|H']; [lia|]. apply sep_first_min in H'; [lia|exact Hsep'].
      * split; [lia|]. intros [H'|H']; [lia|tauto].
    + intros [[Hlo Hhi] Hnc]. destruct (N.lt_ge_cases n (fst b)) as [Hlt|Hge].
      * left. assert (~ (fst a <= n /\ n <= snd a)) by tauto. lia.
      * right. split; [lia|tauto].
Qed.

Lemma cov_app a b n : cov (a ++ b) n <-> cov a n \/ cov b n.
Proof.
  unfold cov. split.
  - intros [r [Hr Hi]]. apply in_app_or in Hr. destruct Hr; [left|right]; eauto.
  - intros [[r [Hr Hi]]|[r [Hr Hi]]]; exists r; split; auto; apply in_or_app; auto.
Qed.

Lemma last_indep {A} (l : list A) a d d' : last (a :: l) d = last (a :: l) d'.
Proof. revert a. induction l as [|b l IH]; intros a; [reflexivity|]. change (last (b :: l) d = last (b :: l) d'). apply IH. Qed.

Lemma last_in {A} (l : list A) a d : In (last (a :: l) d) (a :: l).
Proof. revert a. induction l as [|b l IH]; intros a; [now left|]. right. change (In (last (b :: l) d) (b :: l)). apply IH. Qed.

Lemma sep_last_max : forall l a n, sep (a :: l) -> cov (a :: l) n -> n <= snd (last (a :: l) (0,0)).
Proof.
  induction l as [|b l IH]; intros a n Hs Hc.
  - destruct Hc as [r [[<-|[]] Hi]]. unfold inr in Hi. cbn. lia.
  - apply cov_cons in Hc. change (last (a :: b :: l) (0,0)) with (last (b :: l) (0,0)).
    assert (Hs' : sep (b :: l)) by (destruct Hs as [_ [_ H]]; exact H).
    destruct Hc as [Hc|Hc]; [|now apply IH].
    assert (H1 := sep_last_ge l b Hs'). cbn [sep] in Hs. unfold inr in Hc. cbn [sep] in Hs'. lia.
Qed.

Theorem exclusionary_exact rs mx :
  rs <> [] -> Forall sing rs -> bounded mx rs ->
  exists ex, find_exclusionary_ranges rs mx = Ok ex /\
             (forall n, cov ex n <-> n <= mx /\ ~ cov rs n) /\ (forall r, In r ex -> fst r <= snd r).
Proof.
  intros Hne Hs Hb. destruct (condense_ok rs Hne Hs) as [st [Hst [Hsep [Hn Hcov]]]].
  unfold find_exclusionary_ranges. rewrite Hst. cbn [bindo].
  assert (Hbst : forall n, cov st n -> n <= mx).
  { intros n Hc. apply Hcov in Hc. destruct Hc as [r [Hr Hi]]. specialize (Hb r Hr). unfold inr in Hi. lia. }
  assert (Hvalid : forall r, In r st -> fst r <= snd r).
  { clear -Hsep. induction st as [|a st IH]; intros r Hr; [destruct Hr|]. cbn [sep] in Hsep. destruct Hsep as [H1 [H2 H3]].
    destruct Hr as [<-|Hr]; [exact H1|apply IH; assumption]. }
  assert (Hbd : bounded mx st).
  { intros r Hr. apply Hbst. exists r. split; [exact Hr|]. specialize (Hvalid r Hr). unfold inr. lia. }
  assert (Henc : forallb (encompasses (0, mx)) st = true).
  { apply forallb_forall. intros r Hr. unfold encompasses. cbn [fst snd]. specialize (Hbd r Hr). lia. }
  rewrite Henc. cbn [negb]. destruct st as [|a l]; [congruence|].
  rewrite (last_indep l a a (0,0)).
  destruct (windows_ok mx l a Hsep Hbd) as [w [Hw Hcw]]. rewrite Hw.
  set (la := last (a :: l) (0,0)) in *.
  assert (Hla : snd la <= mx) by (apply Hbd; subst la; apply last_in).
  assert (Hpre : exists pre, (if negb (0 =? fst a) then do t <- decr (fst a); do r <- from_double 0 t; Ok [r] else Ok []) = Ok pre
                             /\ (forall n, cov pre n <-> n < fst a) /\ forall r, In r pre -> fst r <= snd r).
  { unfold decr, from_double. destruct (N.eqb_spec 0 (fst a)) as [E|E]; cbn [negb].
    - exists []. split; [reflexivity|]. split; [|intros r []]. intros n. rewrite cov_nil. lia.
    - destruct (N.eqb_spec (fst a) 0) as [E0|E0]; [lia|]. cbn [bindo]. destruct (N.ltb_spec (fst a - 1) 0) as [E1|E1]; [lia|]. cbn [bindo].
      eexists. split; [reflexivity|]. split.
      + intros n. rewrite cov_cons, cov_nil. unfold inr. cbn [fst snd]. lia.
      + intros r [<-|[]]. cbn [fst snd]. lia. }
  assert (Hpost : exists post, (if negb (mx =? snd la) then do f <- incr mx (snd la); do r <- from_double f mx; Ok [r] else Ok []) = Ok post
                               /\ (forall n, cov post n <-> snd la < n /\ n <= mx) /\ forall r, In r post -> fst r <= snd r).
  { unfold incr, from_double. destruct (N.eqb_spec mx (snd la)) as [E|E]; cbn [negb].
    - exists []. split; [reflexivity|]. split; [|intros r []]. intros n. rewrite cov_nil. lia.
    - destruct (N.leb_spec mx (snd la)) as [E0|E0]; [lia|]. cbn [bindo]. destruct (N.ltb_spec mx (snd la + 1)) as [E1|E1]; [lia|]. cbn [bindo].
      eexists. split; [reflexivity|]. split.
      + intros n. rewrite cov_cons, cov_nil. unfold inr. cbn [fst snd]. lia.
      + intros r [<-|[]]. cbn [fst snd]. lia. }
  destruct Hpre as [pre [Epre [Hcpre Hvpre]]]. destruct Hpost as [post [Epost [Hcpost Hvpost]]].
  rewrite Epre. cbn [bindo]. rewrite Epost. cbn [bindo].
  eexists. split; [reflexivity|]. split.
  - intros n. rewrite !cov_app, Hcpre, Hcw, Hcpost. fold la.
    assert (Hmin := sep_first_min a l n Hsep). assert (Hmax := sep_last_max l a n Hsep). fold la in Hmax.
    assert (Hiff : cov rs n <-> cov (a :: l) n) by (symmetry; apply Hcov).
    rewrite Hiff. split.
    + intros [H|[[[H1 H2] H3]|[H1 H2]]].
      * split; [|intros Hc; specialize (Hmin Hc); lia]. assert (fst a <= mx); [|lia].
        specialize (Hbd a (or_introl eq_refl)). specialize (Hvalid a (or_introl eq_refl)). lia.
      * split; [lia|exact H3].
      * split; [lia|]. intros Hc. specialize (Hmax Hc). lia.
    + intros [H1 H2]. destruct (N.lt_ge_cases n (fst a)); [now left|right].
      destruct (N.lt_ge_cases (snd la) n); [right; lia|left; split; [lia|exact H2]].
  - intros r Hr. apply in_app_or in Hr. destruct Hr as [Hr|Hr]; [now apply Hvpre|].
    apply in_app_or in Hr. destruct Hr as [Hr|Hr]; [|now apply Hvpost].
    clear -Hw Hr Hsep Hbd. revert a w Hsep Hbd Hw Hr. induction l as [|b l IH]; intros a w Hsep Hbd Hw Hr.
    + cbn in Hw. injection Hw as <-. destruct Hr.
    + rewrite windows_cons2 in Hw. unfold incr, decr, from_double in Hw.
      destruct (mx <=? snd a); [discriminate|]. destruct (fst b =? 0); [discriminate|]. cbn [bindo] in Hw.
      destruct (N.ltb_spec (fst b - 1) (snd a + 1)); [discriminate|]. cbn [bindo] in Hw.
      destruct (windows mx (b :: l)) as [w'| | |] eqn:Ew; try discriminate. cbn [bindo] in Hw. injection Hw as <-.
      destruct Hr as [<-|Hr]; [cbn [fst snd]; lia|]. apply (IH b w'); auto.
      * destruct Hsep as [_ [_ H']]. exact H'.
      * intros x Hx. apply Hbd. now right.
Qed.
