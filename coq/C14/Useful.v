(* C14 — lemmas about the model of algorithm U: singleton invariant, exactness of the specialised and
   default matrices, exactness of complete-signature detection. *)
From SwayV Require Import Base.Util C14.Model C14.Spec C14.Basics C14.Ranges.
From Coq Require Import ZifyBool ZifyN.
Local Open Scope N_scope.

(* ---------- integer patterns that reach the analysis are singletons ---------- *)
Fixpoint singb (p : pat) : bool :=
  match p with
  | PInt lo hi => lo =? hi
  | PEnum _ p' => singb p'
  | PTuple ps => forallb singb ps
  | POr ps => forallb singb ps
  | _ => true
  end.

Lemma from_scrutinee_singletons : forall s, singb (from_scrutinee s) = true.
Proof.
  induction s as [| |b|n|k s IH|ss IH|nf fs IH|ss IH] using scrut_ind'; cbn [from_scrutinee singb]; auto.
  - apply N.eqb_refl.
  - apply forallb_forall. intros p Hp. apply in_map_iff in Hp. destruct Hp as [s [<- Hs]].
    rewrite Forall_forall in IH. now apply IH.
  - apply forallb_forall. intros p Hp. apply in_map_iff in Hp. destruct Hp as [i [<- _]].
    induction IH as [|[j o] fs Hf Hfs IHf]; [reflexivity|].
    destruct (Nat.eqb j i); [|exact IHf]. destruct o; [exact Hf|reflexivity].
  - apply forallb_forall. intros p Hp. apply in_map_iff in Hp. destruct Hp as [s [<- Hs]].
    rewrite Forall_forall in IH. now apply IH.
Qed.

Lemma singb_wilds n : forallb singb (wilds n) = true.
Proof. induction n; cbn; auto. Qed.

(* specialisation and default keep the invariant *)
Lemma spec_pat_sing c : forall p rest, singb p = true -> forallb singb rest = true ->
  forallb (forallb singb) (spec_pat c p rest) = true.
Proof.
  induction p as [|b|lo hi|k p IH|ps IH|ps IH] using pat_ind'; intros rest Hp Hr; cbn [spec_pat].
  - cbn. rewrite forallb_app, singb_wilds, Hr. reflexivity.
  - destruct (has_the_same_constructor c (PBool b)); cbn; [rewrite Hr|]; reflexivity.
  - destruct (has_the_same_constructor c (PInt lo hi)); cbn; [rewrite Hr|]; reflexivity.
  - destruct (has_the_same_constructor c (PEnum k p)); cbn; [|reflexivity]. cbn in Hp. rewrite Hp, Hr. reflexivity.
  - destruct (has_the_same_constructor c (PTuple ps)); cbn; [|reflexivity]. cbn in Hp. rewrite forallb_app, Hp, Hr. reflexivity.
  - cbn [singb] in Hp. apply forallb_forall. intros row Hrow. apply in_flat_map in Hrow. destruct Hrow as [r [Hr1 Hr2]].
    rewrite Forall_forall in IH. rewrite forallb_forall in Hp. specialize (IH r Hr1 rest (Hp r Hr1) Hr).
    rewrite forallb_forall in IH. now apply IH.
Qed.

Lemma default_pat_sing : forall p rest, forallb singb rest = true -> forallb (forallb singb) (default_pat p rest) = true.
Proof.
  induction p as [|b|lo hi|k p IH|ps IH|ps IH] using pat_ind'; intros rest Hr; cbn [default_pat]; try reflexivity.
  - cbn. now rewrite Hr.
  - apply forallb_forall. intros row Hrow. apply in_flat_map in Hrow. destruct Hrow as [r [Hr1 Hr2]].
    rewrite Forall_forall in IH. specialize (IH r Hr1 rest Hr). rewrite forallb_forall in IH. now apply IH.
Qed.

(* every range that Σ hands to range.rs is a singleton *)
Definition root_sing (c : pat) : Prop := match c with PInt lo hi => lo = hi | _ => True end.
Lemma roots_sing : forall p, singb p = true -> Forall root_sing (roots p).
Proof.
  induction p as [|b|lo hi|k p IH|ps IH|ps IH] using pat_ind'; intros Hp; cbn [roots into_root_constructor]; repeat constructor.
  - cbn in Hp. cbn. lia.
  - cbn [singb] in Hp. rewrite forallb_forall in Hp. rewrite Forall_forall in *. intros c Hc.
    apply in_flat_map in Hc. destruct Hc as [r [Hr1 Hr2]]. specialize (IH r Hr1 (Hp r Hr1)). rewrite Forall_forall in IH. exact (IH c Hr2).
Qed.

(* ---------- exactness of S(c, .) and D(.) ---------- *)
Definition is_root (c : pat) : Prop :=
  match c with
  | PBool _ => True | PInt lo hi => lo = hi | PEnum _ PWild => True
  | PTuple ps => ps = wilds (length ps) | _ => False
  end.
Definition args (v : val) : list val := match v with VEnum _ v' => [v'] | VTuple vs => vs | _ => [] end.

Lemma vmatches_wilds : forall vs' n rest vs, length vs' = n -> vmatches (wilds n ++ rest) (vs' ++ vs) = vmatches rest vs.
Proof. induction vs' as [|v vs' IH]; intros n rest vs <-; cbn; [reflexivity|]. now apply IH. Qed.

Lemma vmatches_app : forall ps vs rest vs', length ps = length vs ->
  vmatches (ps ++ rest) (vs ++ vs') = vmatches ps vs && vmatches rest vs'.
Proof.
  induction ps as [|p ps IH]; intros [|v vs] rest vs' Hl; try discriminate Hl; cbn [app vmatches]; [reflexivity|].
  rewrite IH by (cbn in Hl; lia). now rewrite andb_assoc.
Qed.

Lemma vmatches_length : forall ps vs, vmatches ps vs = true -> length ps = length vs.
Proof. induction ps as [|p ps IH]; intros [|v vs] H; try discriminate H; cbn in *; [reflexivity|]. apply andb_true_iff in H. f_equal. now apply IH. Qed.

Lemma vmatches_wilds_true : forall vs, vmatches (wilds (length vs)) vs = true.
Proof. induction vs; cbn; auto. Qed.

Lemma root_args_length c v : is_root c -> matches c v = true -> length (args v) = arity c.
Proof.
  destruct c as [|b|lo hi|k p|ps|ps]; cbn [is_root]; intros Hr Hm; try contradiction; destruct v; try discriminate Hm; cbn; auto.
  rewrite matches_tuple in Hm. apply vmatches_length in Hm. now rewrite Hm.
Qed.

Lemma existsb_flat_map {A B} (f : B -> bool) (g : A -> list B) l :
  existsb f (flat_map g l) = existsb (fun a => existsb f (g a)) l.
Proof. induction l as [|a l IH]; cbn; [reflexivity|]. now rewrite existsb_app, IH. Qed.

Theorem spec_exact c v rest vs : is_root c -> matches c v = true ->
  forall p, singb p = true ->
  vmatches (p :: rest) (v :: vs) = existsb (fun row => vmatches row (args v ++ vs)) (spec_pat c p rest).
Proof.
  intros Hroot Hm. assert (Hlen := root_args_length c v Hroot Hm).
  induction p as [|b|lo hi|k p IH|ps IH|ps IH] using pat_ind'; intros Hs; cbn [spec_pat vmatches].
  - cbn [existsb matches]. rewrite vmatches_wilds by exact Hlen. now rewrite orb_false_r.
  - destruct c as [|b'|lo' hi'|k' p'|ps'|ps']; cbn [is_root] in Hroot; try contradiction; destruct v; try discriminate Hm;
      cbn [has_the_same_constructor matches existsb andb] in *; try reflexivity.
    destruct b, b', b0; cbn in *; try discriminate Hm; rewrite ?orb_false_r; reflexivity.
  - destruct c as [|b'|lo' hi'|k' p'|ps'|ps']; cbn [is_root] in Hroot; try contradiction; destruct v; try discriminate Hm;
      cbn [has_the_same_constructor matches existsb andb] in *; try reflexivity.
    subst hi'. cbn [singb] in Hs.
    destruct (N.eqb_spec lo' lo) as [E1|E1]; destruct (N.eqb_spec lo' hi) as [E2|E2]; cbn [andb existsb args app];
      repeat match goal with
             | |- context [?a <=? ?b] => destruct (N.leb_spec a b)
             end; cbn; try lia; try reflexivity; now rewrite orb_false_r.
  - destruct c as [|b'|lo' hi'|k' p'|ps'|ps']; cbn [is_root] in Hroot; try contradiction; destruct v; try discriminate Hm;
      cbn [has_the_same_constructor matches existsb andb] in *; try reflexivity.
    destruct p'; try contradiction. cbn [matches] in Hm. rewrite andb_true_r in Hm. apply Nat.eqb_eq in Hm. subst k0.
    destruct (Nat.eqb_spec k' k) as [->|Hne].
    + rewrite Nat.eqb_refl. cbn [existsb sub_patterns args app vmatches andb]. now rewrite orb_false_r.
    + replace (Nat.eqb k k') with false by (symmetry; apply Nat.eqb_neq; congruence). reflexivity.
  - destruct c as [|b'|lo' hi'|k' p'|ps'|ps']; cbn [is_root] in Hroot; try contradiction; destruct v; try discriminate Hm;
      cbn [has_the_same_constructor existsb andb] in *; try reflexivity.
    rewrite matches_tuple in Hm. apply vmatches_length in Hm. rewrite matches_tuple.
    destruct (Nat.eqb_spec (length ps') (length ps)) as [E|E].
    + cbn [existsb sub_patterns args]. rewrite orb_false_r. symmetry. apply vmatches_app. lia.
    + cbn [existsb]. destruct (vmatches ps vs0) eqn:Ev; [|reflexivity]. apply vmatches_length in Ev. lia.
  - rewrite matches_or. rewrite existsb_flat_map. cbn [singb] in Hs. rewrite forallb_forall in Hs.
    induction IH as [|r ps Hr Hps IHps]; [reflexivity|]. cbn [existsb].
    rewrite andb_orb_distrib_l. rewrite <- IHps by (intros x Hx; apply Hs; now right).
    f_equal. rewrite <- Hr by (apply Hs; now left). reflexivity.
Qed.

(* a row of D(P) matching the remaining columns means the original row matches whatever stands first *)
Theorem default_sound v rest vs : forall p,
  existsb (fun row => vmatches row vs) (default_pat p rest) = true -> vmatches (p :: rest) (v :: vs) = true.
Proof.
  induction p as [|b|lo hi|k p IH|ps IH|ps IH] using pat_ind'; cbn [default_pat existsb]; intros H; try discriminate H.
  - cbn. now rewrite orb_false_r in H.
  - rewrite existsb_flat_map in H. apply existsb_exists in H. destruct H as [r [Hr Hm]].
    rewrite Forall_forall in IH. specialize (IH r Hr Hm). cbn [vmatches] in *. apply andb_true_iff in IH. destruct IH as [H1 H2].
    rewrite H2, andb_true_r. rewrite matches_or. apply existsb_exists. eauto.
Qed.

Lemma matches_root p v : match p with PWild | POr _ => False | _ => True end ->
  matches p v = true -> matches (into_root_constructor p) v = true.
Proof.
  destruct p as [|b|lo hi|k p|ps|ps]; intros Hk Hm; try contradiction; cbn [into_root_constructor]; auto.
  - destruct v; try discriminate Hm. cbn in *. apply andb_true_iff in Hm. destruct Hm as [-> _]. reflexivity.
  - destruct v; try discriminate Hm. rewrite matches_tuple in *. apply vmatches_length in Hm. rewrite Hm. apply vmatches_wilds_true.
Qed.

(* a value whose head constructor is none of the roots of p is matched by (p :: rest) exactly through D *)
Theorem default_exact v rest vs : forall p,
  (forall c, In c (roots p) -> matches c v = false) ->
  vmatches (p :: rest) (v :: vs) = existsb (fun row => vmatches row vs) (default_pat p rest).
Proof.
  induction p as [|b|lo hi|k p IH|ps IH|ps IH] using pat_ind'; intros Hnr; cbn [default_pat existsb].
  - cbn. now rewrite orb_false_r.
  - cbn [vmatches]. destruct (matches (PBool b) v) eqn:E; [|reflexivity]. rewrite (Hnr (PBool b)) in E; [discriminate|now left].
  - cbn [vmatches]. destruct (matches (PInt lo hi) v) eqn:E; [|reflexivity]. rewrite (Hnr (PInt lo hi)) in E; [discriminate|now left].
  - cbn [vmatches]. destruct (matches (PEnum k p) v) eqn:E; [|reflexivity].
    apply (matches_root (PEnum k p)) in E; [|exact I]. rewrite (Hnr _ (or_introl eq_refl)) in E. discriminate.
  - cbn [vmatches]. destruct (matches (PTuple ps) v) eqn:E; [|reflexivity].
    apply (matches_root (PTuple ps)) in E; [|exact I]. rewrite (Hnr _ (or_introl eq_refl)) in E. discriminate.
  - rewrite existsb_flat_map. cbn [vmatches]. rewrite matches_or. cbn [roots] in Hnr.
    induction IH as [|r ps Hr Hps IHps]; [reflexivity|]. cbn [existsb].
    rewrite andb_orb_distrib_l. rewrite <- IHps by (intros c Hc; apply Hnr; cbn [flat_map]; apply in_or_app; now right).
    f_equal. rewrite <- Hr by (intros c Hc; apply Hnr; cbn [flat_map]; apply in_or_app; now left). reflexivity.
Qed.
