(* C05 — leaf printers (sway-ir/src/printer.rs ConstantContent::as_lit_string, irtype.rs
   Type::as_string) and leaf parsers (sway-ir/src/parser.rs, rules constant_value, string_const,
   str_char, hex_digit, decimal/dec_digits, ast_ty, array_ty, union_ty, struct_ty and the whitespace
   rule `_`) as functions on byte strings (list N). PEG ordered choice is kept as the order of the
   tests. No proofs in this file.
   Not modelled: comments inside `_` (the printer never emits a comment inside a leaf), metadata suffixes. *)
From SwayV Require Import Base.Util.
Open Scope N_scope.

Definition bytes := list N.

(* ---------- characters *)
Definition is_digit (c : N) : bool := (48 <=? c) && (c <=? 57).
Definition is_ws (c : N) : bool := (c =? 32) || (c =? 9) || (c =? 10) || (c =? 13).

Fixpoint skip_ws (s : bytes) : bytes :=
  match s with
  | c :: r => if is_ws c then skip_ws r else s
  | [] => []
  end.

(* keyword match; recursion on the keyword so that it computes on `kw ++ abstract tail` *)
Fixpoint strip (kw s : bytes) : option bytes :=
  match kw with
  | [] => Some s
  | k :: kw' => match s with
                | c :: r => if c =? k then strip kw' r else None
                | [] => None
                end
  end.

(* ---------- hex *)
(* format {b:02x} *)
Definition hexd (n : N) : N := if n <? 10 then 48 + n else 87 + n.
Definition hex2 (b : N) : bytes := [hexd (b / 16); hexd (b mod 16)].

(* rule hex_digit: 0-9, a-f, A-F *)
Definition unhex (c : N) : option N :=
  if is_digit c then Some (c - 48)
  else if (97 <=? c) && (c <=? 102) then Some (c - 87)
  else if (65 <=? c) && (c <=? 70) then Some (c - 55)
  else None.

(* ---------- string constants *)
(* printer: b.is_ascii() && !b.is_ascii_control() && b is neither backslash nor double quote;
   parser str_char: space, 0x21, 0x23..0x5B, 0x5D..0x7E — the same set *)
Definition raw_char (b : N) : bool :=
  (32 <=? b) && (b <=? 126) && negb (b =? 92) && negb (b =? 34).

Definition print_char (b : N) : bytes := if raw_char b then [b] else 92 :: 120 :: hex2 b.
Definition print_str (bs : bytes) : bytes := 34 :: flat_map print_char bs ++ [34].

(* str_char* followed by the closing quote *)
Fixpoint parse_str_body (s : bytes) : option (bytes * bytes) :=
  match s with
  | [] => None
  | c :: r =>
    if c =? 34 then Some ([], r)
    else if raw_char c then
      match parse_str_body r with Some (bs, r') => Some (c :: bs, r') | None => None end
    else if c =? 92 then
      match r with
      | x :: h :: l :: r2 =>
        if x =? 120 then
          match unhex h, unhex l with
          | Some hv, Some lv =>
            match parse_str_body r2 with
            | Some (bs, r') => Some (N.lor (N.shiftl hv 4) lv :: bs, r')
            | None => None end
          | _, _ => None end
        else None
      | _ => None
      end
    else None
  end.

Definition parse_str (s : bytes) : option (bytes * bytes) :=
  match s with
  | c :: r => if c =? 34 then parse_str_body r else None
  | [] => None
  end.

(* ---------- u256 / b256 constants: 0x + 64 hex digits, big endian *)
Fixpoint to_be (k : nat) (n : N) : bytes :=
  match k with O => [] | S k' => to_be k' (n / 256) ++ [n mod 256] end.
Definition of_be (bs : bytes) : N := fold_left (fun a b => a * 256 + b) bs 0.

Definition print_hex_bytes (bs : bytes) : bytes := 48 :: 120 :: flat_map hex2 bs.
Definition print_hex256 (n : N) : bytes := print_hex_bytes (to_be 32 n).

Fixpoint parse_hex_pairs (k : nat) (s : bytes) : option (bytes * bytes) :=
  match k with
  | O => Some ([], s)
  | S k' =>
    match s with
    | h :: l :: r =>
      match unhex h, unhex l with
      | Some hv, Some lv =>
        match parse_hex_pairs k' r with
        | Some (bs, r') => Some (hv * 16 + lv :: bs, r')
        | None => None end
      | _, _ => None end
    | _ => None
    end
  end.

(* 0x followed by exactly 64 hex digits *)
Definition parse_hex_bytes (s : bytes) : option (bytes * bytes) :=
  match strip [48; 120] s with
  | Some r => parse_hex_pairs 32 r
  | None => None
  end.
Definition parse_hex256 (s : bytes) : option (N * bytes) :=
  match parse_hex_bytes s with Some (bs, r) => Some (of_be bs, r) | None => None end.

(* ---------- decimal numbers (u64) *)
Fixpoint digits_rev (fuel : nat) (n : N) : bytes :=
  match fuel with
  | O => []
  | S f => if n <? 10 then [n] else (n mod 10) :: digits_rev f (n / 10)
  end.
(* Rust `{}` on u64: at most 20 digits *)
Definition print_dec (n : N) : bytes := map (N.add 48) (rev (digits_rev 20 n)).

Fixpoint span_digits (s : bytes) : bytes * bytes :=
  match s with
  | c :: r => if is_digit c then let (d, r') := span_digits r in (c - 48 :: d, r') else ([], s)
  | [] => ([], [])
  end.
Definition value_of (ds : bytes) : N := fold_left (fun a d => a * 10 + d) ds 0.

(* rule dec_digits: a single 0, or 1-9 followed by digits; then ds.parse::<u64>().unwrap() *)
Definition parse_dec (s : bytes) : outcome (N * bytes) :=
  match s with
  | c :: r =>
    if c =? 48 then Ok (0, r)
    else if is_digit c then
      let (ds, r') := span_digits s in
      let v := value_of ds in
      if v <? 2 ^ 64 then Ok (v, r') else Panic 1
    else Err 1
  | [] => Err 1
  end.

(* ---------- types *)
Inductive ty :=
| TNever | TUnit | TBool | TU8 | TU64 | TU256 | TB256 | TSlice | TPtr
| TStringArr (n : N)
| TArray (t : ty) (n : N)
| TUnion (l : list ty)
| TStruct (l : list ty)
| TTypedSlice (t : ty)
| TTypedPtr (t : ty).

Definition s_never := [110;101;118;101;114].
Definition s_unit := [117;110;105;116].
Definition s_unit2 := [40;41].
Definition s_bool := [98;111;111;108].
Definition s_u8 := [117;56].
Definition s_u64 := [117;54;52].
Definition s_u256 := [117;50;53;54].
Definition s_b256 := [98;50;53;54].
Definition s_slice := [115;108;105;99;101].
Definition s_tslice := [95;95;115;108;105;99;101].
Definition s_string := [115;116;114;105;110;103].
Definition s_tptr := [95;95;112;116;114].
Definition s_ptr := [112;116;114].

Fixpoint join (sep : bytes) (l : list bytes) : bytes :=
  match l with
  | [] => []
  | [x] => x
  | x :: r => x ++ sep ++ join sep r
  end.

(* Type::as_string *)
Fixpoint print_ty (t : ty) : bytes :=
  match t with
  | TNever => s_never
  | TUnit => s_unit2
  | TBool => s_bool
  | TU8 => s_u8
  | TU64 => s_u64
  | TU256 => s_u256
  | TB256 => s_b256
  | TSlice => s_slice
  | TPtr => s_ptr
  | TStringArr n => s_string ++ [60] ++ print_dec n ++ [62]
  | TArray t n => [91] ++ print_ty t ++ [59; 32] ++ print_dec n ++ [93]
  | TUnion l => [40; 32] ++ join [32; 124; 32] (map print_ty l) ++ [32; 41]
  | TStruct l => [123; 32] ++ join [44; 32] (map print_ty l) ++ [32; 125]
  | TTypedSlice t => s_tslice ++ [91] ++ print_ty t ++ [93]
  | TTypedPtr t => s_tptr ++ [32] ++ print_ty t
  end.

Definition parse_decimal_ws (s : bytes) : option (N * bytes) :=
  match parse_dec s with Ok (n, r) => Some (n, skip_ws r) | _ => None end.

(* ---- rule ast_ty (and array_ty / struct_ty / union_ty): alternatives in the grammar's order; every
   token is followed by `_`. The recursive positions take the parser for nested types as `p`. *)
Definition alt_kw (kw : bytes) (t : ty) (s : bytes) : option (ty * bytes) :=
  match strip kw s with Some r => Some (t, skip_ws r) | None => None end.

Fixpoint first_some {A} (l : list (option A)) : option A :=
  match l with
  | [] => None
  | Some x :: _ => Some x
  | None :: r => first_some r
  end.

(* t (sep _ t)*  — n bounds the number of elements (the PEG has no bound; callers pass the input
   length). If the separator is there but no type follows, the repetition stops before the separator. *)
Fixpoint sep_list (p : bytes -> option (ty * bytes)) (n : nat) (sep : N) (s : bytes) : option (list ty * bytes) :=
  match n with
  | O => None
  | S n' =>
    match p s with
    | None => None
    | Some (t, r) =>
      match strip [sep] r with
      | Some r2 =>
        match sep_list p n' sep (skip_ws r2) with
        | Some (ts, r3) => Some (t :: ts, r3)
        | None => Some ([t], r)
        end
      | None => Some ([t], r)
      end
    end
  end.

(* "__slice" _ "[" _ ty "]" _ *)
Definition p_tslice (p : bytes -> option (ty * bytes)) (s : bytes) : option (ty * bytes) :=
  match strip s_tslice s with
  | Some r =>
    match strip [91] (skip_ws r) with
    | Some r2 =>
      match p (skip_ws r2) with
      | Some (t, r3) => match strip [93] r3 with Some r4 => Some (TTypedSlice t, skip_ws r4) | None => None end
      | None => None end
    | None => None end
  | None => None end.

(* "string" _ "<" _ decimal ">" _ *)
Definition p_string (s : bytes) : option (ty * bytes) :=
  match strip s_string s with
  | Some r =>
    match strip [60] (skip_ws r) with
    | Some r2 =>
      match parse_decimal_ws (skip_ws r2) with
      | Some (n, r3) => match strip [62] r3 with Some r4 => Some (TStringArr n, skip_ws r4) | None => None end
      | None => None end
    | None => None end
  | None => None end.

(* "[" _ ty ";" _ decimal "]" _ *)
Definition p_array (p : bytes -> option (ty * bytes)) (s : bytes) : option (ty * bytes) :=
  match strip [91] s with
  | Some r =>
    match p (skip_ws r) with
    | Some (t, r2) =>
      match strip [59] r2 with
      | Some r3 =>
        match parse_decimal_ws (skip_ws r3) with
        | Some (n, r4) => match strip [93] r4 with Some r5 => Some (TArray t n, skip_ws r5) | None => None end
        | None => None end
      | None => None end
    | None => None end
  | None => None end.

(* "{" _ (ty ** comma) "}" _ *)
Definition p_struct (p : bytes -> option (ty * bytes)) (s : bytes) : option (ty * bytes) :=
  match strip [123] s with
  | Some r =>
    let r1 := skip_ws r in
    match sep_list p (length s) 44 r1 with
    | Some (ts, r2) => match strip [125] r2 with Some r3 => Some (TStruct ts, skip_ws r3) | None => None end
    | None => match strip [125] r1 with Some r3 => Some (TStruct [], skip_ws r3) | None => None end
    end
  | None => None end.

(* "(" _ (ty ++ ("|" _)) ")" _ *)
Definition p_union (p : bytes -> option (ty * bytes)) (s : bytes) : option (ty * bytes) :=
  match strip [40] s with
  | Some r =>
    match sep_list p (length s) 124 (skip_ws r) with
    | Some (ts, r2) => match strip [41] r2 with Some r3 => Some (TUnion ts, skip_ws r3) | None => None end
    | None => None end
  | None => None end.

(* "__ptr" _ ty _ *)
Definition p_tptr (p : bytes -> option (ty * bytes)) (s : bytes) : option (ty * bytes) :=
  match strip s_tptr s with
  | Some r => match p (skip_ws r) with Some (t, r2) => Some (TTypedPtr t, skip_ws r2) | None => None end
  | None => None end.

Definition ast_ty_alts (p : bytes -> option (ty * bytes)) (s : bytes) : option (ty * bytes) :=
  first_some [alt_kw s_unit TUnit s; alt_kw s_unit2 TUnit s; alt_kw s_bool TBool s; alt_kw s_u8 TU8 s;
              alt_kw s_u64 TU64 s; alt_kw s_u256 TU256 s; alt_kw s_b256 TB256 s; alt_kw s_slice TSlice s;
              p_tslice p s; p_string s; p_array p s; p_struct p s; p_union p s; p_tptr p s;
              alt_kw s_ptr TPtr s; alt_kw s_never TNever s].

(* Fuel bounds the nesting depth; None = no parse (or out of fuel). *)
Fixpoint parse_ty (fuel : nat) (s : bytes) : option (ty * bytes) :=
  match fuel with
  | O => None
  | S f => ast_ty_alts (parse_ty f) s
  end.
