(* C05 — leaf correspondence: the harness wraps a leaf text into a tiny IR module, lets the real parser
   read it and the real printer print it; the model must accept exactly the same texts and print the
   same canonical text.  result: rust = RPrinted text | RReject | RPanic *)
From SwayV Require Import Base.Util C05.Model.
Open Scope N_scope.

Inductive rust_res := RPrinted (t : bytes) | RReject | RPanic.

Fixpoint bytes_eqb (a b : bytes) : bool :=
  match a, b with
  | [], [] => true
  | x :: a', y :: b' => (x =? y) && bytes_eqb a' b'
  | _, _ => false
  end.

(* 0 agree (accept, same text) ; 1 agree (both reject) ; 2 agree (both panic)
   3 printed text differs ; 4 model rejects, implementation accepts ; 5 model accepts, implementation rejects
   6 panic disagreement ; 7 model out of fuel ;
   8 model rejects where the implementation panics (a number >= 2^64 in a type: the type model does not
     separate the two; for decimal constants parse_dec does) *)
Definition cmp (m : outcome bytes) (r : rust_res) : N :=
  match m, r with
  | Ok t, RPrinted t' => if bytes_eqb t t' then 0 else 3
  | Err _, RReject => 1
  | Panic _, RPanic => 2
  | Err _, RPrinted _ => 4
  | Ok _, RReject => 5
  | OutOfFuel, _ => 7
  | Err _, RPanic => 8
  | _, _ => 6
  end.

Definition m_str (s : bytes) : outcome bytes :=
  match parse_str s with Some (bs, []) => Ok (print_str bs) | _ => Err 1 end.
Definition m_dec (s : bytes) : outcome bytes :=
  match parse_dec s with
  | Ok (n, r) => match skip_ws r with [] => Ok (print_dec n) | _ => Err 1 end
  | Panic k => Panic k | Err k => Err k | OutOfFuel => OutOfFuel end.
Definition m_hex (s : bytes) : outcome bytes :=
  match parse_hex256 s with Some (n, r) => match skip_ws r with [] => Ok (print_hex256 n) | _ => Err 1 end | None => Err 1 end.
Definition m_ty (s : bytes) : outcome bytes :=
  match parse_ty 40 s with Some (t, []) => Ok (print_ty t) | _ => Err 1 end.

Inductive kind := KStr | KDec | KHex | KTy.
Definition judge (k : kind) (s : bytes) (r : rust_res) : N :=
  cmp (match k with KStr => m_str s | KDec => m_dec s | KHex => m_hex s | KTy => m_ty s end) r.
Definition judge_all (cs : list (kind * bytes * rust_res)) : list N :=
  map (fun c => match c with (k, s, r) => judge k s r end) cs.
