(* C05 — what is claimed of the leaf printers / parsers: parse (print x) = x for every well-formed x,
   with an arbitrary continuation `rest` of the text after the leaf. Well-formedness = what the
   IR data structures can hold and the grammar can express. *)
From SwayV Require Import Base.Util C05.Model.
Open Scope N_scope.

(* bytes of a string constant *)
Definition wf_bytes (bs : bytes) : Prop := Forall (fun b => b < 256) bs.

(* the text after a decimal number must not continue the number *)
Definition no_digit_ahead (rest : bytes) : Prop :=
  match rest with [] => True | c :: _ => is_digit c = false end.

Fixpoint depth (t : ty) : nat :=
  match t with
  | TArray t _ | TTypedSlice t | TTypedPtr t => S (depth t)
  | TUnion l | TStruct l => S (fold_right (fun t m => Nat.max (depth t) m) 0%nat l)
  | _ => 0%nat
  end.

(* what the compiler can produce and the grammar can express: counts fit u64, unions are not empty
   (no u16/u32 and no `str` type in this model: the printer would print them, the grammar has no rule) *)
Fixpoint wf_ty (t : ty) : Prop :=
  match t with
  | TStringArr n => n < 2 ^ 64
  | TArray t n => wf_ty t /\ n < 2 ^ 64
  | TUnion l => l <> [] /\ (fix all (l : list ty) := match l with [] => True | x :: r => wf_ty x /\ all r end) l
  | TStruct l => (fix all (l : list ty) := match l with [] => True | x :: r => wf_ty x /\ all r end) l
  | TTypedSlice t | TTypedPtr t => wf_ty t
  | _ => True
  end.

Fixpoint wf_all (l : list ty) : Prop := match l with [] => True | x :: r => wf_ty x /\ wf_all r end.

