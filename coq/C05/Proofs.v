(* C05 — round-trip proofs for the leaf printers / parsers: strings, hex constants, decimals. *)
From Coq Require Import ZifyBool ZifyN.
From SwayV Require Import Base.Util C05.Model C05.Spec.
Open Scope N_scope.
Ltac Zify.zify_post_hook ::= Z.div_mod_to_equations.

(* ---------- finite sweeps *)
Lemma sweep (P : N -> bool) (k : nat) :
  forallb P (map N.of_nat (seq 0 k)) = true -> forall n, n < N.of_nat k -> P n = true.
Proof.
  intros H n Hn. rewrite forallb_forall in H. apply H. apply in_map_iff.
  exists (N.to_nat n). split; [lia | apply in_seq; lia].
Qed.

Definition byte_ok (b : N) : bool :=
  match unhex (hexd (b / 16)), unhex (hexd (b mod 16)) with
  | Some h, Some l => (N.lor (N.shiftl h 4) l =? b) && (h * 16 + l =? b) && (h =? b / 16) && (l =? b mod 16)
  | _, _ => false
  end.

Lemma byte_ok_all b : b < 256 -> byte_ok b = true.
Proof. apply (sweep byte_ok 256). vm_compute. reflexivity. Qed.

Lemma unhex_hex2 b : b < 256 ->
  unhex (hexd (b / 16)) = Some (b / 16) /\ unhex (hexd (b mod 16)) = Some (b mod 16) /\
  N.lor (N.shiftl (b / 16) 4) (b mod 16) = b /\ (b / 16) * 16 + b mod 16 = b.
Proof.
  intros Hb. pose proof (byte_ok_all b Hb) as H. unfold byte_ok in H.
  destruct (unhex (hexd (b / 16))) as [h|]; [|discriminate].
  destruct (unhex (hexd (b mod 16))) as [l|]; [|discriminate].
  repeat (apply andb_true_iff in H; destruct H as [H ?]).
  apply N.eqb_eq in H, H0, H1, H2. subst h l. repeat split; assumption.
Qed.

(* ---------- strings *)
Lemma raw_not_quote b : raw_char b = true -> (b =? 34) = false.
Proof. unfold raw_char. intros H. destruct (b =? 34); [|reflexivity]. rewrite andb_false_r in H. discriminate. Qed.

Lemma parse_str_body_print bs rest : Forall (fun b => b < 256) bs ->
  parse_str_body (flat_map print_char bs ++ 34 :: rest) = Some (bs, rest).
Proof.
  induction bs as [|b bs IH]; intros Hall.
  - reflexivity.
  - inversion Hall as [|? ? Hb Hall']; subst. specialize (IH Hall').
    cbn [flat_map]. rewrite <- app_assoc. unfold print_char at 1.
    destruct (raw_char b) eqn:Hraw.
    + cbn [app parse_str_body]. rewrite (raw_not_quote b Hraw), Hraw, IH. reflexivity.
    + destruct (unhex_hex2 b Hb) as [Hh [Hl [Hlor _]]].
      unfold hex2. cbn [app parse_str_body].
      change (92 =? 34) with false. change (raw_char 92) with false. change (92 =? 92) with true.
      change (120 =? 120) with true. cbv iota. rewrite Hh, Hl, IH, Hlor. reflexivity.
Qed.

Theorem parse_print_string : forall bs rest, Forall (fun b => b < 256) bs ->
  parse_str (print_str bs ++ rest) = Some (bs, rest).
Proof.
  intros bs rest Hall. unfold print_str, parse_str. cbn [app]. change (34 =? 34) with true. cbv iota.
  rewrite <- app_assoc. cbn [app]. apply parse_str_body_print. exact Hall.
Qed.

(* ---------- hex constants *)
Lemma parse_hex_pairs_print bs rest : Forall (fun b => b < 256) bs ->
  parse_hex_pairs (length bs) (flat_map hex2 bs ++ rest) = Some (bs, rest).
Proof.
  induction bs as [|b bs IH]; intros Hall.
  - reflexivity.
  - inversion Hall as [|? ? Hb Hall']; subst. specialize (IH Hall').
    destruct (unhex_hex2 b Hb) as [Hh [Hl [_ Hsum]]].
    cbn [flat_map length]. unfold hex2 at 1. cbn [app parse_hex_pairs].
    rewrite Hh, Hl, IH, Hsum. reflexivity.
Qed.

Theorem parse_print_hex_bytes : forall bs rest, length bs = 32%nat -> Forall (fun b => b < 256) bs ->
  parse_hex_bytes (print_hex_bytes bs ++ rest) = Some (bs, rest).
Proof.
  intros bs rest Hlen Hall. unfold parse_hex_bytes, print_hex_bytes. cbn [app strip].
  change (48 =? 48) with true. change (120 =? 120) with true. cbv iota.
  rewrite <- Hlen. apply parse_hex_pairs_print. exact Hall.
Qed.

Lemma to_be_length k : forall n, length (to_be k n) = k.
Proof. induction k as [|k IH]; intros n; [reflexivity|]. cbn [to_be]. rewrite app_length, IH. cbn. lia. Qed.

Lemma to_be_bytes k : forall n, Forall (fun b => b < 256) (to_be k n).
Proof.
  induction k as [|k IH]; intros n; [constructor|]. cbn [to_be]. apply Forall_app. split; [apply IH|].
  constructor; [|constructor]. apply N.mod_lt. lia.
Qed.

Lemma of_be_snoc l b : of_be (l ++ [b]) = of_be l * 256 + b.
Proof. unfold of_be. rewrite fold_left_app. reflexivity. Qed.

Lemma of_to_be k : forall n, n < 256 ^ N.of_nat k -> of_be (to_be k n) = n.
Proof.
  induction k as [|k IH]; intros n Hn.
  - cbn in Hn. cbn. lia.
  - cbn [to_be]. rewrite of_be_snoc, IH.
    + pose proof (N.div_mod n 256). lia.
    + rewrite Nat2N.inj_succ, N.pow_succ_r' in Hn. apply N.div_lt_upper_bound; lia.
Qed.

Theorem parse_print_hex256 : forall n rest, n < 2 ^ 256 ->
  parse_hex256 (print_hex256 n ++ rest) = Some (n, rest).
Proof.
  intros n rest Hn. unfold parse_hex256, print_hex256.
  rewrite parse_print_hex_bytes; [|apply to_be_length|apply to_be_bytes].
  rewrite of_to_be; [reflexivity|]. change (256 ^ N.of_nat 32) with (2 ^ 256). exact Hn.
Qed.

(* ---------- decimals *)
Lemma value_of_snoc l d : value_of (l ++ [d]) = value_of l * 10 + d.
Proof. unfold value_of. rewrite fold_left_app. reflexivity. Qed.

Lemma digits_value f : forall n, n < 10 ^ N.of_nat f -> value_of (rev (digits_rev f n)) = n.
Proof.
  induction f as [|f IH]; intros n Hn.
  - cbn in Hn. cbn. lia.
  - cbn [digits_rev]. destruct (n <? 10) eqn:Hlt.
    + cbn. lia.
    + cbn [rev]. rewrite value_of_snoc, IH.
      * pose proof (N.div_mod n 10). lia.
      * rewrite Nat2N.inj_succ, N.pow_succ_r' in Hn. apply N.div_lt_upper_bound; lia.
Qed.

Lemma digits_lt10 f : forall n, Forall (fun d => d < 10) (digits_rev f n).
Proof.
  induction f as [|f IH]; intros n; [constructor|]. cbn [digits_rev].
  destruct (n <? 10) eqn:Hlt.
  - constructor; [lia | constructor].
  - constructor; [apply N.mod_lt; lia | apply IH].
Qed.

(* most significant digit (the last element of digits_rev) is not 0 for n <> 0 *)
Lemma digits_msd f : forall n, n <> 0 -> n < 10 ^ N.of_nat f ->
  exists d l, rev (digits_rev f n) = d :: l /\ d <> 0.
Proof.
  induction f as [|f IH]; intros n Hn0 Hn.
  - cbn in Hn. lia.
  - cbn [digits_rev]. destruct (n <? 10) eqn:Hlt.
    + exists n, []. split; [reflexivity | exact Hn0].
    + assert (Hq : n / 10 <> 0).
      { intros Hq. pose proof (N.div_mod n 10). pose proof (N.mod_lt n 10). lia. }
      assert (Hq2 : n / 10 < 10 ^ N.of_nat f).
      { rewrite Nat2N.inj_succ, N.pow_succ_r' in Hn. apply N.div_lt_upper_bound; lia. }
      destruct (IH (n / 10) Hq Hq2) as [d [l [Heq Hd]]].
      exists d, (l ++ [n mod 10]). cbn [rev]. rewrite Heq. split; [reflexivity | exact Hd].
Qed.

Lemma span_digits_print ds rest : Forall (fun d => d < 10) ds -> no_digit_ahead rest ->
  span_digits (map (N.add 48) ds ++ rest) = (ds, rest).
Proof.
  induction ds as [|d ds IH]; intros Hall Hrest.
  - cbn [map app]. destruct rest as [|c r]; [reflexivity|]. cbn [span_digits]. cbn in Hrest. rewrite Hrest. reflexivity.
  - inversion Hall as [|? ? Hd Hall']; subst. cbn [map app span_digits].
    assert (Hdig : is_digit (48 + d) = true) by (unfold is_digit; lia).
    rewrite Hdig, (IH Hall' Hrest). f_equal. f_equal. lia.
Qed.

Theorem parse_print_dec : forall n rest, n < 2 ^ 64 -> no_digit_ahead rest ->
  parse_dec (print_dec n ++ rest) = Ok (n, rest).
Proof.
  intros n rest Hn Hrest. change (2 ^ 64) with 18446744073709551616 in Hn.
  destruct (N.eq_dec n 0) as [-> | Hn0].
  - reflexivity.
  - assert (Hn20 : n < 10 ^ N.of_nat 20) by (change (10 ^ N.of_nat 20) with 100000000000000000000; lia).
    destruct (digits_msd 20 n Hn0 Hn20) as [d [l [Heq Hd]]].
    pose proof (digits_lt10 20 n) as Hall. apply Forall_rev in Hall. rewrite Heq in Hall.
    inversion Hall as [|? ? Hd10 Hall']; subst.
    pose proof (digits_value 20 n Hn20) as Hval. rewrite Heq in Hval.
    unfold print_dec. rewrite Heq.
    pose proof (span_digits_print (d :: l) rest Hall Hrest) as Hspan.
    cbn [map app] in Hspan |- *. unfold parse_dec.
    assert (H48 : (48 + d =? 48) = false) by lia.
    assert (Hdig : is_digit (48 + d) = true) by (unfold is_digit; lia).
    rewrite H48, Hdig, Hspan, Hval.
    assert (Hlt : (n <? 2 ^ 64) = true) by (change (2 ^ 64) with 18446744073709551616; lia).
    rewrite Hlt. reflexivity.
Qed.
