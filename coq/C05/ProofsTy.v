(* C05 — round trip of the type syntax. *)
From Coq Require Import ZifyBool ZifyN.
From SwayV Require Import Base.Util C05.Model C05.Spec C05.Proofs.
Open Scope N_scope.

Section TyInd.
  Variable P : ty -> Prop.
  Hypothesis Hleaf : forall t,
    match t with TArray _ _ | TUnion _ | TStruct _ | TTypedSlice _ | TTypedPtr _ => False | _ => True end -> P t.
  Hypothesis Harr : forall t n, P t -> P (TArray t n).
  Hypothesis Hun : forall l, Forall P l -> P (TUnion l).
  Hypothesis Hst : forall l, Forall P l -> P (TStruct l).
  Hypothesis Hts : forall t, P t -> P (TTypedSlice t).
  Hypothesis Htp : forall t, P t -> P (TTypedPtr t).
  Fixpoint ty_ind2 (t : ty) : P t :=
    match t with
    | TArray t n => Harr t n (ty_ind2 t)
    | TUnion l => Hun l ((fix go (l : list ty) : Forall P l :=
                            match l with [] => Forall_nil P | x :: r => Forall_cons x (ty_ind2 x) (go r) end) l)
    | TStruct l => Hst l ((fix go (l : list ty) : Forall P l :=
                            match l with [] => Forall_nil P | x :: r => Forall_cons x (ty_ind2 x) (go r) end) l)
    | TTypedSlice t => Hts t (ty_ind2 t)
    | TTypedPtr t => Htp t (ty_ind2 t)
    | TNever => Hleaf TNever I | TUnit => Hleaf TUnit I | TBool => Hleaf TBool I | TU8 => Hleaf TU8 I
    | TU64 => Hleaf TU64 I | TU256 => Hleaf TU256 I | TB256 => Hleaf TB256 I | TSlice => Hleaf TSlice I
    | TPtr => Hleaf TPtr I | TStringArr n => Hleaf (TStringArr n) I
    end.
End TyInd.

(* ---------- small facts *)
Lemma strip_app kw rest : strip kw (kw ++ rest) = Some rest.
Proof. induction kw as [|k kw IH]; [reflexivity|]. cbn [app strip]. rewrite N.eqb_refl. exact IH. Qed.

Lemma skip_ws_nonws c r : is_ws c = false -> skip_ws (c :: r) = c :: r.
Proof. intros H. cbn [skip_ws]. rewrite H. reflexivity. Qed.

Lemma skip_ws_ws c r : is_ws c = true -> skip_ws (c :: r) = skip_ws r.
Proof. intros H. cbn [skip_ws]. rewrite H. reflexivity. Qed.

Lemma print_ty_head t : exists c r, print_ty t = c :: r /\ is_ws c = false.
Proof. destruct t; cbn [print_ty]; eexists; eexists; (split; [reflexivity | reflexivity]). Qed.

Lemma skip_ws_print t rest : skip_ws (print_ty t ++ rest) = print_ty t ++ rest.
Proof. destruct (print_ty_head t) as [c [r [-> Hc]]]. cbn [app]. apply skip_ws_nonws. exact Hc. Qed.

Lemma print_dec_head n : exists c r, print_dec n = c :: r /\ is_digit c = true.
Proof.
  unfold print_dec. pose proof (digits_lt10 20 n) as Hall. apply Forall_rev in Hall.
  destruct (rev (digits_rev 20 n)) as [|d l] eqn:Heq.
  - exfalso. apply (f_equal (@length N)) in Heq. rewrite rev_length in Heq.
    cbn [digits_rev] in Heq. destruct (n <? 10); discriminate.
  - inversion Hall; subst. exists (48 + d), (map (N.add 48) l). split; [reflexivity|]. unfold is_digit. lia.
Qed.

Lemma skip_ws_dec n rest : skip_ws (print_dec n ++ rest) = print_dec n ++ rest.
Proof.
  destruct (print_dec_head n) as [c [r [-> Hc]]]. cbn [app]. apply skip_ws_nonws.
  unfold is_digit in Hc. unfold is_ws. lia.
Qed.

Lemma parse_decimal_ws_print n c rest : n < 2 ^ 64 -> is_digit c = false -> is_ws c = false ->
  parse_decimal_ws (print_dec n ++ c :: rest) = Some (n, c :: rest).
Proof.
  intros Hn Hc Hw. unfold parse_decimal_ws. rewrite parse_print_dec; [|exact Hn|exact Hc].
  rewrite skip_ws_nonws by exact Hw. reflexivity.
Qed.

(* ---------- the alternatives of ast_ty on printed types *)
Definition good (p : bytes -> option (ty * bytes)) (t : ty) : Prop :=
  forall rest, p (print_ty t ++ rest) = Some (t, skip_ws rest).

Ltac run := cbn [first_some alt_kw p_tslice p_string p_array p_struct p_union p_tptr strip app
       s_unit s_unit2 s_bool s_u8 s_u64 s_u256 s_b256 s_slice s_tslice s_string s_tptr s_ptr s_never
       N.eqb Pos.eqb skip_ws is_ws orb].

Lemma skip_ws_idem s : skip_ws (skip_ws s) = skip_ws s.
Proof.
  induction s as [|c r IH]; [reflexivity|]. cbn [skip_ws]. destruct (is_ws c) eqn:Hc; [exact IH|].
  cbn [skip_ws]. rewrite Hc. reflexivity.
Qed.

Lemma leaf_ok p t rest :
  match t with TArray _ _ | TUnion _ | TStruct _ | TTypedSlice _ | TTypedPtr _ | TStringArr _ => False | _ => True end ->
  ast_ty_alts p (print_ty t ++ rest) = Some (t, skip_ws rest).
Proof. intros H. destruct t; try destruct H; reflexivity. Qed.

Lemma string_ok p n rest : n < 2 ^ 64 ->
  ast_ty_alts p (print_ty (TStringArr n) ++ rest) = Some (TStringArr n, skip_ws rest).
Proof.
  intros Hn. cbn [print_ty]. rewrite <- !app_assoc. unfold ast_ty_alts. run.
  rewrite skip_ws_dec, (parse_decimal_ws_print n 62 rest Hn eq_refl eq_refl). run. reflexivity.
Qed.

Lemma array_ok p t n rest : good p t -> n < 2 ^ 64 ->
  ast_ty_alts p (print_ty (TArray t n) ++ rest) = Some (TArray t n, skip_ws rest).
Proof.
  intros Hg Hn. cbn [print_ty]. rewrite <- !app_assoc. unfold ast_ty_alts. run.
  rewrite skip_ws_print, Hg. run.
  rewrite skip_ws_dec, (parse_decimal_ws_print n 93 rest Hn eq_refl eq_refl). run. reflexivity.
Qed.

Lemma tslice_ok p t rest : good p t ->
  ast_ty_alts p (print_ty (TTypedSlice t) ++ rest) = Some (TTypedSlice t, skip_ws rest).
Proof.
  intros Hg. cbn [print_ty]. rewrite <- !app_assoc. unfold ast_ty_alts. run.
  rewrite skip_ws_print, Hg. run. reflexivity.
Qed.

Lemma tptr_ok p t rest : good p t ->
  ast_ty_alts p (print_ty (TTypedPtr t) ++ rest) = Some (TTypedPtr t, skip_ws rest).
Proof.
  intros Hg. cbn [print_ty]. rewrite <- !app_assoc. unfold ast_ty_alts. run.
  rewrite skip_ws_print, Hg. run. rewrite skip_ws_idem. reflexivity.
Qed.

(* ---------- separated lists *)
Lemma join_head sep t l : exists c r, join sep (map print_ty (t :: l)) = c :: r /\ is_ws c = false.
Proof.
  destruct (print_ty_head t) as [c [r [Heq Hc]]]. cbn [map join]. destruct (map print_ty l).
  - exists c, r. split; assumption.
  - exists c, (r ++ sep ++ join sep (b :: l0)). rewrite Heq. split; [reflexivity | exact Hc].
Qed.

Lemma skip_ws_join sep t l rest :
  skip_ws (join sep (map print_ty (t :: l)) ++ rest) = join sep (map print_ty (t :: l)) ++ rest.
Proof. destruct (join_head sep t l) as [c [r [-> Hc]]]. cbn [app]. apply skip_ws_nonws. exact Hc. Qed.

Lemma join_length sep l : (length l <= length (join sep (map print_ty l)))%nat.
Proof.
  induction l as [|t l IH]; [cbn; lia|]. cbn [map join].
  destruct (print_ty_head t) as [c [r [Heq _]]].
  destruct (map print_ty l) as [|b l0] eqn:Hm.
  - destruct l; [|discriminate]. rewrite Heq. cbn. lia.
  - rewrite !app_length, Heq. cbn [length] in *. lia.
Qed.

Lemma sep_list_ok p sc lead :
  is_ws sc = false -> (forall X, skip_ws (lead ++ X) = skip_ws X) ->
  forall l, l <> [] -> (forall t, In t l -> good p t) ->
  forall n c tl, (length l <= n)%nat -> is_ws c = false -> (c =? sc) = false ->
  sep_list p n sc (join (lead ++ [sc; 32]) (map print_ty l) ++ 32 :: c :: tl) = Some (l, c :: tl).
Proof.
  intros Hsc Hlead l. induction l as [|t l IH]; intros Hne Hg n c tl Hn Hc Hcs; [congruence|].
  destruct n as [|n]; [cbn in Hn; lia|].
  destruct l as [|t2 l'].
  - cbn [map join sep_list]. rewrite (Hg t (or_introl eq_refl)).
    rewrite (skip_ws_ws 32) by reflexivity. rewrite skip_ws_nonws by exact Hc. cbn [strip]. rewrite Hcs. reflexivity.
  - change (join (lead ++ [sc; 32]) (map print_ty (t :: t2 :: l')))
      with (print_ty t ++ (lead ++ [sc; 32]) ++ join (lead ++ [sc; 32]) (map print_ty (t2 :: l'))).
    rewrite <- !app_assoc. cbn [sep_list]. rewrite (Hg t (or_introl eq_refl)).
    rewrite Hlead. cbn [app]. rewrite (skip_ws_nonws sc) by exact Hsc. cbn [strip]. rewrite N.eqb_refl.
    rewrite (skip_ws_ws 32) by reflexivity. rewrite skip_ws_join.
    rewrite (IH ltac:(discriminate) (fun t' Hin => Hg t' (or_intror Hin)) n c tl ltac:(cbn [length] in *; lia) Hc Hcs).
    reflexivity.
Qed.

Lemma parse_ty_no_close f c rest : c = 125 \/ c = 41 -> parse_ty f (c :: rest) = None.
Proof. intros [-> | ->]; destruct f; reflexivity. Qed.

Lemma struct_ok f l rest : (forall t, In t l -> good (parse_ty f) t) ->
  ast_ty_alts (parse_ty f) (print_ty (TStruct l) ++ rest) = Some (TStruct l, skip_ws rest).
Proof.
  intros Hg. cbn [print_ty]. rewrite <- !app_assoc. unfold ast_ty_alts. run.
  destruct l as [|t l].
  - cbn [map join app]. run.
    remember (length _) as n eqn:Hn. destruct n as [|n]; [discriminate|].
    cbn [sep_list]. rewrite (parse_ty_no_close f 125 rest (or_introl eq_refl)). run. reflexivity.
  - rewrite skip_ws_join.
    rewrite (sep_list_ok (parse_ty f) 44 [] eq_refl (fun X => eq_refl) (t :: l) ltac:(discriminate) Hg _ 125 rest);
      [run; reflexivity | | reflexivity | reflexivity].
    pose proof (join_length [44; 32] (t :: l)) as Hlen. cbn [app] in Hlen |- *.
    cbn [length] in Hlen |- *. rewrite app_length. lia.
Qed.

Lemma union_ok f l rest : l <> [] -> (forall t, In t l -> good (parse_ty f) t) ->
  ast_ty_alts (parse_ty f) (print_ty (TUnion l) ++ rest) = Some (TUnion l, skip_ws rest).
Proof.
  intros Hne Hg. cbn [print_ty]. rewrite <- !app_assoc. unfold ast_ty_alts. run.
  destruct l as [|t l]; [congruence|].
  rewrite skip_ws_join.
  rewrite (sep_list_ok (parse_ty f) 124 [32] eq_refl (fun X => eq_refl) (t :: l) ltac:(discriminate) Hg _ 41 rest);
    [run; reflexivity | | reflexivity | reflexivity].
  pose proof (join_length [32; 124; 32] (t :: l)) as Hlen. cbn [app] in Hlen |- *.
  cbn [length] in Hlen |- *. rewrite app_length. lia.
Qed.

(* ---------- main theorem *)
Lemma depth_in t l : In t l -> (depth t <= fold_right (fun t m => Nat.max (depth t) m) 0 l)%nat.
Proof.
  induction l as [|x l IH]; intros H; [destruct H|]. cbn [fold_right]. destruct H as [-> | H]; [lia|].
  specialize (IH H). lia.
Qed.

Lemma wf_all_in l : (fix all (l : list ty) := match l with [] => True | x :: r => wf_ty x /\ all r end) l ->
  forall t, In t l -> wf_ty t.
Proof.
  induction l as [|x l IH]; intros H t Hin; [destruct Hin|]. destruct H as [Hx Hl].
  destruct Hin as [<- | Hin]; [exact Hx | exact (IH Hl t Hin)].
Qed.

Theorem parse_print_type : forall t, wf_ty t -> forall fuel rest, (depth t < fuel)%nat ->
  parse_ty fuel (print_ty t ++ rest) = Some (t, skip_ws rest).
Proof.
  intros t. pattern t. apply ty_ind2; clear t.
  - intros t Hl Hwf fuel rest Hf. destruct fuel as [|f]; [lia|]. cbn [parse_ty].
    destruct t; try destruct Hl; try (apply leaf_ok; exact I).
    apply string_ok. exact Hwf.
  - intros t n IH [Hwf Hn] fuel rest Hf. destruct fuel as [|f]; [lia|]. cbn [parse_ty].
    apply array_ok; [|exact Hn]. intros r. apply IH; [exact Hwf | cbn [depth] in Hf; lia].
  - intros l IH [Hne Hwf] fuel rest Hf. destruct fuel as [|f]; [lia|]. cbn [parse_ty].
    apply union_ok; [exact Hne|]. intros t Hin r. rewrite Forall_forall in IH.
    apply (IH t Hin); [exact (wf_all_in l Hwf t Hin)|]. pose proof (depth_in t l Hin). cbn [depth] in Hf. lia.
  - intros l IH Hwf fuel rest Hf. destruct fuel as [|f]; [lia|]. cbn [parse_ty].
    apply struct_ok. intros t Hin r. rewrite Forall_forall in IH.
    apply (IH t Hin); [exact (wf_all_in l Hwf t Hin)|]. pose proof (depth_in t l Hin). cbn [depth] in Hf. lia.
  - intros t IH Hwf fuel rest Hf. destruct fuel as [|f]; [lia|]. cbn [parse_ty].
    apply tslice_ok. intros r. apply IH; [exact Hwf | cbn [depth] in Hf; lia].
  - intros t IH Hwf fuel rest Hf. destruct fuel as [|f]; [lia|]. cbn [parse_ty].
    apply tptr_ok. intros r. apply IH; [exact Hwf | cbn [depth] in Hf; lia].
Qed.
