(* C05 — property theorems only: the leaf parsers invert the leaf printers. *)
From SwayV Require Import Base.Util C05.Model C05.Spec C05.Proofs C05.ProofsTy.
Open Scope N_scope.

(* string constants, every byte string: escapes \xHH for everything outside the printable set *)
Theorem C05_parse_print_string : forall bs rest, wf_bytes bs ->
  parse_str (print_str bs ++ rest) = Some (bs, rest).
Proof. exact parse_print_string. Qed.
Print Assumptions C05_parse_print_string.

(* integer constants: u64 decimal (u8/u64 constants, array lengths, string<n>) *)
Theorem C05_parse_print_const_uint : forall n rest, n < 2 ^ 64 -> no_digit_ahead rest ->
  parse_dec (print_dec n ++ rest) = Ok (n, rest).
Proof. exact parse_print_dec. Qed.
Print Assumptions C05_parse_print_const_uint.

(* u256 / b256 constants: 0x + 64 lower-case hex digits, big endian, leading zeros kept *)
Theorem C05_parse_print_const_hex256 : forall n rest, n < 2 ^ 256 ->
  parse_hex256 (print_hex256 n ++ rest) = Some (n, rest).
Proof. exact parse_print_hex256. Qed.
Print Assumptions C05_parse_print_const_hex256.

(* type syntax: arrays, structs (also empty), unions, __ptr, __slice[..], string<n>, scalars;
   any fuel above the nesting depth; trailing whitespace is consumed as the grammar's `_` does *)
Theorem C05_parse_print_type : forall t, wf_ty t -> forall fuel rest, (depth t < fuel)%nat ->
  parse_ty fuel (print_ty t ++ rest) = Some (t, skip_ws rest).
Proof. exact parse_print_type. Qed.
Print Assumptions C05_parse_print_type.

(* Non-vacuity *)
Example C05_example_string : parse_str (print_str [0; 65; 34; 92; 255; 126; 127]) = Some ([0; 65; 34; 92; 255; 126; 127], []).
Proof. vm_compute. reflexivity. Qed.
Example C05_example_print_string : print_str [65; 34; 10] = [34; 65; 92; 120; 50; 50; 92; 120; 48; 97; 34].
Proof. vm_compute. reflexivity. Qed.
Example C05_example_type :
  let t := TStruct [TU64; TArray (TUnion [TBool; TStruct []; TTypedPtr TU8]) 12; TStringArr 3; TTypedSlice TB256] in
  wf_ty t /\ parse_ty 5 (print_ty t) = Some (t, []).
Proof. split; [|vm_compute; reflexivity]. cbn. repeat split; try discriminate; reflexivity. Qed.
(* a number that does not fit u64 makes the real parser panic (parse::<u64>().unwrap()); modelled as Panic *)
Example C05_example_dec_panic : parse_dec [49;56;52;52;54;55;52;52;48;55;51;55;48;57;53;53;49;54;49;54] = Panic 1.
Proof. vm_compute. reflexivity. Qed.
