(* C01.Proofs2 — `!`, b256 and bool operators, and the assembled refinement theorem. *)
From Coq Require Import NArith ZArith List Bool Lia ZifyBool ZifyN.
From SwayV Require Import Vm.Alu Vm.AluProofs Frag.Syntax Frag.Sem Frag.Lemmas C01.OpsAst Generated.C01Facts C01.OpsSw C01.Proofs.
Import ListNotations.
Local Open Scope N_scope.
Ltac Zify.zify_post_hook ::= Z.div_mod_to_equations.
Local Arguments alu64 : simpl never.
Local Arguments N.sub : simpl never.
Local Arguments N.pow : simpl never.
Local Arguments N.land : simpl never.
Local Arguments N.lor : simpl never.
Local Arguments N.lxor : simpl never.
Local Arguments N.eqb : simpl never.
Local Arguments N.ltb : simpl never.
Local Arguments N.leb : simpl never.
Local Arguments wide_op : simpl never.
Local Arguments wide_cmp : simpl never.
Local Arguments vm_not : simpl never.

Lemma not_masked n a : n <= 64 -> a < 2 ^ n -> N.land (vm_not a) (N.ones n) = 2 ^ n - 1 - a.
Proof.
  intros Hn Ha.
  assert (a < 2 ^ 64) as Ha64 by (eapply N.lt_le_trans; [exact Ha|apply N.pow_le_mono_r; [discriminate|exact Hn]]).
  rewrite not_ok by exact Ha64. rewrite N.land_ones.
  replace 64 with (n + (64 - n)) by lia. rewrite N.pow_add_r.
  pose proof (pow2_pos n) as Hp. pose proof (pow2_pos (64 - n)) as Hq.
  replace (2 ^ n * 2 ^ (64 - n) - 1 - a) with ((2 ^ n - 1 - a) + (2 ^ (64 - n) - 1) * 2 ^ n) by nia.
  rewrite N.mod_add by lia. apply N.mod_small. lia.
Qed.

Lemma not_refines w a : a < wmod w ->
  classify (run_not w a default_flags) = Some (AVal (arith_not w a)).
Proof.
  intros Ha. unfold arith_not, run_not.
  destruct w; unfold wmod in *; cbn [bits] in *; cbn [impl_not]; cbn.
  - rewrite a_and. cbn. change 255 with (N.ones 8). rewrite not_masked by (try exact Ha; discriminate). reflexivity.
  - rewrite a_and. cbn. change 65535 with (N.ones 16). rewrite not_masked by (try exact Ha; discriminate). reflexivity.
  - rewrite a_and. cbn. change 4294967295 with (N.ones 32). rewrite not_masked by (try exact Ha; discriminate). reflexivity.
  - rewrite not_ok by exact Ha. reflexivity.
  - unfold wq_op, wval. rewrite wide_not_ok by exact Ha. reflexivity.
Qed.

(* b256: the same wide instructions as u256 *)
Lemma b256_refines op a b : a < wmod W256 -> b < wmod W256 ->
  match impl_b256 op with
  | Some _ => classify (run_b256 op a b default_flags) = Some (arith op W256 a b)
  | None => True
  end.
Proof.
  intros Ha Hb. destruct op; cbn [impl_b256]; try exact I; unfold run_b256, arith; cbn [impl_b256]; cbn;
    unfold wq_op, wq_cmp, wval;
    repeat first [rewrite wide_cmp_eq | rewrite wide_cmp_lt | rewrite wide_cmp_gt];
    cbn; repeat rewrite a_eq; cbn; unfold b2n;
    destruct (N.eqb_spec a b); destruct (N.ltb_spec a b); destruct (N.ltb_spec b a);
    destruct (N.leb_spec a b); destruct (N.leb_spec b a); cbn; try lia; try reflexivity;
    repeat rewrite a_eq; cbn; unfold b2n;
    repeat match goal with |- context [?x =? ?y] => destruct (N.eqb_spec x y) end; cbn; try lia; try reflexivity.
Qed.

Lemma not_b256_refines a : a < wmod W256 ->
  classify (ieval default_flags (IVal true a) IBad [] impl_not_b256) = Some (AVal (arith_not W256 a)).
Proof.
  intros Ha. unfold arith_not, wmod in *. cbn [bits] in *. cbn. unfold wq_op, wval.
  rewrite wide_not_ok by exact Ha. reflexivity.
Qed.

(* bool: !, ==, != on 0/1 *)
Lemma bool_refines x y :
  classify (ieval default_flags (IVal false (b2n x)) IBad [] impl_not_bool) = Some (AVal (b2n (negb x))) /\
  classify (ieval default_flags (IVal false (b2n x)) (IVal false (b2n y)) [] impl_eq_bool) = Some (AVal (b2n (Bool.eqb x y))) /\
  classify (ieval default_flags (IVal false (b2n x)) (IVal false (b2n y)) [] impl_ne_bool) = Some (AVal (b2n (negb (Bool.eqb x y)))).
Proof. destruct x, y; repeat split. Qed.

(* the generated max() constants are the documented ones *)
Lemma max_of_spec w : max_of w = wmod w - 1.
Proof. destruct w; reflexivity. Qed.

Definition in_range (w : width) (n : N) : Prop := n < wmod w.

Theorem opssw_refines_frag : forall op w a b,
  in_range w a -> in_range (rhs_width op w) b ->
  classify (run op w a b default_flags) = Some (arith op w a b).
Proof.
  intros op w a b Ha Hb. unfold in_range in *.
  destruct op; cbn [rhs_width] in Hb.
  - apply add_refines; assumption.
  - apply sub_refines; assumption.
  - apply mul_refines; assumption.
  - apply div_refines; assumption.
  - apply mod_refines; assumption.
  - apply bitwise_refines; auto.
  - apply bitwise_refines; auto.
  - apply bitwise_refines; auto.
  - apply shl_refines; assumption.
  - apply shr_refines; assumption.
  - apply cmp_refines; auto.
  - apply cmp_refines; auto.
  - apply cmp_refines; auto.
  - apply cmp_refines; auto.
  - apply cmp_refines; auto.
  - apply cmp_refines; auto.
Qed.

(* observable form: what forc-test shows for the std operator = what it shows for the reference rule *)
Definition obs_ires (r : ires) : option (option N * N) :=
  match r with
  | IVal _ n => Some (None, n)
  | IRevert c => Some (Some c, 0)
  | IPanic _ => Some (Some 0, 0)      (* forc-test: interpreter error = Revert(0) *)
  | IBad => None
  end.
Definition obs_ares (r : ares) : option N * N :=
  match r with AVal n => (None, n) | APanic k => (Some (code_of k), 0) end.

Corollary opssw_observable : forall op w a b,
  in_range w a -> in_range (rhs_width op w) b ->
  obs_ires (run op w a b default_flags) = Some (obs_ares (arith op w a b)).
Proof.
  intros op w a b Ha Hb. pose proof (opssw_refines_frag op w a b Ha Hb) as H.
  destruct (run op w a b default_flags) as [wd n|c|r|]; cbn in H; try discriminate.
  - inversion H. reflexivity.
  - destruct c; [|discriminate]. inversion H. reflexivity.
  - destruct r; inversion H; reflexivity.
Qed.
