(* C01.Model — the executable models of C01: the interpreter of the ops.sw operator impls (C01.OpsSw over
   Vm.Alu, bodies regenerated into Generated.C01Facts) and the reference semantics Frag.  NO proofs. *)
From SwayV Require Export Frag.Syntax Frag.Sem Frag.Typing Frag.Encode C01.OpsAst C01.OpsSw.
