(* C01.Spec — what C01 decides.
   (1) operator layer: for every operand in range the std impl (as a sequence of VM instructions) gives
       the documented result or the documented revert: `classify (run op w a b default_flags) = Some (arith op w a b)`.
   (2) whole pipeline (sampled, judged by C01.Judge): the observation of the compiled program on the VM
       equals `observe (eval FUEL p)`. *)
From Coq Require Import NArith List.
From SwayV Require Import C01.Model.
Local Open Scope N_scope.

Definition in_range (w : width) (n : N) : Prop := n < wmod w.

(* the pipeline oracle: the VM observation o is the prescribed one *)
Definition prescribed (fuel : nat) (p : prog) (o : observation) : Prop :=
  observe (eval fuel p) = Some o.
