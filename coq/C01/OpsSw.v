(* C01.OpsSw — M (partial): what each operator impl of sway-lib-std/src/ops.sw computes, as the
   sequence of intrinsics it executes over the FuelVM ALU (Vm.Alu).  The impl bodies themselves are
   Generated.C01Facts (re-read from ops.sw on every run); this file is their interpreter.
   NO proofs here. *)
From Coq Require Import NArith List Bool.
From SwayV Require Import Vm.Alu Frag.Syntax Frag.Sem C01.OpsAst Generated.C01Facts.
Import ListNotations.
Local Open Scope N_scope.

(* a value in a register (wide = false) or a 256-bit value in memory (wide = true),
   a `__revert(c)`, a VM panic, or an ill-formed program *)
Inductive ires := IVal (wide : bool) (n : N) | IRevert (c : N) | IPanic (r : panic_reason) | IBad.

Definition alu64 (fl : flags) (op : op64) (a b : N) : Alu.outcome N := omap res (exec64 fl op a b).

Definition lift (wide : bool) (o : Alu.outcome N) : ires :=
  match o with Val n => IVal wide n | VmPanic r => IPanic r end.

(* compile_binary_op: one VM instruction per intrinsic *)
Definition op64_of (o : iop) : op64 :=
  match o with
  | IAdd => ADD | ISub => SUB | IMul => MUL | IDiv => DIV | IMod => MOD | IAnd => AND | IOr => OR
  | IXor => XOR | ILsh => SLL | IRsh => SRL | IEq => EQ | IGt => GT | ILt => LT
  end.

(* compile_wide_binary_op / compile_wide_modular_op / compile_wide_cmp_op *)
Definition wide_bin (fl : flags) (o : iop) (a b : N) : ires :=
  match o with
  | IAdd => lift true (wval (wq_op fl MADD a b))
  | ISub => lift true (wval (wq_op fl MSUB a b))
  | IMul => lift true (wval (wq_mul fl a b))
  | IDiv => lift true (wval (wq_div fl a b))
  | IMod => lift true (wval (wq_addmod fl a 0 b))      (* misc-demotion: a % b = WQAM a 0 b *)
  | IAnd => lift true (wval (wq_op fl MAND a b))
  | IOr => lift true (wval (wq_op fl MOR a b))
  | IXor => lift true (wval (wq_op fl MXOR a b))
  | IEq => IVal false (wq_cmp CEQ a b)
  | IGt => IVal false (wq_cmp CGT a b)
  | ILt => IVal false (wq_cmp CLT a b)
  | ILsh | IRsh => IBad
  end.

Definition ibin (fl : flags) (o : iop) (x y : ires) : ires :=
  match x, y with
  | IVal false a, IVal false b => lift false (alu64 fl (op64_of o) a b)
  | IVal true a, IVal true b => wide_bin fl o a b
  | IVal true a, IVal false b =>
      match o with
      | ILsh => lift true (wval (wq_op fl MSHL a b))
      | IRsh => lift true (wval (wq_op fl MSHR a b))
      | _ => IBad
      end
  | IVal false _, IVal true _ => IBad
  | IVal _ _, r => r
  | r, _ => r
  end.

Definition is256 (w : width) : bool := match w with W256 => true | _ => false end.

Fixpoint ieval (fl : flags) (self other : ires) (env : list ires) (e : iexp) : ires :=
  match e with
  | XSelf => self
  | XOther => other
  | XVar i => nth i env IBad
  | XLit n => IVal false n
  | XMax w => IVal (is256 w) (max_of w)
  | XBin o a b => ibin fl o (ieval fl self other env a) (ieval fl self other env b)
  | XNot a =>
      match ieval fl self other env a with
      | IVal false x => IVal false (vm_not x)
      | IVal true x => lift true (wval (wq_op fl MNOT x 0))
      | r => r
      end
  | XCast a => ieval fl self other env a
  | XLet a body =>
      match ieval fl self other env a with
      | IVal w x => ieval fl self other (IVal w x :: env) body
      | r => r
      end
  | XIf c t e =>
      match ieval fl self other env c with
      | IVal false n => if n =? 0 then ieval fl self other env e else ieval fl self other env t
      | IVal true _ => IBad
      | r => r
      end
  | XOrElse a b =>
      match ieval fl self other env a with
      | IVal false n => if n =? 0 then ieval fl self other env b else IVal false 1
      | IVal true _ => IBad
      | r => r
      end
  | XPanicOnOverflow => IVal false (b2n (negb (wrapping fl)))
  | XRevert c => IRevert c
  end.

Definition shift_op (op : binop) : bool := match op with Shl | Shr => true | _ => false end.

(* `self op other` at width w: the impl of ops.sw for that type *)
Definition run (op : binop) (w : width) (a b : N) (fl : flags) : ires :=
  match impl op w with
  | Some e => ieval fl (IVal (is256 w) a) (IVal (if shift_op op then false else is256 w) b) [] e
  | None => IBad
  end.

Definition run_not (w : width) (a : N) (fl : flags) : ires :=
  match impl_not w with
  | Some e => ieval fl (IVal (is256 w) a) IBad [] e
  | None => IBad
  end.

Definition run_b256 (op : binop) (a b : N) (fl : flags) : ires :=
  match impl_b256 op with
  | Some e => ieval fl (IVal true a) (IVal true b) [] e
  | None => IBad
  end.

(* what the result means in the terms of the reference semantics *)
Definition classify (r : ires) : option ares :=
  match r with
  | IVal _ n => Some (AVal n)
  | IRevert 0 => Some (APanic COverflow)
  | IRevert _ => None
  | IPanic ArithmeticOverflow => Some (APanic COverflow)
  | IPanic ArithmeticError => Some (APanic CDivZero)
  | IBad => None
  end.
