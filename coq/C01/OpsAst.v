(* C01.OpsAst — the little language in which tools/facts_c01.py re-expresses, on every run, the
   operator impls of sway-lib-std/src/ops.sw (Generated/C01Facts.v).  NO proofs here. *)
From Coq Require Import NArith List Bool.
From SwayV Require Import Frag.Syntax.
Import ListNotations.

(* the binary intrinsics used by ops.sw: __add __sub __mul __div __mod __and __or __xor __lsh __rsh __eq __gt __lt *)
Inductive iop := IAdd | ISub | IMul | IDiv | IMod | IAnd | IOr | IXor | ILsh | IRsh | IEq | IGt | ILt.

Inductive iexp :=
| XSelf
| XOther
| XVar (i : nat)                      (* let-bound, de Bruijn index *)
| XLit (n : N)                        (* integer literal / true / false *)
| XMax (w : width)                    (* uN::max(), Self::max() *)
| XBin (op : iop) (a b : iexp)
| XNot (a : iexp)                     (* __not *)
| XCast (a : iexp)                    (* __transmute::<A, B>, u8_as_u64, u64_as_u8: the register is unchanged *)
| XLet (a : iexp) (body : iexp)
| XIf (c t e : iexp)
| XOrElse (a b : iexp)                (* a || b *)
| XPanicOnOverflow                    (* panic_on_overflow_enabled(): __eq(__and(flags(), F_WRAPPING_DISABLE_MASK), 0) *)
| XRevert (n : N).                    (* __revert(n) *)
