(* C01.Judge — compare what the VM did with what the reference semantics prescribes. *)
From Coq Require Import NArith List Bool.
From SwayV Require Import Frag.Syntax Frag.Sem Frag.Typing Frag.Encode.
Import ListNotations.
Local Open Scope N_scope.

Definition optn_eqb (a b : option N) : bool :=
  match a, b with
  | None, None => true
  | Some x, Some y => x =? y
  | _, _ => false
  end.

Fixpoint logs_eqb (a b : list (N * N)) : bool :=
  match a, b with
  | [], [] => true
  | (l1, n1) :: a', (l2, n2) :: b' => (l1 =? l2) && (n1 =? n2) && logs_eqb a' b'
  | _, _ => false
  end.

Definition obs_eqb (a b : observation) : bool :=
  optn_eqb (ob_revert a) (ob_revert b) && logs_eqb (ob_logs a) (ob_logs b).

(* codes: 0 agree | 1 final state differs | 2 logs differ | 3 reference out of fuel
          4 reference Stuck or program ill-typed (generator defect) | 5 the reference run indexes an
          array out of bounds (known finding: no run-time bounds check) — not compared.
   The expected observation is returned with the code (for the report / the minimiser). *)
Definition is_oob (o : outcome) : bool :=
  match o with Revert COob _ => true | _ => false end.

Definition expected (e : observation) : option N * list (N * N) := (ob_revert e, ob_logs e).

Definition judge (fuel : nat) (p : prog) (o : observation) : N * (option N * list (N * N)) :=
  if negb (tc_prog p) then (4, (None, []))
  else
    let r := eval fuel p in
    match observe r with
    | None => (match r with OutOfFuel => 3 | _ => 4 end, (None, []))
    | Some e =>
        if is_oob r then (5, expected e)
        else if negb (optn_eqb (ob_revert e) (ob_revert o)) then (1, expected e)
        else if negb (logs_eqb (ob_logs e) (ob_logs o)) then (2, expected e)
        else (0, (None, []))
    end.

Definition mkobs (r : option N) (l : list (N * N)) : observation := {| ob_revert := r; ob_logs := l |}.

Definition FUEL : nat := 4000.
