(* C01.Proofs — the operator impls of ops.sw (as regenerated from source) compute the documented
   arithmetic of Frag.Sem.arith, for every operand in range. *)
From Coq Require Import NArith ZArith List Bool Lia ZifyBool ZifyN.
From SwayV Require Import Vm.Alu Vm.AluProofs Frag.Syntax Frag.Sem Frag.Lemmas C01.OpsAst Generated.C01Facts C01.OpsSw.
Import ListNotations.
Local Open Scope N_scope.
Ltac Zify.zify_post_hook ::= Z.div_mod_to_equations.

(* ---- the 64-bit ALU under default flags, in the shape ieval produces ---------------------- *)
Lemma a_add_ok a b : a + b < 2 ^ 64 -> alu64 default_flags ADD a b = Val (a + b).
Proof. exact (add_ok a b). Qed.
Lemma a_add_ov a b : 2 ^ 64 <= a + b -> alu64 default_flags ADD a b = VmPanic ArithmeticOverflow.
Proof. exact (add_overflow a b). Qed.
Lemma a_sub_ok a b : b <= a -> a < 2 ^ 64 -> alu64 default_flags SUB a b = Val (a - b).
Proof. exact (sub_ok a b). Qed.
Lemma a_sub_ov a b : a < b -> b < 2 ^ 64 -> alu64 default_flags SUB a b = VmPanic ArithmeticOverflow.
Proof. exact (sub_overflow a b). Qed.
Lemma a_mul_ok a b : a * b < 2 ^ 64 -> alu64 default_flags MUL a b = Val (a * b).
Proof. exact (mul_ok a b). Qed.
Lemma a_mul_ov a b : 2 ^ 64 <= a * b -> alu64 default_flags MUL a b = VmPanic ArithmeticOverflow.
Proof. exact (mul_overflow a b). Qed.
Lemma a_div_ok a b : b <> 0 -> alu64 default_flags DIV a b = Val (a / b).
Proof. exact (div_ok a b). Qed.
Lemma a_div_0 a : alu64 default_flags DIV a 0 = VmPanic ArithmeticError.
Proof. reflexivity. Qed.
Lemma a_mod_ok a b : b <> 0 -> alu64 default_flags MOD a b = Val (a mod b).
Proof. exact (mod_ok a b). Qed.
Lemma a_mod_0 a : alu64 default_flags MOD a 0 = VmPanic ArithmeticError.
Proof. reflexivity. Qed.
Lemma a_and a b : alu64 default_flags AND a b = Val (N.land a b). Proof. reflexivity. Qed.
Lemma a_or a b : alu64 default_flags OR a b = Val (N.lor a b). Proof. reflexivity. Qed.
Lemma a_xor a b : alu64 default_flags XOR a b = Val (N.lxor a b). Proof. reflexivity. Qed.
Lemma a_eq a b : alu64 default_flags EQ a b = Val (b2n (a =? b)).
Proof. unfold b2n. exact (eq_ok a b). Qed.
Lemma a_lt a b : alu64 default_flags LT a b = Val (b2n (a <? b)).
Proof. unfold b2n. exact (lt_ok a b). Qed.
Lemma a_gt a b : alu64 default_flags GT a b = Val (b2n (b <? a)).
Proof. unfold b2n. exact (gt_ok a b). Qed.
Lemma a_srl a c : a < 2 ^ 64 -> alu64 default_flags SRL a c = Val (a / 2 ^ c).
Proof. exact (srl_any a c). Qed.
Lemma a_sll_ok a c : c < 64 -> alu64 default_flags SLL a c = Val ((a * 2 ^ c) mod 2 ^ 64).
Proof. exact (sll_ok a c). Qed.
Lemma a_sll_big a c : 64 <= c -> alu64 default_flags SLL a c = Val 0.
Proof. exact (sll_big a c). Qed.

Lemma b2n_eq0 x : (b2n x =? 0) = negb x.
Proof. destruct x; reflexivity. Qed.

(* ---- shifts: dropping bits above a narrower width ------------------------------------------- *)
Lemma mod_mod_pow a m n : n <= m -> (a mod 2 ^ m) mod 2 ^ n = a mod 2 ^ n.
Proof.
  intros H. replace m with (n + (m - n)) by lia. rewrite N.pow_add_r.
  rewrite N.mod_mul_r by (apply N.pow_nonzero; discriminate).
  rewrite N.mul_comm, N.mod_add by (apply N.pow_nonzero; discriminate).
  apply N.mod_mod. apply N.pow_nonzero. discriminate.
Qed.

Lemma shl_out a n c : n <= c -> (a * 2 ^ c) mod 2 ^ n = 0.
Proof.
  intros H. replace c with ((c - n) + n) by lia. rewrite N.pow_add_r, N.mul_assoc.
  apply N.mod_mul. apply N.pow_nonzero. discriminate.
Qed.

Lemma shl_masked n a c : n <= 64 ->
  N.land (match alu64 default_flags SLL a c with Val r => r | VmPanic _ => 0 end) (N.ones n)
  = if c <? n then (a * 2 ^ c) mod 2 ^ n else 0.
Proof.
  intros Hn. rewrite N.land_ones.
  destruct (N.ltb_spec c 64) as [Hc|Hc].
  - rewrite a_sll_ok by exact Hc. rewrite mod_mod_pow by exact Hn.
    destruct (N.ltb_spec c n) as [H|H]; [reflexivity|]. apply shl_out. exact H.
  - rewrite a_sll_big by exact Hc. rewrite N.mod_0_l by (apply N.pow_nonzero; discriminate).
    destruct (N.ltb_spec c n); [lia|reflexivity].
Qed.

Lemma shr_narrow n a c : a < 2 ^ n -> (if c <? n then a / 2 ^ c else 0) = a / 2 ^ c.
Proof.
  intros Ha. destruct (N.ltb_spec c n) as [H|H]; [reflexivity|].
  symmetry. eapply div_pow2_big; eauto.
Qed.

(* ---- the refinement ---------------------------------------------------------------------------- *)
Local Arguments alu64 : simpl never.
Local Arguments N.add : simpl never.
Local Arguments N.mul : simpl never.
Local Arguments N.sub : simpl never.
Local Arguments N.div : simpl never.
Local Arguments N.modulo : simpl never.
Local Arguments N.eqb : simpl never.
Local Arguments N.ltb : simpl never.
Local Arguments N.leb : simpl never.
Local Arguments N.pow : simpl never.
Local Arguments N.land : simpl never.
Local Arguments N.lor : simpl never.
Local Arguments N.lxor : simpl never.
Local Arguments N.ones : simpl never.
Local Arguments wide_op : simpl never.
Local Arguments wide_mul : simpl never.
Local Arguments wide_div : simpl never.
Local Arguments wide_addmod : simpl never.
Local Arguments wide_cmp : simpl never.
Local Arguments vm_not : simpl never.

Definition P256 : N := 115792089237316195423570985008687907853269984665640564039457584007913129639936.
Lemma P256_eq : 2 ^ 256 = P256. Proof. reflexivity. Qed.

Ltac pw :=
  change (2 ^ 8) with 256 in *; change (2 ^ 16) with 65536 in *;
  change (2 ^ 32) with 4294967296 in *; change (2 ^ 64) with 18446744073709551616 in *.

Ltac norm := unfold wmod in *; cbn [bits rhs_width] in *; pw.

Ltac start := unfold run, run_not, run_b256; cbn [impl impl_not impl_b256]; cbn;
              unfold wq_op, wq_mul, wq_div, wq_addmod, wq_cmp, wval.

Ltac fin := cbn; try rewrite b2n_eq0; cbn; try reflexivity.

Lemma max_vals : max_of W8 = 255 /\ max_of W16 = 65535 /\ max_of W32 = 4294967295
  /\ max_of W64 = 18446744073709551615 /\ max_of W256 = 2 ^ 256 - 1.
Proof. repeat split. Qed.

Lemma add_refines w a b : a < wmod w -> b < wmod w ->
  classify (run Add w a b default_flags) = Some (arith Add w a b).
Proof.
  intros Ha Hb. unfold arith.
  destruct w; norm; start.
  1-3: rewrite a_add_ok by (pw; lia); cbn; rewrite a_gt; cbn; rewrite b2n_eq0;
       match goal with |- context [?m <? ?x + ?y] => destruct (N.ltb_spec m (x + y)) end; cbn;
       match goal with |- context [?x + ?y <? ?m] => destruct (N.ltb_spec (x + y) m) end; try lia; reflexivity.
  - destruct (N.ltb_spec (a + b) 18446744073709551616) as [H|H].
    + rewrite a_add_ok by (pw; lia). reflexivity.
    + rewrite a_add_ov by (pw; lia). reflexivity.
  - destruct (N.ltb_spec (a + b) (2 ^ 256)) as [H|H].
    + rewrite wide_add_ok by exact H. reflexivity.
    + rewrite wide_add_overflow by exact H. reflexivity.
Qed.

Lemma sub_refines w a b : a < wmod w -> b < wmod w ->
  classify (run Sub w a b default_flags) = Some (arith Sub w a b).
Proof.
  intros Ha Hb. unfold arith.
  destruct w; norm; start.
  1-3: destruct (N.leb_spec b a) as [H|H];
       [ rewrite a_sub_ok by (pw; lia); cbn; rewrite a_gt; cbn; rewrite b2n_eq0;
         match goal with |- context [?m <? ?x - ?y] => destruct (N.ltb_spec m (x - y)) end; cbn; try lia; reflexivity
       | rewrite a_sub_ov by (pw; lia); reflexivity ].
  - destruct (N.leb_spec b a) as [H|H].
    + rewrite a_sub_ok by (pw; lia). reflexivity.
    + rewrite a_sub_ov by (pw; lia). reflexivity.
  - destruct (N.leb_spec b a) as [H|H].
    + rewrite wide_sub_ok by exact H. reflexivity.
    + rewrite wide_sub_overflow by exact H. reflexivity.
Qed.

Lemma mul_refines w a b : a < wmod w -> b < wmod w ->
  classify (run Mul w a b default_flags) = Some (arith Mul w a b).
Proof.
  intros Ha Hb. unfold arith.
  destruct w; norm; start.
  1-3: rewrite a_mul_ok by (pw; nia); cbn; rewrite a_gt; cbn; rewrite b2n_eq0;
       match goal with |- context [?m <? ?x * ?y] => destruct (N.ltb_spec m (x * y)) end; cbn;
       match goal with |- context [?x * ?y <? ?m] => destruct (N.ltb_spec (x * y) m) end; try lia; reflexivity.
  - destruct (N.ltb_spec (a * b) 18446744073709551616) as [H|H].
    + rewrite a_mul_ok by (pw; lia). reflexivity.
    + rewrite a_mul_ov by (pw; lia). reflexivity.
  - destruct (N.ltb_spec (a * b) (2 ^ 256)) as [H|H].
    + rewrite wide_mul_ok by exact H. reflexivity.
    + rewrite wide_mul_overflow by exact H. reflexivity.
Qed.

Lemma div_refines w a b : a < wmod w -> b < wmod w ->
  classify (run Div w a b default_flags) = Some (arith Div w a b).
Proof.
  intros Ha Hb. unfold arith.
  destruct w; norm; start; destruct (N.eqb_spec b 0) as [->|H].
  1,3,5,7: rewrite a_div_0; reflexivity.
  1-4: rewrite a_div_ok by exact H; reflexivity.
  - reflexivity.
  - rewrite wide_div_ok by exact H. reflexivity.
Qed.

Lemma mod_refines w a b : a < wmod w -> b < wmod w ->
  classify (run Mod w a b default_flags) = Some (arith Mod w a b).
Proof.
  intros Ha Hb. unfold arith.
  destruct w; norm; start; destruct (N.eqb_spec b 0) as [->|H].
  1,3,5,7: rewrite a_mod_0; reflexivity.
  1-4: rewrite a_mod_ok by exact H; reflexivity.
  - reflexivity.
  - rewrite wide_addmod_ok by exact H. rewrite N.add_0_r. reflexivity.
Qed.

Lemma bitwise_refines op w a b : (op = BAnd \/ op = BOr \/ op = BXor) -> a < wmod w -> b < wmod w ->
  classify (run op w a b default_flags) = Some (arith op w a b).
Proof.
  intros Hop Ha Hb. destruct Hop as [->|[->| ->]]; unfold arith; destruct w; start; reflexivity.
Qed.

Lemma shl_ibin n a b : n <= 64 ->
  classify (ibin default_flags IAnd (lift false (alu64 default_flags SLL a b)) (IVal false (N.ones n)))
  = Some (AVal (if b <? n then (a * 2 ^ b) mod 2 ^ n else 0)).
Proof.
  intros Hn. destruct (N.ltb_spec b 64) as [H|H].
  - rewrite a_sll_ok by exact H. cbn. rewrite a_and. cbn. rewrite N.land_ones, mod_mod_pow by exact Hn.
    destruct (N.ltb_spec b n) as [H1|H1]; [reflexivity|]. rewrite shl_out by exact H1. reflexivity.
  - rewrite a_sll_big by exact H. cbn. rewrite a_and. cbn. rewrite N.land_0_l.
    destruct (N.ltb_spec b n); [lia|reflexivity].
Qed.

Lemma shl_refines w a b : a < wmod w -> b < wmod W64 ->
  classify (run Shl w a b default_flags) = Some (arith Shl w a b).
Proof.
  intros Ha Hb. unfold arith.
  destruct w; unfold wmod in *; cbn [bits] in *; start.
  - change 255 with (N.ones 8). apply shl_ibin. discriminate.
  - change 65535 with (N.ones 16). apply shl_ibin. discriminate.
  - change 4294967295 with (N.ones 32). apply shl_ibin. discriminate.
  - destruct (N.ltb_spec b 64) as [H|H].
    + rewrite a_sll_ok by exact H. reflexivity.
    + rewrite a_sll_big by exact H. reflexivity.
  - destruct (N.ltb_spec b 256) as [H|H].
    + rewrite wide_shl_ok by (first [exact H | (eapply N.lt_trans; [exact H|reflexivity])]). reflexivity.
    + rewrite wide_shl_big by exact H. reflexivity.
Qed.

Lemma shr_refines w a b : a < wmod w -> b < wmod W64 ->
  classify (run Shr w a b default_flags) = Some (arith Shr w a b).
Proof.
  intros Ha Hb. unfold arith.
  destruct w; unfold wmod in *; cbn [bits] in *; start.
  1-4: rewrite a_srl by (eapply N.lt_le_trans; [exact Ha|apply N.pow_le_mono_r; [discriminate|discriminate]]);
       cbn; rewrite shr_narrow by exact Ha; reflexivity.
  - rewrite wide_shr_any by (try exact Ha; discriminate). cbn. rewrite shr_narrow by exact Ha. reflexivity.
Qed.

Lemma cmp_refines op w a b : is_cmp op = true -> a < wmod w -> b < wmod w ->
  classify (run op w a b default_flags) = Some (arith op w a b).
Proof.
  intros Hop Ha Hb. destruct op; try discriminate; unfold arith; destruct w; start;
    repeat first [rewrite a_eq | rewrite a_lt | rewrite a_gt | rewrite wide_cmp_eq | rewrite wide_cmp_lt | rewrite wide_cmp_gt];
    cbn; repeat rewrite a_eq; cbn; unfold b2n;
    destruct (N.eqb_spec a b); destruct (N.ltb_spec a b); destruct (N.ltb_spec b a);
    destruct (N.leb_spec a b); destruct (N.leb_spec b a); cbn; try lia; try reflexivity;
    repeat rewrite a_eq; cbn; unfold b2n;
    repeat match goal with |- context [?x =? ?y] => destruct (N.eqb_spec x y) end; cbn; try lia; try reflexivity.
Qed.
