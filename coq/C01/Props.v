(* C01 — property theorems only. *)
From Coq Require Import NArith List Bool.
From SwayV Require Import Vm.Alu Frag.Syntax Frag.Sem Frag.Typing Frag.Lemmas Frag.Sound Frag.Mono Frag.Causes Frag.Encode
  C01.OpsAst Generated.C01Facts C01.OpsSw C01.Proofs C01.Proofs2 C01.Judge.
Import ListNotations.
Local Open Scope N_scope.

(* Frag: well-typed programs never get stuck (progress + preservation over the evaluator) *)
Theorem Frag_type_sound : forall n p, has_type p -> eval n p <> Stuck.
Proof. exact type_sound. Qed.
Print Assumptions Frag_type_sound.

(* Frag: more fuel never changes a result other than OutOfFuel *)
Theorem Frag_fuel_mono : forall n m p, (n <= m)%nat -> eval n p <> OutOfFuel -> eval m p = eval n p.
Proof. exact fuel_mono. Qed.
Print Assumptions Frag_fuel_mono.

(* Frag: a revert comes from a listed cause (overflow/underflow, division by zero, index out of bounds,
   assert, require, explicit revert) and the program text contains a construct able to raise it *)
Theorem Frag_reverts_only_listed : forall n p c lg, eval n p = Revert c lg -> ListedCause p c.
Proof. exact reverts_only_listed. Qed.
Print Assumptions Frag_reverts_only_listed.

(* ops.sw (regenerated from source) computes the documented arithmetic, for ALL operands:
   u8/u16/u32 range checks, u64, u256 widths; + - * / % & | ^ << >> == != < > <= >= *)
Theorem C01_opssw_refines_frag : forall op w a b,
  Proofs2.in_range w a -> Proofs2.in_range (rhs_width op w) b ->
  classify (run op w a b default_flags) = Some (arith op w a b).
Proof. exact opssw_refines_frag. Qed.
Print Assumptions C01_opssw_refines_frag.

Theorem C01_opssw_observable : forall op w a b,
  Proofs2.in_range w a -> Proofs2.in_range (rhs_width op w) b ->
  obs_ires (run op w a b default_flags) = Some (obs_ares (arith op w a b)).
Proof. exact opssw_observable. Qed.
Print Assumptions C01_opssw_observable.

Theorem C01_not_refines : forall w a, Proofs2.in_range w a ->
  classify (run_not w a default_flags) = Some (AVal (arith_not w a)).
Proof. exact not_refines. Qed.
Print Assumptions C01_not_refines.

Theorem C01_b256_refines : forall op a b, a < wmod W256 -> b < wmod W256 ->
  match impl_b256 op with
  | Some _ => classify (run_b256 op a b default_flags) = Some (arith op W256 a b)
  | None => True
  end.
Proof. exact b256_refines. Qed.
Print Assumptions C01_b256_refines.

(* facts regenerated from the sources agree with the constants used by the reference semantics *)
Example C01_facts_agree :
  failed_assert_signal = FAILED_ASSERT_SIGNAL /\ failed_require_signal = FAILED_REQUIRE_SIGNAL /\
  (forall w, max_of w = wmod w - 1).
Proof. repeat split. exact max_of_spec. Qed.

(* non-vacuity: u8 255 + 1 reverts, 200 + 55 = 255, u8 1 << 9 = 0, u256 max + 1 reverts, 7 / 0 reverts *)
Example C01_arith_examples :
  classify (run Add W8 255 1 default_flags) = Some (APanic COverflow) /\
  classify (run Add W8 200 55 default_flags) = Some (AVal 255) /\
  classify (run Shl W8 1 9 default_flags) = Some (AVal 0) /\
  classify (run Add W256 (wmod W256 - 1) 1 default_flags) = Some (APanic COverflow) /\
  classify (run Div W32 7 0 default_flags) = Some (APanic CDivZero) /\
  classify (run Sub W16 1 2 default_flags) = Some (APanic COverflow).
Proof. vm_compute. repeat split. Qed.

(* non-vacuity: a well-typed program with a loop, a call, a struct and a match; and one that reverts *)
Definition ex_prog : prog :=
  {| p_fns := [ {| fn_params := [TInt W8; TInt W8]; fn_ret := TInt W8;
                   fn_body := SReturn (EBin Add W8 (EVar 0) (EVar 1)) |} ];
     p_main :=
       SLet (ETup [EInt W64 0; EBool true])
       (SLet (EInt W64 0)
         (SSeq (SWhile (EBin Lt W64 (EVar 0) (EInt W64 3))
                  (SSeq (SAssign 0 [] (EBin Add W64 (EVar 0) (EInt W64 1)))
                        (SAssign 1 [AField 0] (EBin Add W64 (EProj (EVar 1) 0) (EVar 0)))))
         (SSeq (SLog (TInt W64) (EProj (EVar 1) 0))
         (SSeq (SMatch (EEnum [TInt W8; TTup []] 0 (EInt W8 200))
                  [(PEnum 0 QVar, SLog (TInt W8) (ECall 0 [EVar 0; EInt W8 55]));
                   (PEnum 1 QWild, SSkip)])
               (SLog (TInt W8) (ECall 0 [EInt W8 255; EInt W8 1])))))) |}.

Example C01_prog_example :
  has_type ex_prog /\
  observe (eval 100 ex_prog) =
    Some {| ob_revert := Some 0; ob_logs := [(8, 6); (1, 255)] |}.
Proof. vm_compute. split; reflexivity. Qed.
