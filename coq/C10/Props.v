(* C10 — property theorems only. *)
From SwayV Require Import Base.Util Layout.Bytes Layout.Types Layout.Abi Layout.Mem C10.Model C10.Spec C10.Proofs C09.Model C09.Proofs.
Local Open Scope N_scope.

(* Whenever is_encode_trivial::<T>() is true (primitive flags as generated from codec.sw, array/tuple
   impls, derived struct/enum bodies, the two mem ids compared structurally), the in-memory bytes of
   every well-typed value equal its canonical encoding.  Type trees of any depth. *)
Theorem C10_trivial_enc_sound : forall t, trivial_enc t = true -> enc_fast_path_sound t.
Proof. intros t H v Hw. exact (trivial_enc_sound t H v Hw). Qed.
Print Assumptions C10_trivial_enc_sound.

(* Whenever is_decode_trivial::<T>() is true, every byte pattern of size_of::<T>() bytes is the memory
   image and the canonical encoding of a well-typed value: copying bytes cannot fabricate an invalid
   bool or enum tag. *)
Theorem C10_trivial_dec_sound : forall t, trivial_dec t = true -> dec_fast_path_sound t.
Proof. intros t H b Hok Hl. exact (trivial_dec_sound t H b Hok Hl). Qed.
Print Assumptions C10_trivial_dec_sound.

(* The non-trivial path (BufferReader) never produces an invalid value: whatever it returns is
   well typed and the consumed bytes are exactly its canonical encoding... *)
Theorem C10_nontrivial_decode_rejects : forall t bs v rest,
  bytes_ok bs -> abi_decode t bs = Ok (v, rest) -> wtb t v = true /\ bs = enc t v ++ rest.
Proof. intros t bs v rest Hok H. destruct (decode_canonical_only t bs v rest Hok H) as [H1 [H2 _]]. now split. Qed.
Print Assumptions C10_nontrivial_decode_rejects.

(* ...in particular a bool byte other than 0/1 and an unknown enum tag revert. *)
Theorem C10_bad_bool_reverts : forall b rest, b <> 0 -> b <> 1 -> abi_decode ABool (b :: rest) = Err REVERT0.
Proof. exact bad_bool_reverts. Qed.
Print Assumptions C10_bad_bool_reverts.
Theorem C10_unknown_tag_reverts : forall ts tag rest,
  N.of_nat (length ts) <= tag -> tag < U64_MAX1 -> abi_decode (AEnum ts) (be_bytes 8 tag ++ rest) = Err REVERT0.
Proof. exact unknown_tag_reverts. Qed.
Print Assumptions C10_unknown_tag_reverts.

(* TrivialBool / TrivialEnum wrappers: unwrap reverts on an invalid discriminant. *)
Theorem C10_trivial_bool_unwrap_rejects : forall value,
  value <> 0 -> value <> 1 -> trivial_bool_unwrap value = Err REVERT_TRIVIAL_BOOL.
Proof. exact trivial_bool_unwrap_rejects. Qed.
Print Assumptions C10_trivial_bool_unwrap_rejects.
Theorem C10_trivial_enum_unknown_tag : forall ts d, N.of_nat (length ts) <= d -> trivial_enum_is_valid ts d = false.
Proof. exact trivial_enum_unknown_tag. Qed.
Print Assumptions C10_trivial_enum_unknown_tag.

(* The length of the runtime representation is the IR size (so the internal offset assertion of
   get_runtime_representation cannot fire), and the representation of an ABI type never panics. *)
Theorem C10_rt_repr_len_is_size : forall t, repr_len (rt_repr t) = size t.
Proof. exact rt_repr_len. Qed.
Print Assumptions C10_rt_repr_len_is_size.

(* Non-vacuity and boundary examples (u8/bool/str[N] padding, zero-sized variants). *)
Example C10_ex_trivial : map trivial_enc
  [ATuple [AU64; AArray AU8 8]; AStruct [AB256; AU64]; AEnum [AU64; AU64]; AEnum [AUnit; AUnit]; AArray ABool 4;
   ATuple [AU8]; ATuple [ABool]; AEnum [AUnit; AU64]; ATuple [AU64; AArray AU8 3]; AStrArr 8; ATuple [AU16]; AOption AU64]
  = [true; true; true; true; true; false; false; false; false; false; false; false].
Proof. vm_compute. reflexivity. Qed.
Example C10_ex_dec : map trivial_dec [AStruct [AB256; AU64]; AEnum [AU64; AU64]; AArray ABool 4; ABool; AArray AU8 3]
  = [true; false; false; false; true].
Proof. vm_compute. reflexivity. Qed.
Example C10_ex_image : mem_bytes (ir_of (AEnum [AU64; AU64])) (lower (AEnum [AU64; AU64]) (VEnum 1 (VNum 9)))
  = enc (AEnum [AU64; AU64]) (VEnum 1 (VNum 9)).
Proof. vm_compute. reflexivity. Qed.
Example C10_ex_padded_image : mem_bytes (ir_of (ATuple [AU8; AU64])) (lower (ATuple [AU8; AU64]) (VSeq [VNum 7; VNum 9]))
  <> enc (ATuple [AU8; AU64]) (VSeq [VNum 7; VNum 9]).
Proof. vm_compute. discriminate. Qed.
