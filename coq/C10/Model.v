(* C10 — model of the trivial-encoding classification.
   repr / repr_len                  MemoryRepresentation, len_in_bytes       (ir_generation/function.rs)
   rt_repr / rt_panics              get_runtime_representation (panics on IR u16/u32)
   enc_repr / enc_has_repr          get_encoding_representation (None for str, slices, pointers)
   ids_equal                        __runtime_mem_id::<T>() == __encoding_mem_id::<T>(): equality of the two
                                    64-bit DefaultHasher ids is MODELLED as structural equality of the trees
                                    (encoding id 0 when there is no encoding representation)
   trivial_enc / trivial_dec        is_encode_trivial / is_decode_trivial: primitive impls of codec.sw
                                    (generated flags), array impl, tuple impls and the derived struct/enum
                                    bodies of abi_encoding.rs                                              *)
From SwayV Require Import Base.Util Layout.Bytes Layout.Types Layout.Abi Layout.Mem Generated.LayoutFacts.
Local Open Scope N_scope.

Inductive repr :=
| RPad (n : N) | RBlob (n : N)
| RAnd (l : list repr) | ROr (l : list repr)
| RArr (r : repr) (n : N).

Fixpoint repr_len (r : repr) : N :=
  match r with
  | RPad n | RBlob n => n
  | RAnd l => (fix go (l : list repr) : N := match l with [] => 0 | x :: r => repr_len x + go r end) l
  | ROr l => (fix go (l : list repr) : N := match l with [] => 0 | x :: r => N.max (repr_len x) (go r) end) l
  | RArr r n => repr_len r * n
  end.
Fixpoint sum_len (l : list repr) : N := match l with [] => 0 | x :: r => repr_len x + sum_len r end.
Fixpoint max_len (l : list repr) : N := match l with [] => 0 | x :: r => N.max (repr_len x) (max_len r) end.

Fixpoint repr_eqb (a b : repr) : bool :=
  match a, b with
  | RPad x, RPad y | RBlob x, RBlob y => x =? y
  | RAnd l, RAnd m | ROr l, ROr m =>
    (fix go (l m : list repr) : bool :=
       match l, m with
       | [], [] => true
       | x :: l', y :: m' => repr_eqb x y && go l' m'
       | _, _ => false
       end) l m
  | RArr r n, RArr s k => repr_eqb r s && (n =? k)
  | _, _ => false
  end.

(* struct arm of get_runtime_representation: a field that does not end on a word boundary is
   grouped with its trailing padding *)
Fixpoint rt_fields (reps : list repr) (off : N) : list repr :=
  match reps with
  | [] => []
  | r :: rest =>
    let off' := off + repr_len r in
    if off' mod 8 =? 0 then r :: rt_fields rest off'
    else RAnd [r; RPad (round_up8 off' - off')] :: rt_fields rest (round_up8 off')
  end.

(* union arm: every variant left padded to the biggest one, plus the padding to the word *)
Definition rt_variants (items : list repr) : list repr :=
  let biggest := max_len items in
  let pad_word := round_up8 biggest - biggest in
  map (fun it => let total := pad_word + (biggest - repr_len it) in
                 if 0 <? total then RAnd [RPad total; it] else it) items.

Fixpoint rt_repr (t : ty) : repr :=
  match t with
  | TUnit => RAnd []
  | TBool | TU8 => RBlob 1
  | TU16 | TU32 => RBlob 8          (* the real function panics here: see rt_panics *)
  | TU64 | TPtr => RBlob 8
  | TU256 | TB256 => RBlob 32
  | TStruct ts => RAnd (rt_fields ((fix go (l : list ty) := match l with [] => [] | x :: r => rt_repr x :: go r end) ts) 0)
  | TUnion ts => ROr (rt_variants ((fix go (l : list ty) := match l with [] => [] | x :: r => rt_repr x :: go r end) ts))
  | TStrArray n =>
    if str_array_padded then (if n mod 8 =? 0 then RBlob n else RAnd [RBlob n; RPad (round_up8 n - n)])
    else RBlob n
  | TArray t n => RArr (rt_repr t) n
  | TSlice | TStrSlice => RBlob 16
  end.

Fixpoint rt_panics (t : ty) : bool :=
  match t with
  | TU16 | TU32 => true
  | TArray t _ => rt_panics t
  | TStruct ts | TUnion ts => (fix go (l : list ty) := match l with [] => false | x :: r => rt_panics x || go r end) ts
  | _ => false
  end.

Definition P_RT_U16_U32 : N := 1.
Definition rt_repr_o (t : ty) : outcome repr := if rt_panics t then Panic P_RT_U16_U32 else Ok (rt_repr t).

Fixpoint enc_repr (t : aty) : repr :=
  match t with
  | AUnit => RAnd []
  | ABool | AU8 => RBlob 1
  | AU16 => RBlob 2 | AU32 => RBlob 4 | AU64 => RBlob 8
  | AU256 | AB256 => RBlob 32
  | AStrArr n => RBlob n
  | AArray t n => RArr (enc_repr t) n
  | ATuple ts | AStruct ts => RAnd ((fix go (l : list aty) := match l with [] => [] | x :: r => enc_repr x :: go r end) ts)
  | AEnum ts =>
    let vs := (fix go (l : list aty) := match l with [] => [] | x :: r => enc_repr x :: go r end) ts in
    if forallb (fun v => repr_len v =? 0) vs then RAnd [RBlob 8] else RAnd [RBlob 8; ROr vs]
  | AStr | ARawSlice | ABytes | AString | AVec _ => RAnd []     (* no representation: see enc_has_repr *)
  end.

Fixpoint enc_has_repr (t : aty) : bool :=
  match t with
  | AStr | ARawSlice | ABytes | AString | AVec _ => false      (* str/slices: None; Vec/Bytes/String hold a raw_ptr: None *)
  | AArray t _ => enc_has_repr t
  | ATuple ts | AStruct ts | AEnum ts => (fix go (l : list aty) := match l with [] => true | x :: r => enc_has_repr x && go r end) ts
  | _ => true
  end.

Definition ids_equal (t : aty) : bool :=
  match rt_repr_o (ir_of t) with
  | Ok a => if enc_has_repr t then repr_eqb a (enc_repr t) else false
  | _ => false
  end.

Fixpoint trivial_enc (t : aty) : bool :=
  match t with
  | AUnit => enc_trivial_unit | ABool => enc_trivial_bool | AU8 => enc_trivial_u8 | AU16 => enc_trivial_u16
  | AU32 => enc_trivial_u32 | AU64 => enc_trivial_u64 | AU256 => enc_trivial_u256 | AB256 => enc_trivial_b256
  | AStrArr _ => enc_trivial_strarr | AStr => enc_trivial_str | ARawSlice => enc_trivial_raw_slice
  | ABytes => enc_trivial_bytes | AString => enc_trivial_string | AVec _ => enc_trivial_vec
  | AArray t _ => trivial_enc t
  | ATuple ts | AStruct ts | AEnum ts =>
    ids_equal t && (fix go (l : list aty) := match l with [] => true | x :: r => trivial_enc x && go r end) ts
  end.

Fixpoint trivial_dec (t : aty) : bool :=
  match t with
  | AUnit => dec_trivial_unit | ABool => dec_trivial_bool | AU8 => dec_trivial_u8 | AU16 => dec_trivial_u16
  | AU32 => dec_trivial_u32 | AU64 => dec_trivial_u64 | AU256 => dec_trivial_u256 | AB256 => dec_trivial_b256
  | AStrArr _ => dec_trivial_strarr | AStr => dec_trivial_str | ARawSlice => dec_trivial_raw_slice
  | ABytes => dec_trivial_bytes | AString => dec_trivial_string | AVec _ => dec_trivial_vec
  | AArray t _ => trivial_dec t
  | ATuple ts | AStruct ts =>
    ids_equal t && (fix go (l : list aty) := match l with [] => true | x :: r => trivial_dec x && go r end) ts
  | AEnum _ => dec_trivial_enum
  end.

(* TrivialBool { value: u64 } / TrivialEnum<T> { value: T }: unwrap *)
Definition REVERT_TRIVIAL_BOOL : N := 2. Definition REVERT_TRIVIAL_ENUM : N := 3.
Definition trivial_bool_unwrap (value : N) : outcome bool :=
  if value =? 0 then Ok false else if value =? 1 then Ok true else Err REVERT_TRIVIAL_BOOL.
(* is_valid: discriminant < table.len() && table[discriminant], table = [is_decode_trivial::<Variant_i>()] *)
Definition trivial_enum_is_valid (ts : list aty) (discriminant : N) : bool :=
  match nth_error (map trivial_dec ts) (N.to_nat discriminant) with Some b => b | None => false end.
