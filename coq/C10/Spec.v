(* C10 — what "sound" means, as Props and as boolean oracles on observations. *)
From SwayV Require Import Base.Util Layout.Bytes Layout.Types Layout.Abi Layout.Mem C10.Model.
Local Open Scope N_scope.

(* a type may be classified trivially encodable only if every value's memory image is its encoding *)
Definition enc_fast_path_sound (t : aty) : Prop :=
  forall v, wtb t v = true -> mem_bytes (ir_of t) (lower t v) = enc t v.
(* ... trivially decodable only if every byte pattern of the right size is a valid value *)
Definition dec_fast_path_sound (t : aty) : Prop :=
  forall b, bytes_ok b -> nlen b = size (ir_of t) ->
  exists v, wtb t v = true /\ mem_bytes (ir_of t) (lower t v) = b /\ enc t v = b.

(* oracle on one in-VM observation: the bytes produced for value v (by whichever path the std library
   took) are the canonical encoding *)
Definition encoded_okb (t : aty) (v : aval) (observed : list N) : bool := list_eqb observed (enc t v).
