(* C10 — proofs: a type classified trivially encodable has no padding anywhere, hence its memory image
   is its canonical encoding. *)
From SwayV Require Import Base.Util Layout.Bytes Layout.Types Layout.Abi Layout.Mem Generated.LayoutFacts C10.Model.
From Coq Require Import ZifyBool ZifyN.
Local Open Scope N_scope.

(* ---- induction on repr, structural equality *)
Section ReprInd.
  Variable P : repr -> Prop.
  Hypothesis Hp : forall n, P (RPad n). Hypothesis Hb : forall n, P (RBlob n).
  Hypothesis Ha : forall l, Forall P l -> P (RAnd l). Hypothesis Ho : forall l, Forall P l -> P (ROr l).
  Hypothesis Hr : forall r n, P r -> P (RArr r n).
  Fixpoint repr_ind' (r : repr) : P r :=
    let go := (fix go (l : list repr) : Forall P l :=
                 match l with [] => Forall_nil P | x :: t => Forall_cons x (repr_ind' x) (go t) end) in
    match r with
    | RPad n => Hp n | RBlob n => Hb n | RAnd l => Ha l (go l) | ROr l => Ho l (go l)
    | RArr r n => Hr r n (repr_ind' r)
    end.
End ReprInd.

Fixpoint reprs_eqb (l m : list repr) : bool :=
  match l, m with
  | [], [] => true
  | x :: l', y :: m' => repr_eqb x y && reprs_eqb l' m'
  | _, _ => false
  end.
Lemma repr_eqb_and l m : repr_eqb (RAnd l) (RAnd m) = reprs_eqb l m. Proof. reflexivity. Qed.
Lemma repr_eqb_or l m : repr_eqb (ROr l) (ROr m) = reprs_eqb l m. Proof. reflexivity. Qed.

Lemma repr_eqb_eq a : forall b, repr_eqb a b = true -> a = b.
Proof.
  induction a using repr_ind'; intros b Hab.
  - destruct b; cbn in Hab; try discriminate. apply N.eqb_eq in Hab. now subst.
  - destruct b; cbn in Hab; try discriminate. apply N.eqb_eq in Hab. now subst.
  - destruct b as [| |m| |]; try discriminate. rewrite repr_eqb_and in Hab. f_equal.
    revert m Hab. induction H as [|x l Hx Hl IH]; intros [|y m] Hab; cbn in Hab; try discriminate; [reflexivity|].
    apply andb_true_iff in Hab. destruct Hab as [H1 H2]. f_equal; [now apply Hx | now apply IH].
  - destruct b as [| | |m|]; try discriminate. rewrite repr_eqb_or in Hab. f_equal.
    revert m Hab. induction H as [|x l Hx Hl IH]; intros [|y m] Hab; cbn in Hab; try discriminate; [reflexivity|].
    apply andb_true_iff in Hab. destruct Hab as [H1 H2]. f_equal; [now apply Hx | now apply IH].
  - destruct b; cbn in Hab; try discriminate. apply andb_true_iff in Hab. destruct Hab as [H1 H2].
    apply N.eqb_eq in H2. subst. f_equal. now apply IHa.
Qed.

(* ---- padding occurrences *)
Fixpoint has_pad (r : repr) : bool :=
  match r with
  | RPad _ => true | RBlob _ => false
  | RAnd l | ROr l => (fix go (l : list repr) := match l with [] => false | x :: t => has_pad x || go t end) l
  | RArr r _ => has_pad r
  end.
Fixpoint any_pad (l : list repr) : bool := match l with [] => false | x :: t => has_pad x || any_pad t end.
Lemma has_pad_and l : has_pad (RAnd l) = any_pad l. Proof. reflexivity. Qed.
Lemma has_pad_or l : has_pad (ROr l) = any_pad l. Proof. reflexivity. Qed.

Lemma enc_repr_fields ts :
  (fix go (l : list aty) := match l with [] => [] | x :: r => enc_repr x :: go r end) ts = map enc_repr ts.
Proof. reflexivity. Qed.

Lemma any_pad_map_enc ts : Forall (fun t => has_pad (enc_repr t) = false) ts -> any_pad (map enc_repr ts) = false.
Proof. induction 1 as [|t r Ht Hr IH]; cbn; [reflexivity|]. now rewrite Ht, IH. Qed.

Lemma enc_repr_no_pad t : has_pad (enc_repr t) = false.
Proof.
  induction t using aty_ind'; try reflexivity; try assumption.
  - cbn [enc_repr]. rewrite has_pad_and. now apply any_pad_map_enc.
  - cbn [enc_repr]. rewrite has_pad_and. now apply any_pad_map_enc.
  - cbn [enc_repr]. rewrite enc_repr_fields. destruct (forallb _ _); [reflexivity|].
    rewrite has_pad_and. cbn [any_pad]. rewrite has_pad_or, (any_pad_map_enc ts H). reflexivity.
Qed.

(* ---- length of the runtime representation is the size *)
Lemma rt_repr_fields ts :
  (fix go (l : list ty) := match l with [] => [] | x :: r => rt_repr x :: go r end) ts = map rt_repr ts.
Proof. reflexivity. Qed.
Lemma repr_len_and l : repr_len (RAnd l) = sum_len l.
Proof. cbn [repr_len]. induction l as [|x r IH]; cbn [sum_len]; [reflexivity|now rewrite IH]. Qed.
Lemma repr_len_or l : repr_len (ROr l) = max_len l.
Proof. cbn [repr_len]. induction l as [|x r IH]; cbn [max_len]; [reflexivity|now rewrite IH]. Qed.

Ltac Zify.zify_post_hook ::= Z.div_mod_to_equations.

Lemma sum_len_rt_fields rs off :
  off mod 8 = 0 ->
  sum_len (rt_fields rs off) = fold_right (fun r acc => round_up8 (repr_len r) + acc) 0 rs.
Proof.
  revert off. induction rs as [|r rest IH]; intros off Hoff; cbn [rt_fields fold_right sum_len]; [reflexivity|].
  destruct ((off + repr_len r) mod 8 =? 0) eqn:Hm; cbn [sum_len].
  - rewrite IH by lia. unfold round_up8. lia.
  - rewrite IH by apply round_up8_mod. rewrite repr_len_and. cbn [sum_len repr_len]. unfold round_up8. lia.
Qed.

Definition wrap_variant (pw big : N) (it : repr) : repr :=
  let total := pw + (big - repr_len it) in if 0 <? total then RAnd [RPad total; it] else it.

Lemma wrap_variant_len pw big it : repr_len it <= big -> repr_len (wrap_variant pw big it) = pw + big.
Proof.
  intros Hit. unfold wrap_variant. cbv zeta. destruct (0 <? pw + (big - repr_len it)) eqn:Ht.
  - rewrite repr_len_and. cbn [sum_len repr_len]. lia.
  - lia.
Qed.

Lemma max_len_rt_variants_aux items big pw :
  (forall it, In it items -> repr_len it <= big) ->
  max_len (map (wrap_variant pw big) items) = match items with [] => 0 | _ => pw + big end.
Proof.
  induction items as [|it r IH]; intros Hle; [reflexivity|].
  cbn [map max_len]. rewrite IH by (intros x Hx; apply Hle; now right).
  rewrite wrap_variant_len by (apply Hle; now left). destruct r; lia.
Qed.

Lemma max_len_ge items it : In it items -> repr_len it <= max_len items.
Proof.
  induction items as [|x r IH]; intros Hin; [contradiction|]. cbn [max_len].
  destruct Hin as [->|Hin]; [lia|]. specialize (IH Hin). lia.
Qed.

Lemma max_len_rt_variants items : max_len (rt_variants items) = round_up8 (max_len items).
Proof.
  unfold rt_variants. change (map _ items) with (map (wrap_variant (round_up8 (max_len items) - max_len items) (max_len items)) items).
  rewrite max_len_rt_variants_aux by (intros; now apply max_len_ge).
  destruct items as [|x r]; [reflexivity|].
  pose proof (round_up8_ge (max_len (x :: r))). lia.
Qed.

Lemma round_up8_max a b : round_up8 (N.max a b) = N.max (round_up8 a) (round_up8 b).
Proof.
  destruct (N.max_spec a b) as [[H ->]|[H ->]].
  - pose proof (round_up8_mono a b ltac:(lia)). lia.
  - pose proof (round_up8_mono b a ltac:(lia)). lia.
Qed.

Lemma rt_repr_len t : repr_len (rt_repr t) = size t.
Proof.
  induction t using ty_ind'; try reflexivity.
  - (* str[N] *) cbn [rt_repr size]. unfold str_array_padded.
    destruct (n mod 8 =? 0) eqn:Hn.
    + cbn [repr_len]. rewrite round_up8_id by lia. reflexivity.
    + rewrite repr_len_and. cbn [sum_len repr_len]. pose proof (round_up8_ge n). lia.
  - (* array *) cbn [rt_repr repr_len size]. rewrite IHt. lia.
  - (* struct *) rewrite size_struct. cbn [rt_repr]. rewrite rt_repr_fields, repr_len_and, sum_len_rt_fields by reflexivity.
    induction H as [|x r Hx Hr IH]; cbn [map fold_right sum_aligned]; [reflexivity|].
    rewrite IH, Hx. reflexivity.
  - (* union *) rewrite size_union. cbn [rt_repr]. rewrite rt_repr_fields, repr_len_or, max_len_rt_variants.
    induction H as [|x r Hx Hr IH]; [reflexivity|].
    cbn [map max_len max_aligned]. rewrite round_up8_max, IH, Hx. reflexivity.
Qed.

(* ---- no padding in the runtime representation: fields and variants are packed *)
Lemma rt_fields_no_pad rs off :
  off mod 8 = 0 -> any_pad (rt_fields rs off) = false ->
  Forall (fun r => repr_len r mod 8 = 0 /\ has_pad r = false) rs.
Proof.
  revert off. induction rs as [|r rest IH]; intros off Hoff Hp; [constructor|].
  cbn [rt_fields] in Hp. destruct ((off + repr_len r) mod 8 =? 0) eqn:Hm.
  - cbn [any_pad] in Hp. apply orb_false_iff in Hp. destruct Hp as [H1 H2].
    constructor; [split; [lia | exact H1]|]. apply (IH (off + repr_len r)); [lia | exact H2].
  - cbn [any_pad] in Hp. rewrite has_pad_and in Hp. cbn [any_pad has_pad] in Hp.
    rewrite orb_true_r in Hp. discriminate.
Qed.

Lemma wrap_no_pad pw big items :
  any_pad (map (wrap_variant pw big) items) = false ->
  forall it, In it items -> pw + (big - repr_len it) = 0 /\ has_pad it = false.
Proof.
  induction items as [|x r IH]; intros Hp it Hin; [contradiction|].
  cbn [map any_pad] in Hp. apply orb_false_iff in Hp. destruct Hp as [H1 H2].
  destruct Hin as [->|Hin]; [|now apply IH].
  unfold wrap_variant in H1. cbv zeta in H1. destruct (0 <? pw + (big - repr_len it)) eqn:Ht.
  - rewrite has_pad_and in H1. cbn [any_pad has_pad] in H1. discriminate.
  - split; [lia | exact H1].
Qed.

Lemma rt_variants_no_pad items :
  any_pad (rt_variants items) = false ->
  (forall it, In it items -> repr_len it = max_len items /\ has_pad it = false) /\
  (items <> [] -> max_len items mod 8 = 0).
Proof.
  unfold rt_variants.
  change (map _ items) with (map (wrap_variant (round_up8 (max_len items) - max_len items) (max_len items)) items).
  intros Hp. pose proof (wrap_no_pad _ _ _ Hp) as Hall. split.
  - intros it Hin. destruct (Hall it Hin) as [H1 H2]. pose proof (max_len_ge items it Hin). split; [lia | exact H2].
  - intros Hne. destruct items as [|x r]; [congruence|]. destruct (Hall x (or_introl eq_refl)) as [H1 _].
    pose proof (round_up8_ge (max_len (x :: r))) as Hge. pose proof (round_up8_mod (max_len (x :: r))) as Hmod.
    assert (Heq : round_up8 (max_len (x :: r)) = max_len (x :: r)) by lia. rewrite Heq in Hmod. exact Hmod.
Qed.

(* ---- unfolding helpers *)
Lemma trivial_enc_fields ts :
  (fix go (l : list aty) := match l with [] => true | x :: r => trivial_enc x && go r end) ts = forallb trivial_enc ts.
Proof. reflexivity. Qed.
Lemma enc_has_repr_fields ts :
  (fix go (l : list aty) := match l with [] => true | x :: r => enc_has_repr x && go r end) ts = forallb enc_has_repr ts.
Proof. reflexivity. Qed.

Lemma ids_equal_inv t : ids_equal t = true ->
  enc_has_repr t = true /\ rt_repr (ir_of t) = enc_repr t /\ has_pad (rt_repr (ir_of t)) = false.
Proof.
  unfold ids_equal, rt_repr_o. destruct (rt_panics (ir_of t)); [discriminate|].
  destruct (enc_has_repr t); [|discriminate]. intros H. apply repr_eqb_eq in H.
  split; [reflexivity|]. split; [exact H|]. rewrite H. apply enc_repr_no_pad.
Qed.

Lemma zeros_0 : zeros 0 = []. Proof. reflexivity. Qed.

Lemma size_aligned_packed t : size t mod 8 = 0 -> size_aligned t - size t = 0.
Proof. intros H. unfold size_aligned. rewrite round_up8_id by exact H. lia. Qed.

(* a struct whose runtime representation has no padding: all field sizes are multiples of 8 *)
Lemma struct_no_pad_sizes tys :
  has_pad (rt_repr (TStruct tys)) = false -> Forall (fun t => size t mod 8 = 0) tys.
Proof.
  cbn [rt_repr]. rewrite rt_repr_fields, has_pad_and. intros Hp.
  pose proof (rt_fields_no_pad (map rt_repr tys) 0 eq_refl Hp) as Hf.
  apply Forall_forall. intros t Hin. rewrite Forall_forall in Hf.
  destruct (Hf (rt_repr t) (in_map rt_repr tys t Hin)) as [H1 _]. now rewrite rt_repr_len in H1.
Qed.

(* encoded length is bounded by the length of the encoding representation *)
Lemma nlen_flat_map_le {A} (f : A -> list N) (l : list A) k :
  (forall x, In x l -> nlen (f x) <= k) -> nlen (flat_map f l) <= k * nlen l.
Proof.
  induction l as [|x r IH]; intros H; cbn [flat_map]; [unfold nlen; cbn [length N.of_nat]; rewrite N.mul_0_r; lia|].
  rewrite nlen_app, nlen_cons. specialize (IH (fun y Hy => H y (or_intror Hy))).
  specialize (H x (or_introl eq_refl)). lia.
Qed.

Lemma enc_len_le t : forall v, enc_has_repr t = true -> wtb t v = true -> nlen (enc t v) <= repr_len (enc_repr t).
Proof.
  induction t using aty_ind'; intros v Hr Hw; try discriminate.
  - (* bool *) destruct v; try discriminate; cbn [enc enc_repr repr_len]; rewrite nlen_cons, nlen_nil; lia.
  - destruct v; try discriminate; cbn [enc enc_repr repr_len]; rewrite nlen_be_bytes; cbn; lia.
  - destruct v; try discriminate; cbn [enc enc_repr repr_len]; rewrite nlen_be_bytes; cbn; lia.
  - destruct v; try discriminate; cbn [enc enc_repr repr_len]; rewrite nlen_be_bytes; cbn; lia.
  - destruct v; try discriminate; cbn [enc enc_repr repr_len]; rewrite nlen_be_bytes; cbn; lia.
  - destruct v; try discriminate; cbn [enc enc_repr repr_len]; rewrite nlen_be_bytes; cbn; lia.
  - destruct v; try discriminate; cbn [enc enc_repr repr_len]; rewrite nlen_be_bytes; cbn; lia.
  - (* str[N] *) destruct v; try discriminate. cbn [wtb] in Hw. apply andb_true_iff in Hw. destruct Hw as [H1 _].
    cbn [enc enc_repr repr_len]. lia.
  - (* array *) destruct v; try discriminate. cbn [wtb] in Hw. apply andb_true_iff in Hw. destruct Hw as [H1 H2].
    cbn [enc enc_repr repr_len enc_has_repr] in *. unfold enc_seq.
    rewrite forallb_forall in H2.
    pose proof (nlen_flat_map_le (enc t) vs (repr_len (enc_repr t)) (fun x Hx => IHt x Hr (H2 x Hx))). lia.
  - (* tuple *) destruct v; try discriminate. rewrite wtb_tuple in Hw. rewrite enc_tuple. cbn [enc_repr enc_has_repr] in *.
    rewrite enc_has_repr_fields in Hr. rewrite enc_repr_fields, repr_len_and.
    revert vs Hw. induction H as [|x r Hx Hrr IH]; intros [|v vs] Hw; cbn [wtb_fields enc_fields map sum_len] in *; try discriminate; try (unfold nlen; simpl length; lia).
    apply andb_true_iff in Hw. destruct Hw as [Hw1 Hw2]. cbn [forallb] in Hr. apply andb_true_iff in Hr. destruct Hr as [Hr1 Hr2].
    rewrite nlen_app. specialize (Hx v Hr1 Hw1). specialize (IH Hr2 vs Hw2). lia.
  - (* struct *) destruct v; try discriminate. rewrite wtb_struct in Hw. rewrite enc_struct. cbn [enc_repr enc_has_repr] in *.
    rewrite enc_has_repr_fields in Hr. rewrite enc_repr_fields, repr_len_and.
    revert vs Hw. induction H as [|x r Hx Hrr IH]; intros [|v vs] Hw; cbn [wtb_fields enc_fields map sum_len] in *; try discriminate; try (unfold nlen; simpl length; lia).
    apply andb_true_iff in Hw. destruct Hw as [Hw1 Hw2]. cbn [forallb] in Hr. apply andb_true_iff in Hr. destruct Hr as [Hr1 Hr2].
    rewrite nlen_app. specialize (Hx v Hr1 Hw1). specialize (IH Hr2 vs Hw2). lia.
  - (* enum *) destruct v as [| | | | |k pv]; try discriminate. rewrite wtb_enum in Hw. apply andb_true_iff in Hw. destruct Hw as [_ Hw]. rewrite enc_enum, nlen_app, nlen_be_bytes.
    cbn [enc_repr enc_has_repr] in *. rewrite enc_has_repr_fields in Hr. rewrite enc_repr_fields.
    unfold wtb_variant, enc_variant in *. destruct (nth_error ts k) as [tk|] eqn:Hk; [|discriminate].
    assert (Hin : In tk ts) by (eapply nth_error_In; exact Hk).
    rewrite Forall_forall in H. rewrite forallb_forall in Hr. specialize (H tk Hin pv (Hr tk Hin) Hw).
    assert (Hmax : repr_len (enc_repr tk) <= max_len (map enc_repr ts)) by (apply max_len_ge; now apply in_map).
    destruct (forallb (fun v => repr_len v =? 0) (map enc_repr ts)) eqn:Hz.
    + rewrite forallb_forall in Hz. specialize (Hz (enc_repr tk) (in_map enc_repr ts tk Hin)).
      rewrite repr_len_and. cbn [sum_len repr_len]. change (N.of_nat 8) with 8. lia.
    + rewrite repr_len_and. cbn [sum_len]. rewrite repr_len_or. cbn [repr_len]. change (N.of_nat 8) with 8. lia.
Qed.

(* ---- main theorem: trivially encodable => memory image = canonical encoding *)
Definition enc_sound_at (t : aty) : Prop :=
  trivial_enc t = true -> forall v, wtb t v = true -> mem_bytes (ir_of t) (lower t v) = enc t v.

Lemma fields_sound ts :
  Forall enc_sound_at ts -> forallb trivial_enc ts = true ->
  Forall (fun t => size t mod 8 = 0) (map ir_of ts) ->
  forall vs, wtb_fields ts vs = true ->
  mem_fields (map ir_of ts) (lower_fields ts vs) = enc_fields ts vs.
Proof.
  induction 1 as [|t r Ht Hr IH]; intros Htr Hsz vs Hw; destruct vs as [|v vs]; cbn [wtb_fields] in Hw; try discriminate; [reflexivity|].
  cbn [forallb] in Htr. apply andb_true_iff in Htr. destruct Htr as [Ht1 Ht2].
  apply andb_true_iff in Hw. destruct Hw as [Hw1 Hw2].
  cbn [map] in Hsz. inversion Hsz as [|? ? Hs1 Hs2]; subst.
  cbn [map lower_fields mem_fields enc_fields].
  rewrite (Ht Ht1 v Hw1), (size_aligned_packed _ Hs1), zeros_0. cbn [app]. f_equal. now apply IH.
Qed.

Lemma u8_byte n : n < 256 -> be_bytes 1 n = [n].
Proof. intros H. cbn [be_bytes app]. f_equal. lia. Qed.

Lemma trivial_enc_sound t : enc_sound_at t.
Proof.
  induction t using aty_ind'; unfold enc_sound_at; intros Htr v Hw; try discriminate.
  - (* unit *) reflexivity.
  - (* bool *) destruct v; try discriminate. reflexivity.
  - (* u8 *) destruct v; try discriminate. cbn [wtb] in Hw. cbn [ir_of lower mem_bytes enc]. rewrite u8_byte by lia. reflexivity.
  - (* u64 *) destruct v; try discriminate. reflexivity.
  - (* u256 *) destruct v; try discriminate. reflexivity.
  - (* b256 *) destruct v; try discriminate. reflexivity.
  - (* array *) destruct v as [| | | |vs|]; try discriminate. cbn [wtb] in Hw. apply andb_true_iff in Hw. destruct Hw as [_ Hw].
    cbn [trivial_enc] in Htr. cbn [ir_of lower mem_bytes enc]. unfold enc_seq. rewrite forallb_forall in Hw.
    induction vs as [|x r IH]; [reflexivity|]. cbn [map flat_map].
    rewrite (IHt Htr x (Hw x (or_introl eq_refl))). f_equal. apply IH. intros y Hy. apply Hw. now right.
  - (* tuple *) destruct v as [| | | |vs|]; try discriminate. rewrite wtb_tuple in Hw.
    cbn [trivial_enc] in Htr. rewrite trivial_enc_fields in Htr. apply andb_true_iff in Htr. destruct Htr as [Hid Hall].
    destruct (ids_equal_inv _ Hid) as [_ [_ Hnp]]. rewrite ir_of_tuple in *.
    rewrite lower_tuple, mem_struct, enc_tuple. apply fields_sound; try assumption. now apply struct_no_pad_sizes.
  - (* struct *) destruct v as [| | | |vs|]; try discriminate. rewrite wtb_struct in Hw.
    cbn [trivial_enc] in Htr. rewrite trivial_enc_fields in Htr. apply andb_true_iff in Htr. destruct Htr as [Hid Hall].
    destruct (ids_equal_inv _ Hid) as [_ [_ Hnp]]. rewrite ir_of_struct in *.
    rewrite lower_struct, mem_struct, enc_struct. apply fields_sound; try assumption. now apply struct_no_pad_sizes.
  - (* enum *) destruct v as [| | | | |k pv]; try discriminate. rewrite wtb_enum in Hw. apply andb_true_iff in Hw. destruct Hw as [_ Hw].
    cbn [trivial_enc] in Htr. rewrite trivial_enc_fields in Htr. apply andb_true_iff in Htr. destruct Htr as [Hid Hall].
    destruct (ids_equal_inv _ Hid) as [Hhas [Heq Hnp]].
    rewrite enc_enum, lower_enum. rewrite ir_of_enum in *.
    unfold wtb_variant in Hw. destruct (nth_error ts k) as [tk|] eqn:Hk; [|discriminate].
    assert (Hin : In tk ts) by (eapply nth_error_In; exact Hk).
    rewrite Forall_forall in H. rewrite forallb_forall in Hall.
    pose proof (H tk Hin (Hall tk Hin) pv Hw) as Hpv.
    unfold enc_variant, lower_variant. rewrite Hk.
    destruct (forallb is_zero_sized (map ir_of ts)) eqn:Hz.
    + (* only the tag is stored; the payload encodes to nothing *)
      cbn [enc_repr] in Heq. rewrite enc_repr_fields in Heq.
      destruct (forallb (fun v => repr_len v =? 0) (map enc_repr ts)) eqn:Hz2.
      2:{ cbn in Heq. discriminate. }
      rewrite forallb_forall in Hz2. specialize (Hz2 (enc_repr tk) (in_map enc_repr ts tk Hin)).
      cbn [enc_has_repr] in Hhas. rewrite enc_has_repr_fields, forallb_forall in Hhas.
      pose proof (enc_len_le tk pv (Hhas tk Hin) Hw) as Hle.
      assert (He : enc tk pv = []) by (apply nlen_0; lia). rewrite He, app_nil_r.
      rewrite mem_struct. cbn [mem_fields mem_bytes]. rewrite app_nil_r. reflexivity.
    + (* tag ++ union; no padding: every variant fills the union *)
      pose proof (struct_no_pad_sizes _ Hnp) as Hsz. inversion Hsz as [|? ? _ Hsz2]; subst. inversion Hsz2 as [|? ? Hus _]; subst.
      cbn [rt_repr] in Hnp. rewrite rt_repr_fields, has_pad_and in Hnp. cbn [map] in Hnp.
      pose proof (rt_fields_no_pad _ 0 eq_refl Hnp) as Hf. inversion Hf as [|? ? _ Hf2]; subst. inversion Hf2 as [|? ? [_ Hup] _]; subst.
      change (any_pad (rt_variants (map rt_repr (map ir_of ts))) = false) in Hup.
      destruct (rt_variants_no_pad _ Hup) as [Hv Hm].
      assert (Hink : In (rt_repr (ir_of tk)) (map rt_repr (map ir_of ts))) by (apply in_map; now apply in_map).
      destruct (Hv _ Hink) as [Hlen _]. rewrite rt_repr_len in Hlen.
      assert (Husz : size (TUnion (map ir_of ts)) = size (ir_of tk)).
      { pose proof (rt_repr_len (TUnion (map ir_of ts))) as Hu. cbn [rt_repr] in Hu. rewrite rt_repr_fields, repr_len_or, max_len_rt_variants in Hu.
        rewrite <- Hu, Hlen. apply round_up8_id. apply Hm. destruct ts; [contradiction|discriminate]. }
      rewrite mem_struct. cbn [mem_fields]. rewrite mem_union. unfold mem_variant.
      rewrite (map_nth_error ir_of k ts Hk). rewrite Hpv.
      assert (Hz1 : size (TUnion (map ir_of ts)) - size (ir_of tk) = 0) by lia.
      assert (Hz2 : size_aligned (TUnion (map ir_of ts)) - size (TUnion (map ir_of ts)) = 0) by (now apply size_aligned_packed).
      rewrite Hz1, Hz2, zeros_0. cbn [app mem_bytes]. now rewrite app_nil_r.
Qed.

(* ---- trivially decodable: every byte pattern of the right length is (the image of) a valid value *)
Lemma trivial_dec_fields ts :
  (fix go (l : list aty) := match l with [] => true | x :: r => trivial_dec x && go r end) ts = forallb trivial_dec ts.
Proof. reflexivity. Qed.

Lemma dec_implies_enc t : trivial_dec t = true -> trivial_enc t = true.
Proof.
  induction t using aty_ind'; intros Hd; try discriminate; try reflexivity; try (now apply IHt).
  - cbn [trivial_dec trivial_enc] in *. rewrite trivial_dec_fields in Hd. rewrite trivial_enc_fields.
    apply andb_true_iff in Hd. destruct Hd as [H1 H2]. rewrite H1. cbn [andb].
    rewrite forallb_forall in *. rewrite Forall_forall in H. intros x Hx. apply H; [exact Hx | now apply H2].
  - cbn [trivial_dec trivial_enc] in *. rewrite trivial_dec_fields in Hd. rewrite trivial_enc_fields.
    apply andb_true_iff in Hd. destruct Hd as [H1 H2]. rewrite H1. cbn [andb].
    rewrite forallb_forall in *. rewrite Forall_forall in H. intros x Hx. apply H; [exact Hx | now apply H2].
Qed.

Definition dec_sound_at (t : aty) : Prop :=
  trivial_dec t = true -> forall b, bytes_ok b -> nlen b = size (ir_of t) ->
  exists v, wtb t v = true /\ enc t v = b.

Lemma in_firstn {A} (x : A) n l : In x (firstn n l) -> In x l.
Proof. revert l. induction n; intros [|a l] H; cbn in *; try contradiction. destruct H; [now left | right; now apply IHn]. Qed.
Lemma in_skipn {A} (x : A) n l : In x (skipn n l) -> In x l.
Proof. revert l. induction n; intros [|a l] H; cbn in *; try contradiction; try assumption. right. now apply IHn. Qed.
Lemma bytes_ok_ntake n b : bytes_ok b -> bytes_ok (ntake n b).
Proof. unfold bytes_ok. intros H. unfold ntake. apply Forall_forall. intros x Hx. rewrite Forall_forall in H. apply H. eapply in_firstn; eauto. Qed.
Lemma bytes_ok_ndrop n b : bytes_ok b -> bytes_ok (ndrop n b).
Proof. unfold bytes_ok. intros H. unfold ndrop. apply Forall_forall. intros x Hx. rewrite Forall_forall in H. apply H. eapply in_skipn; eauto. Qed.

Lemma word_value k (b : list N) (bound : N) :
  bytes_ok b -> length b = k -> 256 ^ N.of_nat k = bound ->
  (be_val b <? bound) = true /\ be_bytes k (be_val b) = b.
Proof.
  intros Hok Hl Hb. split.
  - apply N.ltb_lt. rewrite <- Hb, <- Hl. exact (be_val_bound b Hok).
  - rewrite <- Hl. now apply be_bytes_be_val.
Qed.

Lemma chunks_sound t s :
  (forall b, bytes_ok b -> nlen b = s -> exists v, wtb t v = true /\ enc t v = b) ->
  forall (k : nat) b, bytes_ok b -> nlen b = N.of_nat k * s ->
  exists vs, length vs = k /\ forallb (wtb t) vs = true /\ flat_map (enc t) vs = b.
Proof.
  intros Hone. induction k as [|k IH]; intros b Hok Hl.
  - exists []. repeat split. symmetry. apply nlen_0. lia.
  - assert (Hl1 : nlen (ntake s b) = s) by (rewrite nlen_ntake; lia).
    destruct (Hone (ntake s b) (bytes_ok_ntake s b Hok) Hl1) as [v [Hv1 Hv2]].
    destruct (IH (ndrop s b) (bytes_ok_ndrop s b Hok) ltac:(rewrite nlen_ndrop; lia)) as [vs [H1 [H2 H3]]].
    exists (v :: vs). cbn [length forallb flat_map]. rewrite H1, Hv1, H2, Hv2, H3. repeat split. apply ntake_ndrop.
Qed.

Lemma fields_dec_sound ts :
  Forall dec_sound_at ts -> forallb trivial_dec ts = true ->
  Forall (fun t => size t mod 8 = 0) (map ir_of ts) ->
  forall b, bytes_ok b -> nlen b = sum_aligned (map ir_of ts) ->
  exists vs, wtb_fields ts vs = true /\ enc_fields ts vs = b.
Proof.
  induction 1 as [|t r Ht Hr IH]; intros Htr Hsz b Hok Hl.
  - exists []. split; [reflexivity|]. symmetry. apply nlen_0. exact Hl.
  - cbn [forallb] in Htr. apply andb_true_iff in Htr. destruct Htr as [Ht1 Ht2].
    cbn [map] in Hsz, Hl. inversion Hsz as [|? ? Hs1 Hs2]; subst. cbn [sum_aligned] in Hl.
    assert (Hal : size_aligned (ir_of t) = size (ir_of t)) by (unfold size_aligned; now apply round_up8_id).
    rewrite Hal in Hl.
    assert (Hl1 : nlen (ntake (size (ir_of t)) b) = size (ir_of t)) by (rewrite nlen_ntake; lia).
    destruct (Ht Ht1 _ (bytes_ok_ntake _ b Hok) Hl1) as [v [Hv1 Hv2]].
    destruct (IH Ht2 Hs2 (ndrop (size (ir_of t)) b) (bytes_ok_ndrop _ b Hok) ltac:(rewrite nlen_ndrop; lia)) as [vs [H1 H2]].
    exists (v :: vs). cbn [wtb_fields enc_fields]. rewrite Hv1, H1, Hv2, H2. split; [reflexivity|]. apply ntake_ndrop.
Qed.

Lemma trivial_dec_sound_enc t : dec_sound_at t.
Proof.
  induction t using aty_ind'; unfold dec_sound_at; intros Htr b Hok Hl; try discriminate.
  - (* unit *) exists VUnit. split; [reflexivity|]. symmetry. apply nlen_0. exact Hl.
  - (* u8 *) change (size (ir_of AU8)) with 1 in Hl.
    assert (Hlen : length b = 1%nat) by (unfold nlen in Hl; lia).
    destruct b as [|x [|y r]]; try discriminate.
    inversion Hok; subst. unfold byte_ok in *. exists (VNum x). split; [cbn [wtb]; lia | cbn [enc]; now apply u8_byte].
  - (* u64 *) change (size (ir_of AU64)) with 8 in Hl. assert (Hlen : length b = 8%nat) by (unfold nlen in Hl; lia).
    destruct (word_value 8 b U64_MAX1 Hok Hlen eq_refl) as [H1 H2]. exists (VNum (be_val b)). split; assumption.
  - (* u256 *) change (size (ir_of AU256)) with 32 in Hl. assert (Hlen : length b = 32%nat) by (unfold nlen in Hl; lia).
    destruct (word_value 32 b U256_MAX1 Hok Hlen eq_refl) as [H1 H2]. exists (VNum (be_val b)). split; assumption.
  - (* b256 *) change (size (ir_of AB256)) with 32 in Hl. assert (Hlen : length b = 32%nat) by (unfold nlen in Hl; lia).
    destruct (word_value 32 b U256_MAX1 Hok Hlen eq_refl) as [H1 H2]. exists (VNum (be_val b)). split; assumption.
  - (* array *) cbn [trivial_dec] in Htr. cbn [ir_of size] in Hl.
    destruct (chunks_sound t (size (ir_of t)) (IHt Htr) (N.to_nat n) b Hok ltac:(lia)) as [vs [H1 [H2 H3]]].
    exists (VSeq vs). cbn [wtb enc]. unfold enc_seq. rewrite H2, H3. split; [|reflexivity].
    apply andb_true_iff. split; [|reflexivity]. unfold nlen. rewrite H1. lia.
  - (* tuple *) cbn [trivial_dec] in Htr. rewrite trivial_dec_fields in Htr. apply andb_true_iff in Htr. destruct Htr as [Hid Hall].
    destruct (ids_equal_inv _ Hid) as [_ [_ Hnp]]. rewrite ir_of_tuple in *. rewrite size_struct in Hl.
    destruct (fields_dec_sound ts H Hall (struct_no_pad_sizes _ Hnp) b Hok Hl) as [vs [H1 H2]].
    exists (VSeq vs). rewrite wtb_tuple, enc_tuple. split; assumption.
  - (* struct *) cbn [trivial_dec] in Htr. rewrite trivial_dec_fields in Htr. apply andb_true_iff in Htr. destruct Htr as [Hid Hall].
    destruct (ids_equal_inv _ Hid) as [_ [_ Hnp]]. rewrite ir_of_struct in *. rewrite size_struct in Hl.
    destruct (fields_dec_sound ts H Hall (struct_no_pad_sizes _ Hnp) b Hok Hl) as [vs [H1 H2]].
    exists (VSeq vs). rewrite wtb_struct, enc_struct. split; assumption.
Qed.

Lemma trivial_dec_sound t :
  trivial_dec t = true -> forall b, bytes_ok b -> nlen b = size (ir_of t) ->
  exists v, wtb t v = true /\ mem_bytes (ir_of t) (lower t v) = b /\ enc t v = b.
Proof.
  intros Hd b Hok Hl. destruct (trivial_dec_sound_enc t Hd b Hok Hl) as [v [H1 H2]].
  exists v. split; [exact H1|]. split; [|exact H2].
  rewrite (trivial_enc_sound t (dec_implies_enc t Hd) v H1). exact H2.
Qed.

(* TrivialBool / TrivialEnum *)
Lemma trivial_bool_unwrap_rejects value : value <> 0 -> value <> 1 -> trivial_bool_unwrap value = Err REVERT_TRIVIAL_BOOL.
Proof. intros H0 H1. unfold trivial_bool_unwrap. destruct (value =? 0) eqn:E0; [lia|]. destruct (value =? 1) eqn:E1; [lia|reflexivity]. Qed.
Lemma trivial_enum_unknown_tag ts d : N.of_nat (length ts) <= d -> trivial_enum_is_valid ts d = false.
Proof.
  intros H. unfold trivial_enum_is_valid.
  destruct (nth_error (map trivial_dec ts) (N.to_nat d)) eqn:E; [|reflexivity].
  assert (N.to_nat d < length (map trivial_dec ts))%nat by (apply nth_error_Some; congruence). rewrite map_length in *. lia.
Qed.
