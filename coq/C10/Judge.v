(* C10 — judgement of in-VM observations. *)
From SwayV Require Import Base.Util Layout.Bytes Layout.Types Layout.Abi Layout.Mem C10.Model C10.Spec C09.Model.
Local Open Scope N_scope.

Inductive case :=
| CClass (t : aty) (obs_enc obs_dec : bool)                    (* is_encode_trivial::<T>(), is_decode_trivial::<T>() *)
| CEncode (t : aty) (v : aval) (obs_enc_trivial : bool) (fast slow mem : list N)
    (* encode(v) (fast path when trivial), v.abi_encode(Buffer::new()), raw memory of v (size_of bytes) *)
| CDecode (t : aty) (bytes : list N) (reverted : bool).        (* abi_decode::<T>(bytes) reverted? *)

(* 0 agree
   1 corr: classification differs from the model
   2 VIOLATION encode(v) differs from the canonical encoding
   3 VIOLATION abi_encode path differs from the canonical encoding
   4 VIOLATION classified trivially encodable but the memory image differs from the canonical encoding
   5 VIOLATION invalid bytes were decoded without a revert
   6 corr: model decodes successfully but the VM reverted
   7 machinery: ill-typed generated value
   8 corr: model encode (either path) differs from enc although the VM agrees with enc *)
Definition judge (c : case) : N :=
  match c with
  | CClass t oe od =>
    if Bool.eqb (trivial_enc t) oe && Bool.eqb (trivial_dec t) od then 0 else 1
  | CEncode t v oe fast slow mem =>
    if negb (wtb t v) then 7
    else if negb (encoded_okb t v fast) then 2
    else if negb (encoded_okb t v slow) then 3
    else if oe && negb (list_eqb mem (enc t v)) then 4
    else if negb (list_eqb (encode t v) (enc t v) && list_eqb (abi_encode t v []) (enc t v)) then 8
    else 0
  | CDecode t bs rev =>
    match abi_decode t bs with
    | Ok _ => if rev then 6 else 0
    | Err c => if c =? REVERT0 then (if rev then 0 else 5) else (if rev then 0 else 0)   (* OOB: unmodelled memory, no verdict *)
    | _ => 0
    end
  end.
