(* C12 — property theorems only. *)
From SwayV Require Import Base.Util C12.Model C12.Spec C12.Proofs C12.ProofsRead C12.ProofsDecl.
From Coq Require Import Permutation.
Open Scope N_scope.

(* serialize_to_words yields exactly the in-memory layout: at its own type every well-typed
   constant serialises to 8-byte words whose concatenation is its memory image (a lone bool/u8 is
   placed at the requested end of its word). *)
Theorem C12_words_are_layout : forall c, wtb c = true -> forall p, exists ws,
  arms c (cty c) p = Ok ws /\ Forall (fun w => length w = 8%nat) ws /\
  length (mem_plain c) = size (cty c) /\
  (if is_small (cty c) then concat ws = small_word p (hd 0 (mem_plain c))
   else concat ws = mem_plain c /\ (size (cty c) mod 8 = 0)%nat).
Proof. exact arms_ok_all. Qed.
Print Assumptions C12_words_are_layout.

(* Full statement asked for:  supported c -> read_quads (install (slots_of c key)) key 0 t =
   Some (memory bytes of c).  It holds with the extra hypothesis that the field's key range does
   not run past 2^256; without it the compiler panics (C12_read_back_refuted_at_key_overflow). *)
Theorem C12_read_back : forall c key,
  supported c -> key + N.of_nat (nslots (cty c)) <= two256 ->
  exists sl, slots_of c key = Ok sl /\ read_quads sl key 0 (cty c) = Ok (Some (mem_plain c)).
Proof. exact read_back_single. Qed.
Print Assumptions C12_read_back.

Theorem C12_read_back_refuted_at_key_overflow : exists c key,
  supported c /\ key < two256 /\ slots_of c key = Panic SITE_ADD_OVERFLOW.
Proof.
  exists (lower_val (SStruct [SB256; SB256]) (VTuple [VInt 1; VInt 2])), (two256 - 1).
  split; [split; [vm_compute; reflexivity | vm_compute; lia]|].
  split; [vm_compute; reflexivity | vm_compute; reflexivity].
Qed.
Print Assumptions C12_read_back_refuted_at_key_overflow.

(* Whole declaration: if the key ranges are pairwise disjoint, every field reads back its own
   initializer from any store holding exactly the emitted slots, in any order. *)
Theorem C12_read_back_decl : forall fs st sl,
  Forall field_pre fs -> pairwise fdisjoint fs -> all_slots fs = Ok sl -> Permutation st sl ->
  forall f, In f fs -> read_quads st (fst f) 0 (cty (snd f)) = Ok (Some (mem_plain (snd f))).
Proof. exact read_back_decl. Qed.
Print Assumptions C12_read_back_decl.

Theorem C12_slots_emitted : forall fs, Forall field_pre fs -> exists sl,
  all_slots fs = Ok sl /\ map fst sl = concat (map keys_of fs).
Proof. intros fs H. destruct (all_slots_shape fs H) as [sl [H1 [H2 _]]]. now exists sl. Qed.
Print Assumptions C12_slots_emitted.

Theorem C12_key_string_injective : forall ns1 f1 ns2 f2,
  Forall clean ns1 -> clean f1 -> Forall clean ns2 -> clean f2 ->
  key_string ns1 f1 = key_string ns2 f2 -> ns1 = ns2 /\ f1 = f2.
Proof. exact key_string_inj. Qed.
Print Assumptions C12_key_string_injective.

(* implicit keys: the hash of the domain byte 0 followed by "storage::ns1::ns2.field" *)
Theorem C12_implicit_key_is_documented_hash : forall (H : list byte -> list byte) f,
  d_key f = None -> fst (resolve H f) = of_be (H (0 :: key_string (d_ns f) (d_name f))) 0.
Proof. exact implicit_key. Qed.
Print Assumptions C12_implicit_key_is_documented_hash.

(* Distinct fields occupy disjoint slots: under the hypotheses on SHA-256 restricted to the key
   strings of the declaration (spread, which implies collision-freedom) and the decidable side
   condition on explicit `in` keys. *)
Theorem C12_fields_disjoint : forall (H : list byte -> list byte) d,
  Forall d_clean d -> NoDup (map d_path d) -> spread H d -> explicit_okb H d = true ->
  pairwise fdisjoint (map (resolve H) d).
Proof. exact fields_disjoint. Qed.
Print Assumptions C12_fields_disjoint.

Theorem C12_spread_is_collision_free : forall (H : list byte -> list byte) d,
  (0 < d_span d)%nat -> spread H d -> collision_free H d.
Proof. exact spread_collision_free. Qed.
Print Assumptions C12_spread_is_collision_free.

(* the side condition the check evaluates is exactly range disjointness *)
Theorem C12_side_condition_exact : forall l : list range,
  pairwiseb disjointb l = true <-> pairwise disjoint l.
Proof. apply pairwiseb_iff. exact disjointb_iff. Qed.
Print Assumptions C12_side_condition_exact.

(* ---------- non-vacuity *)
(* struct S { e: E, x: u64 } with enum E { A: (), B: u64 }, S { e: E::A, x: 5 }: the input that
   read back x = 0 before fix f414d7f. *)
Definition ex_ty := SStruct [SEnum [SUnit; SU64]; SU64].
Definition ex_val := VTuple [VEnum 0 VUnit; VInt 5].
Example C12_example_supported : wtb (lower_val ex_ty ex_val) = true /\ size (cty (lower_val ex_ty ex_val)) = 24%nat.
Proof. split; vm_compute; reflexivity. Qed.
Example C12_example_slots :
  slots_of (lower_val ex_ty ex_val) 1000 = Ok [(1000, be 8 0 ++ be 8 0 ++ be 8 5 ++ be 8 0)].
Proof. vm_compute. reflexivity. Qed.
Example C12_example_key_string :
  key_string [[110;115;49]; [110;115;50]] [102]
  = [115;116;111;114;97;103;101;58;58;110;115;49;58;58;110;115;50;46;102].   (* "storage::ns1::ns2.f" *)
Proof. vm_compute. reflexivity. Qed.
Example C12_example_union_left_padded :
  mem_plain (lower_val (SEnum [SU8; SStruct [SU64; SU64]]) (VEnum 0 (VInt 200)))
  = be 8 0 ++ zeros 15 ++ [200].
Proof. vm_compute. reflexivity. Qed.
