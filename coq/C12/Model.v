(* C12 — executable model of
     sway-core/src/ir_generation/storage.rs   (get_storage_key_string, get_storage_key, add_to_b256,
                                               serialize_to_storage_slots, serialize_to_words)
     sway-ir/src/irtype.rs                    (Type::size, in_words, in_bytes_aligned)
     sway-core/src/ir_generation/const_eval.rs / convert.rs (shape of the constants built for
                                               literal initializers: [lower_val])
     sway-lib-std/src/storage/storage_api.sw  (read_quads, slot_calculator), storage_key.sw (read)
   No proofs here.  Bytes are [N]; sizes and counts are [nat] (they are small). *)
From SwayV Require Import Base.Util.
Open Scope N_scope.

Definition byte := N.
Definition word := list byte.               (* 8 bytes *)
Definition two256 : N := 2 ^ 256.

Definition zeros (n : nat) : list byte := repeat 0 n.

(* big-endian, exactly k bytes (higher bits dropped, as `as u8` / to_be_bytes on a fixed width) *)
Fixpoint be (k : nat) (n : N) : list byte :=
  match k with O => [] | S k' => be k' (n / 256) ++ [n mod 256] end.

Fixpoint of_be (l : list byte) (acc : N) : N :=
  match l with [] => acc | b :: r => of_be r (acc * 256 + b) end.

Definition round8 (n : nat) : nat := ((n + 7) / 8 * 8)%nat.     (* in_bytes_aligned *)
Definition words_of (n : nat) : nat := ((n + 7) / 8)%nat.        (* in_words *)

(* ---------- IR types (irtype.rs).  IU64 stands for Uint(16|32|64): all 8 bytes, all `is_uint`. *)
Inductive ity :=
| IUnit | IBool | IU8 | IU64 | IU256 | IB256
| IStr (n : nat) | IArray (e : ity) (n : nat) | IStruct (fs : list ity) | IUnion (vs : list ity).

Fixpoint size (t : ity) : nat :=
  match t with
  | IUnit => 0 | IBool => 1 | IU8 => 1 | IU64 => 8 | IU256 => 32 | IB256 => 32
  | IStr n => round8 n
  | IArray e n => (n * size e)%nat
  | IStruct fs => list_sum (map (fun f => round8 (size f)) fs)
  | IUnion vs => list_max (map (fun f => round8 (size f)) vs)
  end.

Definition is_unit t := match t with IUnit => true | _ => false end.
Definition is_bool t := match t with IBool => true | _ => false end.
Definition is_uint8 t := match t with IU8 => true | _ => false end.
Definition is_uint t := match t with IU8 | IU64 | IU256 => true | _ => false end.
Definition is_u256 t := match t with IU256 => true | _ => false end.
Definition is_b256 t := match t with IB256 => true | _ => false end.
Definition is_str t := match t with IStr _ => true | _ => false end.
Definition is_array t := match t with IArray _ _ => true | _ => false end.
Definition is_struct t := match t with IStruct _ => true | _ => false end.
Definition is_union t := match t with IUnion _ => true | _ => false end.
Definition fields_of t := match t with IStruct fs => fs | IUnion vs => vs | _ => [] end.

(* ---------- IR constants (constant.rs): a type and a value. *)
Inductive cst :=
| CUndef (t : ity) | CUnit (t : ity) | CBool (t : ity) (b : bool) | CUint (t : ity) (n : N)
| CU256 (t : ity) (n : N) | CB256 (t : ity) (n : N) | CString (t : ity) (s : list byte)
| CArray (t : ity) (l : list cst) | CStruct (t : ity) (l : list cst).

Definition cty (c : cst) : ity :=
  match c with
  | CUndef t | CUnit t | CBool t _ | CUint t _ | CU256 t _ | CB256 t _ | CString t _
  | CArray t _ | CStruct t _ => t
  end.

Inductive padding := PRight | PLeft.

Definition bind {A B} (o : outcome A) (f : A -> outcome B) : outcome B :=
  match o with Ok a => f a | Err c => Err c | Panic s => Panic s | OutOfFuel => OutOfFuel end.

(* panic sites *)
Definition SITE_ARRAY : N := 1.        (* unimplemented!("Arrays in storage ...") *)
Definition SITE_ASSERT_UNION : N := 2. (* assert!(value_size_in_words >= constant_size_in_words) *)
Definition SITE_UNION_LOOP : N := 3.   (* constant.ty is itself a union: unbounded recursion *)
Definition SITE_ADD_OVERFLOW : N := 4. (* uint `x + y` in add_to_b256: "arithmetic operation overflow" *)
Definition ERR_COUNT_MISMATCH : N := 9. (* key count and packed slot count differ (zip truncates) *)

Definition small_word (p : padding) (b : byte) : word :=
  match p with PRight => b :: zeros 7 | PLeft => zeros 7 ++ [b] end.

(* group a byte string (length a multiple of k) into chunks of k bytes; fuel = number of chunks *)
Fixpoint chunks (k : nat) (n : nat) (l : list byte) : list (list byte) :=
  match n with O => [] | S n' => firstn k l :: chunks k n' (skipn k l) end.

(* serialize_to_words, the `_ if ty.is_union` arm and the dispatch in front of it, parameterised
   by the other arms so that the definition below is structurally recursive.  [ty] is the type the
   caller passes, [cty c] the constant's own type. *)
Definition ser_with (arms : cst -> ity -> padding -> outcome (list word))
           (c : cst) (ty : ity) (p : padding) : outcome (list word) :=
  match c with
  | CUndef _ => Ok []
  | _ =>
    if is_union ty then
      let value_words := words_of (size ty) in
      let constant_words := words_of (size (cty c)) in
      if (value_words <? constant_words)%nat then Panic SITE_ASSERT_UNION
      else if is_union (cty c) then Panic SITE_UNION_LOOP
      else bind (arms c (cty c) PLeft)
                (fun ws => Ok (repeat (zeros 8) (value_words - constant_words) ++ ws))
    else arms c ty p
  end.

(* the arms of serialize_to_words for a [ty] that is not a union and a constant that is not Undef *)
Fixpoint arms (c : cst) (ty : ity) (p : padding) {struct c} : outcome (list word) :=
  match c with
  | CUndef _ => Ok []
  | CUnit _ => Ok []     (* after fix f414d7f: `Unit if ty.is_unit() => vec![]`; other types: `_ => vec![]` *)
  | CBool _ b => if is_bool ty then Ok [small_word p (if b then 1 else 0)] else Ok []
  | CUint _ n =>
      if is_uint8 ty then Ok [small_word p (n mod 256)]
      else if is_uint ty then Ok [be 8 n] else Ok []
  | CU256 _ n => if is_u256 ty then Ok (chunks 8 4 (be 32 n)) else Ok []
  | CB256 _ n => if is_b256 ty then Ok (chunks 8 4 (be 32 n)) else Ok []
  | CString _ s =>
      if is_str ty then
        let s' := s ++ zeros (round8 (length s) - length s) in
        Ok (chunks 8 (length s' / 8) s')
      else Ok []
  | CArray _ _ => if is_array ty then Panic SITE_ARRAY else Ok []
  | CStruct _ l =>
      if is_struct ty then
        (fix go (l : list cst) (ts : list ity) {struct l} : outcome (list word) :=
           match l, ts with
           | f :: l', t :: ts' =>
               bind (ser_with arms f t PRight) (fun w => bind (go l' ts') (fun r => Ok (w ++ r)))
           | _, _ => Ok []
           end) l (fields_of ty)
      else Ok []
  end.

Definition serialize_to_words (c : cst) (ty : ity) (p : padding) : outcome (list word) :=
  ser_with arms c ty p.

(* ---------- keys *)
Definition add_to_b256 (x : N) (y : nat) : outcome N :=
  let r := x + N.of_nat y in if r <? two256 then Ok r else Panic SITE_ADD_OVERFLOW.

Definition slot := (N * list byte)%type.      (* key as a number < 2^256, 32-byte value *)

Fixpoint keys_from (key : N) (i n : nat) : outcome (list N) :=
  match n with
  | O => Ok []
  | S n' => bind (add_to_b256 key i) (fun k => bind (keys_from key (S i) n') (fun r => Ok (k :: r)))
  end.

Definition one_slot (key : N) (bytes : list byte) : outcome (list slot) :=
  Ok [(key, bytes ++ zeros (32 - length bytes))].

(* serialize_to_storage_slots: [key] is get_storage_key(path, key).  The arms are tried in the
   order of the Rust `match`; a guard that fails falls through to the later arms ([generic]). *)
Definition slots_of (c : cst) (key : N) : outcome (list slot) :=
  let ty := cty c in
  let generic : outcome (list slot) :=
    if (match c with CArray _ _ => is_array ty | _ => false end) then Panic SITE_ARRAY
    else if is_str ty || is_struct ty || is_union ty then
      bind (serialize_to_words c ty PRight) (fun packed =>
        let packed := packed ++ repeat (zeros 8) ((length packed + 3) / 4 * 4 - length packed) in
        let nkeys := ((size ty + 31) / 32)%nat in
        let nvals := (length packed / 4)%nat in
        if negb (nkeys =? nvals)%nat then Err ERR_COUNT_MISMATCH
        else bind (keys_from key 0 nkeys) (fun ks =>
               Ok (combine ks (chunks 32 nvals (concat packed)))))
    else Ok [] in
  match c with
  | CUndef _ => Ok []
  | CUnit _ => if is_unit ty then one_slot key [] else generic
  | CBool _ b => if is_bool ty then one_slot key [if b then 1 else 0] else generic
  | CUint _ n =>
      if is_uint8 ty then one_slot key [n mod 256]
      else if is_uint ty then one_slot key (be 8 n) else generic
  | CU256 _ n => if is_u256 ty then one_slot key (be 32 n) else generic
  | CB256 _ n => if is_b256 ty then one_slot key (be 32 n) else generic
  | _ => generic
  end.

(* ---------- storage keys of fields (get_storage_key_string / get_storage_key) *)
Definition ident := list byte.
Definition s_storage : list byte := [115;116;111;114;97;103;101].   (* "storage" *)
Definition s_ns : list byte := [58;58].                              (* "::" *)
Definition s_dot : list byte := [46].                                (* "." *)

Fixpoint join_ns (l : list ident) : list byte :=
  match l with
  | [] => []
  | [a] => a
  | a :: r => a ++ s_ns ++ join_ns r
  end.

(* storage_field_path = namespaces ++ [name]; `len() == 1` iff no namespaces *)
Definition key_string (ns : list ident) (name : ident) : list byte :=
  match ns with
  | [] => s_storage ++ s_dot ++ name
  | _ => s_storage ++ s_ns ++ join_ns ns ++ s_dot ++ name
  end.

Definition STORAGE_DOMAIN : byte := 0.

Section Hash.
  (* SHA-256 (fuel_crypto::Hasher), an oracle: 32 output bytes. *)
  Variable H : list byte -> list byte.
  Definition hash_key (ns : list ident) (name : ident) : N :=
    of_be (H (STORAGE_DOMAIN :: key_string ns name)) 0.
  Definition field_key (ns : list ident) (name : ident) (explicit : option N) : N :=
    match explicit with Some k => k | None => hash_key ns name end.
End Hash.

(* ---------- source-level types and literal initializers, and the constants the compiler builds *)
Inductive sty :=
| SUnit | SBool | SU8 | SU16 | SU32 | SU64 | SU256 | SB256 | SStr (n : nat)
| SStruct (fs : list sty)            (* structs and tuples *)
| SEnum (vs : list sty)
| SArray (e : sty) (n : nat).

Inductive sval :=
| VUnit | VBool (b : bool) | VInt (n : N) | VBytes (s : list byte)
| VTuple (l : list sval) | VEnum (tag : nat) (payload : sval) | VArr (l : list sval).

Fixpoint lower (t : sty) : ity :=
  match t with
  | SUnit => IUnit | SBool => IBool | SU8 => IU8 | SU16 | SU32 | SU64 => IU64
  | SU256 => IU256 | SB256 => IB256 | SStr n => IStr n
  | SStruct fs => IStruct (map lower fs)
  | SEnum vs =>
      let vts := map lower vs in
      if forallb (fun v => (size v =? 0)%nat) vts then IStruct [IU64]
      else IStruct [IU64; IUnion vts]
  | SArray e n => IArray (lower e) n
  end.

Definition is_sunit t := match t with SUnit => true | _ => false end.

Fixpoint lower_val (t : sty) (v : sval) {struct v} : cst :=
  match t, v with
  | SUnit, _ => CStruct (IStruct []) []                (* `()` is an empty tuple expression *)
  | SBool, VBool b => CBool IBool b
  | SU8, VInt n => CUint IU8 n
  | SU16, VInt n | SU32, VInt n | SU64, VInt n => CUint IU64 n
  | SU256, VInt n => CU256 IU256 n
  | SB256, VInt n => CB256 IB256 n
  | SStr k, VBytes s => CString (IStr k) s
  | SStruct ts, VTuple vs =>
      CStruct (lower t)
        ((fix go (vs : list sval) (ts : list sty) {struct vs} : list cst :=
            match vs, ts with
            | v :: vs', t :: ts' => lower_val t v :: go vs' ts'
            | _, _ => []
            end) vs ts)
  | SEnum vts, VEnum tag pv =>
      let it := lower t in
      let tagc := CUint IU64 (N.of_nat tag) in
      match it with
      | IStruct [_] => CStruct it [tagc]
      | _ =>
        let vt := nth tag vts SUnit in
        CStruct it [tagc; if is_sunit vt then CUnit IUnit else lower_val vt pv]
      end
  | SArray e n, VArr l => CArray (lower t) (map (lower_val e) l)
  | _, _ => CUndef (lower t)
  end.

(* ---------- std::storage::storage_api::read_quads (via StorageKey::read) *)
Definition is_ref (t : ity) : bool :=           (* __is_reference_type *)
  match t with IUnit | IBool | IU8 | IU64 => false | _ => true end.

Definition store := list slot.
Fixpoint lookup (st : store) (k : N) : option (list byte) :=
  match st with [] => None | (k', v) :: r => if k' =? k then Some v else lookup r k end.

(* __state_load_quad (SRWQ): n consecutive slots; flag = all of them set; unset slots read as 0 *)
Fixpoint load_quads (st : store) (k : N) (n : nat) : option (list byte) * bool :=
  match n with
  | O => (Some [], true)
  | S n' =>
    if two256 <=? k then (None, false)      (* key increment overflow: VM panic *)
    else
      let '(rest, flag) := load_quads st (k + 1) n' in
      match rest with
      | None => (None, false)
      | Some bs =>
        match lookup st k with
        | Some v => (Some (v ++ bs), flag)
        | None => (Some (zeros 32 ++ bs), false)
        end
      end
  end.

(* result: Ok (Some bytes) = Some(value) with that memory representation; Ok None = None;
   Panic = the VM panics/reverts. *)
Definition read_quads (st : store) (slot_key : N) (offset : nat) (t : ity) : outcome (option (list byte)) :=
  let sz := size t in
  if (sz =? 0)%nat then Ok None else
  let last_slot := ((offset * 8 + sz + 31) / 32)%nat in
  let place := (offset mod 4)%nat in
  let nslots := if is_ref t then ((place * 8 + sz + 31) / 32)%nat else 1%nat in
  if (last_slot <? nslots)%nat then Panic 10 else
  let os := slot_key + N.of_nat (last_slot - nslots) in
  if two256 <=? os then Panic 11 else
  match load_quads st os nslots with
  | (None, _) => Panic 12
  | (Some bytes, true) => Ok (Some (firstn sz (skipn (place * 8) bytes)))
  | (Some _, false) => Ok None
  end.

(* a storage field of a declaration *)
Record field := { f_ns : list ident; f_name : ident; f_key : option N; f_ty : sty; f_val : sval }.
