(* C12 — whole declarations: disjoint fields read back independently; key strings; hashed keys. *)
From SwayV Require Import Base.Util C12.Model C12.Spec C12.Proofs C12.ProofsRead.
From Coq Require Import Permutation ZifyBool ZifyN ZifyNat.
Ltac Zify.zify_post_hook ::= Z.div_mod_to_equations.
Arguments N.add : simpl never. Arguments N.sub : simpl never. Arguments N.mul : simpl never.
Arguments N.div : simpl never. Arguments N.modulo : simpl never. Arguments N.eqb : simpl never.
Arguments N.ltb : simpl never. Arguments N.leb : simpl never. Arguments N.pow : simpl never.
Arguments N.of_nat : simpl never.
Open Scope nat_scope.

Definition field_pre (f : rfield) : Prop :=
  supported (snd f) /\ (fst f + N.of_nat (nslots (cty (snd f))) <= two256)%N.
Definition keys_of (f : rfield) : list N := seqN (fst f) (nslots (cty (snd f))).
Definition fdisjoint (a b : rfield) : Prop := disjoint (range_of a) (range_of b).

Lemma map_fst_combine {A B} (l : list A) : forall (r : list B), length l = length r -> map fst (combine l r) = l.
Proof. induction l as [|x l IH]; intros [|y r] Hl; try discriminate; [reflexivity|]. cbn. f_equal. apply IH. now inversion Hl. Qed.

Lemma in_combine_seqN n : forall k (vals : list (list byte)) i, length vals = n -> i < n ->
  In ((k + N.of_nat i)%N, nth i vals []) (combine (seqN k n) vals).
Proof.
  induction n as [|n IH]; intros k vals i Hl Hi; [lia|].
  destruct vals as [|v vals]; [discriminate|]. cbn [seqN combine].
  destruct i as [|i].
  - left. f_equal. lia.
  - right. replace (k + N.of_nat (S i))%N with (k + 1 + N.of_nat i)%N by lia. cbn [nth].
    apply IH; cbn in Hl; lia.
Qed.

Definition field_served (sl : list slot) (f : rfield) : Prop :=
  exists vals, length vals = nslots (cty (snd f)) /\
    firstn (size (cty (snd f))) (concat vals) = mem_plain (snd f) /\
    forall i, i < nslots (cty (snd f)) -> In ((fst f + N.of_nat i)%N, nth i vals []) sl.

Lemma all_slots_shape fs : Forall field_pre fs ->
  exists sl, all_slots fs = Ok sl /\ map fst sl = concat (map keys_of fs) /\ Forall (field_served sl) fs.
Proof.
  induction 1 as [|[k c] fs [Hs Hb] Hfs IH].
  - exists []. repeat split; constructor.
  - destruct IH as [sr [Hr [Hk Hserv]]]. cbn [fst snd] in *.
    destruct (slots_shape c k Hs Hb) as [vals [He [Hl [_ Hf]]]].
    exists (combine (seqN k (nslots (cty c))) vals ++ sr).
    cbn [all_slots]. rewrite He. cbn [bind]. rewrite Hr. cbn [bind]. split; [reflexivity|]. split.
    + rewrite map_app, Hk. cbn [map concat]. f_equal. unfold keys_of. cbn [fst snd].
      apply map_fst_combine. now rewrite length_seqN.
    + constructor.
      * exists vals. cbn [fst snd]. repeat split; try assumption.
        intros i Hi. apply in_or_app. left. now apply in_combine_seqN.
      * eapply Forall_impl; [|exact Hserv]. intros f [v [H1 [H2 H3]]]. exists v. repeat split; try assumption.
        intros i Hi. apply in_or_app. right. now apply H3.
Qed.

Lemma NoDup_app' {A} (l1 l2 : list A) :
  NoDup l1 -> NoDup l2 -> (forall x, In x l1 -> ~ In x l2) -> NoDup (l1 ++ l2).
Proof.
  induction l1 as [|a l1 IH]; intros H1 H2 Hd; [exact H2|]. cbn. inversion H1; subst. constructor.
  - rewrite in_app_iff. intros [Hi|Hi]; [contradiction|]. apply (Hd a); [now left|exact Hi].
  - apply IH; try assumption. intros x Hx. apply Hd. now right.
Qed.

Lemma NoDup_keys fs : pairwise fdisjoint fs -> NoDup (concat (map keys_of fs)).
Proof.
  induction fs as [|f fs IH]; intros Hp; [constructor|]. destruct Hp as [Hf Hp]. cbn [map concat].
  apply NoDup_app'; [apply NoDup_seqN | now apply IH |].
  intros x Hx Hin. apply in_concat in Hin as [ks [Hks Hxk]]. apply in_map_iff in Hks as [g [<- Hg]].
  rewrite Forall_forall in Hf. specialize (Hf g Hg).
  unfold keys_of in *. apply in_seqN in Hx. apply in_seqN in Hxk.
  unfold fdisjoint, disjoint, range_of in Hf. cbn [fst snd] in Hf. lia.
Qed.

Lemma lookup_In st : NoDup (map fst st) -> forall k v, In (k, v) st -> lookup st k = Some v.
Proof.
  induction st as [|[k' v'] st IH]; intros Hnd k v Hin; [destruct Hin|].
  cbn [map fst] in Hnd. inversion Hnd as [|? ? Hni Hnd']; subst. cbn [lookup].
  destruct Hin as [Heq|Hin].
  - inversion Heq; subst. now rewrite N.eqb_refl.
  - destruct (k' =? k)%N eqn:E.
    + apply N.eqb_eq in E. subst. exfalso. apply Hni. apply in_map_iff. exists (k, v). now split.
    + now apply IH.
Qed.

(* every field of a declaration whose key ranges are pairwise disjoint reads back its initializer
   from any store holding exactly the emitted slots (in any order: forc sorts them) *)
Lemma read_back_decl fs st sl :
  Forall field_pre fs -> pairwise fdisjoint fs -> all_slots fs = Ok sl -> Permutation st sl ->
  forall f, In f fs -> read_quads st (fst f) 0 (cty (snd f)) = Ok (Some (mem_plain (snd f))).
Proof.
  intros Hpre Hdis Hall Hperm f Hin.
  destruct (all_slots_shape fs Hpre) as [sl' [Hall' [Hk Hserv]]].
  rewrite Hall in Hall'. inversion Hall'; subst sl'. clear Hall'.
  assert (Hnd : NoDup (map fst st)).
  { eapply Permutation_NoDup; [apply Permutation_sym, Permutation_map, Hperm|].
    rewrite Hk. now apply NoDup_keys. }
  rewrite Forall_forall in Hpre, Hserv. destruct (Hpre f Hin) as [Hs Hb].
  destruct (Hserv f Hin) as [vals [Hl [Hf Hins]]].
  apply (read_from_store st (fst f) (snd f) vals Hs Hb Hl Hf).
  intros i Hi. apply lookup_In; [exact Hnd|].
  eapply Permutation_in; [apply Permutation_sym, Hperm|]. now apply Hins.
Qed.

(* ---------- the decidable side condition is exact *)
Lemma disjointb_iff a b : disjointb a b = true <-> disjoint a b.
Proof. unfold disjointb, disjoint. lia. Qed.

Lemma pairwiseb_iff {A} (R : A -> A -> Prop) (Rb : A -> A -> bool) :
  (forall a b, Rb a b = true <-> R a b) -> forall l, pairwiseb Rb l = true <-> pairwise R l.
Proof.
  intros HR. induction l as [|x l IH]; cbn [pairwiseb pairwise]; [tauto|].
  rewrite andb_true_iff, IH, forallb_forall, Forall_forall.
  split; intros [H1 H2]; (split; [|exact H2]); intros y Hy; apply HR, H1, Hy.
Qed.

(* ---------- key strings *)
Lemma split_clean (a b : ident) x X y Y :
  clean a -> clean b -> (x = 46 \/ x = 58)%N -> (y = 46 \/ y = 58)%N ->
  a ++ x :: X = b ++ y :: Y -> a = b /\ x :: X = y :: Y.
Proof.
  revert b. induction a as [|c a IH]; intros [|d b] [Ha1 Ha2] [Hb1 Hb2] Hx Hy He; cbn in *.
  - now split.
  - exfalso. inversion He; subst. destruct Hx; subst; tauto.
  - exfalso. inversion He; subst. destruct Hy; subst; tauto.
  - inversion He; subst. destruct (IH b) with (5 := H1) as [E1 E2]; try assumption; try (split; tauto).
    subst. now split.
Qed.

Lemma join_ns_cons a r : r <> [] -> join_ns (a :: r) = a ++ s_ns ++ join_ns r.
Proof. destruct r; [congruence|reflexivity]. Qed.

Lemma join_inj : forall l1 l2 f1 f2, l1 <> [] -> l2 <> [] ->
  Forall clean l1 -> Forall clean l2 -> clean f1 -> clean f2 ->
  join_ns l1 ++ s_dot ++ f1 = join_ns l2 ++ s_dot ++ f2 -> l1 = l2 /\ f1 = f2.
Proof.
  induction l1 as [|a r1 IH]; intros l2 f1 f2 Hn1 Hn2 Hc1 Hc2 Hf1 Hf2 He; [congruence|].
  destruct l2 as [|b r2]; [congruence|].
  inversion Hc1 as [|? ? Ha Hr1]; inversion Hc2 as [|? ? Hb Hr2]; subst.
  destruct r1 as [|a' r1]; destruct r2 as [|b' r2].
  - cbn [join_ns s_dot app] in He. apply split_clean in He as [E1 E2]; try assumption; try (left; reflexivity).
    inversion E2. subst. now split.
  - rewrite (join_ns_cons b (b' :: r2)) in He by discriminate. change (join_ns [a]) with a in He.
    rewrite <- !app_assoc in He. cbn [s_dot s_ns app] in He.
    apply split_clean in He as [E1 E2]; try assumption; try (left; reflexivity); try (right; reflexivity).
    discriminate.
  - rewrite (join_ns_cons a (a' :: r1)) in He by discriminate. change (join_ns [b]) with b in He.
    rewrite <- !app_assoc in He. cbn [s_dot s_ns app] in He.
    apply split_clean in He as [E1 E2]; try assumption; try (left; reflexivity); try (right; reflexivity).
    discriminate.
  - rewrite (join_ns_cons a (a' :: r1)), (join_ns_cons b (b' :: r2)) in He by discriminate.
    rewrite <- !app_assoc in He. cbn [s_ns app] in He.
    apply split_clean in He as [E1 E2]; try assumption; try (right; reflexivity).
    inversion E2 as [E3]. subst.
    destruct (IH (b' :: r2) f1 f2) as [E4 E5]; try assumption; try discriminate.
    subst. inversion E4; subst. now split.
Qed.

Lemma key_string_inj ns1 f1 ns2 f2 :
  Forall clean ns1 -> clean f1 -> Forall clean ns2 -> clean f2 ->
  key_string ns1 f1 = key_string ns2 f2 -> ns1 = ns2 /\ f1 = f2.
Proof.
  intros H1 Hf1 H2 Hf2 He. unfold key_string in He.
  destruct ns1 as [|a r1]; destruct ns2 as [|b r2].
  - apply app_inv_head in He. apply app_inv_head in He. now split.
  - apply app_inv_head in He. cbn in He. discriminate.
  - apply app_inv_head in He. cbn in He. discriminate.
  - apply app_inv_head in He. apply app_inv_head in He.
    apply join_inj in He; try assumption; try discriminate.
Qed.

(* ---------- hashed keys *)
Record dfield := { d_ns : list ident; d_name : ident; d_key : option N; d_c : cst }.
Definition d_path (f : dfield) := (d_ns f, d_name f).
Definition d_kstr (f : dfield) : list byte := key_string (d_ns f) (d_name f).
Definition d_clean (f : dfield) : Prop := Forall clean (d_ns f) /\ clean (d_name f).
Definition d_span (d : list dfield) : nat := list_max (map (fun f => nslots (cty (d_c f))) d).
Definition is_none {A} (o : option A) : bool := match o with None => true | Some _ => false end.

Lemma pairwise_intro {A B} (R : A -> A -> Prop) (p : A -> B) l :
  NoDup (map p l) -> (forall x y, In x l -> In y l -> p x <> p y -> R x y) -> pairwise R l.
Proof.
  induction l as [|x l IH]; intros Hnd HR; [exact I|]. cbn [map] in Hnd. inversion Hnd; subst.
  split.
  - apply Forall_forall. intros y Hy. apply HR; [now left|now right|].
    intros E. apply H1. rewrite E. now apply in_map.
  - apply IH; [assumption|]. intros a b Ha Hb. apply HR; now right.
Qed.

Lemma pairwise_and {A} (R S T : A -> A -> Prop) l :
  (forall a b, R a b -> S a b -> T a b) -> pairwise R l -> pairwise S l -> pairwise T l.
Proof.
  intros H. induction l as [|x l IH]; intros HR HS; [exact I|]. destruct HR as [R1 R2]; destruct HS as [S1 S2].
  split; [|now apply IH]. rewrite Forall_forall in *. intros y Hy. apply H; [apply R1|apply S1]; exact Hy.
Qed.

Lemma pairwise_map {A B} (g : A -> B) (R : B -> B -> Prop) l :
  pairwise (fun a b => R (g a) (g b)) l -> pairwise R (map g l).
Proof.
  induction l as [|x l IH]; intros HP; [exact I|]. destruct HP as [H1 H2]. split; [|now apply IH].
  apply Forall_forall. intros y Hy. apply in_map_iff in Hy as [a [<- Ha]]. rewrite Forall_forall in H1. now apply H1.
Qed.

Lemma list_max_in (l : list nat) x : In x l -> x <= list_max l.
Proof. induction l as [|a l IH]; intros Hin; [destruct Hin|]. rewrite list_max_cons. destruct Hin as [->|Hin]; [lia|specialize (IH Hin); lia]. Qed.

Section HashThms.
  Variable H : list byte -> list byte.

  Definition resolve (f : dfield) : rfield := (field_key H (d_ns f) (d_name f) (d_key f), d_c f).
  Definition d_hash (f : dfield) : N := hash_key H (d_ns f) (d_name f).

  (* the hypotheses on SHA-256, restricted to the finitely many key strings of the declaration *)
  Definition collision_free (d : list dfield) : Prop :=
    forall f g, In f d -> In g d -> d_kstr f <> d_kstr g -> d_hash f <> d_hash g.
  Definition spread (d : list dfield) : Prop :=
    forall f g, In f d -> In g d -> d_kstr f <> d_kstr g ->
      (d_hash f + N.of_nat (d_span d) <= d_hash g \/ d_hash g + N.of_nat (d_span d) <= d_hash f)%N.

  (* the decidable side condition for explicit `in` keys: every pair with at least one explicit
     key has disjoint key ranges *)
  Definition explicit_okb (d : list dfield) : bool :=
    pairwiseb (fun f g => (is_none (d_key f) && is_none (d_key g))
                          || disjointb (range_of (resolve f)) (range_of (resolve g))) d.

  Lemma implicit_key f : d_key f = None ->
    fst (resolve f) = of_be (H (0%N :: d_kstr f)) 0.
  Proof. intros E. unfold resolve, field_key, hash_key, d_kstr, STORAGE_DOMAIN. now rewrite E. Qed.

  Lemma fields_disjoint d :
    Forall d_clean d -> NoDup (map d_path d) -> spread d -> explicit_okb d = true ->
    pairwise fdisjoint (map resolve d).
  Proof.
    intros Hcl Hnd Hsp Hex. apply pairwise_map.
    assert (HA : pairwise (fun f g => (d_key f = None /\ d_key g = None) \/
                    disjoint (range_of (resolve f)) (range_of (resolve g))) d).
    { unfold explicit_okb in Hex.
      eapply pairwiseb_iff; [|exact Hex]. intros a b. rewrite orb_true_iff, andb_true_iff, disjointb_iff.
      unfold is_none. destruct (d_key a), (d_key b); intuition congruence. }
    assert (HB : pairwise (fun f g => d_key f = None -> d_key g = None ->
                    disjoint (range_of (resolve f)) (range_of (resolve g))) d).
    { apply (pairwise_intro _ d_path); [exact Hnd|]. intros f g Hf Hg Hne Ef Eg.
      assert (Hk : d_kstr f <> d_kstr g).
      { intros E. apply Hne. rewrite Forall_forall in Hcl.
        destruct (Hcl f Hf) as [C1 C2]. destruct (Hcl g Hg) as [C3 C4].
        destruct (key_string_inj _ _ _ _ C1 C2 C3 C4 E) as [E1 E2]. unfold d_path. congruence. }
      specialize (Hsp f g Hf Hg Hk).
      unfold disjoint, range_of, resolve, field_key. cbn [fst snd]. rewrite Ef, Eg. fold (d_hash f) (d_hash g).
      assert (S1 : nslots (cty (d_c f)) <= d_span d).
      { apply list_max_in. apply in_map_iff. now exists f. }
      assert (S2 : nslots (cty (d_c g)) <= d_span d).
      { apply list_max_in. apply in_map_iff. now exists g. }
      lia. }
    eapply pairwise_and; [|exact HA|exact HB]. cbn beta. intros a b [[E1 E2]|Hd] Hi; [now apply Hi|exact Hd].
  Qed.

  Lemma spread_collision_free d : 0 < d_span d -> spread d -> collision_free d.
  Proof. intros Hs Hsp f g Hf Hg Hk. specialize (Hsp f g Hf Hg Hk). lia. Qed.
End HashThms.
