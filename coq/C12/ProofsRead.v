(* C12 — the emitted slots read back as the initializer's memory layout. *)
From SwayV Require Import Base.Util C12.Model C12.Spec C12.Proofs.
From Coq Require Import Permutation ZifyBool ZifyN ZifyNat.
Ltac Zify.zify_post_hook ::= Z.div_mod_to_equations.
Arguments N.add : simpl never. Arguments N.sub : simpl never. Arguments N.mul : simpl never.
Arguments N.div : simpl never. Arguments N.modulo : simpl never. Arguments N.eqb : simpl never.
Arguments N.ltb : simpl never. Arguments N.leb : simpl never. Arguments N.pow : simpl never.
Arguments N.of_nat : simpl never.
Open Scope nat_scope.

Fixpoint seqN (k : N) (n : nat) : list N :=
  match n with O => [] | S n' => k :: seqN (k + 1)%N n' end.

Lemma length_seqN k n : length (seqN k n) = n.
Proof. revert k. induction n as [|n IH]; intros k; cbn [seqN length]; [reflexivity|]. now rewrite IH. Qed.

Lemma in_seqN x n : forall k, In x (seqN k n) <-> (k <= x < k + N.of_nat n)%N.
Proof.
  induction n as [|n IH]; intros k; cbn [seqN In].
  - split; [tauto | lia].
  - rewrite IH. lia.
Qed.

Lemma NoDup_seqN n : forall k, NoDup (seqN k n).
Proof.
  induction n as [|n IH]; intros k; cbn [seqN]; constructor; [|apply IH].
  rewrite in_seqN. lia.
Qed.

Lemma two256_pos : (0 < two256)%N.
Proof. unfold N.lt. vm_compute. reflexivity. Qed.

Lemma keys_from_ok n : forall key i,
  (key + N.of_nat i + N.of_nat n <= two256)%N ->
  keys_from key i n = Ok (seqN (key + N.of_nat i)%N n).
Proof.
  induction n as [|n IH]; intros key i Hb; cbn [keys_from seqN]; [reflexivity|].
  unfold add_to_b256.
  destruct (key + N.of_nat i <? two256)%N eqn:E; [|lia].
  cbn [bind]. rewrite IH by lia. cbn [bind]. do 2 f_equal. f_equal. lia.
Qed.

Lemma lookup_combine n : forall k vals i,
  length vals = n -> i < n ->
  lookup (combine (seqN k n) vals) (k + N.of_nat i)%N = Some (nth i vals []).
Proof.
  induction n as [|n IH]; intros k vals i Hl Hi; [lia|].
  destruct vals as [|v vals]; [discriminate|]. cbn [seqN combine lookup].
  destruct i as [|i].
  - replace (k + N.of_nat 0)%N with k by lia. rewrite N.eqb_refl. reflexivity.
  - destruct (k =? k + N.of_nat (S i))%N eqn:E; [lia|].
    replace (k + N.of_nat (S i))%N with (k + 1 + N.of_nat i)%N by lia.
    cbn [nth]. apply IH; cbn in Hl; lia.
Qed.

Lemma load_quads_ok n : forall st k vals,
  length vals = n -> (k + N.of_nat n <= two256)%N ->
  (forall i, i < n -> lookup st (k + N.of_nat i)%N = Some (nth i vals [])) ->
  load_quads st k n = (Some (concat vals), true).
Proof.
  induction n as [|n IH]; intros st k vals Hl Hb Hlk.
  - destruct vals; [reflexivity|discriminate].
  - destruct vals as [|v vals]; [discriminate|]. cbn [load_quads].
    destruct (two256 <=? k)%N eqn:E; [lia|].
    rewrite (IH st (k + 1)%N vals); [| cbn in Hl; lia | lia |].
    + specialize (Hlk 0 ltac:(lia)). replace (k + N.of_nat 0)%N with k in Hlk by lia.
      rewrite Hlk. reflexivity.
    + intros i Hi. specialize (Hlk (S i) ltac:(lia)).
      replace (k + 1 + N.of_nat i)%N with (k + N.of_nat (S i))%N by lia. exact Hlk.
Qed.

Lemma nslots_nonref t : is_ref t = false -> 0 < size t -> nslots t = 1.
Proof. destruct t; try discriminate; cbn; intros; try lia; reflexivity. Qed.

(* reading a field out of any store that maps the field's consecutive keys to [vals] *)
Lemma read_from_store st k c vals :
  supported c -> (k + N.of_nat (nslots (cty c)) <= two256)%N ->
  length vals = nslots (cty c) ->
  firstn (size (cty c)) (concat vals) = mem_plain c ->
  (forall i, i < nslots (cty c) -> lookup st (k + N.of_nat i)%N = Some (nth i vals [])) ->
  read_quads st k 0 (cty c) = Ok (Some (mem_plain c)).
Proof.
  intros [Hwt Hsz] Hb Hl Hf Hlk. unfold read_quads.
  destruct (size (cty c) =? 0) eqn:E0; [apply Nat.eqb_eq in E0; lia|].
  change (0 * 8) with 0. change (0 mod 4) with 0. change (0 * 8) with 0. cbn [Nat.add].
  fold (nslots (cty c)).
  assert (Hn : (if is_ref (cty c) then nslots (cty c) else 1) = nslots (cty c)).
  { destruct (is_ref (cty c)) eqn:Er; [reflexivity|]. symmetry. now apply nslots_nonref. }
  rewrite Hn. rewrite Nat.ltb_irrefl. rewrite Nat.sub_diag.
  replace (k + N.of_nat 0)%N with k by lia.
  assert (H1 : 1 <= nslots (cty c)) by (unfold nslots; lia).
  destruct (two256 <=? k)%N eqn:E; [lia|].
  rewrite (load_quads_ok _ st k vals Hl Hb Hlk). cbn [skipn]. now rewrite Hf.
Qed.

Lemma concat_len8 ws : Forall len8 ws -> length (concat ws) = 8 * length ws.
Proof.
  induction 1 as [|w r Hw Hr IH]; [reflexivity|]. cbn [concat length]. rewrite app_length, IH.
  unfold len8 in Hw. lia.
Qed.

Lemma firstn_app_exact {A} (l r : list A) n : length l = n -> firstn n (l ++ r) = l.
Proof. intros <-. rewrite firstn_app, Nat.sub_diag, firstn_all. cbn. apply app_nil_r. Qed.

Definition len32 (v : list byte) : Prop := length v = 32.

(* shape of serialize_to_storage_slots' result *)
Lemma slots_shape c key :
  supported c -> (key + N.of_nat (nslots (cty c)) <= two256)%N ->
  exists vals, slots_of c key = Ok (combine (seqN key (nslots (cty c))) vals) /\
               length vals = nslots (cty c) /\ Forall len32 vals /\
               firstn (size (cty c)) (concat vals) = mem_plain c.
Proof.
  intros [Hwt Hsz] Hb.
  assert (Hone : forall bytes, length bytes = size (cty c) -> size (cty c) <= 32 ->
            mem_plain c = bytes ->
            exists vals, one_slot key bytes = Ok (combine (seqN key (nslots (cty c))) vals) /\
               length vals = nslots (cty c) /\ Forall len32 vals /\
               firstn (size (cty c)) (concat vals) = mem_plain c).
  { intros bytes Hlb Hle Hm. exists [bytes ++ zeros (32 - length bytes)].
    assert (Hn : nslots (cty c) = 1) by (unfold nslots; lia).
    rewrite Hn. split; [reflexivity|]. split; [reflexivity|]. split.
    - constructor; [|constructor]. unfold len32. rewrite app_length, length_zeros. lia.
    - cbn [concat]. rewrite app_nil_r, Hm. now apply firstn_app_exact. }
  destruct c as [t|t|t b|t n|t n|t n|t s|t l|t l]; try discriminate.
  - destruct t; try discriminate. cbn in Hsz. lia.
  - destruct t; try discriminate. cbn [slots_of cty is_bool]. apply Hone; reflexivity || (cbn; lia).
  - destruct t; try discriminate; cbn [slots_of cty is_uint8 is_uint].
    + apply Hone; reflexivity || (cbn; lia).
    + apply Hone; [apply length_be | cbn; lia | reflexivity].
  - destruct t; try discriminate. cbn [slots_of cty is_u256]. apply Hone; [apply length_be | cbn; lia | reflexivity].
  - destruct t; try discriminate. cbn [slots_of cty is_b256]. apply Hone; [apply length_be | cbn; lia | reflexivity].
  - (* str[N] *)
    destruct t; try discriminate.
    destruct (arms_ok_all _ Hwt PRight) as [ws [Ha [H8 [Hlen Hc]]]].
    cbn [cty is_small] in Hc, Hlen, Ha, Hb, Hsz. destruct Hc as [Hc Hm].
    set (c := CString (IStr n) s) in *.
    assert (Hgen : slots_of c key =
       bind (serialize_to_words c (IStr n) PRight) (fun packed =>
        let packed := packed ++ repeat (zeros 8) ((length packed + 3) / 4 * 4 - length packed) in
        let nkeys := ((size (IStr n) + 31) / 32)%nat in
        let nvals := (length packed / 4)%nat in
        if negb (nkeys =? nvals)%nat then Err ERR_COUNT_MISMATCH
        else bind (keys_from key 0 nkeys) (fun ks =>
               Ok (combine ks (chunks 32 nvals (concat packed)))))) by reflexivity.
    rewrite Hgen. clear Hgen.
    assert (Hsw : serialize_to_words c (IStr n) PRight = Ok ws) by exact Ha.
    rewrite Hsw. cbn [bind]. cbv zeta.
    pose proof (concat_len8 ws H8) as Hcl. rewrite Hc, Hlen in Hcl.
    set (pad := (length ws + 3) / 4 * 4 - length ws).
    set (packed := ws ++ repeat (zeros 8) pad).
    assert (Hpl : length packed = length ws + pad) by (unfold packed; now rewrite app_length, repeat_length).
    assert (Hnk : (size (IStr n) + 31) / 32 = length packed / 4) by (rewrite Hpl; unfold pad; cbn [cty] in Hcl; lia).
    rewrite Hnk, Nat.eqb_refl. cbn [negb].
    fold (nslots (IStr n)) in Hnk. cbn [cty] in *.
    rewrite <- Hnk. rewrite (keys_from_ok _ key 0) by lia. cbn [bind].
    replace (key + N.of_nat 0)%N with key by lia.
    assert (Hcp : concat packed = mem_plain c ++ zeros (8 * pad)).
    { unfold packed. now rewrite concat_app, concat_repeat_zeros, Hc. }
    assert (Hlc : length (concat packed) = 32 * nslots (IStr n)).
    { rewrite Hcp, app_length, length_zeros, Hlen. rewrite Hnk, Hpl. unfold pad. lia. }
    exists (chunks 32 (nslots (IStr n)) (concat packed)).
    split; [reflexivity|]. split; [apply chunks_length|]. split; [apply chunks_each; exact Hlc|].
    rewrite chunks_concat by exact Hlc. rewrite Hcp. now apply firstn_app_exact.
  - (* struct / tuple / enum *)
    destruct t as [| | | | | | | |ts|]; try discriminate.
    destruct (arms_ok_all _ Hwt PRight) as [ws [Ha [H8 [Hlen Hc]]]].
    cbn [cty is_small] in Hc, Hlen, Ha, Hb, Hsz. destruct Hc as [Hc Hm].
    set (c := CStruct (IStruct ts) l) in *.
    assert (Hgen : slots_of c key =
       bind (serialize_to_words c (IStruct ts) PRight) (fun packed =>
        let packed := packed ++ repeat (zeros 8) ((length packed + 3) / 4 * 4 - length packed) in
        let nkeys := ((size (IStruct ts) + 31) / 32)%nat in
        let nvals := (length packed / 4)%nat in
        if negb (nkeys =? nvals)%nat then Err ERR_COUNT_MISMATCH
        else bind (keys_from key 0 nkeys) (fun ks =>
               Ok (combine ks (chunks 32 nvals (concat packed)))))) by reflexivity.
    rewrite Hgen. clear Hgen.
    assert (Hsw : serialize_to_words c (IStruct ts) PRight = Ok ws) by exact Ha.
    rewrite Hsw. cbn [bind]. cbv zeta.
    pose proof (concat_len8 ws H8) as Hcl. rewrite Hc, Hlen in Hcl.
    set (pad := (length ws + 3) / 4 * 4 - length ws).
    set (packed := ws ++ repeat (zeros 8) pad).
    assert (Hpl : length packed = length ws + pad) by (unfold packed; now rewrite app_length, repeat_length).
    assert (Hnk : (size (IStruct ts) + 31) / 32 = length packed / 4) by (rewrite Hpl; unfold pad; cbn [cty] in Hcl; lia).
    rewrite Hnk, Nat.eqb_refl. cbn [negb].
    fold (nslots (IStruct ts)) in Hnk. cbn [cty] in *.
    rewrite <- Hnk. rewrite (keys_from_ok _ key 0) by lia. cbn [bind].
    replace (key + N.of_nat 0)%N with key by lia.
    assert (Hcp : concat packed = mem_plain c ++ zeros (8 * pad)).
    { unfold packed. now rewrite concat_app, concat_repeat_zeros, Hc. }
    assert (Hlc : length (concat packed) = 32 * nslots (IStruct ts)).
    { rewrite Hcp, app_length, length_zeros, Hlen. rewrite Hnk, Hpl. unfold pad. lia. }
    exists (chunks 32 (nslots (IStruct ts)) (concat packed)).
    split; [reflexivity|]. split; [apply chunks_length|]. split; [apply chunks_each; exact Hlc|].
    rewrite chunks_concat by exact Hlc. rewrite Hcp. now apply firstn_app_exact.
Qed.

(* ---------- one field *)
Lemma read_back_single c key :
  supported c -> (key + N.of_nat (nslots (cty c)) <= two256)%N ->
  exists sl, slots_of c key = Ok sl /\ read_quads sl key 0 (cty c) = Ok (Some (mem_plain c)).
Proof.
  intros Hs Hb. destruct (slots_shape c key Hs Hb) as [vals [He [Hl [_ Hf]]]].
  eexists. split; [exact He|].
  apply (read_from_store _ key c vals Hs Hb Hl Hf).
  intros i Hi. now apply lookup_combine.
Qed.

(* without the range hypothesis the compiler panics in add_to_b256 (uint overflow) for
   multi-slot values; the witness is in Props.v *)
