(* C12 — per-declaration judgement evaluated by vm_compute on harness output. *)
From SwayV Require Import Base.Util C12.Model C12.Spec C12.Members.
Open Scope N_scope.

Fixpoint bytes_eqb (a b : list byte) : bool :=
  match a, b with [], [] => true | x :: a', y :: b' => (x =? y) && bytes_eqb a' b' | _, _ => false end.
Fixpoint bytes_leb (a b : list byte) : bool :=
  match a, b with
  | [], _ => true | _ :: _, [] => false
  | x :: a', y :: b' => if x <? y then true else if y <? x then false else bytes_leb a' b'
  end.

(* H instantiated by the digests Python computed with hashlib.sha256 *)
Fixpoint assoc (k : list byte) (l : list (list byte * list byte)) : option (list byte) :=
  match l with [] => None | (k', v) :: r => if bytes_eqb k' k then Some v else assoc k r end.
Definition H_of (dg : list (list byte * list byte)) (s : list byte) : list byte :=
  match assoc s dg with Some d => d | None => [] end.

Record jfield := {
  j_ns : list ident; j_name : ident; j_key : option N; j_ty : sty; j_val : sval;
  j_log : option (list byte);     (* log(storage.f.read()) observed in the VM: ABI encoding *)
  j_dump : option (list byte)     (* raw memory of the value read in the VM (reference types) *)
}.

Definition j_cst (f : jfield) : cst := lower_val (j_ty f) (j_val f).
Definition j_rkey (dg : list (list byte * list byte)) (f : jfield) : N :=
  field_key (H_of dg) (j_ns f) (j_name f) (j_key f).
Definition j_range dg f : range := (j_rkey dg f, nslots (cty (j_cst f))).
Definition j_miss dg (f : jfield) : bool :=
  match j_key f with
  | Some _ => false
  | None => match assoc (STORAGE_DOMAIN :: key_string (j_ns f) (j_name f)) dg with
            | Some d => negb (length d =? 32)%nat | None => true end
  end.

(* fuel_tx::StorageSlot orders by key only and forc uses the stable `sort()`: equal keys keep
   declaration order *)
Definition slot_leb (a b : slot) : bool := fst a <=? fst b.
Fixpoint insert_slot (s : slot) (l : list slot) : list slot :=
  match l with [] => [s] | x :: r => if slot_leb s x then s :: l else x :: insert_slot s r end.
Definition sort_slots (l : list slot) : list slot := fold_right insert_slot [] l.
Fixpoint slots_eqb (a b : list slot) : bool :=
  match a, b with
  | [], [] => true
  | (k, v) :: a', (k', v') :: b' => (k =? k') && bytes_eqb v v' && slots_eqb a' b'
  | _, _ => false
  end.

Definition supportedb (c : cst) : bool := wtb c && (0 <? size (cty c))%nat.

Definition reads_back (st : store) (k : N) (c : cst) : bool :=
  match read_quads st k 0 (cty c) with
  | Ok (Some bs) => bytes_eqb bs (mem_plain c)
  | _ => false
  end.

Definition opt_eqb (o : option (list byte)) (b : list byte) : bool :=
  match o with Some a => bytes_eqb a b | None => true end.

(* impl: 0 built and ran, 1 clean build error, 2 compiler panic.
   Result: [decl code; ranges disjoint (1/0); per-field codes...]
   decl codes: 0 emitted slots = model | 1 differ but every field reads back from the emitted slots
     (correspondence) | 2 VIOLATION emitted slots do not read back | 5 digest missing |
     8 compiler panic predicted by the model (known classes: key range overflow, arrays) |
     9 VIOLATION compiler panic on a declaration the model accepts | 10 build error |
     11 model panics/errs but the compiler does not (correspondence)
   field codes: 0 ok | 3 VIOLATION value read in the VM differs from the initializer |
     4 memory image differs from the layout model (correspondence) | 6 overlaps another field |
     7 not supported (ill-typed or zero-sized) | 13 VIOLATION no value observed (read reverted) *)
Definition judge (dg : list (list byte * list byte)) (fs : list jfield) (emitted : list slot) (impl : N) : list N :=
  if existsb (j_miss dg) fs then [5] else
  let rfs := map (fun f => (j_rkey dg f, j_cst f)) fs in
  let disj := pairwiseb disjointb (map (j_range dg) fs) in
  let m := all_slots rfs in
  let decl :=
    match impl, m with
    | 2, Ok _ => 9
    | 2, _ => 8
    | 1, _ => 10
    | _, Ok sl =>
        if slots_eqb (sort_slots sl) emitted then 0
        else if forallb (fun kc => reads_back emitted (fst kc) (snd kc)) rfs then 1 else 2
    | _, _ => 11
    end in
  let fcode (f : jfield) : N :=
    if negb (supportedb (j_cst f)) then 7
    else if negb (forallb (fun g => (bytes_eqb (key_string (j_ns g) (j_name g)) (key_string (j_ns f) (j_name f)))
                                     || disjointb (j_range dg f) (j_range dg g)) fs) then 6
    else match j_log f with
         | None => 13
         | Some lg =>
           if negb (bytes_eqb lg (abi_enc (j_ty f) (j_val f))) then 3
           else if negb (opt_eqb (j_dump f) (mem_plain (j_cst f))) then 4 else 0
         end in
  decl :: (if disj then 1 else 0) :: (match impl with 0 => map fcode fs | _ => [] end).

(* ---------- partial reads of struct members.
   member: index of the storage field, path of struct-field indices, value logged in the VM.
   codes: 0 ok | 3 VIOLATION the member read in the VM is not the initializer's member |
     13 VIOLATION no value observed (the read reverted) | 7 bad path / zero-sized member |
     14 the model of read_quads at the member's (slot, offset) on the EMITTED slots does not give the
        member's image (correspondence; expected only when the slots already disagree) |
     15 slicing the field's image at the member offset is not the member's own image (layout model) *)
Definition jmember := (nat * list nat * option (list byte))%type.

Definition judge_member (dg : list (list byte * list byte)) (fs : list jfield) (emitted : list slot)
           (m : jmember) : N :=
  let '(fi, path, lg) := m in
  match nth_error fs fi with
  | None => 7
  | Some f =>
    match sub_field (j_ty f) (j_val f) path with
    | None => 7
    | Some (t', v', off) =>
      let c' := lower_val t' v' in
      if negb (supportedb c') || negb (off mod 8 =? 0)%nat then 7
      else match lg with
           | None => 13
           | Some bs =>
             if negb (bytes_eqb bs (abi_enc t' v')) then 3
             else if negb (bytes_eqb (image_slice (j_ty f) (j_val f) off t') (mem_plain c')) then 15
             else match read_member emitted (j_rkey dg f) off t' with
                  | Ok (Some img) => if bytes_eqb img (mem_plain c') then 0 else 14
                  | _ => 14
                  end
           end
    end
  end.

Definition judge_members dg fs emitted (ms : list jmember) : list N :=
  if existsb (j_miss dg) fs then [] else map (judge_member dg fs emitted) ms.
