(* C12 — what the property says, as Props and boolean oracles. *)
From SwayV Require Import Base.Util C12.Model.
From Coq Require Import Permutation.
Open Scope N_scope.

(* ---------- in-memory layout of a constant (sway-ir layout, DESIGN Appendix A):
   bool/u8 one byte, u16/u32/u64 eight bytes big-endian, u256/b256 32 bytes, str[N] padded with
   zeros to a word boundary, struct = fields in order each padded to a word boundary,
   a union member sits at the END of the union (left padded), unit occupies nothing. *)
Definition pad8 (bs : list byte) : list byte := bs ++ zeros (round8 (length bs) - length bs).

Fixpoint mem_plain (c : cst) : list byte :=
  match c with
  | CBool _ b => [if b then 1 else 0]
  | CUint t n => match t with IU8 => [n mod 256] | _ => be 8 n end
  | CU256 _ n => be 32 n
  | CB256 _ n => be 32 n
  | CString _ s => pad8 s
  | CStruct t l =>
      (fix go (l : list cst) (ts : list ity) {struct l} : list byte :=
         match l, ts with
         | f :: l', ft :: ts' =>
             pad8 (if is_union ft then zeros (size ft - size (cty f)) ++ mem_plain f else mem_plain f)
             ++ go l' ts'
         | _, _ => []
         end) l (fields_of t)
  | _ => []
  end.

Definition mem_in (f : cst) (ft : ity) : list byte :=
  if is_union ft then zeros (size ft - size (cty f)) ++ mem_plain f else mem_plain f.

(* ---------- decidable equality on IR types *)
Fixpoint ity_eqb (a b : ity) {struct a} : bool :=
  match a, b with
  | IUnit, IUnit | IBool, IBool | IU8, IU8 | IU64, IU64 | IU256, IU256 | IB256, IB256 => true
  | IStr n, IStr m => (n =? m)%nat
  | IArray e n, IArray e' m => ity_eqb e e' && (n =? m)%nat
  | IStruct l, IStruct l' | IUnion l, IUnion l' =>
      (fix go (l l' : list ity) {struct l} : bool :=
         match l, l' with
         | [], [] => true
         | x :: r, y :: r' => ity_eqb x y && go r r'
         | _, _ => false
         end) l l'
  | _, _ => false
  end.

(* ---------- well-typed constants: the shapes const-eval builds for supported initializers.
   Arrays and Undef are not supported (arrays panic the compiler: recorded under C17). *)
Definition is_empty_struct (c : cst) : bool :=
  match c with CStruct (IStruct []) [] => true | _ => false end.

Definition field_okb (f : cst) (t : ity) : bool :=
  ity_eqb (cty f) t
  || (is_union t && existsb (ity_eqb (cty f)) (fields_of t) && negb (is_union (cty f)))
  || (is_unit t && is_empty_struct f).

Fixpoint wtb (c : cst) : bool :=
  match c with
  | CUnit IUnit => true
  | CBool IBool _ => true
  | CUint IU8 n => n <? 256
  | CUint IU64 n => n <? 2 ^ 64
  | CU256 IU256 n => n <? two256
  | CB256 IB256 n => n <? two256
  | CString (IStr k) s => (length s =? k)%nat
  | CStruct (IStruct ts) l =>
      (fix go (l : list cst) (ts : list ity) {struct l} : bool :=
         match l, ts with
         | [], [] => true
         | f :: l', t :: ts' => wtb f && field_okb f t && go l' ts'
         | _, _ => false
         end) l ts
  | _ => false
  end.

(* `supported`: a well-typed constant of non-zero size (zero-sized types read as None by design:
   storage_api.sw returns None when __size_of::<T>() == 0). *)
Definition supported (c : cst) : Prop := wtb c = true /\ (0 < size (cty c))%nat.

Definition nslots (t : ity) : nat := ((size t + 31) / 32)%nat.

(* ---------- key ranges *)
Definition range := (N * nat)%type.
Definition disjoint (a b : range) : Prop :=
  fst a + N.of_nat (snd a) <= fst b \/ fst b + N.of_nat (snd b) <= fst a.
Definition disjointb (a b : range) : bool :=
  (fst a + N.of_nat (snd a) <=? fst b) || (fst b + N.of_nat (snd b) <=? fst a).

Fixpoint pairwise {A} (R : A -> A -> Prop) (l : list A) : Prop :=
  match l with [] => True | x :: r => Forall (R x) r /\ pairwise R r end.
Fixpoint pairwiseb {A} (R : A -> A -> bool) (l : list A) : bool :=
  match l with [] => true | x :: r => forallb (R x) r && pairwiseb R r end.

(* resolved fields: key and constant *)
Definition rfield := (N * cst)%type.
Definition range_of (f : rfield) : range := (fst f, nslots (cty (snd f))).

Fixpoint all_slots (fs : list rfield) : outcome (list slot) :=
  match fs with
  | [] => Ok []
  | (k, c) :: r => bind (slots_of c k) (fun s => bind (all_slots r) (fun s' => Ok (s ++ s')))
  end.

(* identifiers: no ':' and no '.' *)
Definition clean (i : ident) : Prop := ~ In 58 i /\ ~ In 46 i.
Definition cleanb (i : ident) : bool := negb (existsb (N.eqb 58) i) && negb (existsb (N.eqb 46) i).

(* ---------- ABI encoding (v1) of an initializer, used only to compare the value logged in-VM
   by `log(storage.f.read())` with the declared initializer (argument encoding itself is C09). *)
Fixpoint abi_enc (t : sty) (v : sval) {struct v} : list byte :=
  match t, v with
  | SBool, VBool b => [if b then 1 else 0]
  | SU8, VInt n => be 1 n | SU16, VInt n => be 2 n | SU32, VInt n => be 4 n | SU64, VInt n => be 8 n
  | SU256, VInt n | SB256, VInt n => be 32 n
  | SStr _, VBytes s => s
  | SStruct ts, VTuple vs =>
      (fix go (vs : list sval) (ts : list sty) {struct vs} : list byte :=
         match vs, ts with v :: vs', t :: ts' => abi_enc t v ++ go vs' ts' | _, _ => [] end) vs ts
  | SEnum vts, VEnum tag pv => be 8 (N.of_nat tag) ++ abi_enc (nth tag vts SUnit) pv
  | _, _ => []
  end.
