(* C12 — partial reads of nested struct members: `storage.rec.tail.read()`.
   Model of compile_get_storage_key (sway-core/src/ir_generation/function.rs): every access into a
   storage field shares the field's key; the member's byte offset in the struct's memory layout
   (`get_indexed_offset`, word aligned) gives slot = key + words/4 and offset-in-slot = words mod 4,
   which StorageKey::read hands to read_quads.  No proofs here. *)
From SwayV Require Import Base.Util C12.Model C12.Spec.
Open Scope N_scope.

Definition field_off (ts : list sty) (i : nat) : nat :=
  list_sum (map (fun t => round8 (size (lower t))) (firstn i ts)).

(* member type, member initializer, byte offset from the start of the storage field *)
Fixpoint sub_field (t : sty) (v : sval) (path : list nat) {struct path} : option (sty * sval * nat) :=
  match path with
  | [] => Some (t, v, 0%nat)
  | i :: p =>
    match t, v with
    | SStruct ts, VTuple vs =>
      match nth_error ts i, nth_error vs i with
      | Some ti, Some vi =>
        match sub_field ti vi p with
        | Some (t', v', o) => Some (t', v', (field_off ts i + o)%nat)
        | None => None
        end
      | _, _ => None
      end
    | _, _ => None
    end
  end.

(* the StorageKey the compiler builds for the member *)
Definition member_key (key : N) (byte_off : nat) : N * nat :=
  let w := (byte_off / 8)%nat in (key + N.of_nat (w / 4), (w mod 4)%nat).

Definition read_member (st : store) (key : N) (byte_off : nat) (t : sty) : outcome (option (list byte)) :=
  let '(k, o) := member_key key byte_off in read_quads st k o (lower t).

(* the member's image is the field's image sliced at the member's offset *)
Definition image_slice (t : sty) (v : sval) (byte_off : nat) (t' : sty) : list byte :=
  firstn (size (lower t')) (skipn byte_off (mem_plain (lower_val t v))).
