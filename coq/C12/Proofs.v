(* C12 — lemmas: serialize_to_words produces the memory layout. *)
From SwayV Require Import Base.Util C12.Model C12.Spec.
From Coq Require Import Permutation ZifyBool ZifyN ZifyNat.
Ltac Zify.zify_post_hook ::= Z.div_mod_to_equations.
Arguments N.add : simpl never.
Arguments N.sub : simpl never.
Arguments N.mul : simpl never.
Arguments N.div : simpl never.
Arguments N.modulo : simpl never.
Arguments N.eqb : simpl never.
Arguments N.ltb : simpl never.
Arguments N.leb : simpl never.
Arguments N.pow : simpl never.
Open Scope nat_scope.

(* ---------- induction principles for the nested inductives *)
Section CstInd.
  Variable P : cst -> Prop.
  Hypothesis HUndef : forall t, P (CUndef t).
  Hypothesis HUnit : forall t, P (CUnit t).
  Hypothesis HBool : forall t b, P (CBool t b).
  Hypothesis HUint : forall t n, P (CUint t n).
  Hypothesis HU256 : forall t n, P (CU256 t n).
  Hypothesis HB256 : forall t n, P (CB256 t n).
  Hypothesis HString : forall t s, P (CString t s).
  Hypothesis HArray : forall t l, Forall P l -> P (CArray t l).
  Hypothesis HStruct : forall t l, Forall P l -> P (CStruct t l).
  Fixpoint cst_ind' (c : cst) : P c :=
    match c with
    | CUndef t => HUndef t | CUnit t => HUnit t | CBool t b => HBool t b | CUint t n => HUint t n
    | CU256 t n => HU256 t n | CB256 t n => HB256 t n | CString t s => HString t s
    | CArray t l => HArray t l ((fix go (l : list cst) : Forall P l :=
                      match l with [] => Forall_nil _ | x :: r => Forall_cons _ (cst_ind' x) (go r) end) l)
    | CStruct t l => HStruct t l ((fix go (l : list cst) : Forall P l :=
                      match l with [] => Forall_nil _ | x :: r => Forall_cons _ (cst_ind' x) (go r) end) l)
    end.
End CstInd.

Section ItyInd.
  Variable P : ity -> Prop.
  Hypothesis H0 : P IUnit. Hypothesis H1 : P IBool. Hypothesis H2 : P IU8. Hypothesis H3 : P IU64.
  Hypothesis H4 : P IU256. Hypothesis H5 : P IB256. Hypothesis H6 : forall n, P (IStr n).
  Hypothesis H7 : forall e n, P e -> P (IArray e n).
  Hypothesis H8 : forall l, Forall P l -> P (IStruct l).
  Hypothesis H9 : forall l, Forall P l -> P (IUnion l).
  Fixpoint ity_ind' (t : ity) : P t :=
    match t with
    | IUnit => H0 | IBool => H1 | IU8 => H2 | IU64 => H3 | IU256 => H4 | IB256 => H5 | IStr n => H6 n
    | IArray e n => H7 e n (ity_ind' e)
    | IStruct l => H8 l ((fix go (l : list ity) : Forall P l :=
                      match l with [] => Forall_nil _ | x :: r => Forall_cons _ (ity_ind' x) (go r) end) l)
    | IUnion l => H9 l ((fix go (l : list ity) : Forall P l :=
                      match l with [] => Forall_nil _ | x :: r => Forall_cons _ (ity_ind' x) (go r) end) l)
    end.
End ItyInd.

Fixpoint ity_list_eqb (l l' : list ity) : bool :=
  match l, l' with [], [] => true | x :: r, y :: r' => ity_eqb x y && ity_list_eqb r r' | _, _ => false end.

Lemma ity_eqb_struct l l' : ity_eqb (IStruct l) (IStruct l') = ity_list_eqb l l'.
Proof. reflexivity. Qed.
Lemma ity_eqb_union l l' : ity_eqb (IUnion l) (IUnion l') = ity_list_eqb l l'.
Proof. reflexivity. Qed.

Lemma ity_eqb_eq : forall a b, ity_eqb a b = true -> a = b.
Proof.
  induction a as [| | | | | |n|e n IHe|l IHl|l IHl] using ity_ind'; intros b Hb; destruct b; try discriminate; try reflexivity.
  - cbn in Hb. apply Nat.eqb_eq in Hb. congruence.
  - cbn in Hb. apply andb_prop in Hb as [He Hn]. apply Nat.eqb_eq in Hn. apply IHe in He. congruence.
  - rewrite ity_eqb_struct in Hb. f_equal. revert fs Hb.
    induction IHl as [|x r Hx Hr IH]; intros [|y r'] Hb; try discriminate; try reflexivity.
    cbn in Hb. apply andb_prop in Hb as [H1 H2]. f_equal; [apply Hx; exact H1 | apply IH; exact H2].
  - rewrite ity_eqb_union in Hb. f_equal. revert vs Hb.
    induction IHl as [|x r Hx Hr IH]; intros [|y r'] Hb; try discriminate; try reflexivity.
    cbn in Hb. apply andb_prop in Hb as [H1 H2]. f_equal; [apply Hx; exact H1 | apply IH; exact H2].
Qed.

(* ---------- arithmetic and list basics *)
Lemma round8_mod n : round8 n mod 8 = 0.
Proof. unfold round8. apply Nat.mod_mul. lia. Qed.
Lemma round8_ge n : n <= round8 n.
Proof. unfold round8. lia. Qed.
Lemma round8_id n : n mod 8 = 0 -> round8 n = n.
Proof. unfold round8. lia. Qed.
Lemma words_of_mul n : n mod 8 = 0 -> 8 * words_of n = n.
Proof. unfold words_of. lia. Qed.
Lemma words_of_round8 n : words_of (round8 n) = words_of n.
Proof. unfold words_of, round8. lia. Qed.

Lemma length_zeros n : length (zeros n) = n.
Proof. apply repeat_length. Qed.
Lemma zeros_app a b : zeros a ++ zeros b = zeros (a + b).
Proof. unfold zeros. symmetry. apply repeat_app. Qed.
Lemma length_be k n : length (be k n) = k.
Proof. revert n. induction k as [|k IH]; intros n; cbn [be]; [reflexivity|]. rewrite app_length, IH. cbn. lia. Qed.

Lemma length_pad8 bs : length (pad8 bs) = round8 (length bs).
Proof. unfold pad8. rewrite app_length, length_zeros. pose proof (round8_ge (length bs)). lia. Qed.
Lemma pad8_id bs : length bs mod 8 = 0 -> pad8 bs = bs.
Proof. intros H. unfold pad8. rewrite round8_id by exact H. rewrite Nat.sub_diag. cbn. apply app_nil_r. Qed.

Lemma concat_repeat_zeros k : concat (repeat (zeros 8) k) = zeros (8 * k).
Proof.
  induction k as [|k IH]; [reflexivity|]. cbn [repeat concat]. rewrite IH, zeros_app. f_equal. lia.
Qed.

Lemma chunks_concat k n l : length l = k * n -> concat (chunks k n l) = l.
Proof.
  revert l. induction n as [|n IH]; intros l Hl; cbn [chunks concat].
  - rewrite Nat.mul_0_r in Hl. destruct l; [reflexivity|discriminate].
  - rewrite IH; [apply firstn_skipn|]. rewrite skipn_length. lia.
Qed.
Lemma chunks_length k n l : length (chunks k n l) = n.
Proof. revert l. induction n as [|n IH]; intros l; cbn [chunks length]; [reflexivity|]. now rewrite IH. Qed.
Lemma chunks_each k n l : length l = k * n -> Forall (fun w => length w = k) (chunks k n l).
Proof.
  revert l. induction n as [|n IH]; intros l Hl; cbn [chunks]; constructor.
  - rewrite firstn_length. lia.
  - apply IH. rewrite skipn_length. lia.
Qed.

Lemma list_max_cons x r : list_max (x :: r) = Nat.max x (list_max r).
Proof. reflexivity. Qed.
Lemma list_sum_cons x r : list_sum (x :: r) = x + list_sum r.
Proof. reflexivity. Qed.

Lemma list_max_round8_mod (l : list ity) : list_max (map (fun f => round8 (size f)) l) mod 8 = 0.
Proof.
  induction l as [|x r IH]; [reflexivity|]. rewrite map_cons, list_max_cons.
  destruct (Nat.max_spec (round8 (size x)) (list_max (map (fun f => round8 (size f)) r))) as [[_ E]|[_ E]];
    rewrite E; [exact IH | apply round8_mod].
Qed.
Lemma list_sum_round8_mod (l : list ity) : list_sum (map (fun f => round8 (size f)) l) mod 8 = 0.
Proof.
  induction l as [|x r IH]; [reflexivity|]. rewrite map_cons, list_sum_cons.
  pose proof (round8_mod (size x)). rewrite Nat.add_mod by lia. rewrite H, IH. reflexivity.
Qed.
Lemma list_max_ge (l : list ity) t : In t l -> round8 (size t) <= list_max (map (fun f => round8 (size f)) l).
Proof.
  induction l as [|x r IH]; intros Hin; [destruct Hin|]. rewrite map_cons, list_max_cons.
  destruct Hin as [->|Hin]; [lia | specialize (IH Hin); lia].
Qed.

(* ---------- named versions of the nested fixpoints *)
Fixpoint arms_fields (l : list cst) (ts : list ity) : outcome (list word) :=
  match l, ts with
  | f :: l', t :: ts' =>
      bind (ser_with arms f t PRight) (fun w => bind (arms_fields l' ts') (fun r => Ok (w ++ r)))
  | _, _ => Ok []
  end.
Fixpoint mem_fields (l : list cst) (ts : list ity) : list byte :=
  match l, ts with
  | f :: l', ft :: ts' => pad8 (mem_in f ft) ++ mem_fields l' ts'
  | _, _ => []
  end.
Fixpoint wt_fields (l : list cst) (ts : list ity) : bool :=
  match l, ts with
  | [], [] => true
  | f :: l', t :: ts' => wtb f && field_okb f t && wt_fields l' ts'
  | _, _ => false
  end.

Lemma arms_struct t l ty p :
  arms (CStruct t l) ty p = if is_struct ty then arms_fields l (fields_of ty) else Ok [].
Proof. reflexivity. Qed.
Lemma mem_struct t l : mem_plain (CStruct t l) = mem_fields l (fields_of t).
Proof. reflexivity. Qed.
Lemma wtb_struct ts l : wtb (CStruct (IStruct ts) l) = wt_fields l ts.
Proof. reflexivity. Qed.

Definition is_small (t : ity) : bool := match t with IBool | IU8 => true | _ => false end.
Definition len8 (w : word) : Prop := length w = 8.

(* what serialize_to_words' arms return for a well-typed constant at its own type *)
Definition arms_ok (c : cst) : Prop :=
  forall p, exists ws,
    arms c (cty c) p = Ok ws /\ Forall len8 ws /\ length (mem_plain c) = size (cty c) /\
    (if is_small (cty c) then concat ws = small_word p (hd 0%N (mem_plain c))
     else concat ws = mem_plain c /\ size (cty c) mod 8 = 0).

Lemma wtb_not_union c : wtb c = true -> is_union (cty c) = false.
Proof. destruct c as [t|t|t b|t n|t n|t n|t s|t l|t l]; destruct t; cbn; try discriminate; reflexivity. Qed.
Lemma wtb_not_undef c : wtb c = true -> forall t, c <> CUndef t.
Proof. intros H t E. subst. discriminate. Qed.

Lemma existsb_ity_In t l : existsb (ity_eqb t) l = true -> In t l.
Proof.
  rewrite existsb_exists. intros [x [Hin He]]. apply ity_eqb_eq in He. now subst.
Qed.

Lemma ser_field f t :
  wtb f = true -> field_okb f t = true -> arms_ok f ->
  exists ws, ser_with arms f t PRight = Ok ws /\ Forall len8 ws /\
             concat ws = pad8 (mem_in f t) /\ length (mem_in f t) = size t.
Proof.
  intros Hwt Hok IH. unfold field_okb in Hok.
  pose proof (wtb_not_union f Hwt) as Hnu.
  apply orb_prop in Hok as [Hok|Hok]; [apply orb_prop in Hok as [Hok|Hok]|].
  - (* the field's own type *)
    apply ity_eqb_eq in Hok. subst t.
    destruct (IH PRight) as [ws [Ha [Hl [Hlen Hc]]]].
    exists ws. unfold mem_in. rewrite Hnu.
    assert (Hs : ser_with arms f (cty f) PRight = arms f (cty f) PRight).
    { unfold ser_with. rewrite Hnu. destruct f; try reflexivity; try discriminate. }
    rewrite Hs. repeat split; try assumption.
    destruct (is_small (cty f)) eqn:Esm.
    + assert (Hsz : size (cty f) = 1) by (destruct (cty f); try discriminate; reflexivity).
      rewrite Hc. destruct (mem_plain f) as [|b [|b' r]]; cbn in Hlen; try lia.
      reflexivity.
    + destruct Hc as [Hc Hm]. rewrite Hc. symmetry. apply pad8_id. now rewrite Hlen.
  - (* member of a union *)
    apply andb_prop in Hok as [Hok _]. apply andb_prop in Hok as [Hu Hin].
    destruct t as [| | | | | | | | |vs]; try discriminate. cbn [fields_of] in Hin.
    apply existsb_ity_In in Hin.
    destruct (IH PLeft) as [ws [Ha [Hl [Hlen Hc]]]].
    pose proof (list_max_ge vs (cty f) Hin) as Hge.
    pose proof (list_max_round8_mod vs) as Hmod.
    pose proof (round8_ge (size (cty f))) as Hr.
    set (U := size (IUnion vs)) in *.
    assert (HU : U = list_max (map (fun f => round8 (size f)) vs)) by reflexivity.
    assert (Hww : words_of (size (cty f)) <= words_of U).
    { unfold words_of. rewrite HU. unfold round8 in *. lia. }
    exists (repeat (zeros 8) (words_of U - words_of (size (cty f))) ++ ws).
    assert (Hs : ser_with arms f (IUnion vs) PRight =
                 Ok (repeat (zeros 8) (words_of U - words_of (size (cty f))) ++ ws)).
    { unfold ser_with. cbn [is_union]. fold U.
      destruct (words_of U <? words_of (size (cty f))) eqn:Elt; [apply Nat.ltb_lt in Elt; lia|].
      rewrite Hnu, Ha. cbn [bind]. destruct f; try reflexivity; try discriminate. }
    rewrite Hs. split; [reflexivity|]. split.
    { apply Forall_app. split; [|exact Hl]. apply Forall_forall. intros w Hw.
      apply repeat_spec in Hw. subst. apply length_zeros. }
    unfold mem_in. cbn [is_union]. fold U.
    assert (Hlm : length (zeros (U - size (cty f)) ++ mem_plain f) = U).
    { rewrite app_length, length_zeros, Hlen. lia. }
    split; [|exact Hlm].
    rewrite pad8_id by (rewrite Hlm, HU; exact Hmod).
    rewrite concat_app, concat_repeat_zeros.
    destruct (is_small (cty f)) eqn:Esm.
    + assert (Hsz : size (cty f) = 1) by (destruct (cty f); try discriminate; reflexivity).
      rewrite Hc. destruct (mem_plain f) as [|b [|b' r]]; cbn in Hlen; try lia.
      cbn [hd small_word]. rewrite app_assoc, zeros_app. f_equal. f_equal.
      rewrite Hsz in *. unfold words_of, round8 in *. rewrite HU in *. lia.
    + destruct Hc as [Hc Hm]. rewrite Hc. f_equal. f_equal.
      unfold words_of in *. rewrite HU in *. lia.
  - (* `()` in a unit-typed field *)
    apply andb_prop in Hok as [Hu He].
    destruct t; try discriminate.
    destruct f as [| | | | | | | |t' l]; try discriminate.
    destruct t' as [| | | | | | | |fs|]; try discriminate.
    destruct fs; try discriminate. destruct l; try discriminate.
    exists []. cbn. repeat split; constructor.
Qed.

Lemma fields_ok l : Forall arms_ok l -> forall ts, wt_fields l ts = true ->
  exists ws, arms_fields l ts = Ok ws /\ Forall len8 ws /\ concat ws = mem_fields l ts /\
             length (mem_fields l ts) = list_sum (map (fun f => round8 (size f)) ts).
Proof.
  induction 1 as [|f l Hf Hl IH]; intros ts Hwt.
  - destruct ts; [|discriminate]. exists []. cbn. repeat split; constructor.
  - destruct ts as [|t ts]; [discriminate|]. cbn [wt_fields] in Hwt.
    apply andb_prop in Hwt as [Hwt Hrest]. apply andb_prop in Hwt as [Hwf Hok].
    destruct (ser_field f t Hwf Hok Hf) as [w [Hs [Hw8 [Hc Hlen]]]].
    destruct (IH ts Hrest) as [r [Hr [Hr8 [Hrc Hrl]]]].
    exists (w ++ r). cbn [arms_fields mem_fields]. rewrite Hs. cbn [bind]. rewrite Hr. cbn [bind].
    split; [reflexivity|]. split; [apply Forall_app; now split|].
    split; [rewrite concat_app; congruence|].
    rewrite app_length, length_pad8, Hlen, Hrl. reflexivity.
Qed.

Lemma arms_ok_all : forall c, wtb c = true -> arms_ok c.
Proof.
  induction c as [t|t|t b|t n|t n|t n|t s|t l IHl|t l IHl] using cst_ind'; intros Hwt p; try discriminate.
  - destruct t; try discriminate. exists []. cbn. repeat split; constructor.
  - destruct t; try discriminate. eexists. cbn [arms cty is_bool]. split; [reflexivity|]. split.
    + constructor; [|constructor]. destruct p; reflexivity.
    + split; [reflexivity|]. cbn [is_small cty concat mem_plain hd]. apply app_nil_r.
  - destruct t; try discriminate.
    + eexists. cbn [arms cty is_uint8]. split; [reflexivity|]. split.
      * constructor; [|constructor]. destruct p; reflexivity.
      * split; [reflexivity|]. cbn [is_small cty concat mem_plain hd]. apply app_nil_r.
    + eexists. cbn [arms cty is_uint8 is_uint]. split; [reflexivity|]. split.
      * constructor; [|constructor]. apply length_be.
      * split; [apply length_be|]. cbn [is_small cty concat mem_plain]. split; [apply app_nil_r|reflexivity].
  - destruct t; try discriminate. eexists. cbn [arms cty is_u256]. split; [reflexivity|]. split.
    + apply chunks_each. now rewrite length_be.
    + split; [apply length_be|]. cbn [is_small cty mem_plain]. split; [|reflexivity].
      apply chunks_concat. now rewrite length_be.
  - destruct t; try discriminate. eexists. cbn [arms cty is_b256]. split; [reflexivity|]. split.
    + apply chunks_each. now rewrite length_be.
    + split; [apply length_be|]. cbn [is_small cty mem_plain]. split; [|reflexivity].
      apply chunks_concat. now rewrite length_be.
  - destruct t; try discriminate. cbn in Hwt. apply Nat.eqb_eq in Hwt. subst n.
    eexists. cbn [arms cty is_str]. split; [reflexivity|].
    fold (pad8 s). pose proof (length_pad8 s) as Hp. pose proof (round8_mod (length s)) as Hm.
    assert (He : length (pad8 s) = 8 * (length (pad8 s) / 8)).
    { rewrite Hp. unfold round8 in *. lia. }
    split; [apply chunks_each; exact He|].
    split; [cbn [mem_plain size]; exact Hp|]. cbn [is_small mem_plain size].
    split; [apply chunks_concat; exact He | exact Hm].
  - destruct t as [| | | | | | | |ts|]; try discriminate.
    rewrite wtb_struct in Hwt.
    assert (Hall : Forall arms_ok l).
    { clear p. revert ts Hwt. induction IHl as [|f r Hf Hr IH]; intros ts Hwt; constructor.
      - destruct ts; [discriminate|]. cbn in Hwt. apply andb_prop in Hwt as [Hwt _].
        apply andb_prop in Hwt as [Hwt _]. apply Hf. exact Hwt.
      - destruct ts; [discriminate|]. cbn in Hwt. apply andb_prop in Hwt as [_ Hwt]. eapply IH. exact Hwt. }
    destruct (fields_ok l Hall ts Hwt) as [ws [Ha [H8 [Hc Hlen]]]].
    exists ws. rewrite arms_struct. cbn [cty is_struct fields_of]. split; [exact Ha|]. split; [exact H8|].
    rewrite mem_struct. cbn [fields_of size is_small]. split; [exact Hlen|]. split; [exact Hc|].
    apply list_sum_round8_mod.
Qed.
