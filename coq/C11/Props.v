(* C11 — property theorems only. *)
From SwayV Require Import Base.Util C11.Model C11.Spec C11.Proofs.
Open Scope nat_scope.

(* invariant of the append-or-reuse loop: the i-th arm points at the i-th method's own name *)
Theorem C11_pool_offsets_valid : forall names i nm, nth_error names i = Some nm ->
  exists a, nth_error (build_arms names) i = Some a /\ a_idx a = i /\ a_len a = length nm /\
            sub (build_pool names) (a_off a) (a_len a) = nm.
Proof. exact pool_offsets_valid. Qed.
Print Assumptions C11_pool_offsets_valid.

(* a call naming method i runs exactly method i (method names of a contract are pairwise
   distinct: MultipleContractsMethodsWithTheSameName is a compile error) *)
Theorem C11_dispatch_exact : forall names fb n i, NoDup names ->
  (dispatch names fb n = Method i <-> nth_error names i = Some n).
Proof.
  intros names fb n i Hnd. split; [apply dispatch_method | now apply dispatch_finds].
Qed.
Print Assumptions C11_dispatch_exact.

(* the soundness half needs no hypothesis at all *)
Theorem C11_dispatch_sound : forall names fb n i,
  dispatch names fb n = Method i -> nth_error names i = Some n.
Proof. exact dispatch_method. Qed.
Print Assumptions C11_dispatch_sound.

Theorem C11_dispatch_fallback : forall names fb n, ~ In n names ->
  dispatch names fb n = if fb then Fallback else Revert MISMATCHED_SELECTOR_REVERT_CODE.
Proof. exact dispatch_fallback. Qed.
Print Assumptions C11_dispatch_fallback.

Theorem C11_dispatch_is_lookup : forall names fb n, NoDup names ->
  dispatch names fb n = spec_dispatch names fb n.
Proof. exact dispatch_is_lookup. Qed.
Print Assumptions C11_dispatch_is_lookup.

Theorem C11_dispatch_total : forall names fb n, NoDup names ->
  (exists i, nth_error names i = Some n /\ dispatch names fb n = Method i) \/
  (~ In n names /\ dispatch names fb n = if fb then Fallback else Revert MISMATCHED_SELECTOR_REVERT_CODE).
Proof.
  intros names fb n Hnd. destruct (index_of n names 0) as [i|] eqn:Ei.
  - left. apply index_of_some in Ei as [_ Hn]. rewrite Nat.sub_0_r in Hn.
    exists i. split; [exact Hn | now apply dispatch_finds].
  - right. apply index_of_none in Ei. split; [exact Ei | now apply dispatch_fallback].
Qed.
Print Assumptions C11_dispatch_total.

(* Argument/result integrity is not proved here: it is C09's encode/decode round trip for the
   `(args,)` tuple and the return type (named dependency); C11's check validates it per call. *)

(* ---------- non-vacuity: ab abcd bc cd xab é  ->  pool "ababcdxabé" *)
Definition ex_names : list name :=
  [[97;98]; [97;98;99;100]; [98;99]; [99;100]; [120;97;98]; [195;169]]%N.
Example C11_example_pool :
  build_pool ex_names = [97;98;97;98;99;100;120;97;98;195;169]%N /\
  map a_off (build_arms ex_names) = [0;2;3;4;6;9] /\
  map a_off (arm_order (build_arms ex_names)) = [0;3;4;9;6;2].
Proof. vm_compute. repeat split. Qed.
Example C11_example_dispatch :
  dispatch ex_names true [98;99]%N = Method 2 /\ dispatch ex_names true [98;99;100]%N = Fallback /\
  dispatch ex_names false [98]%N = Revert 123.
Proof. vm_compute. repeat split. Qed.

(* The dispatch theorems speak about contracts whose `__entry` compiles.  It does not when the pooled
   names push an arm offset past the 12-bit immediate of `addi` (replayed on the compiler: 70 methods
   with 60-byte names are rejected, 69 are accepted). *)
Definition ex_big (k : nat) : list name := map (fun i => repeat (N.of_nat i) 60) (seq 1 k).
Example C11_entry_limit : entry_ok (ex_big 69) = true /\ entry_ok (ex_big 70) = false.
Proof. split; vm_compute; reflexivity. Qed.
