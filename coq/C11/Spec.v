(* C11 — what dispatch has to do: look the called name up among the declared method names. *)
From SwayV Require Import Base.Util C11.Model.
Open Scope N_scope.

Fixpoint index_of (called : name) (names : list name) (i : nat) : option nat :=
  match names with
  | [] => None
  | n :: r => if bytes_eqb n called then Some i else index_of called r (S i)
  end.

Definition spec_dispatch (names : list name) (fallback : bool) (called : name) : result :=
  match index_of called names 0 with
  | Some i => Method i
  | None => if fallback then Fallback else Revert MISMATCHED_SELECTOR_REVERT_CODE
  end.
