(* C11 — per-contract judgement evaluated by vm_compute on harness output. *)
From SwayV Require Import Base.Util C11.Model C11.Spec.
Open Scope N_scope.

Inductive obs := OMethod (marker : nat) | OFallback | ORevert (code : N) | OOther.

Definition result_eqb (a b : result) : bool :=
  match a, b with
  | Method i, Method j => (i =? j)%nat
  | Fallback, Fallback => true
  | Revert c, Revert d => c =? d
  | _, _ => false
  end.
Definition obs_is (o : obs) (r : result) : bool :=
  match o, r with
  | OMethod i, Method j => (i =? j)%nat
  | OFallback, Fallback => true
  | ORevert c, Revert d => c =? d
  | _, _ => false
  end.
Fixpoint nats_eqb (a b : list nat) : bool :=
  match a, b with [], [] => true | x :: a', y :: b' => (x =? y)%nat && nats_eqb a' b' | _, _ => false end.
Fixpoint nodupb (l : list name) : bool :=
  match l with [] => true | x :: r => negb (existsb (bytes_eqb x) r) && nodupb r end.

(* a call: the name called, what was observed, the result bytes observed by the caller and the
   bytes expected (the echoed arguments / the method's constant, ABI encoded) *)
Definition call := (name * obs * list byte * list byte)%type.

(* result: [structure code; per-call codes...]
   structure: 0 the pool and the arm offsets read from the compiler's IR equal the model |
              1 they differ (correspondence) | 5 duplicate method names (generator error)
   call: 0 ok | 2 VIOLATION wrong method / fallback / revert | 3 model disagrees with lookup (cannot
         happen: C11_dispatch_is_lookup) | 4 VIOLATION result bytes differ from the expected echo *)
Definition judge (names : list name) (fb : bool) (obs_pool : list byte) (obs_offs : list nat)
           (calls : list call) : list N :=
  let s0 :=
    if negb (nodupb names) then 5
    else if bytes_eqb obs_pool (build_pool names)
            && nats_eqb obs_offs (map a_off (arm_order (build_arms names))) then 0 else 1 in
  s0 :: map (fun c : call =>
               let '(called, o, got, want) := c in
               let s := spec_dispatch names fb called in
               if negb (obs_is o s) then 2
               else if negb (result_eqb (dispatch names fb called) s) then 3
               else match s with
                    | Revert _ => 0
                    | _ => if bytes_eqb got want then 0 else 4
                    end) calls.

(* 0 the model expects the entry to compile, 6 it does not (arm offset > 4095) *)
Definition judge_limit (names : list name) : list N := [if entry_ok names then 0 else 6].
