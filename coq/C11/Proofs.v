(* C11 — proofs: pool offsets are valid, dispatch is exactly name lookup. *)
From SwayV Require Import Base.Util C11.Model C11.Spec.
From Coq Require Import ZifyBool ZifyN ZifyNat.
Arguments N.eqb : simpl never.
Open Scope nat_scope.

(* ---------- bytes *)
Lemma bytes_eqb_eq a : forall b, bytes_eqb a b = true <-> a = b.
Proof.
  induction a as [|x a IH]; intros [|y b]; cbn [bytes_eqb]; split; intros H; try discriminate; try reflexivity.
  - apply andb_prop in H as [H1 H2]. apply N.eqb_eq in H1. apply IH in H2. congruence.
  - inversion H; subst. rewrite N.eqb_refl. cbn. now apply IH.
Qed.
Lemma bytes_eqb_refl a : bytes_eqb a a = true.
Proof. now apply bytes_eqb_eq. Qed.

Lemma prefixb_spec p : forall l, prefixb p l = true -> firstn (length p) l = p /\ length p <= length l.
Proof.
  induction p as [|x p IH]; intros l H; cbn [length firstn].
  - split; [reflexivity|lia].
  - destruct l as [|y l]; [discriminate|]. cbn [prefixb] in H. apply andb_prop in H as [H1 H2].
    apply N.eqb_eq in H1. subst. destruct (IH l H2) as [E L]. cbn [firstn length]. split; [now rewrite E|lia].
Qed.

Lemma find_from_spec nm : forall hay i o, find_from nm hay i = Some o ->
  exists k, o = i + k /\ sub hay k (length nm) = nm /\ k + length nm <= length hay.
Proof.
  induction hay as [|h hay IH]; intros i o H; cbn [find_from] in H.
  - destruct (prefixb nm []) eqn:E; [|discriminate]. inversion H; subst.
    exists 0. apply prefixb_spec in E as [E1 E2]. unfold sub. cbn [skipn]. repeat split; try lia. exact E1.
  - destruct (prefixb nm (h :: hay)) eqn:E.
    + inversion H; subst. exists 0. apply prefixb_spec in E as [E1 E2]. unfold sub. cbn [skipn].
      repeat split; try lia. exact E1.
    + apply IH in H as [k [Ho [Hs Hl]]]. exists (S k). unfold sub in *. cbn [skipn length].
      repeat split; try lia. exact Hs.
Qed.

Lemma sub_app_l pool suf o n : o + n <= length pool -> sub (pool ++ suf) o n = sub pool o n.
Proof.
  intros H. unfold sub. rewrite skipn_app.
  replace (o - length pool) with 0 by lia. cbn [skipn].
  rewrite firstn_app. rewrite skipn_length. replace (n - (length pool - o)) with 0 by lia.
  cbn [firstn]. apply app_nil_r.
Qed.

Lemma sub_app_r pool nm : sub (pool ++ nm) (length pool) (length nm) = nm.
Proof.
  unfold sub. rewrite skipn_app, skipn_all, Nat.sub_diag. cbn [skipn app]. apply firstn_all.
Qed.

Lemma Forall2_len {A B} (R : A -> B -> Prop) l1 l2 : Forall2 R l1 l2 -> length l1 = length l2.
Proof. induction 1; cbn; congruence. Qed.

Lemma Forall2_imp {A B} (R S : A -> B -> Prop) l1 l2 :
  (forall a b, R a b -> S a b) -> Forall2 R l1 l2 -> Forall2 S l1 l2.
Proof. intros H. induction 1; constructor; auto. Qed.

(* ---------- invariant of the append-or-reuse loop *)
Definition arm_for (pool : list byte) (a : arm) (nm : name) : Prop :=
  a_len a = length nm /\ sub pool (a_off a) (a_len a) = nm /\ a_off a + a_len a <= length pool.

Definition inv (st : list byte * list arm) (done : list name) : Prop :=
  map a_idx (snd st) = seq 0 (length done) /\ Forall2 (arm_for (fst st)) (snd st) done.

Lemma arm_for_grow pool suf a nm : arm_for pool a nm -> arm_for (pool ++ suf) a nm.
Proof.
  intros [H1 [H2 H3]]. repeat split; [exact H1| |rewrite app_length; lia].
  rewrite sub_app_l by exact H3. exact H2.
Qed.

Lemma step_inv st done nm : inv st done -> inv (step st nm) (done ++ [nm]).
Proof.
  destruct st as [pool arms]. intros [Hidx Hall]. cbn [fst snd] in *.
  assert (Hlen : length arms = length done).
  { eapply Forall2_len; exact Hall. }
  unfold step. destruct (find nm pool) as [o|] eqn:Ef.
  - unfold find in Ef. apply find_from_spec in Ef as [k [Ho [Hs Hl]]]. cbn [Nat.add] in Ho. subst k.
    split; cbn [fst snd].
    + rewrite map_app, Hidx, app_length. cbn [map a_idx length]. rewrite Nat.add_1_r, seq_S, Hlen. reflexivity.
    + apply Forall2_app; [exact Hall|]. constructor; [|constructor].
      repeat split; cbn [a_len a_off]; assumption.
  - split; cbn [fst snd].
    + rewrite map_app, Hidx, app_length. cbn [map a_idx length]. rewrite Nat.add_1_r, seq_S, Hlen. reflexivity.
    + apply Forall2_app.
      * eapply Forall2_imp; [|exact Hall]. intros a b. apply arm_for_grow.
      * constructor; [|constructor]. repeat split; cbn [a_len a_off].
        -- apply sub_app_r.
        -- rewrite app_length. lia.
Qed.

Lemma fold_inv names : forall st done, inv st done -> inv (fold_left step names st) (done ++ names).
Proof.
  induction names as [|nm names IH]; intros st done H; cbn [fold_left].
  - now rewrite app_nil_r.
  - replace (done ++ nm :: names) with ((done ++ [nm]) ++ names) by (rewrite <- app_assoc; reflexivity).
    apply IH. now apply step_inv.
Qed.

Lemma build_inv names : inv (build names) names.
Proof. apply (fold_inv names ([], []) []). split; constructor. Qed.

Lemma Forall2_nth_error {A B} (R : A -> B -> Prop) l1 l2 : Forall2 R l1 l2 ->
  forall i a, nth_error l1 i = Some a -> exists b, nth_error l2 i = Some b /\ R a b.
Proof.
  induction 1 as [|x y l1 l2 Hxy Hr IH]; intros i a Hn; [destruct i; discriminate|].
  destruct i as [|i]; cbn in *.
  - inversion Hn; subst. now exists y.
  - now apply IH.
Qed.
Lemma Forall2_nth_error_r {A B} (R : A -> B -> Prop) l1 l2 : Forall2 R l1 l2 ->
  forall i b, nth_error l2 i = Some b -> exists a, nth_error l1 i = Some a /\ R a b.
Proof.
  induction 1 as [|x y l1 l2 Hxy Hr IH]; intros i b Hn; [destruct i; discriminate|].
  destruct i as [|i]; cbn in *.
  - inversion Hn; subst. now exists x.
  - now apply IH.
Qed.

Lemma idx_position arms n : map a_idx arms = seq 0 n ->
  forall k a, nth_error arms k = Some a -> a_idx a = k.
Proof.
  intros Hm k a Hn.
  assert (H1 : nth_error (map a_idx arms) k = Some (a_idx a)) by (now apply map_nth_error).
  rewrite Hm in H1. assert (Hk : k < length (seq 0 n)).
  { apply nth_error_Some. congruence. }
  rewrite seq_length in Hk. rewrite (nth_error_nth' _ 0) in H1 by (now rewrite seq_length).
  rewrite seq_nth in H1 by exact Hk. inversion H1. lia.
Qed.

(* every arm of the generated entry compares against the name of its own method *)
Lemma arms_sound names a : In a (build_arms names) ->
  exists nm, nth_error names (a_idx a) = Some nm /\ arm_for (build_pool names) a nm.
Proof.
  intros Hin. destruct (build_inv names) as [Hidx Hall]. unfold build_arms, build_pool in *.
  apply In_nth_error in Hin as [k Hk].
  pose proof (idx_position _ _ Hidx k a Hk) as Hi. rewrite Hi.
  destruct (Forall2_nth_error _ _ _ Hall k a Hk) as [nm [H1 H2]]. now exists nm.
Qed.

(* and every method has its arm *)
Lemma arms_complete names i nm : nth_error names i = Some nm ->
  exists a, In a (build_arms names) /\ a_idx a = i /\ arm_for (build_pool names) a nm.
Proof.
  intros Hn. destruct (build_inv names) as [Hidx Hall]. unfold build_arms, build_pool in *.
  destruct (Forall2_nth_error_r _ _ _ Hall i nm Hn) as [a [H1 H2]].
  exists a. split; [eapply nth_error_In; exact H1|]. split; [|exact H2].
  eapply idx_position; eassumption.
Qed.

(* ---------- groups *)
Lemma insert_len_in x y l : In y (insert_len x l) <-> y = x \/ In y l.
Proof.
  induction l as [|z l IH]; cbn [insert_len].
  - cbn. intuition.
  - destruct (x <? z) eqn:E1; [cbn; intuition|].
    destruct (x =? z) eqn:E2.
    + apply Nat.eqb_eq in E2. subst. cbn. intuition.
    + cbn [In]. rewrite IH. intuition.
Qed.

Lemma lens_in arms l : In l (lens arms) <-> exists a, In a arms /\ a_len a = l.
Proof.
  unfold lens. induction arms as [|a arms IH]; cbn [map fold_right].
  - split; [intros []|intros [a [[] _]]].
  - rewrite insert_len_in, IH. split.
    + intros [->|[b [Hb Hl]]]; [exists a; split; [now left|reflexivity] | exists b; split; [now right|exact Hl]].
    + intros [b [[->|Hb] Hl]]; [left; now symmetry | right; now exists b].
Qed.

Lemma try_groups_spec pool called arms : forall ls,
  try_groups pool called arms ls =
    if existsb (Nat.eqb (length called)) ls then try_arms pool called (group arms (length called)) else None.
Proof.
  induction ls as [|l ls IH]; cbn [try_groups existsb]; [reflexivity|].
  destruct (length called =? l) eqn:E.
  - apply Nat.eqb_eq in E. subst l. cbn [orb].
    destruct (try_arms pool called (group arms (length called))) eqn:Et; [reflexivity|].
    rewrite IH. destruct (existsb _ ls); reflexivity.
  - cbn [orb]. exact IH.
Qed.

Lemma try_arms_some pool called arms i : try_arms pool called arms = Some i ->
  exists a, In a arms /\ a_idx a = i /\ arm_matches pool called a = true.
Proof.
  induction arms as [|a arms IH]; cbn [try_arms]; [discriminate|].
  destruct (arm_matches pool called a) eqn:E; intros H.
  - inversion H; subst. exists a. repeat split; [now left|exact E].
  - destruct (IH H) as [b [Hb [Hi Hm]]]. exists b. repeat split; [now right|exact Hi|exact Hm].
Qed.

Lemma try_arms_none pool called arms : try_arms pool called arms = None ->
  forall a, In a arms -> arm_matches pool called a = false.
Proof.
  induction arms as [|a arms IH]; cbn [try_arms]; intros H b Hb; [destruct Hb|].
  destruct (arm_matches pool called a) eqn:E; [discriminate|].
  destruct Hb as [->|Hb]; [exact E|now apply IH].
Qed.

Lemma matches_name names a called : In a (build_arms names) ->
  arm_matches (build_pool names) called a = true -> nth_error names (a_idx a) = Some called.
Proof.
  intros Hin Hm. destruct (arms_sound names a Hin) as [nm [Hn [_ [Hs _]]]].
  unfold arm_matches in Hm. apply bytes_eqb_eq in Hm. congruence.
Qed.

(* ---------- lookup *)
Lemma index_of_some called : forall names k i, index_of called names k = Some i ->
  k <= i /\ nth_error names (i - k) = Some called.
Proof.
  induction names as [|n names IH]; intros k i H; cbn [index_of] in H; [discriminate|].
  destruct (bytes_eqb n called) eqn:E.
  - inversion H; subst. apply bytes_eqb_eq in E. subst. rewrite Nat.sub_diag. split; [lia|reflexivity].
  - apply IH in H as [H1 H2]. split; [lia|]. replace (i - k) with (S (i - S k)) by lia. exact H2.
Qed.
Lemma index_of_none called : forall names k, index_of called names k = None -> ~ In called names.
Proof.
  induction names as [|n names IH]; intros k H; cbn [index_of] in H; [intros []|].
  destruct (bytes_eqb n called) eqn:E; [discriminate|]. intros [->|Hin].
  - now rewrite bytes_eqb_refl in E.
  - now apply (IH (S k)).
Qed.

Lemma NoDup_nth_error_inj {A} (l : list A) i j x : NoDup l ->
  nth_error l i = Some x -> nth_error l j = Some x -> i = j.
Proof.
  intros Hnd Hi Hj. apply (proj1 (NoDup_nth_error l) Hnd); [apply nth_error_Some; congruence|congruence].
Qed.

Lemma dispatch_method names fb called i :
  dispatch names fb called = Method i -> nth_error names i = Some called.
Proof.
  unfold dispatch. destruct (build names) as [pool arms] eqn:Eb.
  assert (Hp : pool = build_pool names) by (unfold build_pool; now rewrite Eb).
  assert (Ha : arms = build_arms names) by (unfold build_arms; now rewrite Eb).
  rewrite try_groups_spec. destruct (existsb _ (lens arms)).
  - destruct (try_arms pool called (group arms (length called))) as [j|] eqn:Et.
    + intros H. inversion H; subst j. apply try_arms_some in Et as [a [Hin [Hi Hm]]].
      unfold group in Hin. apply filter_In in Hin as [Hin _]. rewrite Hp in Hm. rewrite Ha in Hin.
      rewrite <- Hi. now apply matches_name.
    + destruct fb; discriminate.
  - destruct fb; discriminate.
Qed.

Lemma dispatch_finds names fb called i : NoDup names ->
  nth_error names i = Some called -> dispatch names fb called = Method i.
Proof.
  intros Hnd Hn. unfold dispatch. destruct (build names) as [pool arms] eqn:Eb.
  assert (Hp : pool = build_pool names) by (unfold build_pool; now rewrite Eb).
  assert (Ha : arms = build_arms names) by (unfold build_arms; now rewrite Eb).
  destruct (arms_complete names i called Hn) as [a [Hin [Hi [Hl [Hs _]]]]]. rewrite <- Ha in Hin. rewrite <- Hp in Hs.
  rewrite try_groups_spec.
  assert (He : existsb (Nat.eqb (length called)) (lens arms) = true).
  { apply existsb_exists. exists (length called). split; [|apply Nat.eqb_refl].
    apply lens_in. exists a. now split. }
  rewrite He.
  assert (Hg : In a (group arms (length called))).
  { unfold group. apply filter_In. split; [exact Hin|]. now apply Nat.eqb_eq. }
  assert (Hm : arm_matches pool called a = true).
  { unfold arm_matches. rewrite Hs. apply bytes_eqb_refl. }
  destruct (try_arms pool called (group arms (length called))) as [j|] eqn:Et.
  - apply try_arms_some in Et as [b [Hb [Hj Hmb]]].
    unfold group in Hb. apply filter_In in Hb as [Hb _].
    rewrite Ha in Hb. rewrite Hp in Hmb. pose proof (matches_name names b called Hb Hmb) as Hnb.
    rewrite Hj in Hnb. f_equal. eapply NoDup_nth_error_inj; eassumption.
  - pose proof (try_arms_none _ _ _ Et a Hg) as Hf. congruence.
Qed.

Lemma dispatch_is_lookup names fb called : NoDup names ->
  dispatch names fb called = spec_dispatch names fb called.
Proof.
  intros Hnd. unfold spec_dispatch. destruct (index_of called names 0) as [i|] eqn:Ei.
  - apply index_of_some in Ei as [_ Hn]. rewrite Nat.sub_0_r in Hn. now apply dispatch_finds.
  - apply index_of_none in Ei.
    destruct (dispatch names fb called) as [j| |c] eqn:Ed.
    + exfalso. apply Ei. apply dispatch_method in Ed. eapply nth_error_In; exact Ed.
    + unfold dispatch in Ed. destruct (build names). destruct (try_groups _ _ _ _); [discriminate|].
      destruct fb; [reflexivity|discriminate].
    + unfold dispatch in Ed. destruct (build names). destruct (try_groups _ _ _ _); [discriminate|].
      destruct fb; [discriminate|]. now symmetry.
Qed.

Lemma dispatch_fallback names fb called : ~ In called names ->
  dispatch names fb called = if fb then Fallback else Revert MISMATCHED_SELECTOR_REVERT_CODE.
Proof.
  intros Hni. destruct (dispatch names fb called) as [j| |c] eqn:Ed.
  - exfalso. apply Hni. apply dispatch_method in Ed. eapply nth_error_In; exact Ed.
  - unfold dispatch in Ed. destruct (build names). destruct (try_groups _ _ _ _); [discriminate|].
    destruct fb; [reflexivity|discriminate].
  - unfold dispatch in Ed. destruct (build names). destruct (try_groups _ _ _ _); [discriminate|].
    destruct fb; [discriminate|]. now symmetry.
Qed.

Lemma pool_offsets_valid names i nm : nth_error names i = Some nm ->
  exists a, nth_error (build_arms names) i = Some a /\ a_idx a = i /\ a_len a = length nm /\
            sub (build_pool names) (a_off a) (a_len a) = nm.
Proof.
  intros Hn. destruct (build_inv names) as [Hidx Hall]. unfold build_arms, build_pool in *.
  destruct (Forall2_nth_error_r _ _ _ Hall i nm Hn) as [a [H1 [H2 [H3 _]]]].
  exists a. repeat split; try assumption. eapply idx_position; eassumption.
Qed.
