(* C23 — per-case judgement of the real server's observed behaviour (vm_compute).
   A case: the opened document (scalars), the changes (one update_text_document call each)
   and what the harness observed after each call. *)
From SwayV Require Import Base.Util C23.Utf8 C23.Model C23.Spec.
Open Scope N_scope.

Inductive obs :=
| OD (doc : list N)      (* Ok(text): accepted, stored bytes afterwards *)
| OR (doc : list N)      (* Err: rejected, stored bytes afterwards *)
| OX (doc : list N)      (* Ok(text) but text <> stored bytes *)
| OP.                    (* panic *)

Fixpoint eqbl (a b : list N) : bool :=
  match a, b with
  | [], [] => true
  | x :: a', y :: b' => (x =? y) && eqbl a' b'
  | _, _ => false
  end.

Definition m_ok (m : outcome (list N)) (ob : list N) : bool :=
  match m with Ok b => eqbl b ob | _ => false end.
Definition m_err (m : outcome (list N)) : bool :=
  match m with Err _ => true | _ => false end.

(* 0 agree (server = client semantics = model)
   1 correspondence only: the property holds on this step but model <> implementation
     (well-formed stream), or implementation <> model on the malformed stream (lone "\r")
   2 VIOLATION: accepted, but the server's document is not the client's
   3 VIOLATION: panic
   4 VIOLATION: a change the client means was rejected (documents diverge)
   5 VIOLATION: a change without meaning was accepted, or a rejection altered the document
   6 VIOLATION: returned text differs from the stored document
   7 malformed case (observations missing) *)

(* well-formed stream: [d] is the client's document, the server holds utf8 d *)
Definition step_wf (d : list N) (c : cchange) (o : obs) : N * list N :=
  let s := client_apply d (fst c) (snd c) in
  let m := apply_change (utf8 d) (wire1 c) in
  match o with
  | OP => (3, d)
  | OX _ => (6, d)
  | OD ob =>
    match s with
    | Some d' => if eqbl ob (utf8 d') then ((if m_ok m ob then 0 else 1), d') else (2, d)
    | None => (5, d)
    end
  | OR ob =>
    match s with
    | None => if eqbl ob (utf8 d) then ((if m_err m then 0 else 1), d) else (5, d)
    | Some _ => (4, d)
    end
  end.

(* malformed stream: only the bytes [b] the server holds are tracked *)
Definition step_mal (b : list N) (c : cchange) (o : obs) : N * list N :=
  let m := apply_change b (wire1 c) in
  match o with
  | OP => (3, b)
  | OX _ => (6, b)
  | OD ob => ((if m_ok m ob then 0 else 1), ob)
  | OR ob => if eqbl ob b then ((if m_err m then 0 else 1), ob) else (5, ob)
  end.

Definition keep1 (i : N) (r : N * N) : N * N := if fst r =? 0 then (1, i) else r.

(* state: Some d = well-formed regime (client document d), None = malformed regime *)
Fixpoint run (cd : option (list N)) (b : list N) (cs : list cchange) (os : list obs) (i : N) : N * N :=
  match cs, os with
  | [], _ => (0, i)
  | _ :: _, [] => (7, i)
  | c :: cs', o :: os' =>
    let wf := match cd with
              | Some d => if no_lone_crb d && valid_textb d && valid_textb (snd c) then Some d else None
              | None => None
              end in
    match wf with
    | Some d =>
      let '(code, d') := step_wf d c o in
      if code =? 0 then run (Some d') (utf8 d') cs' os' (i + 1)
      else if code =? 1 then keep1 i (run (Some d') (utf8 d') cs' os' (i + 1))
      else (code, i)
    | None =>
      let '(code, b') := step_mal b c o in
      let cd' := match fst c with None => Some (snd c) | Some _ => None end in
      if code =? 0 then run cd' b' cs' os' (i + 1)
      else if code =? 1 then keep1 i (run cd' b' cs' os' (i + 1))
      else (code, i)
    end
  end.

Definition judge (doc : list N) (cs : list cchange) (os : list obs) : N * N :=
  if valid_textb doc then run (Some doc) (utf8 doc) cs os 0 else (7, 0).

(* batch mode: all changes in ONE update_text_document call; a single observation.
   Client side: the changes up to the first one without meaning; the flags say whether all
   were applied and whether every document on the way was LF/CRLF-only. *)
Fixpoint cbatch (d : list N) (cs : list cchange) : list N * bool * bool :=
  match cs with
  | [] => (d, true, no_lone_crb d)
  | c :: r =>
    if negb (no_lone_crb d && valid_textb (snd c)) then (d, true, false)
    else match client_apply d (fst c) (snd c) with
         | Some d' => cbatch d' r
         | None => (d, false, true)
         end
  end.

Definition judge_batch (doc : list N) (cs : list cchange) (o : obs) : N * N :=
  if negb (valid_textb doc) then (7, 0) else
  let '(mb, mst) := update_text_document (utf8 doc) (map wire1 cs) in
  let '(d, acc, wf) := cbatch doc cs in
  let magree := match o, mst with
                | OD ob, SOk => eqbl ob mb
                | OR ob, SErr _ => eqbl ob mb
                | _, _ => false
                end in
  let corr := if magree then 0 else 1 in
  match o with
  | OP => (3, 0)
  | OX _ => (6, 0)
  | OD ob => if wf then (if acc then (if eqbl ob (utf8 d) then corr else 2) else 5, 0) else (corr, 0)
  | OR ob => if wf then (if acc then 4 else if eqbl ob (utf8 d) then corr else 5, 0) else (corr, 0)
  end.

Definition judge_case (c : N * list N * list cchange * list obs) : N * N :=
  match c with
  | (mode, d, cs, os) =>
    if mode =? 0 then judge d cs os
    else match os with o :: _ => judge_batch d cs o | [] => (7, 0) end
  end.

Definition judge_all (l : list (N * list N * list cchange * list obs)) : list (N * N) :=
  map judge_case l.
