(* C23 — UTF-8 encoding of Unicode scalar values and the decoder that Rust's
   `str::chars` / `char_indices` run (core::str::validations::next_code_point),
   with the lemmas the C23 proofs need.  Bytes and scalars are `N`. *)
From SwayV Require Export Base.Util.
From Coq Require Import ZifyBool ZifyN.
Ltac Zify.zify_post_hook ::= Z.div_mod_to_equations.
Open Scope N_scope.
Arguments N.add : simpl never.
Arguments N.sub : simpl never.
Arguments N.mul : simpl never.
Arguments N.div : simpl never.
Arguments N.modulo : simpl never.
Arguments N.eqb : simpl never.
Arguments N.ltb : simpl never.
Arguments N.leb : simpl never.

(* A Unicode scalar value: a code point that is not a surrogate. *)
Definition valid_scalarb (c : N) : bool := (c <? 0xD800) || ((0xE000 <=? c) && (c <? 0x110000)).
Definition valid_scalar (c : N) : Prop := valid_scalarb c = true.
Definition valid_text (d : list N) : Prop := Forall valid_scalar d.
Definition valid_textb (d : list N) : bool := forallb valid_scalarb d.

(* char::len_utf8 / char::len_utf16 *)
Definition len_utf8 (c : N) : N :=
  if c <? 0x80 then 1 else if c <? 0x800 then 2 else if c <? 0x10000 then 3 else 4.
Definition len_utf16 (c : N) : N := if c <? 0x10000 then 1 else 2.

(* char::encode_utf8 *)
Definition enc (c : N) : list N :=
  if c <? 0x80 then [c]
  else if c <? 0x800 then [0xC0 + c / 64; 0x80 + c mod 64]
  else if c <? 0x10000 then [0xE0 + c / 4096; 0x80 + (c / 64) mod 64; 0x80 + c mod 64]
  else [0xF0 + c / 262144; 0x80 + (c / 4096) mod 64; 0x80 + (c / 64) mod 64; 0x80 + c mod 64].

Definition utf8 (d : list N) : list N := flat_map enc d.

Definition blen (bs : list N) : N := N.of_nat (length bs).

(* next_code_point on a string known to be valid UTF-8: first byte [b], following bytes [r].
   Returns the code point and the number of bytes it occupies. *)
Definition cont (r : list N) (k : nat) : N := (nth k r 0) mod 64.      (* byte & 0x3F *)
Definition decode_at (b : N) (r : list N) : N * N :=
  if b <? 0x80 then (b, 1)
  else if b <? 0xE0 then ((b mod 32) * 64 + cont r 0, 2)
  else if b <? 0xF0 then ((b mod 16) * 4096 + cont r 0 * 64 + cont r 1, 3)
  else ((b mod 8) * 262144 + cont r 0 * 4096 + cont r 1 * 64 + cont r 2, 4).

(* `char_indices`: byte index and value of each char. [skip] = continuation bytes still to pass. *)
Fixpoint chars_from (i : N) (bs : list N) (skip : nat) : list (N * N) :=
  match bs with
  | [] => []
  | b :: r =>
    match skip with
    | S k => chars_from (i + 1) r k
    | O => let cw := decode_at b r in
           (i, fst cw) :: chars_from (i + 1) r (N.to_nat (snd cw) - 1)
    end
  end.

(* str::is_char_boundary *)
Definition is_char_boundary (bs : list N) (i : N) : bool :=
  if i =? 0 then true
  else if blen bs <? i then false
  else if i =? blen bs then true
  else match nth_error bs (N.to_nat i) with
       | Some b => (b <? 0x80) || (0xC0 <=? b)          (* (b as i8) >= -0x40 *)
       | None => false
       end.

(* ---------------------------------------------------------------- lemmas *)

Lemma valid_scalar_lt c : valid_scalar c -> c < 0x110000.
Proof. unfold valid_scalar, valid_scalarb. lia. Qed.

Lemma blen_app a b : blen (a ++ b) = blen a + blen b.
Proof. unfold blen. rewrite app_length. lia. Qed.

Lemma blen_cons x a : blen (x :: a) = 1 + blen a.
Proof. unfold blen. cbn [length]. lia. Qed.

Lemma blen_nil : blen [] = 0.
Proof. reflexivity. Qed.

Lemma blen_enc c : blen (enc c) = len_utf8 c.
Proof.
  unfold enc, len_utf8.
  destruct (c <? 0x80); [reflexivity|].
  destruct (c <? 0x800); [reflexivity|].
  destruct (c <? 0x10000); reflexivity.
Qed.

Lemma len_utf8_pos c : 1 <= len_utf8 c.
Proof.
  unfold len_utf8.
  destruct (c <? 0x80); [lia|]. destruct (c <? 0x800); [lia|]. destruct (c <? 0x10000); lia.
Qed.

Lemma utf8_app a b : utf8 (a ++ b) = utf8 a ++ utf8 b.
Proof. apply flat_map_app. Qed.

Lemma utf8_cons c d : utf8 (c :: d) = enc c ++ utf8 d.
Proof. reflexivity. Qed.

(* decoding an encoded scalar *)
Lemma decode_enc c b t rest :
  c < 0x110000 -> enc c = b :: t -> decode_at b (t ++ rest) = (c, len_utf8 c).
Proof.
  intros Hc He. unfold enc in He. unfold len_utf8, decode_at, cont.
  destruct (c <? 0x80) eqn:E1.
  { injection He as Hb Ht. subst b t. rewrite E1. reflexivity. }
  destruct (c <? 0x800) eqn:E2.
  { injection He as Hb Ht. subst b t. cbn [app nth].
    assert (H1 : (0xC0 + c / 64 <? 0x80) = false) by lia.
    assert (H2 : (0xC0 + c / 64 <? 0xE0) = true) by lia.
    rewrite H1, H2. f_equal. lia. }
  destruct (c <? 0x10000) eqn:E3.
  { injection He as Hb Ht. subst b t. cbn [app nth].
    assert (H1 : (0xE0 + c / 4096 <? 0x80) = false) by lia.
    assert (H2 : (0xE0 + c / 4096 <? 0xE0) = false) by lia.
    assert (H3 : (0xE0 + c / 4096 <? 0xF0) = true) by lia.
    rewrite H1, H2, H3. f_equal. lia. }
  injection He as Hb Ht. subst b t. cbn [app nth].
  assert (H1 : (0xF0 + c / 262144 <? 0x80) = false) by lia.
  assert (H2 : (0xF0 + c / 262144 <? 0xE0) = false) by lia.
  assert (H3 : (0xF0 + c / 262144 <? 0xF0) = false) by lia.
  rewrite H1, H2, H3. f_equal. lia.
Qed.

Lemma enc_nonnil c : exists b t, enc c = b :: t.
Proof.
  unfold enc. destruct (c <? 0x80); [eauto|]. destruct (c <? 0x800); [eauto|].
  destruct (c <? 0x10000); eauto.
Qed.

(* the first byte of an encoding is never a continuation byte *)
Lemma enc_lead c b t : c < 0x110000 -> enc c = b :: t -> ((b <? 0x80) || (0xC0 <=? b)) = true.
Proof.
  intros Hc He. unfold enc in He.
  destruct (c <? 0x80) eqn:E1. { injection He as Hb _. subst b. lia. }
  destruct (c <? 0x800) eqn:E2. { injection He as Hb _. subst b. lia. }
  destruct (c <? 0x10000) eqn:E3; injection He as Hb _; subst b; lia.
Qed.

Lemma chars_from_skip t : forall i rest,
  chars_from i (t ++ rest) (length t) = chars_from (i + blen t) rest 0.
Proof.
  induction t as [|x t IH]; intros i rest.
  - cbn [app length]. rewrite blen_nil. f_equal. lia.
  - cbn [app length chars_from]. rewrite IH. rewrite blen_cons. f_equal. lia.
Qed.

(* char_indices of an encoded text *)
Fixpoint cidx (i : N) (d : list N) : list (N * N) :=
  match d with [] => [] | c :: r => (i, c) :: cidx (i + len_utf8 c) r end.

Lemma chars_from_utf8 d : forall i, valid_text d ->
  chars_from i (utf8 d) 0 = cidx i d.
Proof.
  induction d as [|c d IH]; intros i Hv.
  - reflexivity.
  - inversion Hv as [|c' d' Hc Hd]; subst.
    apply valid_scalar_lt in Hc.
    rewrite utf8_cons. destruct (enc_nonnil c) as [b [t He]].
    pose proof (blen_enc c) as Hl. rewrite He in *.
    cbn [app chars_from cidx].
    rewrite (decode_enc c b t (utf8 d) Hc He). cbn [fst snd].
    rewrite blen_cons in Hl.
    replace (N.to_nat (len_utf8 c) - 1)%nat with (length t) by (unfold blen in Hl; lia).
    rewrite chars_from_skip. rewrite <- IH by assumption. f_equal. f_equal.
    unfold blen in *. lia.
Qed.

Lemma map_snd_cidx d : forall i, map snd (cidx i d) = d.
Proof. induction d as [|c d IH]; intros i; cbn [cidx map snd]; [reflexivity|]. now rewrite IH. Qed.

(* prefixes / suffixes of an encoded text at a scalar boundary *)
Lemma firstn_utf8 pre post :
  firstn (N.to_nat (blen (utf8 pre))) (utf8 (pre ++ post)) = utf8 pre.
Proof.
  rewrite utf8_app. unfold blen. rewrite Nat2N.id.
  rewrite firstn_app, Nat.sub_diag, firstn_all. cbn [firstn]. apply app_nil_r.
Qed.

Lemma skipn_utf8 pre post :
  skipn (N.to_nat (blen (utf8 pre))) (utf8 (pre ++ post)) = utf8 post.
Proof.
  rewrite utf8_app. unfold blen. rewrite Nat2N.id.
  rewrite skipn_app, Nat.sub_diag, skipn_all. reflexivity.
Qed.

Lemma utf8_boundary pre post : valid_text post ->
  is_char_boundary (utf8 (pre ++ post)) (blen (utf8 pre)) = true.
Proof.
  intros Hv. unfold is_char_boundary.
  destruct (blen (utf8 pre) =? 0) eqn:E0; [reflexivity|].
  rewrite utf8_app, blen_app.
  assert (H1 : (blen (utf8 pre) + blen (utf8 post) <? blen (utf8 pre)) = false) by lia.
  rewrite H1.
  destruct (blen (utf8 pre) =? blen (utf8 pre) + blen (utf8 post)) eqn:E2; [reflexivity|].
  unfold blen at 1. rewrite Nat2N.id, nth_error_app2 by lia. rewrite Nat.sub_diag.
  destruct post as [|c post].
  - change (utf8 []) with (@nil N) in E2. rewrite blen_nil in E2. lia.
  - inversion Hv as [|c' d' Hc Hd]; subst. apply valid_scalar_lt in Hc.
    rewrite utf8_cons. destruct (enc_nonnil c) as [b [t He]]. rewrite He.
    cbn [app nth_error]. eapply enc_lead; eassumption.
Qed.

Lemma blen_utf8_firstn_le d : forall a b, (a <= b)%nat ->
  blen (utf8 (firstn a d)) <= blen (utf8 (firstn b d)).
Proof.
  induction d as [|c d IH]; intros a b Hab.
  - rewrite !firstn_nil. lia.
  - destruct a as [|a]; [cbn [firstn utf8 flat_map]; rewrite blen_nil; lia|].
    destruct b as [|b]; [lia|].
    cbn [firstn]. rewrite !utf8_cons, !blen_app.
    specialize (IH a b ltac:(lia)). lia.
Qed.

Lemma blen_utf8_firstn_lt d : forall a b, (a < b)%nat -> (b <= length d)%nat ->
  blen (utf8 (firstn a d)) < blen (utf8 (firstn b d)).
Proof.
  induction d as [|c d IH]; intros a b Hab Hb.
  - cbn [length] in Hb. lia.
  - destruct b as [|b]; [lia|]. cbn [length] in Hb.
    destruct a as [|a].
    + cbn [firstn]. rewrite utf8_cons, blen_app, blen_enc.
      cbn [utf8 flat_map]. rewrite blen_nil. pose proof (len_utf8_pos c). lia.
    + cbn [firstn]. rewrite !utf8_cons, !blen_app.
      specialize (IH a b ltac:(lia) ltac:(lia)). lia.
Qed.

Lemma valid_text_app a b : valid_text a -> valid_text b -> valid_text (a ++ b).
Proof. intros Ha Hb. apply Forall_app. split; assumption. Qed.

Lemma valid_text_firstn n d : valid_text d -> valid_text (firstn n d).
Proof.
  intros H. unfold valid_text in *. rewrite <- (firstn_skipn n d) in H.
  apply Forall_app in H. apply H.
Qed.

Lemma valid_text_skipn n d : valid_text d -> valid_text (skipn n d).
Proof.
  intros H. unfold valid_text in *. rewrite <- (firstn_skipn n d) in H.
  apply Forall_app in H. apply H.
Qed.

Lemma valid_textb_spec d : valid_textb d = true <-> valid_text d.
Proof.
  unfold valid_textb, valid_text, valid_scalar. rewrite forallb_forall, Forall_forall. reflexivity.
Qed.
