(* C23 — the ORIGINAL `position_to_index` (before the repair): `line_offset + character`,
   the UTF-16 character offset added as a byte count.  Kept for the refutation witnesses
   (Proofs.v: sync_refuted, apply_panic_refuted).  No proofs in this file. *)
From SwayV Require Export Base.Util C23.Utf8 C23.Model.
Open Scope N_scope.

Definition position_to_index_orig (content : list N) (line character : N) : N :=
  get_or (calculate_line_offsets content) line (blen content) + character.

Definition validate_range_orig (content : list N) (r : N * N * N * N) : outcome unit :=
  let '(l1, c1, l2, c2) := r in
  let s := position_to_index_orig content l1 c1 in
  let e := position_to_index_orig content l2 c2 in
  if (e <? s) || (blen content <? e) then Err 1 else Ok tt.

Definition apply_change_orig (content : list N) (ch : change) : outcome (list N) :=
  match ch_range ch with
  | Some r =>
    let '(l1, c1, l2, c2) := r in
    match validate_range_orig content r with
    | Ok _ => replace_range content (position_to_index_orig content l1 c1)
                            (position_to_index_orig content l2 c2) (ch_text ch)
    | Err x => Err x | Panic x => Panic x | OutOfFuel => OutOfFuel
    end
  | None => Ok (ch_text ch)
  end.
