(* C23 — property theorems only.  S = Spec.v (client, LSP 3.17, scalars, UTF-16 positions),
   M = Model.v (repaired server, UTF-8 bytes). *)
From SwayV Require Import Base.Util C23.Utf8 C23.Model C23.Orig C23.Spec C23.Proofs.
Open Scope N_scope.

(* After every notification of every history the server's bytes are the UTF-8 encoding of the
   client's document, and no call panics.  Hypotheses (Spec.wf_doc / wf_hist): scalars are
   valid, every document of the history has LF / CRLF line ends only (no lone "\r"), a
   change without meaning comes last in its batch. *)
Theorem C23_sync_exact : forall doc hist,
  wf_doc doc -> wf_hist doc hist ->
  exists st, server_fold (utf8 doc) (map (map wire1) hist) = (utf8 (client_fold doc hist), st)
             /\ (forall s, st <> SPanic s).
Proof. exact (fun doc hist => hist_sync hist doc). Qed.
Print Assumptions C23_sync_exact.

(* one step, accepted: the server computes exactly the client's new document *)
Theorem C23_sync_step : forall doc range text doc',
  wf_doc doc -> client_apply doc range text = Some doc' ->
  apply_change (utf8 doc) (wire range text) = Ok (utf8 doc').
Proof. exact sync_step. Qed.
Print Assumptions C23_sync_step.

(* "invalid range" (Spec.invalid_range: a position inside a surrogate pair, or start after
   end) is rejected with InvalidRange and the stored document is unchanged ... *)
Theorem C23_invalid_range_rejected_unchanged : forall doc r text,
  wf_doc doc -> invalid_range doc r ->
  update_text_document (utf8 doc) [wire (Some r) text] = (utf8 doc, SErr 1).
Proof. exact invalid_rejected. Qed.
Print Assumptions C23_invalid_range_rejected_unchanged.

(* ... and nothing else is rejected. *)
Theorem C23_valid_range_accepted : forall doc r text,
  wf_doc doc -> ~ invalid_range doc r ->
  exists doc', client_apply doc (Some r) text = Some doc' /\
               update_text_document (utf8 doc) [wire (Some r) text] = (utf8 doc', SOk).
Proof. exact valid_accepted. Qed.
Print Assumptions C23_valid_range_accepted.

(* No change panics on a well-formed UTF-8 document (lone "\r" allowed, any change). *)
Theorem C23_apply_no_panic : forall doc ch,
  valid_text doc -> forall s, apply_change (utf8 doc) ch <> Panic s.
Proof. exact apply_no_panic. Qed.
Print Assumptions C23_apply_no_panic.

(* No sequence of notifications panics (lone "\r" allowed). *)
Theorem C23_session_no_panic : forall doc hist,
  valid_text doc -> Forall (Forall (fun c => valid_text (snd c))) hist ->
  forall c s, server_fold (utf8 doc) (map (map wire1) hist) <> (c, SPanic s).
Proof. exact (fun doc hist => session_no_panic hist doc). Qed.
Print Assumptions C23_session_no_panic.

(* The code before the repair (Orig.v) violates the property. *)
Theorem C23_apply_panic_refuted_orig :
  exists d ch s, valid_text d /\ apply_change_orig (utf8 d) ch = Panic s.
Proof. exact apply_panic_refuted_orig. Qed.
Print Assumptions C23_apply_panic_refuted_orig.

Theorem C23_sync_refuted_orig :
  exists d range text d' b', valid_text d /\ no_lone_cr d /\ valid_text text /\
    client_apply d range text = Some d' /\
    apply_change_orig (utf8 d) (wire range text) = Ok b' /\ b' <> utf8 d'.
Proof. exact sync_refuted_orig. Qed.
Print Assumptions C23_sync_refuted_orig.

(* Non-vacuity: a CRLF document with a 2-byte, a 3-byte and an astral character; a batch of a
   multi-line replacement and a clamped insertion; then a batch whose only change is inverted. *)
Definition ex_doc : list N := [97; 233; 13; 10; 0x20AC; 0x1F600; 98; 10; 99].
Definition ex_hist : list (list cchange) :=
  [ [ (Some (0, 1, 1, 3), [120; 0x1F601]); (Some (0, 99, 0, 99), [13; 10]) ];
    [ (Some (1, 1, 1, 0), [122]) ];
    [ (None, [0x1F600]) ; (Some (0, 1, 0, 1), [121]) ] ].
Example C23_example_wf : wf_doc ex_doc /\ wf_hist ex_doc ex_hist.
Proof.
  split; [split; [apply valid_textb_spec|]; vm_compute; reflexivity|].
  cbn [ex_hist wf_hist]. repeat split; try (apply valid_textb_spec; vm_compute; reflexivity).
Qed.
Example C23_example_run :
  server_fold (utf8 ex_doc) (map (map wire1) ex_hist) = (utf8 [0x1F600], SOk)
  /\ client_fold ex_doc ex_hist = [0x1F600].
Proof. split; vm_compute; reflexivity. Qed.
