(* C23 — proofs.  Chain:  server on UTF-8 bytes (Model.v)
     = "LF server" on scalars (this file: pos_index_lf / apply_lf), for every valid text;
     = the client's semantics (Spec.v) when the document has no lone "\r". *)
From SwayV Require Import Base.Util C23.Utf8 C23.Model C23.Orig C23.Spec.
From Coq Require Import ZifyBool ZifyN.
Ltac Zify.zify_post_hook ::= Z.div_mod_to_equations.
Open Scope N_scope.

(* ------------------------------------------------------------ list helpers *)
Lemma firstn_add {A} (a b : nat) : forall l : list A,
  firstn (a + b) l = firstn a l ++ firstn b (skipn a l).
Proof.
  induction a as [|a IH]; intros l; [reflexivity|].
  destruct l as [|x l]; cbn [Nat.add firstn skipn app].
  - now rewrite firstn_nil.
  - now rewrite IH.
Qed.

Lemma skipn_length' {A} n (l : list A) : length (skipn n l) = (length l - n)%nat.
Proof. apply skipn_length. Qed.

(* ------------------------------------------------ chars / line offsets of utf8 d *)
Lemma char_indices_utf8 d : valid_text d -> char_indices (utf8 d) = cidx 0 d.
Proof. intros H. unfold char_indices. now apply chars_from_utf8. Qed.

Lemma chars_utf8 d : valid_text d -> chars (utf8 d) = d.
Proof. intros H. unfold chars. rewrite char_indices_utf8 by assumption. apply map_snd_cidx. Qed.

Fixpoint lo (i : N) (d : list N) : list N :=
  match d with
  | [] => []
  | c :: r => (if c =? 10 then [i + 1] else []) ++ lo (i + len_utf8 c) r
  end.

Lemma flat_map_cidx d : forall i,
  flat_map (fun ic : N * N => if snd ic =? 10 then [fst ic + 1] else []) (cidx i d) = lo i d.
Proof.
  induction d as [|c d IH]; intros i; [reflexivity|].
  cbn [cidx flat_map lo fst snd]. now rewrite IH.
Qed.

Lemma offsets_utf8 d : valid_text d -> calculate_line_offsets (utf8 d) = 0 :: lo 0 d.
Proof.
  intros H. unfold calculate_line_offsets. rewrite char_indices_utf8 by assumption.
  now rewrite flat_map_cidx.
Qed.

(* line starts when only "\n" ends a line (what the server's line_offsets implement) *)
Fixpoint lf_start (doc : list N) (line : N) : nat :=
  match doc with
  | [] => 0%nat
  | c :: d => if line =? 0 then 0%nat
              else S (if c =? 10 then lf_start d (line - 1) else lf_start d line)
  end.

Lemma lf_start_le d : forall line, (lf_start d line <= length d)%nat.
Proof.
  induction d as [|c d IH]; intros line; cbn [lf_start length]; [lia|].
  destruct (line =? 0); [lia|].
  destruct (c =? 10); [specialize (IH (line - 1))|specialize (IH line)]; lia.
Qed.

Lemma get_or_lo d : forall line i,
  get_or (i :: lo i d) line (i + blen (utf8 d)) = i + blen (utf8 (firstn (lf_start d line) d)).
Proof.
  induction d as [|c d IH]; intros line i.
  - cbn [lo get_or lf_start firstn]. change (utf8 []) with (@nil N). rewrite blen_nil.
    destruct (line =? 0); lia.
  - cbn [get_or lf_start].
    destruct (line =? 0) eqn:E0.
    { cbn [firstn]. change (utf8 []) with (@nil N). rewrite blen_nil. lia. }
    cbn [lo firstn]. rewrite !utf8_cons, !blen_app, !blen_enc.
    destruct (c =? 10) eqn:E10.
    + assert (c = 10) by lia. subst c. change (len_utf8 10) with 1.
      cbn [app].
      replace (i + (1 + blen (utf8 d))) with ((i + 1) + blen (utf8 d)) by lia.
      rewrite IH. lia.
    + cbn [app].
      specialize (IH line (i + len_utf8 c)). cbn [get_or] in IH. rewrite E0 in IH.
      replace (i + (len_utf8 c + blen (utf8 d))) with (i + len_utf8 c + blen (utf8 d)) by lia.
      rewrite IH. lia.
Qed.

(* ------------------------------------------------------------- the walk *)
Lemma walk_bad r ch idx u : ch < u -> snd (walk r ch idx u) = false.
Proof.
  intros H. destruct r as [|c r]; cbn [walk].
  - cbn [snd]. lia.
  - replace (ch <=? u) with true by lia. rewrite !orb_true_r. cbn [snd]. lia.
Qed.

Lemma walk_col cs : forall ch idx u, u <= ch ->
  match col_walk cs (ch - u) with
  | Some k => walk cs ch idx u = (idx + blen (utf8 (firstn k cs)), true) /\ (k <= length cs)%nat
  | None => snd (walk cs ch idx u) = false
  end.
Proof.
  induction cs as [|c r IH]; intros ch idx u Hu.
  - cbn [col_walk walk firstn length]. change (utf8 []) with (@nil N). rewrite blen_nil.
    split; [f_equal; lia|lia].
  - cbn [col_walk walk].
    destruct ((c =? 10) || (c =? 13)) eqn:Eeol.
    { cbn [orb firstn length]. change (utf8 []) with (@nil N). rewrite blen_nil.
      split; [f_equal; lia|lia]. }
    cbn [orb].
    destruct (ch - u =? 0) eqn:E0.
    { replace (ch <=? u) with true by lia.
      cbn [firstn length]. change (utf8 []) with (@nil N). rewrite blen_nil.
      split; [f_equal; lia|lia]. }
    replace (ch <=? u) with false by lia.
    assert (Hun : units c = len_utf16 c) by reflexivity.
    destruct (ch - u <? units c) eqn:Eu.
    { apply walk_bad. lia. }
    specialize (IH ch (idx + len_utf8 c) (u + len_utf16 c) ltac:(lia)).
    replace (ch - (u + len_utf16 c)) with (ch - u - units c) in IH by lia.
    destruct (col_walk r (ch - u - units c)) as [k|]; cbn [option_map].
    + destruct IH as [IHw IHk]. rewrite IHw. cbn [firstn length].
      rewrite utf8_cons, blen_app, blen_enc. split; [f_equal; lia|lia].
    + exact IH.
Qed.

(* ------------------------------------------------- the LF server on scalars *)
Definition pos_index_lf (doc : list N) (line character : N) : option nat :=
  let s := lf_start doc line in
  option_map (Nat.add s) (col_walk (skipn s doc) character).

Definition apply_lf (doc : list N) (range : option (N * N * N * N)) (text : list N) : option (list N) :=
  match range with
  | None => Some text
  | Some (l1, c1, l2, c2) =>
    match pos_index_lf doc l1 c1, pos_index_lf doc l2 c2 with
    | Some s, Some e => if (s <=? e)%nat then Some (firstn s doc ++ text ++ skipn e doc) else None
    | _, _ => None
    end
  end.

Lemma boundary_firstn d k : valid_text d ->
  is_char_boundary (utf8 d) (blen (utf8 (firstn k d))) = true.
Proof.
  intros H. pose proof (utf8_boundary (firstn k d) (skipn k d) (valid_text_skipn k d H)) as B.
  now rewrite firstn_skipn in B.
Qed.

Lemma firstn_utf8' d k : firstn (N.to_nat (blen (utf8 (firstn k d)))) (utf8 d) = utf8 (firstn k d).
Proof. pose proof (firstn_utf8 (firstn k d) (skipn k d)) as B. now rewrite firstn_skipn in B. Qed.

Lemma skipn_utf8' d k : skipn (N.to_nat (blen (utf8 (firstn k d)))) (utf8 d) = utf8 (skipn k d).
Proof. pose proof (skipn_utf8 (firstn k d) (skipn k d)) as B. now rewrite firstn_skipn in B. Qed.

Lemma blen_firstn_total d k : blen (utf8 (firstn k d)) <= blen (utf8 d).
Proof.
  destruct (Nat.le_gt_cases k (length d)) as [H|H].
  - pose proof (blen_utf8_firstn_le d k (length d) H) as B. now rewrite firstn_all in B.
  - rewrite firstn_all2 by lia. lia.
Qed.

Lemma locate_lf d line ch : valid_text d ->
  match pos_index_lf d line ch with
  | Some k => locate (utf8 d) line ch = Ok (blen (utf8 (firstn k d)), true) /\ (k <= length d)%nat
  | None => exists i, locate (utf8 d) line ch = Ok (i, false)
  end.
Proof.
  intros Hv. unfold locate, pos_index_lf.
  rewrite offsets_utf8 by assumption.
  pose proof (get_or_lo d line 0) as G. rewrite !N.add_0_l in G. rewrite G. clear G.
  set (ls := lf_start d line).
  rewrite boundary_firstn by assumption. cbn [negb].
  rewrite skipn_utf8', chars_utf8 by (apply valid_text_skipn; assumption).
  pose proof (walk_col (skipn ls d) ch (blen (utf8 (firstn ls d))) 0 ltac:(lia)) as W.
  rewrite N.sub_0_r in W.
  destruct (col_walk (skipn ls d) ch) as [k|]; cbn [option_map].
  - destruct W as [W Hk]. rewrite W. rewrite skipn_length' in Hk.
    pose proof (lf_start_le d line). fold ls in H.
    split; [|lia]. rewrite firstn_add, utf8_app, blen_app. reflexivity.
  - eexists. rewrite (surjective_pairing (walk _ _ _ _)). rewrite W. reflexivity.
Qed.

Lemma apply_change_lf d range text : valid_text d ->
  apply_change (utf8 d) {| ch_range := range; ch_text := text |} =
  match range with
  | None => Ok text
  | Some (l1, c1, l2, c2) =>
    match pos_index_lf d l1 c1, pos_index_lf d l2 c2 with
    | Some s, Some e => if (s <=? e)%nat then Ok (utf8 (firstn s d) ++ text ++ utf8 (skipn e d)) else Err 1
    | _, _ => Err 1
    end
  end.
Proof.
  intros Hv. unfold apply_change. cbn [ch_range ch_text].
  destruct range as [[[[l1 c1] l2] c2]|]; [|reflexivity].
  unfold validate_range, position_to_index.
  pose proof (locate_lf d l1 c1 Hv) as L1. pose proof (locate_lf d l2 c2 Hv) as L2.
  destruct (pos_index_lf d l1 c1) as [s|].
  - destruct L1 as [L1 Hs]. rewrite L1.
    destruct (pos_index_lf d l2 c2) as [e|].
    + destruct L2 as [L2 He]. rewrite L2. cbn [negb orb fst].
      pose proof (blen_firstn_total d e) as Tot.
      destruct (s <=? e)%nat eqn:Ese.
      * apply Nat.leb_le in Ese.
        pose proof (blen_utf8_firstn_le d s e Ese) as Mono.
        replace (blen (utf8 (firstn e d)) <? blen (utf8 (firstn s d))) with false by lia.
        replace (blen (utf8 d) <? blen (utf8 (firstn e d))) with false by lia.
        cbn [orb]. unfold replace_range.
        rewrite !boundary_firstn by assumption. cbn [negb].
        replace (blen (utf8 (firstn e d)) <? blen (utf8 (firstn s d))) with false by lia.
        replace (blen (utf8 d) <? blen (utf8 (firstn e d))) with false by lia.
        rewrite firstn_utf8', skipn_utf8'. reflexivity.
      * apply Nat.leb_gt in Ese.
        pose proof (blen_utf8_firstn_lt d e s Ese Hs) as Mono.
        replace (blen (utf8 (firstn e d)) <? blen (utf8 (firstn s d))) with true by lia.
        reflexivity.
    + destruct L2 as [i L2]. rewrite L2. reflexivity.
  - destruct L1 as [i L1]. rewrite L1.
    destruct (pos_index_lf d l2 c2) as [e|].
    + destruct L2 as [L2 He]. rewrite L2. reflexivity.
    + destruct L2 as [j L2]. rewrite L2. reflexivity.
Qed.

(* the server over scalars *)
Lemma apply_change_wire d range text : valid_text d ->
  apply_change (utf8 d) (wire range text) =
  match apply_lf d range text with Some d' => Ok (utf8 d') | None => Err 1 end.
Proof.
  intros Hv. unfold wire. rewrite apply_change_lf by assumption. unfold apply_lf.
  destruct range as [[[[l1 c1] l2] c2]|]; [|reflexivity].
  destruct (pos_index_lf d l1 c1) as [s|]; [|reflexivity].
  destruct (pos_index_lf d l2 c2) as [e|]; [|reflexivity].
  destruct (s <=? e)%nat; [|reflexivity].
  now rewrite !utf8_app.
Qed.

(* no panic, for every valid document and any change (whatever its text) *)
Lemma apply_no_panic d ch : valid_text d -> forall s, apply_change (utf8 d) ch <> Panic s.
Proof.
  intros Hv s. destruct ch as [range text]. rewrite apply_change_lf by assumption.
  destruct range as [[[[l1 c1] l2] c2]|]; [|discriminate].
  destruct (pos_index_lf d l1 c1); [|discriminate].
  destruct (pos_index_lf d l2 c2); [|discriminate].
  destruct (_ <=? _)%nat; discriminate.
Qed.

Lemma apply_no_fuel d ch : valid_text d -> apply_change (utf8 d) ch <> OutOfFuel.
Proof.
  intros Hv. destruct ch as [range text]. rewrite apply_change_lf by assumption.
  destruct range as [[[[l1 c1] l2] c2]|]; [|discriminate].
  destruct (pos_index_lf d l1 c1); [|discriminate].
  destruct (pos_index_lf d l2 c2); [|discriminate].
  destruct (_ <=? _)%nat; discriminate.
Qed.

Lemma apply_lf_valid d range text d' :
  valid_text d -> valid_text text -> apply_lf d range text = Some d' -> valid_text d'.
Proof.
  intros Hd Ht. unfold apply_lf.
  destruct range as [[[[l1 c1] l2] c2]|]; [|intros [= <-]; assumption].
  destruct (pos_index_lf d l1 c1) as [s|]; [|discriminate].
  destruct (pos_index_lf d l2 c2) as [e|]; [|discriminate].
  destruct (s <=? e)%nat; [|discriminate]. intros [= <-].
  apply valid_text_app; [now apply valid_text_firstn|].
  apply valid_text_app; [assumption|now apply valid_text_skipn].
Qed.

(* -------------------------------------- LSP line ends = LF line ends without lone CR *)
Lemma no_lone_cr_tail c d : no_lone_cr (c :: d) -> no_lone_cr d.
Proof. unfold no_lone_cr. cbn [no_lone_crb]. intros H. apply andb_prop in H. apply H. Qed.

Lemma line_start_lf d : no_lone_cr d -> forall line, line_start d line = lf_start d line.
Proof.
  induction d as [|c d IH]; intros Hn line; [reflexivity|].
  pose proof (no_lone_cr_tail c d Hn) as Hd. specialize (IH Hd).
  cbn [line_start lf_start].
  destruct (line =? 0); [reflexivity|]. f_equal.
  destruct (c =? 10) eqn:E10; [apply IH|].
  destruct (c =? 13) eqn:E13; [|apply IH].
  unfold no_lone_cr in Hn. cbn [no_lone_crb] in Hn. rewrite E13 in Hn.
  destruct d as [|c2 d2]; [discriminate|].
  apply andb_prop in Hn. destruct Hn as [Hc2 _]. rewrite Hc2. apply IH.
Qed.

Lemma pos_index_lf_eq d line ch : no_lone_cr d -> pos_index d line ch = pos_index_lf d line ch.
Proof. intros H. unfold pos_index, pos_index_lf. now rewrite line_start_lf. Qed.

Lemma client_apply_lf d range text : no_lone_cr d -> client_apply d range text = apply_lf d range text.
Proof.
  intros H. unfold client_apply, apply_lf.
  destruct range as [[[[l1 c1] l2] c2]|]; [|reflexivity].
  now rewrite !pos_index_lf_eq.
Qed.

(* ------------------------------------------------------ the one-step lemmas *)
Lemma sync_step d range text d' :
  wf_doc d -> client_apply d range text = Some d' ->
  apply_change (utf8 d) (wire range text) = Ok (utf8 d').
Proof.
  intros [Hv Hn] H. rewrite apply_change_wire by assumption.
  rewrite client_apply_lf in H by assumption. now rewrite H.
Qed.

Lemma reject_step d range text :
  wf_doc d -> client_apply d range text = None ->
  apply_change (utf8 d) (wire range text) = Err 1.
Proof.
  intros [Hv Hn] H. rewrite apply_change_wire by assumption.
  rewrite client_apply_lf in H by assumption. now rewrite H.
Qed.

Lemma client_apply_none_iff d r text :
  client_apply d (Some r) text = None <-> invalid_range d r.
Proof.
  destruct r as [[[l1 c1] l2] c2]. unfold client_apply, invalid_range.
  destruct (pos_index d l1 c1) as [s|]; [|split; [intros _; now left|reflexivity]].
  destruct (pos_index d l2 c2) as [e|]; [|split; [intros _; right; now left|reflexivity]].
  destruct (s <=? e)%nat eqn:E.
  - apply Nat.leb_le in E. split; [discriminate|].
    intros [H|[H|[s' [e' [[= <-] [[= <-] H]]]]]]; try discriminate. lia.
  - apply Nat.leb_gt in E. split; [|reflexivity]. intros _. right. right. eauto.
Qed.

Lemma invalid_rejected d r text :
  wf_doc d -> invalid_range d r ->
  update_text_document (utf8 d) [wire (Some r) text] = (utf8 d, SErr 1).
Proof.
  intros Hw Hi. apply client_apply_none_iff with (text := text) in Hi.
  cbn [update_text_document]. now rewrite (reject_step d (Some r) text Hw Hi).
Qed.

Lemma valid_accepted d r text :
  wf_doc d -> ~ invalid_range d r ->
  exists d', client_apply d (Some r) text = Some d' /\
             update_text_document (utf8 d) [wire (Some r) text] = (utf8 d', SOk).
Proof.
  intros Hw Hi. destruct (client_apply d (Some r) text) as [d'|] eqn:E.
  - exists d'. split; [reflexivity|]. cbn [update_text_document].
    now rewrite (sync_step d (Some r) text d' Hw E).
  - exfalso. apply Hi. now apply client_apply_none_iff in E.
Qed.

(* --------------------------------------------------------------- histories *)
Lemma client_apply_valid d range text d' :
  wf_doc d -> valid_text text -> client_apply d range text = Some d' -> valid_text d'.
Proof.
  intros [Hv Hn] Ht H. rewrite client_apply_lf in H by assumption.
  eapply apply_lf_valid; [exact Hv|exact Ht|exact H].
Qed.

Definition not_panic (st : status) : Prop := forall s, st <> SPanic s.

Lemma batch_sync b : forall d, wf_doc d -> wf_batch d b ->
  exists st, update_text_document (utf8 d) (map wire1 b) = (utf8 (fold_left client_step b d), st)
             /\ not_panic st /\ wf_doc (fold_left client_step b d).
Proof.
  induction b as [|c b IH]; intros d Hw Hb.
  - exists SOk. cbn. repeat split; try apply Hw. intros s; discriminate.
  - destruct c as [range text]. cbn [wf_batch fst snd] in Hb. destruct Hb as [Ht Hb].
    cbn [map fold_left update_text_document]. unfold wire1 at 1. cbn [fst snd].
    unfold client_step at 2 4. cbn [fst snd].
    destruct (client_apply d range text) as [d'|] eqn:E.
    + destruct Hb as [Hn' Hb].
      rewrite (sync_step d range text d' Hw E).
      apply IH; [|assumption]. split; [|assumption].
      eapply client_apply_valid; [exact Hw|exact Ht|exact E].
    + subst b. rewrite (reject_step d range text Hw E). cbn [fold_left map].
      exists (SErr 1). repeat split; try apply Hw. intros s; discriminate.
Qed.

Lemma hist_sync h : forall d, wf_doc d -> wf_hist d h ->
  exists st, server_fold (utf8 d) (map (map wire1) h) = (utf8 (client_fold d h), st) /\ not_panic st.
Proof.
  induction h as [|b h IH]; intros d Hw Hh.
  - exists SOk. split; [reflexivity|]. intros s; discriminate.
  - cbn [wf_hist] in Hh. destruct Hh as [Hb Hh].
    destruct (batch_sync b d Hw Hb) as [st [Hu [Hnp Hw']]].
    cbn [map server_fold]. rewrite Hu.
    unfold client_fold. cbn [fold_left]. fold (client_fold (fold_left client_step b d) h).
    destruct (IH _ Hw' Hh) as [st' [Hs Hnp']].
    destruct st as [|e|s]; [| |exfalso; now apply (Hnp s)]; rewrite Hs; eauto.
Qed.

(* a session never panics, lone "\r" or not, as long as what is sent is text *)
Lemma update_no_panic b : forall d, valid_text d -> Forall (fun c => valid_text (snd c)) b ->
  exists d' st, update_text_document (utf8 d) (map wire1 b) = (utf8 d', st) /\ valid_text d' /\ not_panic st.
Proof.
  induction b as [|c b IH]; intros d Hv Hb.
  - exists d, SOk. cbn. repeat split; try assumption. intros s; discriminate.
  - inversion Hb as [|c' b' Hc Hb']; subst. destruct c as [range text]. cbn [snd] in Hc.
    cbn [map update_text_document]. unfold wire1 at 1. cbn [fst snd].
    rewrite apply_change_wire by assumption.
    destruct (apply_lf d range text) as [d1|] eqn:E.
    + apply IH; [|assumption]. eapply apply_lf_valid; [exact Hv|exact Hc|exact E].
    + exists d, (SErr 1). repeat split; try assumption. intros s; discriminate.
Qed.

Lemma session_no_panic h : forall d, valid_text d ->
  Forall (Forall (fun c => valid_text (snd c))) h ->
  forall c s, server_fold (utf8 d) (map (map wire1) h) <> (c, SPanic s).
Proof.
  induction h as [|b h IH]; intros d Hv Hh c s.
  - cbn. discriminate.
  - inversion Hh as [|b' h' Hb Hh']; subst.
    destruct (update_no_panic b d Hv Hb) as [d' [st [Hu [Hv' Hnp]]]].
    cbn [map server_fold]. rewrite Hu.
    destruct st as [|e|s']; [| |exfalso; now apply (Hnp s')]; now apply IH.
Qed.

(* ------------------------------------------- the original code: refutations *)
(* document "é", insert "x" at line 0 character 1 (after the é): replace_range panics *)
Lemma apply_panic_refuted_orig :
  exists d ch s, valid_text d /\ apply_change_orig (utf8 d) ch = Panic s.
Proof. exists [233], (wire (Some (0, 1, 0, 1)) [120]), 2. split; [|vm_compute; reflexivity].
  repeat constructor. Qed.

(* document "😀b", insert "x" at line 0 character 2 (after the emoji): lands elsewhere or panics;
   document "éa\nb": delete "a" (0:1-0:2) removes the second byte of é's encoding: panic.  A
   non-panicking divergence: "a😀b" is impossible on one line (every offset after an astral
   char is off by 2 into it), so the silent one is with a later LINE: "é\nab", character
   offsets on line 1 are right, but "aé" + clamp: "ab\ncd" position 0:3 is byte 3 = 'c'
   (start of next line) instead of the end of line 0. *)
Lemma sync_refuted_orig :
  exists d range text d' b', valid_text d /\ no_lone_cr d /\ valid_text text /\
    client_apply d range text = Some d' /\
    apply_change_orig (utf8 d) (wire range text) = Ok b' /\ b' <> utf8 d'.
Proof.
  exists [97;98;10;99;100], (Some (0, 4, 0, 4)), [120].
  eexists. eexists. split; [repeat constructor|]. split; [reflexivity|].
  split; [repeat constructor|]. split; [vm_compute; reflexivity|].
  split; [vm_compute; reflexivity|]. vm_compute. discriminate.
Qed.

Lemma sync_refuted_orig_astral :
  exists d range text d', valid_text d /\ no_lone_cr d /\ valid_text text /\
    client_apply d range text = Some d' /\
    apply_change_orig (utf8 d) (wire range text) <> Ok (utf8 d').
Proof.
  exists [0x1F600;98], (Some (0, 2, 0, 2)), [120].
  eexists. split; [repeat constructor|]. split; [reflexivity|].
  split; [repeat constructor|]. split; [vm_compute; reflexivity|]. vm_compute. discriminate.
Qed.
