(* C23 — the CLIENT's semantics of a text change (LSP 3.17, "Text Documents" / Position):
   a document is a sequence of Unicode scalar values; lines end at "\n", "\r\n" or "\r";
   `character` counts UTF-16 code units from the start of the line (a scalar >= 0x10000 is
   a surrogate pair: 2 units); a character beyond the line's length means the line's length
   (the end of the line, before its terminator); a position between the two units of a
   surrogate pair does not denote a place in the text.  Line numbers beyond the last line
   denote the end of the document (as vscode-languageserver-textdocument does; the protocol
   is silent).  No UTF-8, no byte offsets here. *)
From SwayV Require Export Base.Util C23.Utf8 C23.Model.
Open Scope N_scope.

Definition units (c : N) : N := if c <? 0x10000 then 1 else 2.

(* number of scalars before the start of line [line] *)
Fixpoint line_start (doc : list N) (line : N) : nat :=
  match doc with
  | [] => 0%nat
  | c :: d =>
    if line =? 0 then 0%nat
    else S (if c =? 10 then line_start d (line - 1)
            else if c =? 13 then
              match d with
              | c2 :: _ => if c2 =? 10 then line_start d line      (* "\r\n": the "\n" ends the line *)
                           else line_start d (line - 1)           (* lone "\r" ends the line *)
              | [] => line_start d (line - 1)
              end
            else line_start d line)
  end.

(* scalars to pass on the line to reach UTF-16 offset [character]; None inside a pair *)
Fixpoint col_walk (l : list N) (character : N) : option nat :=
  match l with
  | [] => Some 0%nat
  | c :: r =>
    if (c =? 10) || (c =? 13) then Some 0%nat            (* end of line: clamp *)
    else if character =? 0 then Some 0%nat
    else if character <? units c then None
    else option_map S (col_walk r (character - units c))
  end.

Definition pos_index (doc : list N) (line character : N) : option nat :=
  let s := line_start doc line in
  option_map (Nat.add s) (col_walk (skipn s doc) character).

(* The client's document after a change; None = the change has no meaning (a position inside
   a surrogate pair, or the start after the end): the client's document stays as it is. *)
Definition client_apply (doc : list N) (range : option (N * N * N * N)) (text : list N) : option (list N) :=
  match range with
  | None => Some text
  | Some (l1, c1, l2, c2) =>
    match pos_index doc l1 c1, pos_index doc l2 c2 with
    | Some s, Some e => if (s <=? e)%nat then Some (firstn s doc ++ text ++ skipn e doc) else None
    | _, _ => None
    end
  end.

(* "invalid range", exactly: *)
Definition invalid_range (doc : list N) (r : N * N * N * N) : Prop :=
  let '(l1, c1, l2, c2) := r in
  pos_index doc l1 c1 = None \/ pos_index doc l2 c2 = None \/
  exists s e, pos_index doc l1 c1 = Some s /\ pos_index doc l2 c2 = Some e /\ (e < s)%nat.

(* a change as the client sends it: text in UTF-8 *)
Definition wire (range : option (N * N * N * N)) (text : list N) : change :=
  {| ch_range := range; ch_text := utf8 text |}.

Definition cchange := (option (N * N * N * N) * list N)%type.
Definition wire1 (c : cchange) : change := wire (fst c) (snd c).

Definition client_step (doc : list N) (c : cchange) : list N :=
  match client_apply doc (fst c) (snd c) with Some d => d | None => doc end.

(* the client's document after a history of notifications *)
Definition client_fold (doc : list N) (hist : list (list cchange)) : list N :=
  fold_left (fun d batch => fold_left client_step batch d) hist doc.

(* documents with LF / CRLF line ends only: every "\r" is directly followed by "\n" *)
Fixpoint no_lone_crb (doc : list N) : bool :=
  match doc with
  | [] => true
  | c :: d => (if c =? 13 then match d with c2 :: _ => c2 =? 10 | [] => false end else true)
              && no_lone_crb d
  end.
Definition no_lone_cr (doc : list N) : Prop := no_lone_crb doc = true.

(* hypotheses of the theorems: valid scalars everywhere, LF/CRLF documents at every point of
   the history; a change without meaning may only come last in its batch (the server
   abandons a batch at its first rejected change). *)
Definition wf_doc (doc : list N) : Prop := valid_text doc /\ no_lone_cr doc.

Fixpoint wf_batch (doc : list N) (batch : list cchange) : Prop :=
  match batch with
  | [] => True
  | c :: rest =>
    valid_text (snd c) /\
    match client_apply doc (fst c) (snd c) with
    | Some d' => no_lone_cr d' /\ wf_batch d' rest
    | None => rest = []                 (* a meaningless change ends its batch *)
    end
  end.

Fixpoint wf_hist (doc : list N) (hist : list (list cchange)) : Prop :=
  match hist with
  | [] => True
  | b :: rest => wf_batch doc b /\ wf_hist (fold_left client_step b doc) rest
  end.
