(* C23 — model of sway-lsp/src/core/document.rs after the repair (fix: positions are UTF-16):
     TextDocument::{apply_change, validate_range, position_to_index, locate,
                    calculate_line_offsets}, Documents::update_text_document
   over the UTF-8 bytes of `content: String` (list N).  The struct keeps
   `line_offsets == calculate_line_offsets(&content)` in every constructor and mutator and
   the fields are private, so the state is the content alone.  `usize` arithmetic is
   unbounded N (all indices are <= content.len()).  Panics of `&s[i..]` and
   `String::replace_range` are explicit.  No proofs in this file. *)
From SwayV Require Export Base.Util C23.Utf8.
Open Scope N_scope.

(* lsp_types::TextDocumentContentChangeEvent; range = (start.line, start.character,
   end.line, end.character); `range_length` is deprecated and not read by the server. *)
Record change := { ch_range : option (N * N * N * N); ch_text : list N }.

Definition char_indices (bs : list N) : list (N * N) := chars_from 0 bs 0.
Definition chars (bs : list N) : list N := map snd (char_indices bs).

(* let mut offsets = vec![0]; for (i, c) in text.char_indices() { if c == '\n' { offsets.push(i + 1) } } *)
Definition calculate_line_offsets (bs : list N) : list N :=
  0 :: flat_map (fun ic => if snd ic =? 10 then [fst ic + 1] else []) (char_indices bs).

(* self.line_offsets.get(line).copied().unwrap_or(dflt) *)
Fixpoint get_or (l : list N) (n : N) (dflt : N) : N :=
  match l with
  | [] => dflt
  | x :: r => if n =? 0 then x else get_or r (n - 1) dflt
  end.

(* the `for c in self.content[line_offset..].chars()` loop of `locate` and its result *)
Fixpoint walk (cs : list N) (character index units : N) : N * bool :=
  match cs with
  | [] => (index, units <=? character)
  | c :: r =>
    if (c =? 10) || (c =? 13) || (character <=? units) then (index, units <=? character)
    else walk r character (index + len_utf8 c) (units + len_utf16 c)
  end.

Definition locate (content : list N) (line character : N) : outcome (N * bool) :=
  let line_offset := get_or (calculate_line_offsets content) line (blen content) in
  if negb (is_char_boundary content line_offset) then Panic 1      (* &self.content[line_offset..] *)
  else Ok (walk (chars (skipn (N.to_nat line_offset) content)) character line_offset 0).

Definition position_to_index (content : list N) (line character : N) : outcome N :=
  match locate content line character with
  | Ok r => Ok (fst r) | Err e => Err e | Panic s => Panic s | OutOfFuel => OutOfFuel
  end.

(* Err 1 = DocumentError::InvalidRange *)
Definition validate_range (content : list N) (r : N * N * N * N) : outcome unit :=
  let '(l1, c1, l2, c2) := r in
  match locate content l1 c1 with
  | Ok (s, sb) =>
    match locate content l2 c2 with
    | Ok (e, eb) =>
      if negb sb || negb eb || (e <? s) || (blen content <? e) then Err 1 else Ok tt
    | Err x => Err x | Panic x => Panic x | OutOfFuel => OutOfFuel
    end
  | Err x => Err x | Panic x => Panic x | OutOfFuel => OutOfFuel
  end.

(* String::replace_range(start..end, text): asserts both ends are char boundaries, then
   Vec::splice, whose range check panics on start > end or end > len. *)
Definition replace_range (content : list N) (s e : N) (text : list N) : outcome (list N) :=
  if negb (is_char_boundary content s) then Panic 2
  else if negb (is_char_boundary content e) then Panic 3
  else if e <? s then Panic 4
  else if blen content <? e then Panic 5
  else Ok (firstn (N.to_nat s) content ++ text ++ skipn (N.to_nat e) content).

(* TextDocument::apply_change.  `Err` is returned by `?` before `self` is touched. *)
Definition apply_change (content : list N) (ch : change) : outcome (list N) :=
  match ch_range ch with
  | Some r =>
    let '(l1, c1, l2, c2) := r in
    match validate_range content r with
    | Ok _ =>
      match position_to_index content l1 c1 with
      | Ok s =>
        match position_to_index content l2 c2 with
        | Ok e => replace_range content s e (ch_text ch)
        | Err x => Err x | Panic x => Panic x | OutOfFuel => OutOfFuel
        end
      | Err x => Err x | Panic x => Panic x | OutOfFuel => OutOfFuel
      end
    | Err x => Err x | Panic x => Panic x | OutOfFuel => OutOfFuel
    end
  | None => Ok (ch_text ch)                       (* self.content.clone_from(&change.text) *)
  end.

(* Documents::update_text_document: `for change in changes { document.apply_change(change)?; }`
   on the stored document; returns the stored content afterwards and the call's result
   (0 = Ok(text), e = Err, 99 = panic). *)
Inductive status := SOk | SErr (e : N) | SPanic (site : N).
Fixpoint update_text_document (content : list N) (changes : list change) : list N * status :=
  match changes with
  | [] => (content, SOk)
  | ch :: rest =>
    match apply_change content ch with
    | Ok c' => update_text_document c' rest
    | Err e => (content, SErr e)
    | Panic s => (content, SPanic s)
    | OutOfFuel => (content, SPanic 0)
    end
  end.

(* a session: one update_text_document call per didChange notification; an Err is answered
   to the client and the stored document lives on *)
Fixpoint server_fold (content : list N) (hist : list (list change)) : list N * status :=
  match hist with
  | [] => (content, SOk)
  | batch :: rest =>
    match update_text_document content batch with
    | (c', SPanic s) => (c', SPanic s)
    | (c', _) => server_fold c' rest
    end
  end.
