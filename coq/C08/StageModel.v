(* C08 — model of register_allocator.rs::assign_registers (stage lemma; not tied to dumps).
   The interference graph is given by its undirected neighbour function (assign_registers consults
   neighbors_undirected, so edge directions and "deleted" flags are irrelevant); the pool is the
   list of used_by sets, one per allocatable register, in register order.  NO proofs here. *)
From SwayV Require Import Base.Util Asm.Model.
Local Open Scope N_scope.

Definition pool := list (list reg).

Definition memr (r : reg) (l : list reg) : bool := existsb (N.eqb r) l.

(* first register none of whose users is a neighbour of v *)
Fixpoint place (nbrs : list reg) (v : reg) (p : pool) : option pool :=
  match p with
  | [] => None     (* "The allocator cannot resolve a register mapping for this program." *)
  | used :: rest =>
      if forallb (fun u => negb (memr u nbrs)) used then Some ((v :: used) :: rest)
      else option_map (cons used) (place nbrs v rest)
  end.

(* the stack is popped from its end: [stack] lists the nodes in popping order *)
Fixpoint assign (adj : reg -> list reg) (stack : list reg) (p : pool) : option pool :=
  match stack with
  | [] => Some p
  | v :: t => if is_virt v
              then match place (adj v) v p with Some p' => assign adj t p' | None => None end
              else assign adj t p
  end.

Definition init_pool (k : nat) : pool := repeat [] k.

(* no two registers sharing a machine register are neighbours *)
Definition proper (adj : reg -> list reg) (p : pool) : Prop :=
  forall used u v, In used p -> In u used -> In v used -> ~ In u (adj v).

(* ---- model of create_interference_graph (edges as ordered pairs v -> b, as update_edge adds them) ---- *)
From Coq Require Import MSets.MSetPositive FSets.FMapPositive.
From SwayV Require Import C08.Spec C08.Model.

Definition virt_out (L : ltab) (ss : list nat) : list reg :=
  filter is_virt (map key_reg (PS.elements (out_of L ss))).

Definition item_edges (L : ltab) (it : item) : list (reg * reg) :=
  match it with (i, o, ss) =>
    let out := virt_out L ss in
    match kind o with
    | KMove v c =>
        if is_virt v then map (fun b => (v, b)) (filter (fun b => andb (negb (N.eqb b c)) (negb (N.eqb b v))) out)
        else []
    | _ =>
        flat_map (fun v => map (fun b => (v, b)) (filter (fun b => negb (N.eqb b v)) out))
                 (filter is_virt (defs o))
    end
  end.

Definition interference_edges (ops : list op) (L : ltab) : list (reg * reg) :=
  flat_map (item_edges L) (items_of ops).
