(* C08 — what "register allocation never clobbers a live value" means.  No proofs here. *)
From SwayV Require Import Base.Util Asm.Model.
Local Open Scope N_scope.

(* The allocator's map on virtual registers, identity on everything else. *)
Definition phi_of (asg : reg -> reg) : reg -> reg := fun r => if is_virt r then asg r else r.

(* The use/def lists agree with what the kind reads and writes. *)
Definition wf_kind (o : op) : Prop :=
  match kind o with
  | KMove d s => defs o = [d] /\ In s (uses o)
  | KJnz _ c => defs o = [] /\ In c (uses o)
  | KOther _ _ => True
  | _ => defs o = []
  end.

(* Well-formed input of the allocator together with an assignment: only constant and virtual
   registers occur, def-const registers are constant, every virtual register that occurs is
   given a machine register. *)
Definition wf_alloc (ops : list op) (asg : reg -> reg) : Prop :=
  forall i o, nth_error ops i = Some o ->
    wf_kind o /\
    (forall r, In r (uses o ++ defs o) -> is_mach r = false) /\
    (forall r, In r (uses o ++ defs o) -> is_virt r = true -> is_mach (asg r) = true) /\
    (forall r, In r (cdefs o) -> is_const r = true).

(* The property: a register being defined never shares its machine register with a different
   virtual register that is live after the instruction (for MOVE d s the source may share),
   nor with another register defined by the same instruction. *)
Definition valid_alloc (ops : list op) (asg : reg -> reg) : Prop :=
  (forall i o d v, nth_error ops i = Some o -> In d (defs o) -> is_virt d = true ->
     is_virt v = true -> live_out ops i v -> v <> d ->
     (forall s, kind o = KMove d s -> v <> s) -> asg d <> asg v) /\
  (forall i o d1 d2, nth_error ops i = Some o -> In d1 (defs o) -> In d2 (defs o) ->
     is_virt d1 = true -> is_virt d2 = true -> d1 <> d2 -> asg d1 <> asg d2).

(* States of the virtual-register program and of the allocated program correspond:
   same pc, same memory, equal constant registers, and every live virtual register's value
   sits in its machine register. *)
Definition needed (ops : list op) (i : nat) (r : reg) : Prop :=
  is_const r = true \/ (is_virt r = true /\ live_in ops i r).

Definition agree (ops : list op) (asg : reg -> reg) (i : nat) (rf rf' : regfile) : Prop :=
  forall r, needed ops i r -> rf' (phi_of asg r) = rf r.

Definition match_states {M} (ops : list op) (asg : reg -> reg) (st st' : state M) : Prop :=
  pc st' = pc st /\ mem st' = mem st /\ agree ops asg (pc st) (rf st) (rf st').

Definition match_results {M} (ops : list op) (asg : reg -> reg) (a b : result M) : Prop :=
  match a, b with
  | Running s, Running s' => match_states ops asg s s'
  | Stopped s, Stopped s' => match_states ops asg s s'
  | _, _ => False
  end.

