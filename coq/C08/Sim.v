(* C08 — a valid allocation gives a lock-step simulation between the virtual-register
   program and the renamed program, for every instruction semantics. *)
From SwayV Require Import Base.Util Asm.Model C08.Spec.
Local Open Scope N_scope.

(* ---- register classes ---- *)
Lemma virt_not_const r : is_virt r = true -> is_const r = false.
Proof. unfold is_virt, is_const. intros H. apply N.leb_le in H. apply N.ltb_ge. lia. Qed.
Lemma virt_not_mach r : is_virt r = true -> is_mach r = false.
Proof.
  unfold is_virt, is_mach. intros H. apply N.leb_le in H.
  apply andb_false_iff. right. apply N.ltb_ge. lia.
Qed.
Lemma mach_not_const r : is_mach r = true -> is_const r = false.
Proof.
  unfold is_mach, is_const. intros H. apply andb_true_iff in H. destruct H as [H _].
  apply N.leb_le in H. apply N.ltb_ge. lia.
Qed.
Lemma mach_not_virt r : is_mach r = true -> is_virt r = false.
Proof.
  unfold is_mach, is_virt. intros H. apply andb_true_iff in H. destruct H as [_ H].
  apply N.ltb_lt in H. apply N.leb_gt. lia.
Qed.
Lemma const_not_virt r : is_const r = true -> is_virt r = false.
Proof. unfold is_virt, is_const. intros H. apply N.ltb_lt in H. apply N.leb_gt. lia. Qed.
Lemma not_mach_cases r : is_mach r = false -> is_const r = true \/ is_virt r = true.
Proof.
  unfold is_mach, is_const, is_virt. intros H. apply andb_false_iff in H. destruct H as [H|H].
  - left. apply N.leb_gt in H. apply N.ltb_lt. lia.
  - right. apply N.ltb_ge in H. apply N.leb_le. lia.
Qed.

Lemma phi_nonvirt asg r : is_virt r = false -> phi_of asg r = r.
Proof. unfold phi_of. intros ->. reflexivity. Qed.
Lemma phi_virt asg r : is_virt r = true -> phi_of asg r = asg r.
Proof. unfold phi_of. intros ->. reflexivity. Qed.

(* ---- renaming keeps the shape of the program ---- *)
Lemma is_label_rename f l o : is_label l (rename_op f o) = is_label l o.
Proof. unfold is_label, rename_op. cbn. destruct (kind o); reflexivity. Qed.

Lemma find_index_map {A B} (g : A -> B) p q l :
  (forall x, p (g x) = q x) -> find_index p (map g l) = find_index q l.
Proof.
  intros H. induction l as [|a l IH]; cbn; [reflexivity|].
  rewrite H. destruct (q a); [reflexivity|]. rewrite IH. reflexivity.
Qed.

Lemma label_index_rename f ops l : label_index (rename f ops) l = label_index ops l.
Proof. unfold label_index, rename. apply find_index_map. intros x. apply is_label_rename. Qed.

Lemma nth_error_rename f ops i :
  nth_error (rename f ops) i = option_map (rename_op f) (nth_error ops i).
Proof. unfold rename. apply nth_error_map. Qed.

Lemma imms_of_rename f args : imms_of (map (rename_operand f) args) = imms_of args.
Proof. induction args as [|a t IH]; cbn; [reflexivity|]. destruct a; cbn; rewrite IH; reflexivity. Qed.

(* ---- writes ---- *)
Lemma write_list_rel (f : reg -> reg) v : forall rs vs rf rf',
  (forall d, In d rs -> d <> v -> f d <> f v) ->
  (rf' (f v) = rf v \/ In v rs) ->
  write_list (map f rs) vs rf' (f v) = write_list rs vs rf v.
Proof.
  induction rs as [|d rs IH]; intros vs rf rf' Hsep Hpre; cbn.
  - destruct Hpre as [H|[]]. exact H.
  - apply IH.
    + intros d' Hd'. apply Hsep. right. exact Hd'.
    + destruct (N.eq_dec d v) as [->|Hne].
      * left. unfold upd. rewrite !N.eqb_refl. reflexivity.
      * destruct Hpre as [H|[H|H]].
        -- left. unfold upd. destruct (N.eqb_spec (f v) (f d)) as [E|E].
           { exfalso. apply (Hsep d); [left; reflexivity | exact Hne | symmetry; exact E]. }
           destruct (N.eqb_spec v d) as [E2|E2]; [congruence|]. exact H.
        -- congruence.
        -- right. exact H.
Qed.

Lemma write_list_notin x : forall rs vs rf, ~ In x rs -> write_list rs vs rf x = rf x.
Proof.
  induction rs as [|d rs IH]; intros vs rf Hn; cbn; [reflexivity|].
  rewrite IH by (intros H; apply Hn; right; exact H).
  unfold upd. destruct (N.eqb_spec x d) as [E|E]; [|reflexivity].
  exfalso. apply Hn. left. symmetry. exact E.
Qed.

Lemma map_id_on {A} (f : A -> A) l : (forall x, In x l -> f x = x) -> map f l = l.
Proof.
  induction l as [|a l IH]; intros H; cbn; [reflexivity|].
  rewrite H by (left; reflexivity). rewrite IH; [reflexivity|]. intros x Hx. apply H. right. exact Hx.
Qed.

Lemma const_regs_const : forall r, In r const_regs -> is_const r = true.
Proof. apply forallb_forall. vm_compute. reflexivity. Qed.
Lemma call_in_regs_const : forall r, In r call_in_regs -> is_const r = true.
Proof. apply forallb_forall. vm_compute. reflexivity. Qed.

(* ---- liveness facts ---- *)
Lemma LI_use ops i o r : nth_error ops i = Some o -> In r (uses o) -> live_in ops i r.
Proof. apply LG_use. Qed.
Lemma LI_thru ops i o j r : nth_error ops i = Some o -> In j (succs ops i) ->
  live_in ops j r -> ~ In r (defs o) -> live_in ops i r.
Proof. apply LG_thru. Qed.

Lemma live_in_used ops i r : live_in ops i r -> exists k o, nth_error ops k = Some o /\ In r (uses o).
Proof.
  unfold live_in. induction 1 as [i o r Hn Hu | i o j r Hn Hj Hl IH Hd].
  - exists i, o. split; assumption.
  - exact IH.
Qed.

Section Sim.
  Variable M : Type.
  Variable sem : N -> list N -> list val -> M -> option (list val * M).
  Variable call_sem : label -> list val -> M -> option (list val * M).
  Variable ops : list op.
  Variable asg : reg -> reg.
  Hypothesis Hwf : wf_alloc ops asg.
  Hypothesis Hva : valid_alloc ops asg.
  Hypothesis Hrv : rvrt_stops M sem.

  Let phi := phi_of asg.

  Lemma live_virt_mach j r : is_virt r = true -> live_in ops j r -> is_mach (asg r) = true.
  Proof.
    intros Hv Hl. destruct (live_in_used _ _ _ Hl) as (k & o' & Hk & Hu).
    destruct (Hwf _ _ Hk) as (_ & _ & Hasg & _). apply Hasg; [|exact Hv].
    apply in_or_app. left. exact Hu.
  Qed.

  Lemma needed_phi_class j r : needed ops j r ->
    (is_const r = true /\ phi r = r) \/ (is_virt r = true /\ phi r = asg r /\ is_mach (asg r) = true).
  Proof.
    intros [Hc|[Hv Hl]].
    - left. split; [exact Hc|]. apply phi_nonvirt. apply const_not_virt. exact Hc.
    - right. split; [exact Hv|]. split; [apply phi_virt; exact Hv|]. eapply live_virt_mach; eassumption.
  Qed.

  (* a constant register written by the instruction never collides with a needed register *)
  Lemma sep_const j c r : is_const c = true -> needed ops j r -> c <> r -> phi c <> phi r.
  Proof.
    intros Hc Hn Hne. unfold phi at 1. rewrite phi_nonvirt by (apply const_not_virt; exact Hc).
    destruct (needed_phi_class _ _ Hn) as [[_ E]|(_ & E & Hm)]; rewrite E.
    - exact Hne.
    - intros ->. apply mach_not_const in Hm. congruence.
  Qed.

  Lemma uses_agree i o rf rf' : nth_error ops i = Some o -> agree ops asg i rf rf' ->
    forall u, In u (uses o) -> rf' (phi u) = rf u.
  Proof.
    intros Hn Hag u Hu. apply Hag.
    destruct (Hwf _ _ Hn) as (_ & Hnm & _ & _).
    destruct (not_mach_cases u (Hnm u (in_or_app _ _ _ (or_introl Hu)))) as [Hc|Hv].
    - left. exact Hc.
    - right. split; [exact Hv|]. eapply LI_use; eassumption.
  Qed.

  Lemma map_uses_agree i o rf rf' : nth_error ops i = Some o -> agree ops asg i rf rf' ->
    map rf' (map phi (uses o)) = map rf (uses o).
  Proof.
    intros Hn Hag. rewrite map_map. apply map_ext_in. intros u Hu. eapply uses_agree; eassumption.
  Qed.

  Lemma agree_nowrite i o j rf rf' : nth_error ops i = Some o -> defs o = [] ->
    In j (succs ops i) -> agree ops asg i rf rf' -> agree ops asg j rf rf'.
  Proof.
    intros Hn Hd Hj Hag r [Hc|[Hv Hl]]; apply Hag.
    - left. exact Hc.
    - right. split; [exact Hv|]. eapply LI_thru; try eassumption. rewrite Hd. intros [].
  Qed.

  (* separation for a register d written by instruction i against a needed register r at a successor *)
  Lemma sep_def i o j d r : nth_error ops i = Some o -> In j (succs ops i) ->
    In d (defs o ++ cdefs o) -> needed ops j r -> d <> r ->
    (forall s, kind o = KMove d s -> r <> s) -> phi d <> phi r.
  Proof.
    intros Hn Hj Hd Hr Hne Hmv.
    destruct (Hwf _ _ Hn) as (_ & Hnm & Hasg & Hcd).
    apply in_app_or in Hd. destruct Hd as [Hd|Hd].
    2:{ eapply sep_const; eauto. }
    destruct (not_mach_cases d (Hnm d (in_or_app _ _ _ (or_intror Hd)))) as [Hc|Hv].
    { eapply sep_const; eauto. }
    assert (Hmd : is_mach (asg d) = true) by (apply Hasg; [apply in_or_app; right; exact Hd | exact Hv]).
    unfold phi at 1. rewrite (phi_virt asg d Hv).
    destruct (needed_phi_class _ _ Hr) as [[Hc E]|(Hvr & E & Hm)]; rewrite E.
    - intros E2. rewrite E2 in Hmd. apply mach_not_const in Hmd. congruence.
    - destruct Hr as [Hc|[_ Hl]]. { apply const_not_virt in Hc. congruence. }
      destruct Hva as [Hv1 _]. eapply Hv1; eauto.
      exists j. split; assumption.
  Qed.

  Lemma pre_def i o j r rf rf' : nth_error ops i = Some o -> In j (succs ops i) ->
    agree ops asg i rf rf' -> needed ops j r ->
    rf' (phi r) = rf r \/ In r (defs o ++ cdefs o).
  Proof.
    intros Hn Hj Hag [Hc|[Hv Hl]].
    - left. apply Hag. left. exact Hc.
    - destruct (in_dec N.eq_dec r (defs o)) as [Hi|Hi].
      + right. apply in_or_app. left. exact Hi.
      + left. apply Hag. right. split; [exact Hv|]. eapply LI_thru; eassumption.
  Qed.

  Lemma agree_write i o j vs rf rf' : nth_error ops i = Some o -> In j (succs ops i) ->
    (forall d s, kind o <> KMove d s) -> agree ops asg i rf rf' ->
    agree ops asg j (write_list (defs o ++ cdefs o) vs rf)
                    (write_list (map phi (defs o ++ cdefs o)) vs rf').
  Proof.
    intros Hn Hj Hnm Hag r Hr. apply write_list_rel.
    - intros d Hd Hne. eapply sep_def; eauto. intros s Hk. exfalso. eapply Hnm. exact Hk.
    - eapply pre_def; eassumption.
  Qed.

  Lemma agree_call i o j vs rf rf' : nth_error ops i = Some o -> defs o = [] ->
    In j (succs ops i) -> agree ops asg i rf rf' ->
    agree ops asg j (write_list const_regs vs rf) (write_list const_regs vs rf').
  Proof.
    intros Hn Hd Hj Hag r Hr.
    rewrite <- (map_id_on phi const_regs) at 1.
    2:{ intros x Hx. apply phi_nonvirt. apply const_not_virt. apply const_regs_const. exact Hx. }
    apply write_list_rel.
    - intros d Hdin Hne. eapply sep_const; eauto. apply const_regs_const. exact Hdin.
    - left. apply (agree_nowrite i o j rf rf' Hn Hd Hj Hag). exact Hr.
  Qed.

  Lemma agree_move i o d s rf rf' : nth_error ops i = Some o -> kind o = KMove d s ->
    In (S i) (succs ops i) -> agree ops asg i rf rf' ->
    agree ops asg (S i) (zero_list (cdefs o) (upd rf d (rf s)))
                        (zero_list (map phi (cdefs o)) (upd rf' (phi d) (rf' (phi s)))).
  Proof.
    intros Hn Hk Hj Hag r Hr.
    destruct (Hwf _ _ Hn) as (Hwk & Hnm & Hasg & Hcd).
    unfold wf_kind in Hwk. rewrite Hk in Hwk. destruct Hwk as [Hdefs Hsu].
    assert (Hs : rf' (phi s) = rf s) by (eapply uses_agree; eassumption).
    rewrite Hs.
    change (zero_list (cdefs o) (upd rf d (rf s))) with (write_list (d :: cdefs o) [rf s] rf).
    change (zero_list (map phi (cdefs o)) (upd rf' (phi d) (rf s)))
      with (write_list (map phi (d :: cdefs o)) [rf s] rf').
    assert (Hdc : defs o ++ cdefs o = d :: cdefs o) by (rewrite Hdefs; reflexivity).
    destruct (N.eq_dec r d) as [->|Hrd].
    { apply write_list_rel.
      - intros d0 Hd0 Hne. rewrite <- Hdc in Hd0. eapply sep_def; eauto. intros s0 Hk0. congruence.
      - right. left. reflexivity. }
    destruct (N.eq_dec r s) as [->|Hrs].
    2:{ apply write_list_rel.
        - intros d0 Hd0 Hne. rewrite <- Hdc in Hd0. eapply sep_def; eauto.
          intros s0 Hk0. rewrite Hk in Hk0. injection Hk0 as <- <-. exact Hrs.
        - rewrite <- Hdc. eapply pre_def; eassumption. }
    (* r = s, s <> d *)
    destruct (N.eq_dec (phi d) (phi s)) as [E|NE].
    2:{ apply write_list_rel.
        - intros d0 [<-|Hd0] Hne; [exact NE|].
          eapply sep_const; eauto.
        - rewrite <- Hdc. eapply pre_def; eassumption. }
    (* shared register: both sides hold the value of s *)
    assert (Hsv : is_virt s = true).
    { destruct Hr as [Hc|[Hv _]]; [|exact Hv]. exfalso.
      assert (Hps : phi s = s) by (apply phi_nonvirt; apply const_not_virt; exact Hc).
      rewrite Hps in E.
      assert (Hdin : In d (defs o)) by (rewrite Hdefs; left; reflexivity).
      destruct (not_mach_cases d (Hnm d (in_or_app _ _ _ (or_intror Hdin)))) as [Hdc'|Hdv].
      - unfold phi in E. rewrite phi_nonvirt in E by (apply const_not_virt; exact Hdc'). congruence.
      - assert (Hm : is_mach (asg d) = true).
        { apply Hasg; [|exact Hdv]. apply in_or_app. right. rewrite Hdefs. left. reflexivity. }
        unfold phi in E. rewrite (phi_virt asg d Hdv) in E. rewrite E in Hm.
        apply mach_not_const in Hm. congruence. }
    assert (Hncd : ~ In s (cdefs o)).
    { intros Hin. apply Hcd in Hin. apply virt_not_const in Hsv. congruence. }
    assert (Hms : is_mach (asg s) = true).
    { apply Hasg; [|exact Hsv]. apply in_or_app. left. exact Hsu. }
    assert (Hnpc : ~ In (phi s) (map phi (cdefs o))).
    { intros Hin. apply in_map_iff in Hin. destruct Hin as (c & Ec & Hc).
      pose proof (Hcd c Hc) as Hcc.
      unfold phi in Ec. rewrite (phi_nonvirt asg c) in Ec by (apply const_not_virt; exact Hcc).
      rewrite (phi_virt asg s Hsv) in Ec. rewrite <- Ec in Hms. apply mach_not_const in Hms. congruence. }
    cbn [map write_list hd tl].
    rewrite (write_list_notin _ _ _ _ Hnpc). rewrite (write_list_notin _ _ _ _ Hncd).
    unfold upd. rewrite E. rewrite N.eqb_refl.
    destruct (N.eqb_spec s d) as [E2|E2]; [congruence|reflexivity].
  Qed.

  Lemma step_sim st st' : match_states ops asg st st' ->
    match step M sem call_sem ops st, step M sem call_sem (rename phi ops) st' with
    | Some a, Some b => match_states ops asg a b
    | None, None => True
    | _, _ => False
    end.
  Proof.
    destruct st as [p rg m], st' as [p' rg' m']. unfold match_states. cbn [pc rf mem].
    intros (Hpc & Hmem & Hag). subst p' m'.
    unfold step. cbn [pc rf mem]. rewrite nth_error_rename.
    destruct (nth_error ops p) as [o|] eqn:Hn; cbn [option_map]; [|exact I].
    destruct (Hwf _ _ Hn) as (Hwk & Hnm & Hasg & Hcd).
    assert (Hsucc : succs ops p = succs_of ops p o) by (unfold succs; rewrite Hn; reflexivity).
    unfold wf_kind in Hwk. unfold succs_of in Hsucc.
    unfold rename_op. cbn [kind uses defs cdefs se].
    destruct (kind o) as [d s| |l|l|l c|l| |r|opc args] eqn:Hk; cbn [rename_kind].
    - (* move *)
      cbn [pc rf mem]. split; [reflexivity|]. split; [reflexivity|].
      eapply agree_move; eauto. rewrite Hsucc. left. reflexivity.
    - (* noop *)
      cbn [pc rf mem]. split; [reflexivity|]. split; [reflexivity|].
      unfold zero_list.
      pose proof (agree_write p o (S p) [] rg rg' Hn) as H. rewrite Hwk in H. cbn [app] in H.
      apply H; [rewrite Hsucc; left; reflexivity | intros; congruence | exact Hag].
    - (* label *)
      cbn [pc rf mem]. split; [reflexivity|]. split; [reflexivity|].
      eapply agree_nowrite; eauto. rewrite Hsucc. left. reflexivity.
    - (* jump *)
      rewrite label_index_rename. destruct (label_index ops l) as [j|] eqn:Hl; [|exact I].
      cbn [pc rf mem]. split; [reflexivity|]. split; [reflexivity|].
      eapply agree_nowrite; eauto. rewrite Hsucc. left. reflexivity.
    - (* jnz *)
      destruct Hwk as [Hd Hc].
      rewrite (uses_agree p o rg rg' Hn Hag c Hc).
      rewrite label_index_rename.
      destruct (N.eqb (rg c) 0).
      + cbn [pc rf mem]. split; [reflexivity|]. split; [reflexivity|].
        eapply agree_nowrite; eauto. rewrite Hsucc. apply in_or_app. right. left. reflexivity.
      + destruct (label_index ops l) as [j|] eqn:Hl; [|exact I].
        cbn [pc rf mem]. split; [reflexivity|]. split; [reflexivity|].
        eapply agree_nowrite; eauto. rewrite Hsucc. left. reflexivity.
    - (* call *)
      assert (Hin : map rg' call_in_regs = map rg call_in_regs).
      { apply map_ext_in. intros c Hc. apply call_in_regs_const in Hc.
        rewrite <- (phi_nonvirt asg c) at 1 by (apply const_not_virt; exact Hc).
        apply Hag. left. exact Hc. }
      rewrite Hin. destruct (call_sem l (map rg call_in_regs) m) as [[vs m2]|]; [|exact I].
      cbn [pc rf mem]. split; [reflexivity|]. split; [reflexivity|].
      eapply agree_call; eauto. rewrite Hsucc. left. reflexivity.
    - exact I.
    - exact I.
    - (* other *)
      rewrite imms_of_rename. rewrite (map_uses_agree p o rg rg' Hn Hag).
      destruct (N.eqb_spec opc OPC_RVRT) as [->|Hne].
      { rewrite Hrv. exact I. }
      destruct (sem opc (imms_of args) (map rg (uses o)) m) as [[vs m2]|]; [|exact I].
      cbn [pc rf mem]. split; [reflexivity|]. split; [reflexivity|].
      rewrite <- map_app.
      apply (agree_write p o (S p) vs rg rg' Hn); [| |exact Hag].
      + rewrite Hsucc. destruct (N.eqb_spec opc OPC_RVRT); [contradiction|]. left. reflexivity.
      + intros d s. congruence.
  Qed.

  Theorem run_sim : forall n st st', match_states ops asg st st' ->
    match_results ops asg (run M sem call_sem ops n st) (run M sem call_sem (rename phi ops) n st').
  Proof.
    induction n as [|n IH]; intros st st' Hm; cbn [run].
    - exact Hm.
    - pose proof (step_sim st st' Hm) as Hs.
      destruct (step M sem call_sem ops st) as [a|], (step M sem call_sem (rename phi ops) st') as [b|];
        try contradiction.
      + apply IH. exact Hs.
      + exact Hm.
  Qed.
End Sim.

(* If no virtual register is live at the entry (none is read before being written), any two
   initial states with the same memory and constant registers correspond. *)
Lemma initial_states_match M ops asg (m : M) rf rf' :
  (forall v, is_virt v = true -> ~ live_in ops 0 v) ->
  (forall c, is_const c = true -> rf' c = rf c) ->
  match_states ops asg (mkSt 0 rf m) (mkSt 0 rf' m).
Proof.
  intros Hnl Hc. split; [reflexivity|]. split; [reflexivity|].
  intros r [Hr|[Hv Hl]].
  - rewrite phi_nonvirt by (apply const_not_virt; exact Hr). apply Hc. exact Hr.
  - exfalso. eapply Hnl; eassumption.
Qed.
