(* C08 — soundness of the executable checkers of C08/Model.v. *)
From Coq Require Import MSets.MSetPositive FSets.FMapPositive.
From SwayV Require Import Base.Util Asm.Model C08.Spec C08.Model C08.Sim.
Local Open Scope N_scope.

Lemma key_reg_rkey r : key_reg (rkey r) = r.
Proof. unfold key_reg, rkey. apply N.pos_pred_succ. Qed.

Lemma rkey_inj a b : rkey a = rkey b -> a = b.
Proof. intros H. rewrite <- (key_reg_rkey a), <- (key_reg_rkey b), H. reflexivity. Qed.

Lemma set_of_in l r : In r l -> PS.In (rkey r) (set_of l).
Proof.
  induction l as [|a l IH]; intros H; cbn; [destruct H|].
  apply PS.add_spec. destruct H as [->|H]; [left; reflexivity | right; apply IH; exact H].
Qed.

Lemma set_of_inv l k : PS.In k (set_of l) -> exists r, In r l /\ k = rkey r.
Proof.
  induction l as [|a l IH]; cbn; intros H.
  - apply PS.empty_spec in H. destruct H.
  - apply PS.add_spec in H. destruct H as [->|H].
    + exists a. split; [left; reflexivity | reflexivity].
    + destruct (IH H) as (r & Hr & E). exists r. split; [right; exact Hr | exact E].
Qed.

Lemma set_of_notin l r : ~ In r l -> ~ PS.In (rkey r) (set_of l).
Proof.
  intros Hn H. destruct (set_of_inv _ _ H) as (r' & Hr' & E). apply rkey_inj in E. subst. contradiction.
Qed.

Lemma out_of_in L ss j k : In j ss -> PS.In k (lget L j) -> PS.In k (out_of L ss).
Proof.
  induction ss as [|s ss IH]; intros Hj Hk; cbn; [destruct Hj|].
  apply PS.union_spec. destruct Hj as [->|Hj]; [left; exact Hk | right; apply IH; assumption].
Qed.

Lemma items_aux_in ops : forall l i k o, nth_error l k = Some o ->
  In ((i + k)%nat, o, succs_of ops (i + k) o) (items_aux ops i l).
Proof.
  induction l as [|a l IH]; intros i k o H.
  - destruct k; discriminate.
  - destruct k as [|k]; cbn in H |- *.
    + injection H as ->. rewrite Nat.add_0_r. left. reflexivity.
    + right. rewrite <- Nat.add_succ_comm. apply IH. exact H.
Qed.

Lemma succs_nth ops i o : nth_error ops i = Some o -> succs ops i = succs_of ops i o.
Proof. intros H. unfold succs. rewrite H. reflexivity. Qed.

Lemma items_of_in ops i o : nth_error ops i = Some o -> In (i, o, succs ops i) (items_of ops).
Proof.
  intros H. rewrite (succs_nth _ _ _ H). unfold items_of.
  apply (items_aux_in ops ops 0%nat i o H).
Qed.

(* a post-fixpoint of the dataflow inequations contains the least solution *)
Lemma postfix_sound kill ops L : is_postfix kill (items_of ops) L = true ->
  forall i r, live_gen kill ops i r -> PS.In (rkey r) (lget L i).
Proof.
  intros Hp. unfold is_postfix in Hp. rewrite forallb_forall in Hp.
  induction 1 as [i o r Hn Hu | i o j r Hn Hj Hl IH Hd].
  - pose proof (Hp _ (items_of_in _ _ _ Hn)) as H. cbn in H. apply PS.subset_spec in H.
    apply H. unfold transfer. apply PS.union_spec. left. apply set_of_in. exact Hu.
  - pose proof (Hp _ (items_of_in _ _ _ Hn)) as H. cbn in H. apply PS.subset_spec in H.
    apply H. unfold transfer. apply PS.union_spec. right. apply PS.diff_spec. split.
    + eapply out_of_in; eassumption.
    + apply set_of_notin. exact Hd.
Qed.

Lemma live_out_in_out ops L i v : is_postfix defs (items_of ops) L = true ->
  live_out ops i v -> PS.In (rkey v) (out_of L (succs ops i)).
Proof.
  intros Hp (j & Hj & Hl). eapply out_of_in; [exact Hj|]. eapply postfix_sound; eassumption.
Qed.

(* ---- well-formedness ---- *)
Lemma list_eqb_N a : forall b, list_eqb N.eqb a b = true -> a = b.
Proof.
  induction a as [|x a IH]; intros [|y b] H; cbn in H; try discriminate; [reflexivity|].
  apply andb_true_iff in H. destruct H as [H1 H2]. apply N.eqb_eq in H1. subst. f_equal. apply IH. exact H2.
Qed.

Lemma memb_In r l : memb r l = true -> In r l.
Proof.
  unfold memb. rewrite existsb_exists. intros (x & Hx & E). apply N.eqb_eq in E. subst. exact Hx.
Qed.

Lemma nil_b_nil {A} (l : list A) : nil_b l = true -> l = [].
Proof. destruct l; [reflexivity | discriminate]. Qed.

Lemma wf_kindb_sound o : wf_kindb o = true -> wf_kind o.
Proof.
  unfold wf_kindb, wf_kind. destruct (kind o); intros H;
    try (apply nil_b_nil; exact H); try exact I.
  - apply andb_true_iff in H. destruct H as [H1 H2]. split; [apply list_eqb_N; exact H1 | apply memb_In; exact H2].
  - apply andb_true_iff in H. destruct H as [H1 H2]. split; [apply nil_b_nil; exact H1 | apply memb_In; exact H2].
Qed.

Lemma wf_opb_sound asg ops : forallb (wf_opb asg) ops = true -> wf_alloc ops asg.
Proof.
  intros H i o Hn. rewrite forallb_forall in H. pose proof (H o (nth_error_In _ _ Hn)) as Ho.
  unfold wf_opb in Ho. apply andb_true_iff in Ho. destruct Ho as [Hk Ho].
  apply andb_true_iff in Ho. destruct Ho as [Hr Hc]. rewrite forallb_forall in Hr, Hc.
  split; [apply wf_kindb_sound; exact Hk|]. split; [|split].
  - intros r Hin. pose proof (Hr r Hin) as X. apply andb_true_iff in X. destruct X as [X _].
    apply negb_true_iff in X. exact X.
  - intros r Hin Hv. pose proof (Hr r Hin) as X. apply andb_true_iff in X. destruct X as [_ X].
    rewrite Hv in X. cbn in X. exact X.
  - exact Hc.
Qed.

(* ---- interference ---- *)
Lemma distinct_on_sound f l : distinct_on f l = true ->
  forall d1 d2, In d1 l -> In d2 l -> d1 <> d2 -> f d1 <> f d2.
Proof.
  induction l as [|d l IH]; intros H d1 d2 H1 H2 Hne; [destruct H1|].
  cbn in H. apply andb_true_iff in H. destruct H as [Hh Ht]. rewrite forallb_forall in Hh.
  destruct H1 as [<-|H1], H2 as [<-|H2].
  - congruence.
  - pose proof (Hh d2 H2) as X. apply orb_true_iff in X. destruct X as [X|X].
    + apply N.eqb_eq in X. congruence.
    + apply negb_true_iff in X. apply N.eqb_neq in X. exact X.
  - pose proof (Hh d1 H1) as X. apply orb_true_iff in X. destruct X as [X|X].
    + apply N.eqb_eq in X. congruence.
    + apply negb_true_iff in X. apply N.eqb_neq in X. intros E. apply X. symmetry. exact E.
  - apply IH; assumption.
Qed.

Lemma for_all_in (p : positive -> bool) s k : PS.for_all p s = true -> PS.In k s -> p k = true.
Proof.
  intros H Hk. apply PS.for_all_spec in H.
  - apply H. exact Hk.
  - intros x y ->. reflexivity.
Qed.

Theorem check_alloc_with_sound L ops asg :
  check_alloc_with L ops asg = true -> wf_alloc ops asg /\ valid_alloc ops asg.
Proof.
  unfold check_alloc_with. intros H.
  apply andb_true_iff in H. destruct H as [Hp H]. apply andb_true_iff in H. destruct H as [Hw Hi].
  split; [apply wf_opb_sound; exact Hw|].
  rewrite forallb_forall in Hi.
  split.
  - intros i o d v Hn Hd Hvd Hvv Hlo Hne Hmv.
    pose proof (Hi _ (items_of_in _ _ _ Hn)) as Hc. unfold check_item in Hc.
    apply andb_true_iff in Hc. destruct Hc as [Hc _]. rewrite forallb_forall in Hc.
    assert (Hdf : In d (filter is_virt (defs o))) by (apply filter_In; split; assumption).
    pose proof (for_all_in _ _ _ (Hc d Hdf) (live_out_in_out _ _ _ _ Hp Hlo)) as X.
    cbn beta zeta in X. rewrite key_reg_rkey in X. rewrite Hvv in X. cbn [negb orb] in X.
    apply orb_true_iff in X. destruct X as [X|X]; [apply N.eqb_eq in X; congruence|].
    apply orb_true_iff in X. destruct X as [X|X].
    + exfalso. unfold move_exempt in X. destruct (kind o) as [d' s'| | | | | | | |] eqn:Hk; try discriminate.
      apply andb_true_iff in X. destruct X as [X1 X2]. apply N.eqb_eq in X1, X2. subst.
      apply (Hmv v); reflexivity.
    + apply negb_true_iff in X. apply N.eqb_neq in X. exact X.
  - intros i o d1 d2 Hn H1 H2 Hv1 Hv2 Hne.
    pose proof (Hi _ (items_of_in _ _ _ Hn)) as Hc. unfold check_item in Hc.
    apply andb_true_iff in Hc. destruct Hc as [_ Hc].
    eapply distinct_on_sound; try eassumption; apply filter_In; split; assumption.
Qed.

Theorem check_alloc_sound ops a :
  check_alloc ops a = true -> wf_alloc ops (asg_of a) /\ valid_alloc ops (asg_of a).
Proof.
  unfold check_alloc. destruct (liveness defs FUEL ops) as [L|]; [|discriminate].
  apply check_alloc_with_sound.
Qed.

Theorem entry_clean_with_sound L ops : entry_clean_with L ops = true ->
  forall v, is_virt v = true -> ~ live_in ops 0 v.
Proof.
  unfold entry_clean_with. intros H v Hv Hl. apply andb_true_iff in H. destruct H as [Hp Hf].
  pose proof (for_all_in _ _ _ Hf (postfix_sound _ _ _ Hp _ _ Hl)) as X.
  cbn beta in X. rewrite key_reg_rkey, Hv in X. discriminate.
Qed.

Theorem entry_clean_sound ops : entry_clean ops = true ->
  forall v, is_virt v = true -> ~ live_in ops 0 v.
Proof.
  unfold entry_clean. destruct (liveness defs FUEL ops) as [L|]; [|discriminate].
  apply entry_clean_with_sound.
Qed.

(* ---- allocated program = renamed input minus MOVE r r ---- *)
Lemma operand_eqb_eq a b : operand_eqb a b = true -> a = b.
Proof. destruct a, b; cbn; intros H; try discriminate; apply N.eqb_eq in H; subst; reflexivity. Qed.

Lemma list_eqb_eq {A} (e : A -> A -> bool) (He : forall x y, e x y = true -> x = y) :
  forall a b, list_eqb e a b = true -> a = b.
Proof.
  induction a as [|x a IH]; intros [|y b] H; cbn in H; try discriminate; [reflexivity|].
  apply andb_true_iff in H. destruct H as [H1 H2]. rewrite (He _ _ H1), (IH _ H2). reflexivity.
Qed.

Lemma kind_eqb_eq a b : kind_eqb a b = true -> a = b.
Proof.
  destruct a, b; cbn; intros H; try discriminate; try reflexivity;
    repeat match goal with
    | H : andb _ _ = true |- _ => apply andb_true_iff in H; destruct H
    | H : N.eqb _ _ = true |- _ => apply N.eqb_eq in H; subst
    end; try reflexivity.
  f_equal. apply (list_eqb_eq operand_eqb operand_eqb_eq). assumption.
Qed.

Lemma match_alloc_sound f : forall input alloc keep, match_alloc f input alloc = Some keep ->
  length keep = length input /\
  map kind (select keep (rename f input)) = alloc /\
  (forall i o, nth_error keep i = Some false -> nth_error (rename f input) i = Some o ->
     is_self_move o = true).
Proof.
  induction input as [|o t IH]; intros alloc keep H.
  - cbn in H. destruct alloc; [|discriminate]. injection H as <-.
    split; [reflexivity|]. split; [reflexivity|]. intros i o Hk. destruct i; discriminate.
  - cbn [match_alloc] in H.
    assert (Hskip : forall ks, match_alloc f t alloc = Some ks -> is_self_move (rename_op f o) = true ->
              length (false :: ks) = length (o :: t) /\
              map kind (select (false :: ks) (rename f (o :: t))) = alloc /\
              (forall i o', nth_error (false :: ks) i = Some false ->
                 nth_error (rename f (o :: t)) i = Some o' -> is_self_move o' = true)).
    { intros ks Hm Hs. destruct (IH _ _ Hm) as (Hl & Hmap & Hd).
      split; [cbn; rewrite Hl; reflexivity|]. split; [exact Hmap|].
      intros i o' Hk Hn. destruct i as [|i]; cbn in Hk, Hn.
      - injection Hn as <-. exact Hs.
      - eapply Hd; eassumption. }
    destruct alloc as [|k' t'].
    + destruct (is_self_move (rename_op f o)) eqn:Hs; [|discriminate].
      destruct (match_alloc f t []) as [ks|] eqn:Hm; [|discriminate]. injection H as <-.
      apply Hskip; reflexivity.
    + destruct (kind_eqb (rename_kind f (kind o)) k') eqn:Hk.
      * destruct (match_alloc f t t') as [ks|] eqn:Hm; [|discriminate]. injection H as <-.
        destruct (IH _ _ Hm) as (Hl & Hmap & Hd). apply kind_eqb_eq in Hk.
        split; [cbn; rewrite Hl; reflexivity|]. split.
        -- cbn [rename map select]. cbn [map]. fold (rename f t). rewrite Hmap, <- Hk. reflexivity.
        -- intros i o' Hki Hn. destruct i as [|i]; cbn in Hki, Hn; [discriminate|]. eapply Hd; eassumption.
      * destruct (is_self_move (rename_op f o)) eqn:Hs; [|discriminate].
        destruct (match_alloc f t (k' :: t')) as [ks|] eqn:Hm; [|discriminate]. injection H as <-.
        apply Hskip; reflexivity.
Qed.

(* ---- dropped MOVE r r: the hypotheses of Asm/Erase.v ---- *)

Lemma flagK_not_call_in : forall c, In c call_in_regs -> ~ flagK c.
Proof.
  assert (H : forallb (fun c => negb (orb (N.eqb c R_OF) (N.eqb c R_ERR))) call_in_regs = true)
    by (vm_compute; reflexivity).
  rewrite forallb_forall in H. intros c Hc [E|E]; specialize (H c Hc); subst c; discriminate.
Qed.

Lemma wf_c_opb_sound o : wf_c_opb o = true -> wf_c_op o.
Proof.
  unfold wf_c_opb, wf_c_op. destruct (kind o); intros H;
    repeat match goal with
    | H : andb _ _ = true |- _ => apply andb_true_iff in H; destruct H
    end;
    repeat match goal with
    | H : nil_b _ = true |- _ => apply nil_b_nil in H
    | H : memb _ _ = true |- _ => apply memb_In in H
    | H : list_eqb N.eqb _ _ = true |- _ => apply list_eqb_N in H
    end; auto.
Qed.

Lemma items_aux_nth ops : forall l b k,
  nth_error (items_aux ops b l) k =
  option_map (fun o => ((b + k)%nat, o, succs_of ops (b + k) o)) (nth_error l k).
Proof.
  induction l as [|a l IH]; intros b k.
  - destruct k; reflexivity.
  - destruct k as [|k]; cbn.
    + rewrite Nat.add_0_r. reflexivity.
    + rewrite IH. rewrite <- Nat.add_succ_comm. reflexivity.
Qed.

Lemma drop_ok_sound Lc : forall keep items, drop_ok Lc keep items = true ->
  length keep = length items /\
  forall i it, nth_error keep i = Some false -> nth_error items i = Some it -> item_drop_ok Lc it = true.
Proof.
  induction keep as [|k ks IH]; intros [|it t] H; cbn in H; try discriminate.
  - split; [reflexivity|]. intros i it Hk. destruct i; discriminate.
  - apply andb_true_iff in H. destruct H as [H1 H2]. destruct (IH _ H2) as [Hl Hd].
    split; [cbn; rewrite Hl; reflexivity|].
    intros i it' Hk Hn. destruct i as [|i]; cbn in Hk, Hn.
    + injection Hk as ->. injection Hn as <-. exact H1.
    + eapply Hd; eassumption.
Qed.

Lemma items_aux_length ops : forall l b, length (items_aux ops b l) = length l.
Proof. induction l as [|a l IH]; intros b; cbn; [reflexivity|]. rewrite IH. reflexivity. Qed.

Theorem dropped_flags_dead_with_sound Lc ren keep : dropped_flags_dead_with Lc ren keep = true ->
  length keep = length ren /\ wf_c ren /\
  (forall i o, nth_error keep i = Some false -> nth_error ren i = Some o ->
     droppable o = true /\ forall c, In c (cdefs o) -> flagK c /\ ~ live_out_c ren i c).
Proof.
  unfold dropped_flags_dead_with. intros H.
  apply andb_true_iff in H. destruct H as [Hp H]. apply andb_true_iff in H. destruct H as [Hw Hd].
  destruct (drop_ok_sound _ _ _ Hd) as [Hl Hdi].
  split; [rewrite Hl; unfold items_of; apply items_aux_length|].
  split.
  - intros i o Hn. apply wf_c_opb_sound. rewrite forallb_forall in Hw. apply Hw. eapply nth_error_In; eassumption.
  - intros i o Hk Hn.
    assert (Hit : nth_error (items_of ren) i = Some (i, o, succs ren i)).
    { unfold items_of. rewrite items_aux_nth, Hn. cbn. rewrite (succs_nth _ _ _ Hn). reflexivity. }
    pose proof (Hdi _ _ Hk Hit) as Hok. unfold item_drop_ok in Hok.
    apply andb_true_iff in Hok. destruct Hok as [Hdr Hc]. split; [exact Hdr|].
    rewrite forallb_forall in Hc. intros c Hin. specialize (Hc c Hin).
    apply andb_true_iff in Hc. destruct Hc as [Hf Hm]. split.
    + apply orb_true_iff in Hf. destruct Hf as [E|E]; apply N.eqb_eq in E; [left|right]; exact E.
    + intros (j & Hj & Hlive). apply negb_true_iff in Hm.
      assert (X : PS.In (rkey c) (out_of Lc (succs ren i))).
      { eapply out_of_in; [exact Hj|]. eapply postfix_sound; eassumption. }
      apply PS.mem_spec in X. congruence.
Qed.

(* ---- spill slots ---- *)
Lemma index_of_lt r : forall l k n, index_of r l k = Some n -> k <= n /\ n < k + N.of_nat (length l).
Proof.
  induction l as [|x l IH]; intros k n H; cbn in H; [discriminate|].
  destruct (N.eqb x r).
  - injection H as <-. cbn [length]. lia.
  - apply IH in H. cbn [length]. lia.
Qed.

Lemma index_of_inj : forall l k r1 r2 n, index_of r1 l k = Some n -> index_of r2 l k = Some n -> r1 = r2.
Proof.
  induction l as [|x l IH]; intros k r1 r2 n H1 H2; cbn in H1, H2; [discriminate|].
  destruct (N.eqb_spec x r1) as [E1|E1], (N.eqb_spec x r2) as [E2|E2].
  - congruence.
  - injection H1 as <-. apply index_of_lt in H2. lia.
  - injection H2 as <-. apply index_of_lt in H1. lia.
  - eapply IH; eassumption.
Qed.

(* distinct spilled registers get distinct 8-byte slots, all beyond the locals and inside the
   enlarged frame *)
Theorem spill_offsets_distinct spills locals r1 r2 o1 o2 :
  spill_offset spills locals r1 = Some o1 -> spill_offset spills locals r2 = Some o2 ->
  (r1 <> r2 -> o1 + 8 <= o2 \/ o2 + 8 <= o1) /\
  locals <= o1 /\ o1 + 8 <= locals + 8 * N.of_nat (length spills).
Proof.
  unfold spill_offset. intros H1 H2.
  destruct (index_of r1 spills 0) as [k1|] eqn:E1; [|discriminate].
  destruct (index_of r2 spills 0) as [k2|] eqn:E2; [|discriminate].
  unfold option_map in H1, H2.
  assert (Ho1 : o1 = locals + 8 * k1) by congruence.
  assert (Ho2 : o2 = locals + 8 * k2) by congruence. clear H1 H2. subst o1 o2.
  pose proof (index_of_lt _ _ _ _ E1) as B1. split; [|lia].
  intros Hne. assert (k1 <> k2).
  { intros ->. apply Hne. eapply index_of_inj; eassumption. }
  lia.
Qed.
