(* C08 — executable models and checkers.  NO proofs here.
   * liveness by fixpoint iteration + post-fixpoint test (any post-fixpoint will do);
   * check_alloc: the decidable form of Spec.wf_alloc /\ Spec.valid_alloc;
   * match_alloc: the allocated program is the renamed input with only MOVE r r dropped;
   * spill: model of register_allocator.rs::spill + spill_offsets. *)
From Coq Require Import MSets.MSetPositive FSets.FMapPositive.
From SwayV Require Import Base.Util Asm.Model C08.Spec.
Local Open Scope N_scope.

Module PS := PositiveSet.
Module PM := PositiveMap.

Definition rkey (r : reg) : positive := N.succ_pos r.
Definition key_reg (k : positive) : reg := Pos.pred_N k.
Definition ikey (i : nat) : positive := Pos.of_succ_nat i.

Definition set_of (l : list reg) : PS.t := fold_right (fun r s => PS.add (rkey r) s) PS.empty l.

Definition ltab := PM.t PS.t.
Definition lget (L : ltab) (i : nat) : PS.t :=
  match PM.find (ikey i) L with Some s => s | None => PS.empty end.

(* (index, op, successors) for every instruction *)
Definition item := (nat * op * list nat)%type.
Fixpoint items_aux (ops : list op) (i : nat) (l : list op) : list item :=
  match l with
  | [] => []
  | o :: t => (i, o, succs_of ops i o) :: items_aux ops (S i) t
  end.
Definition items_of (ops : list op) : list item := items_aux ops 0 ops.

Definition out_of (L : ltab) (ss : list nat) : PS.t :=
  fold_right (fun s acc => PS.union (lget L s) acc) PS.empty ss.

Definition transfer (kill : op -> list reg) (o : op) (out : PS.t) : PS.t :=
  PS.union (set_of (uses o)) (PS.diff out (set_of (kill o))).

(* one backward sweep over the (reversed) item list *)
Fixpoint sweep (kill : op -> list reg) (ritems : list item) (L : ltab) : ltab :=
  match ritems with
  | [] => L
  | (i, o, ss) :: t =>
      sweep kill t (PM.add (ikey i) (PS.union (transfer kill o (out_of L ss)) (lget L i)) L)
  end.

Definition is_postfix (kill : op -> list reg) (items : list item) (L : ltab) : bool :=
  forallb (fun it => match it with (i, o, ss) =>
             PS.subset (transfer kill o (out_of L ss)) (lget L i) end) items.

Fixpoint iterate (kill : op -> list reg) (fuel : nat) (items ritems : list item) (L : ltab) : option ltab :=
  match fuel with
  | O => None
  | S f => let L' := sweep kill ritems L in
           if is_postfix kill items L' then Some L' else iterate kill f items ritems L'
  end.

Definition liveness (kill : op -> list reg) (fuel : nat) (ops : list op) : option ltab :=
  let items := items_of ops in iterate kill fuel items (rev items) (PM.empty PS.t).

(* ---- the assignment ---- *)
Definition amap := PM.t reg.
Fixpoint amap_of (l : list (reg * reg)) : amap :=
  match l with [] => PM.empty reg | (v, m) :: t => PM.add (rkey v) m (amap_of t) end.
(* unassigned virtual registers map to 0, a constant register: rejected by the checker *)
Definition asg_of (a : amap) : reg -> reg :=
  fun r => match PM.find (rkey r) a with Some m => m | None => 0 end.

(* ---- well-formedness ---- *)
Definition nil_b {A} (l : list A) : bool := match l with [] => true | _ => false end.
Definition memb (r : reg) (l : list reg) : bool := existsb (N.eqb r) l.

Definition wf_kindb (o : op) : bool :=
  match kind o with
  | KMove d s => andb (list_eqb N.eqb (defs o) [d]) (memb s (uses o))
  | KJnz _ c => andb (nil_b (defs o)) (memb c (uses o))
  | KOther _ _ => true
  | _ => nil_b (defs o)
  end.

Definition wf_opb (asg : reg -> reg) (o : op) : bool :=
  andb (wf_kindb o)
  (andb (forallb (fun r => andb (negb (is_mach r)) (orb (negb (is_virt r)) (is_mach (asg r))))
                 (uses o ++ defs o))
        (forallb is_const (cdefs o))).

(* ---- interference ---- *)
Definition move_exempt (o : op) (d v : reg) : bool :=
  match kind o with KMove d' s' => andb (N.eqb d' d) (N.eqb s' v) | _ => false end.

Fixpoint distinct_on (f : reg -> reg) (l : list reg) : bool :=
  match l with
  | [] => true
  | d :: t => andb (forallb (fun d' => orb (N.eqb d d') (negb (N.eqb (f d) (f d')))) t) (distinct_on f t)
  end.

Definition check_item (asg : reg -> reg) (L : ltab) (it : item) : bool :=
  match it with (i, o, ss) =>
    let out := out_of L ss in
    let vdefs := filter is_virt (defs o) in
    andb (forallb (fun d =>
            PS.for_all (fun k => let v := key_reg k in
                          orb (negb (is_virt v)) (orb (N.eqb v d)
                          (orb (move_exempt o d v) (negb (N.eqb (asg d) (asg v)))))) out) vdefs)
         (distinct_on asg vdefs)
  end.

Definition check_alloc_with (L : ltab) (ops : list op) (asg : reg -> reg) : bool :=
  let items := items_of ops in
  andb (is_postfix defs items L)
  (andb (forallb (wf_opb asg) ops) (forallb (check_item asg L) items)).

Definition FUEL : nat := 200.

Definition check_alloc (ops : list op) (a : amap) : bool :=
  match liveness defs FUEL ops with
  | Some L => check_alloc_with L ops (asg_of a)
  | None => false
  end.

(* no virtual register is read before being written *)
Definition entry_clean_with (L : ltab) (ops : list op) : bool :=
  andb (is_postfix defs (items_of ops) L)
       (PS.for_all (fun k => negb (is_virt (key_reg k))) (lget L 0)).
Definition entry_clean (ops : list op) : bool :=
  match liveness defs FUEL ops with Some L => entry_clean_with L ops | None => false end.

(* ---- allocated = renamed input with MOVE r r dropped ---- *)
(* returns the keep mask of the input, or None if the lists do not correspond *)
Fixpoint match_alloc (f : reg -> reg) (input : list op) (alloc : list opkind) : option (list bool) :=
  match input with
  | [] => match alloc with [] => Some [] | _ => None end
  | o :: t =>
      let k := rename_kind f (kind o) in
      match alloc with
      | k' :: t' =>
          if kind_eqb k k' then option_map (cons true) (match_alloc f t t')
          else if is_self_move (rename_op f o) then option_map (cons false) (match_alloc f t alloc)
          else None
      | [] => if is_self_move (rename_op f o) then option_map (cons false) (match_alloc f t alloc) else None
      end
  end.

(* every dropped MOVE r r clears only $of/$err, and only where they are dead afterwards
   (liveness with defs ++ cdefs as kill set, on the renamed program) *)
Definition wf_c_opb (o : op) : bool :=
  match kind o with
  | KMove d s => andb (list_eqb N.eqb (defs o) [d]) (memb s (uses o))
  | KNoop => nil_b (defs o)
  | KOther _ _ => true
  | KJnz _ c => andb (nil_b (defs o)) (andb (nil_b (cdefs o)) (memb c (uses o)))
  | _ => andb (nil_b (defs o)) (nil_b (cdefs o))
  end.

Definition item_drop_ok (Lc : ltab) (it : item) : bool :=
  match it with (i, o, ss) =>
    andb (droppable o)
         (forallb (fun c => andb (orb (N.eqb c R_OF) (N.eqb c R_ERR))
                                 (negb (PS.mem (rkey c) (out_of Lc ss)))) (cdefs o))
  end.

Fixpoint drop_ok (Lc : ltab) (keep : list bool) (items : list item) : bool :=
  match keep, items with
  | [], [] => true
  | k :: ks, it :: t => andb (orb k (item_drop_ok Lc it)) (drop_ok Lc ks t)
  | _, _ => false
  end.

Definition dropped_flags_dead_with (Lc : ltab) (ren : list op) (keep : list bool) : bool :=
  let items := items_of ren in
  andb (is_postfix defs_c items Lc) (andb (forallb wf_c_opb ren) (drop_ok Lc keep items)).
Definition dropped_flags_dead (ren : list op) (keep : list bool) : bool :=
  match liveness defs_c FUEL ren with
  | Some Lc => dropped_flags_dead_with Lc ren keep
  | None => false
  end.

(* ---- spilling (register_allocator.rs: spill, spill_offsets) ---- *)
Definition round8 (n : N) : N := ((n + 7) / 8) * 8.

Fixpoint index_of (r : reg) (l : list reg) (k : N) : option N :=
  match l with [] => None | x :: t => if N.eqb x r then Some k else index_of r t (k + 1) end.

(* spills are given in the allocator's sorted order; slot k is at locals + 8k *)
Definition spill_offset (spills : list reg) (locals : N) (r : reg) : option N :=
  option_map (fun k => locals + 8 * k) (index_of r spills 0).

Definition lw_op (r : reg) (wordoff : N) : op :=
  mkOp [R_LOCBASE] [r] [] false (KOther OPC_LW [OReg r; OReg R_LOCBASE; OImm wordoff]).
Definition sw_op (r : reg) (wordoff : N) : op :=
  mkOp [r; R_LOCBASE] [] [] true (KOther OPC_SW [OReg R_LOCBASE; OReg r; OImm wordoff]).

Definition cfei_imm (o : op) : option N :=
  match kind o with KOther opc [OImm n] => if N.eqb opc OPC_CFEI then Some n else None | _ => None end.
Definition cfsi_imm (o : op) : option N :=
  match kind o with KOther opc [OImm n] => if N.eqb opc OPC_CFSI then Some n else None | _ => None end.
Definition set_imm (o : op) (n : N) : op :=
  match kind o with
  | KOther opc _ => mkOp (uses o) (defs o) (cdefs o) (se o) (KOther opc [OImm n])
  | _ => o
  end.

Inductive spill_res := SpillOk (ops : list op) | SpillPanic (site : N) | SpillUnsupported.

Definition find_cfei (ops : list op) : list N := flat_map (fun o => opt_to_list (cfei_imm o)) ops.
Definition find_cfsi (ops : list op) : list N := flat_map (fun o => opt_to_list (cfsi_imm o)) ops.

Definition spill_one (spills : list reg) (locals newsize : N) (o : op) : option (list op) :=
  match cfei_imm o, cfsi_imm o with
  | Some _, _ => Some [set_imm o newsize]
  | _, Some _ => Some [set_imm o newsize]
  | None, None =>
      let reloads := flat_map (fun u => match spill_offset spills locals u with
                                        | Some off => [lw_op u (off / 8)] | None => [] end) (uses o) in
      let stores := flat_map (fun d => match spill_offset spills locals d with
                                       | Some off => [sw_op d (off / 8)] | None => [] end) (defs o) in
      Some (reloads ++ [o] ++ stores)
  end.

Definition spill (ops : list op) (spills : list reg) : spill_res :=
  match find_cfei ops with
  | [] => SpillPanic 1          (* "Function does not have CFEI instruction for locals" *)
  | _ :: _ :: _ => SpillPanic 2 (* "Found more than one stack extension" *)
  | [imm] =>
    match find_cfsi ops with
    | _ :: _ :: _ => SpillPanic 3
    | _ =>
      let locals := round8 imm in
      let newsize := locals + 8 * N.of_nat (length spills) in
      if N.ltb 16777215 newsize then SpillPanic 4 (* "Enormous stack usage for locals." *)
      else if N.ltb 4095 (newsize / 8) then SpillUnsupported (* long-offset sequences not modelled *)
      else SpillOk (flat_map (fun o => match spill_one spills locals newsize o with
                                       | Some l => l | None => [] end) ops)
    end
  end.
