(* C08 — spill slots read back from the REAL output of spill(), and the search for two
   simultaneously live spilled registers that share a slot.  NO proofs here.

   [align] walks the allocator's input and the real output of register_allocator.rs::spill in
   step: every input op must reappear preceded by one LW per spilled use and followed by one SW
   per spilled def (the shape of the Rust loop), the frame ops (CFEI/CFSI) keep their opcode.
   The word offsets of those LW/SW are collected — whatever slot policy produced them.
   [slot_conflict] then looks, with the liveness computed on the input, for an instruction that
   defines a spilled register d while a different spilled register v with the same slot is live
   after it (the MOVE source is exempt as in Spec.valid_alloc).  SlotProofs.v shows that such a
   result is a real counterexample: v IS live there (least solution), both slots are equal. *)
From Coq Require Import MSets.MSetPositive FSets.FMapPositive.
From SwayV Require Import Base.Util Asm.Model C08.Spec C08.Model.
Local Open Scope N_scope.

Definition slot_ev := (reg * N)%type.

(* n ops of [after] that are exactly lw_op u w for the given registers, in order *)
Fixpoint take_lw (rs : list reg) (after : list op) : option (list slot_ev * list op) :=
  match rs with
  | [] => Some ([], after)
  | u :: t =>
      match after with
      | a :: rest =>
          match kind a with
          | KOther opc [OReg r; OReg b; OImm w] =>
              if andb (op_eqb a (lw_op u w)) (andb (N.eqb r u) (N.eqb b R_LOCBASE)) then
                match take_lw t rest with
                | Some (evs, rest') => Some ((u, w) :: evs, rest')
                | None => None
                end
              else None
          | _ => None
          end
      | [] => None
      end
  end.

Fixpoint take_sw (rs : list reg) (after : list op) : option (list slot_ev * list op) :=
  match rs with
  | [] => Some ([], after)
  | d :: t =>
      match after with
      | a :: rest =>
          match kind a with
          | KOther opc [OReg b; OReg r; OImm w] =>
              if andb (op_eqb a (sw_op d w)) (andb (N.eqb r d) (N.eqb b R_LOCBASE)) then
                match take_sw t rest with
                | Some (evs, rest') => Some ((d, w) :: evs, rest')
                | None => None
                end
              else None
          | _ => None
          end
      | [] => None
      end
  end.

Definition is_frame_op (o : op) : bool :=
  match cfei_imm o, cfsi_imm o with None, None => false | _, _ => true end.

Definition same_opcode (a b : op) : bool :=
  match kind a, kind b with
  | KOther x [OImm _], KOther y [OImm _] => N.eqb x y
  | _, _ => false
  end.

Fixpoint align (spills : list reg) (before after : list op) : option (list slot_ev) :=
  match before with
  | [] => match after with [] => Some [] | _ => None end
  | o :: t =>
      if is_frame_op o then
        match after with
        | a :: rest => if same_opcode o a then align spills t rest else None
        | [] => None
        end
      else
        match take_lw (filter (fun u => memb u spills) (uses o)) after with
        | Some (e1, a :: rest) =>
            if op_eqb a o then
              match take_sw (filter (fun d => memb d spills) (defs o)) rest with
              | Some (e2, rest') =>
                  match align spills t rest' with
                  | Some e3 => Some (e1 ++ e2 ++ e3)
                  | None => None
                  end
              | None => None
              end
            else None
        | _ => None
        end
  end.

(* one slot per register, or None when a register is seen at two different offsets *)
Fixpoint build_slots (evs : list slot_ev) (m : PM.t N) : option (PM.t N) :=
  match evs with
  | [] => Some m
  | (r, w) :: t =>
      match PM.find (rkey r) m with
      | Some w' => if N.eqb w w' then build_slots t m else None
      | None => build_slots t (PM.add (rkey r) w m)
      end
  end.

Definition slot_in (m : PM.t N) (r : reg) : option N := PM.find (rkey r) m.

Fixpoint find_some {A B} (f : A -> option B) (l : list A) : option B :=
  match l with
  | [] => None
  | x :: t => match f x with Some b => Some b | None => find_some f t end
  end.

Definition conflict_item (m : PM.t N) (L : ltab) (it : item) : option (nat * reg * reg) :=
  match it with (i, o, ss) =>
    let out := PS.elements (out_of L ss) in
    find_some (fun d =>
      match slot_in m d with
      | None => None
      | Some sd =>
          find_some (fun k => let v := key_reg k in
            if andb (negb (N.eqb v d)) (negb (move_exempt o d v)) then
              match slot_in m v with
              | Some sv => if N.eqb sd sv then Some (i, d, v) else None
              | None => None
              end
            else None) out
      end) (defs o)
  end.

Definition slot_conflict (m : PM.t N) (L : ltab) (ops : list op) : option (nat * reg * reg) :=
  find_some (conflict_item m L) (items_of ops).

(* Result codes of the slot judgement (first element of the list):
   20 [i; d; v]  VIOLATION with a failing input: instruction i defines spilled d while spilled v,
                 which has the same slot, is live after it
   21 [k]        the real output is not "input + LW before uses + SW after defs" (k = 0), or a
                 register is spilled to two different slots (k = 1): no slot table can be read
   22 []         slots read back; no two simultaneously live spilled registers share one
   7  []         liveness ran out of fuel *)
Definition judge_slots (before : list op) (spills : list reg) (after : list op) : list N :=
  match align spills before after with
  | None => [21; 0]
  | Some evs =>
      match build_slots evs (PM.empty N) with
      | None => [21; 1]
      | Some m =>
          match liveness defs FUEL before with
          | None => [7]
          | Some L =>
              match slot_conflict m L before with
              | Some (i, d, v) => [20; N.of_nat i; d; v]
              | None => [22]
              end
          end
      end
  end.
