(* C08 — property theorems only. *)
From SwayV Require Import Base.Util Asm.Model Asm.Erase C08.Spec C08.Model C08.Sim C08.Check C08.StageModel C08.Stages C08.SlotModel C08.SlotProofs.
Local Open Scope N_scope.

(* A valid allocation makes the renamed program simulate the virtual-register program in
   lock step, for EVERY instruction semantics consistent with the use/def table (the only
   constraint: RVRT stops, as its empty successor list says): same pc, same memory, same
   constant registers, every live virtual register's value in its machine register; both stop
   at the same step. *)
Theorem C08_valid_alloc_simulates : forall ops asg, wf_alloc ops asg -> valid_alloc ops asg ->
  forall (M : Type) sem call_sem, rvrt_stops M sem ->
  forall st st', match_states ops asg st st' ->
  forall n, match_results ops asg (run M sem call_sem ops n st)
                                  (run M sem call_sem (rename (phi_of asg) ops) n st').
Proof. intros ops asg Hwf Hva M sem cs Hrv st st' Hm n. eapply run_sim; eassumption. Qed.
Print Assumptions C08_valid_alloc_simulates.

(* The checker (own liveness by fixpoint iteration with fuel, accepted only if it is a
   post-fixpoint) is sound. *)
Theorem C08_check_alloc_sound : forall ops a,
  check_alloc ops a = true -> wf_alloc ops (asg_of a) /\ valid_alloc ops (asg_of a).
Proof. exact check_alloc_sound. Qed.
Print Assumptions C08_check_alloc_sound.

(* Any post-fixpoint of the dataflow inequations contains the least solution. *)
Theorem C08_postfix_contains_least : forall kill ops L, is_postfix kill (items_of ops) L = true ->
  forall i r, live_gen kill ops i r -> PS.In (rkey r) (lget L i).
Proof. exact postfix_sound. Qed.
Print Assumptions C08_postfix_contains_least.

(* Entry: when the checker finds no virtual register live at instruction 0, every pair of
   initial states with equal memory and constant registers is related. *)
Theorem C08_entry_states_match : forall ops asg, entry_clean ops = true ->
  forall (M : Type) (m : M) rf rf', (forall c, is_const c = true -> rf' c = rf c) ->
  match_states ops asg (mkSt 0 rf m) (mkSt 0 rf' m).
Proof.
  intros ops asg H M m rf rf' Hc. apply initial_states_match; [|exact Hc].
  apply entry_clean_sound. exact H.
Qed.
Print Assumptions C08_entry_states_match.

(* The walk over both lists: the allocated program is the renamed input with only MOVE r r
   instructions missing. *)
Theorem C08_match_alloc_sound : forall f input alloc keep, match_alloc f input alloc = Some keep ->
  length keep = length input /\
  map kind (select keep (rename f input)) = alloc /\
  (forall i o, nth_error keep i = Some false -> nth_error (rename f input) i = Some o ->
     is_self_move o = true).
Proof. exact match_alloc_sound. Qed.
Print Assumptions C08_match_alloc_sound.

(* Dropping those MOVE r r (they still clear $of/$err) preserves behaviour when the checker
   finds the cleared flags dead: stuttering simulation in both directions; related states have
   equal memory and agree on every register except a dead $of/$err. *)
Theorem C08_dropped_moves_preserve : forall Lc ren keep,
  dropped_flags_dead_with Lc ren keep = true ->
  forall (M : Type) sem call_sem, rvrt_stops M sem ->
  forall st st', R M ren keep flagK st st' ->
  (forall n, exists m, (m <= n)%nat /\
     Rres M ren keep flagK (run M sem call_sem ren n st) (run M sem call_sem (select keep ren) m st')) /\
  (forall m, exists n,
     Rres M ren keep flagK (run M sem call_sem ren n st) (run M sem call_sem (select keep ren) m st')).
Proof.
  intros Lc ren keep H M sem cs Hrv st st' HR.
  destruct (dropped_flags_dead_with_sound _ _ _ H) as (Hl & Hw & Hd).
  assert (Hd' : forall i o, nth_error keep i = Some false -> nth_error ren i = Some o ->
            (droppable o = true \/ skip_like M sem o) /\
            forall c, In c (cdefs o) -> flagK c /\ ~ live_out_c ren i c).
  { intros i o Hk Hn. destruct (Hd i o Hk Hn) as [Ha Hb]. split; [left; exact Ha | exact Hb]. }
  split; intros k.
  - eapply erase_fwd; eauto using flagK_not_call_in.
  - eapply erase_bwd; eauto using flagK_not_call_in.
Qed.
Print Assumptions C08_dropped_moves_preserve.

(* Spill slots: distinct registers get disjoint 8-byte slots beyond the locals, inside the
   frame enlarged by 8*|spills|. *)
Theorem C08_spill_offsets_distinct : forall spills locals r1 r2 o1 o2,
  spill_offset spills locals r1 = Some o1 -> spill_offset spills locals r2 = Some o2 ->
  (r1 <> r2 -> o1 + 8 <= o2 \/ o2 + 8 <= o1) /\
  locals <= o1 /\ o1 + 8 <= locals + 8 * N.of_nat (length spills).
Proof. exact spill_offsets_distinct. Qed.
Print Assumptions C08_spill_offsets_distinct.

(* Stage lemma (model of assign_registers, not tied to dumps): for ANY colouring stack the pool
   it returns never puts two neighbours (neighbors_undirected) into one machine register. *)
Theorem C08_assign_proper : forall adj, (forall a b, In a (adj b) -> In b (adj a)) -> (forall v, ~ In v (adj v)) ->
  forall stack k p', assign adj stack (init_pool k) = Some p' -> proper adj p'.
Proof. intros adj Hs Hi stack k p' H. eapply assign_proper; eauto. apply init_pool_proper. Qed.
Print Assumptions C08_assign_proper.

(* Stage lemma (model of create_interference_graph, not tied to dumps): every pair of registers
   valid_alloc requires to be apart is an edge (the MOVE source is exempt, as in the Rust code),
   for any liveness table that is a post-fixpoint. *)
Theorem C08_interference_complete : forall ops L, is_postfix defs (items_of ops) L = true ->
  (forall i o, nth_error ops i = Some o -> wf_kind o) ->
  forall i o d v, nth_error ops i = Some o -> In d (defs o) -> is_virt d = true -> is_virt v = true ->
    live_out ops i v -> v <> d -> (forall s, kind o = KMove d s -> v <> s) ->
    In (d, v) (interference_edges ops L).
Proof. exact interference_complete. Qed.
Print Assumptions C08_interference_complete.

(* Spill slots read back from the real output of spill(): a reported slot conflict is a genuine
   counterexample (the second register IS live after the defining instruction in the least
   solution of the liveness equations, and both registers have the same slot) ... *)
Theorem C08_slot_conflict_real : forall ops m L i d v,
  liveness defs FUEL ops = Some L -> slot_conflict m L ops = Some (i, d, v) ->
  exists o n, nth_error ops i = Some o /\ In d (defs o) /\ live_out ops i v /\ v <> d /\
    (forall s, kind o = KMove d s -> v <> s) /\ slot_in m d = Some n /\ slot_in m v = Some n.
Proof. exact slot_conflict_real. Qed.
Print Assumptions C08_slot_conflict_real.

(* ... and when none is reported no two simultaneously live registers share a slot. *)
Theorem C08_slot_conflict_none_valid : forall ops m L,
  is_postfix defs (items_of ops) L = true -> slot_conflict m L ops = None ->
  forall i o d v n, nth_error ops i = Some o -> In d (defs o) -> live_out ops i v -> v <> d ->
    (forall s, kind o = KMove d s -> v <> s) -> slot_in m d = Some n -> slot_in m v <> Some n.
Proof. exact slot_conflict_none_valid. Qed.
Print Assumptions C08_slot_conflict_none_valid.

(* The table computed by fixpoint iteration from the empty table is inside the least solution
   (with C08_postfix_contains_least: it is the least solution). *)
Theorem C08_liveness_is_least : forall kill fuel ops L, liveness kill fuel ops = Some L ->
  forall i k, PS.In k (lget L i) -> live_gen kill ops i (key_reg k).
Proof. exact liveness_sound. Qed.
Print Assumptions C08_liveness_is_least.

Theorem C08_liveness_exact : forall kill fuel ops L, liveness kill fuel ops = Some L ->
  forall i r, PS.In (rkey r) (lget L i) <-> live_gen kill ops i r.
Proof. exact liveness_exact. Qed.
Print Assumptions C08_liveness_exact.

(* Non-vacuity: a loop with two simultaneously live registers; a correct 2-register assignment
   is accepted, merging the two live registers is rejected. *)
Definition ex_ops : list op :=
  [ mkOp [] [1000] [2;8] false (KOther 6 [OReg 1000; OImm 0]);          (* movi a 0 *)
    mkOp [] [1001] [2;8] false (KOther 6 [OReg 1001; OImm 5]);          (* movi b 5 *)
    mkOp [] [] [] true (KLabel 0);
    mkOp [1000;1] [1000] [2;8] false (KOther 7 [OReg 1000; OReg 1000; OReg 1]);   (* add a a one *)
    mkOp [1001;1000] [1002] [2;8] false (KOther 30 [OReg 1002; OReg 1001; OReg 1000]); (* gt c b a *)
    mkOp [1002] [] [] true (KJnz 0 1002);
    mkOp [1000] [1003] [2;8] false (KMove 1003 1000);
    mkOp [1003] [] [] true (KOther 1 [OReg 1003]) ].                     (* rvrt *)
Example C08_example_accept :
  check_alloc ex_ops (amap_of [(1000,100);(1001,101);(1002,102);(1003,100)]) = true /\ entry_clean ex_ops = true.
Proof. vm_compute. split; reflexivity. Qed.
Example C08_example_reject :
  check_alloc ex_ops (amap_of [(1000,100);(1001,100);(1002,102);(1003,100)]) = false.
Proof. vm_compute. reflexivity. Qed.
Example C08_example_match :
  match_alloc (phi_of (asg_of (amap_of [(1000,100);(1001,101);(1002,102);(1003,100)]))) ex_ops
    [KOther 6 [OReg 100; OImm 0]; KOther 6 [OReg 101; OImm 5]; KLabel 0;
     KOther 7 [OReg 100; OReg 100; OReg 1]; KOther 30 [OReg 102; OReg 101; OReg 100]; KJnz 0 102;
     KOther 1 [OReg 100]] = Some [true;true;true;true;true;true;false;true].
Proof. vm_compute. reflexivity. Qed.

(* Non-vacuity of the slot judgement: the model's own spilling of a function with two spilled,
   simultaneously live registers has no conflict; giving both registers slot 0 is refuted with
   the defining instruction and the two registers. *)
Definition ex_spill_before : list op :=
  [ mkOp [] [] [] true (KOther OPC_CFEI [OImm 0]);
    mkOp [] [1000] [2;8] false (KOther 6 [OReg 1000; OImm 0]);
    mkOp [] [1001] [2;8] false (KOther 6 [OReg 1001; OImm 5]);
    mkOp [1000;1001] [1002] [2;8] false (KOther 7 [OReg 1002; OReg 1000; OReg 1001]);
    mkOp [1002] [] [] true (KOther 1 [OReg 1002]) ].
Definition ex_spill_after : list op :=
  match spill ex_spill_before [1000;1001] with SpillOk l => l | _ => [] end.
Definition ex_share (o : op) : op :=
  match kind o with
  | KOther opc [OReg a; OReg b; OImm w] =>
      if orb (N.eqb opc OPC_LW) (N.eqb opc OPC_SW)
      then mkOp (uses o) (defs o) (cdefs o) (se o) (KOther opc [OReg a; OReg b; OImm 0]) else o
  | _ => o
  end.
Example C08_example_slots_ok : judge_slots ex_spill_before [1000;1001] ex_spill_after = [22].
Proof. vm_compute. reflexivity. Qed.
Example C08_example_slots_shared :
  judge_slots ex_spill_before [1000;1001] (map ex_share ex_spill_after) = [20; 2; 1001; 1000].
Proof. vm_compute. reflexivity. Qed.
