(* C08 — assign_registers yields a proper colouring for ANY stack (simplify order irrelevant). *)
From SwayV Require Import Base.Util Asm.Model C08.StageModel.
Local Open Scope N_scope.

Lemma memr_false r l : memr r l = false -> ~ In r l.
Proof.
  unfold memr. intros H Hin. assert (X : existsb (N.eqb r) l = true).
  { apply existsb_exists. exists r. split; [exact Hin | apply N.eqb_refl]. }
  congruence.
Qed.

Lemma place_proper adj v : (forall a b, In a (adj b) -> In b (adj a)) -> ~ In v (adj v) ->
  forall p p', proper adj p -> place (adj v) v p = Some p' -> proper adj p'.
Proof.
  intros Hsym Hirr. induction p as [|used rest IH]; intros p' Hp H; cbn in H; [discriminate|].
  destruct (forallb (fun u => negb (memr u (adj v))) used) eqn:Hf.
  - injection H as <-. rewrite forallb_forall in Hf.
    assert (Hfree : forall u, In u used -> ~ In u (adj v)).
    { intros u Hu. apply memr_false. apply negb_true_iff. apply Hf. exact Hu. }
    intros cls a b Hcls Ha Hb. destruct Hcls as [Hc|Hc].
    + subst cls. destruct Ha as [<-|Ha], Hb as [<-|Hb].
      * exact Hirr.
      * intros X. apply (Hfree b Hb). apply Hsym. exact X.
      * apply Hfree. exact Ha.
      * apply (Hp used); [left; reflexivity | exact Ha | exact Hb].
    + apply (Hp cls); [right; exact Hc | exact Ha | exact Hb].
  - destruct (place (adj v) v rest) as [r'|] eqn:Hr; [|discriminate]. injection H as <-.
    assert (Hrest : proper adj rest) by (intros c a b Hc; apply (Hp c); right; exact Hc).
    pose proof (IH r' Hrest eq_refl) as Hr'.
    intros cls a b Hcls Ha Hb. destruct Hcls as [Hc|Hc].
    + apply (Hp cls); [left; exact Hc | exact Ha | exact Hb].
    + apply (Hr' cls); assumption.
Qed.

Theorem assign_proper adj : (forall a b, In a (adj b) -> In b (adj a)) -> (forall v, ~ In v (adj v)) ->
  forall stack p p', proper adj p -> assign adj stack p = Some p' -> proper adj p'.
Proof.
  intros Hsym Hirr. induction stack as [|v t IH]; intros p p' Hp H; cbn in H.
  - injection H as <-. exact Hp.
  - destruct (is_virt v).
    + destruct (place (adj v) v p) as [p1|] eqn:Hpl; [|discriminate].
      eapply IH; [|exact H]. eapply place_proper; eauto.
    + eapply IH; eassumption.
Qed.

Lemma init_pool_proper adj k : proper adj (init_pool k).
Proof.
  intros used u v Hin Hu. unfold init_pool in Hin. apply repeat_spec in Hin. subst. destruct Hu.
Qed.
