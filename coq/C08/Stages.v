(* C08 — assign_registers yields a proper colouring for ANY stack (simplify order irrelevant). *)
From SwayV Require Import Base.Util Asm.Model C08.StageModel.
Local Open Scope N_scope.

Lemma memr_false r l : memr r l = false -> ~ In r l.
Proof.
  unfold memr. intros H Hin. assert (X : existsb (N.eqb r) l = true).
  { apply existsb_exists. exists r. split; [exact Hin | apply N.eqb_refl]. }
  congruence.
Qed.

Lemma place_proper adj v : (forall a b, In a (adj b) -> In b (adj a)) -> ~ In v (adj v) ->
  forall p p', proper adj p -> place (adj v) v p = Some p' -> proper adj p'.
Proof.
  intros Hsym Hirr. induction p as [|used rest IH]; intros p' Hp H; cbn in H; [discriminate|].
  destruct (forallb (fun u => negb (memr u (adj v))) used) eqn:Hf.
  - injection H as <-. rewrite forallb_forall in Hf.
    assert (Hfree : forall u, In u used -> ~ In u (adj v)).
    { intros u Hu. apply memr_false. apply negb_true_iff. apply Hf. exact Hu. }
    intros cls a b Hcls Ha Hb. destruct Hcls as [Hc|Hc].
    + subst cls. destruct Ha as [<-|Ha], Hb as [<-|Hb].
      * exact Hirr.
      * intros X. apply (Hfree b Hb). apply Hsym. exact X.
      * apply Hfree. exact Ha.
      * apply (Hp used); [left; reflexivity | exact Ha | exact Hb].
    + apply (Hp cls); [right; exact Hc | exact Ha | exact Hb].
  - destruct (place (adj v) v rest) as [r'|] eqn:Hr; [|discriminate]. injection H as <-.
    assert (Hrest : proper adj rest) by (intros c a b Hc; apply (Hp c); right; exact Hc).
    pose proof (IH r' Hrest eq_refl) as Hr'.
    intros cls a b Hcls Ha Hb. destruct Hcls as [Hc|Hc].
    + apply (Hp cls); [left; exact Hc | exact Ha | exact Hb].
    + apply (Hr' cls); assumption.
Qed.

Theorem assign_proper adj : (forall a b, In a (adj b) -> In b (adj a)) -> (forall v, ~ In v (adj v)) ->
  forall stack p p', proper adj p -> assign adj stack p = Some p' -> proper adj p'.
Proof.
  intros Hsym Hirr. induction stack as [|v t IH]; intros p p' Hp H; cbn in H.
  - injection H as <-. exact Hp.
  - destruct (is_virt v).
    + destruct (place (adj v) v p) as [p1|] eqn:Hpl; [|discriminate].
      eapply IH; [|exact H]. eapply place_proper; eauto.
    + eapply IH; eassumption.
Qed.

Lemma init_pool_proper adj k : proper adj (init_pool k).
Proof.
  intros used u v Hin Hu. unfold init_pool in Hin. apply repeat_spec in Hin. subst. destruct Hu.
Qed.

(* ---- interference_complete ---- *)
From Coq Require Import MSets.MSetPositive FSets.FMapPositive SetoidList.
From SwayV Require Import C08.Spec C08.Model C08.Sim C08.Check.

Lemma virt_out_in L ss v : is_virt v = true -> PS.In (rkey v) (out_of L ss) -> In v (virt_out L ss).
Proof.
  intros Hv Hin. unfold virt_out. apply filter_In. split; [|exact Hv].
  apply in_map_iff. exists (rkey v). split; [apply key_reg_rkey|].
  apply PS.elements_spec1 in Hin. apply InA_alt in Hin. destruct Hin as (y & <- & Hy). exact Hy.
Qed.

(* every pair of registers that valid_alloc requires to be apart is an edge of the graph
   (for MOVE v c the source c is exempt, as in the Rust code), whenever the liveness table
   is a post-fixpoint (in particular the least solution) *)
Theorem interference_complete ops L : is_postfix defs (items_of ops) L = true ->
  (forall i o, nth_error ops i = Some o -> wf_kind o) ->
  forall i o d v, nth_error ops i = Some o -> In d (defs o) -> is_virt d = true -> is_virt v = true ->
    live_out ops i v -> v <> d -> (forall s, kind o = KMove d s -> v <> s) ->
    In (d, v) (interference_edges ops L).
Proof.
  intros Hp Hwf i o d v Hn Hd Hvd Hvv Hlo Hne Hmv.
  unfold interference_edges. apply in_flat_map. exists (i, o, succs ops i). split; [apply items_of_in; exact Hn|].
  pose proof (virt_out_in L (succs ops i) v Hvv (live_out_in_out _ _ _ _ Hp Hlo)) as Hout.
  unfold item_edges. pose proof (Hwf i o Hn) as Hw. unfold wf_kind in Hw.
  destruct (kind o) as [d' s'| | | | | | | |] eqn:Hk.
  1:{ destruct Hw as [Hdefs _]. rewrite Hdefs in Hd. destruct Hd as [<-|[]]. rewrite Hvd.
      apply in_map_iff. exists v. split; [reflexivity|]. apply filter_In. split; [exact Hout|].
      apply andb_true_iff. split; apply negb_true_iff; apply N.eqb_neq; [exact (Hmv s' eq_refl) | exact Hne]. }
  all: apply in_flat_map; exists d; (split; [apply filter_In; split; assumption|]);
       apply in_map_iff; exists v; (split; [reflexivity|]); apply filter_In; (split; [exact Hout|]);
       apply negb_true_iff; apply N.eqb_neq; exact Hne.
Qed.

(* consequence: an assignment that separates the endpoints of every edge satisfies the first part
   of valid_alloc *)
Corollary proper_on_edges_valid ops L (asg : reg -> reg) : is_postfix defs (items_of ops) L = true ->
  (forall i o, nth_error ops i = Some o -> wf_kind o) ->
  (forall d v, In (d, v) (interference_edges ops L) -> asg d <> asg v) ->
  forall i o d v, nth_error ops i = Some o -> In d (defs o) -> is_virt d = true -> is_virt v = true ->
    live_out ops i v -> v <> d -> (forall s, kind o = KMove d s -> v <> s) -> asg d <> asg v.
Proof. intros Hp Hwf He i o d v Hn Hd Hvd Hvv Hlo Hne Hmv. apply He. eapply interference_complete; eassumption. Qed.
