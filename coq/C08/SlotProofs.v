(* C08 — the liveness table computed by Model.liveness is INSIDE the least solution (together with
   Check.postfix_sound: it IS the least solution), and a slot conflict reported by
   SlotModel.slot_conflict is a real one. *)
From Coq Require Import MSets.MSetPositive FSets.FMapPositive SetoidList.
From SwayV Require Import Base.Util Asm.Model C08.Spec C08.Model C08.Sim C08.Check C08.SlotModel.
Local Open Scope N_scope.

Lemma rkey_key_reg k : rkey (key_reg k) = k.
Proof.
  unfold key_reg, rkey. destruct k as [p|p|]; cbn; try reflexivity.
  rewrite Pos.succ_pred_double. reflexivity.
Qed.

Lemma out_of_inv L ss k : PS.In k (out_of L ss) -> exists j, In j ss /\ PS.In k (lget L j).
Proof.
  induction ss as [|s ss IH]; cbn; intros H.
  - apply PS.empty_spec in H. destruct H.
  - apply PS.union_spec in H. destruct H as [H|H].
    + exists s. split; [left; reflexivity | exact H].
    + destruct (IH H) as (j & Hj & Hk). exists j. split; [right; exact Hj | exact Hk].
Qed.

Lemma items_of_inv ops i o ss : In (i, o, ss) (items_of ops) ->
  nth_error ops i = Some o /\ ss = succs ops i.
Proof.
  intros H. apply In_nth_error in H. destruct H as (k & Hk).
  unfold items_of in Hk. rewrite items_aux_nth in Hk.
  destruct (nth_error ops k) as [o'|] eqn:E; cbn in Hk; [|discriminate].
  injection Hk as <- <- <-. cbn. split; [exact E|].
  symmetry. apply succs_nth. exact E.
Qed.

Definition tab_sound (kill : op -> list reg) (ops : list op) (L : ltab) : Prop :=
  forall i k, PS.In k (lget L i) -> live_gen kill ops i (key_reg k).

Lemma ikey_inj i j : ikey i = ikey j -> i = j.
Proof. unfold ikey. apply SuccNat2Pos.inj. Qed.

Lemma lget_add_same L i s : lget (PM.add (ikey i) s L) i = s.
Proof. unfold lget. rewrite PM.gss. reflexivity. Qed.

Lemma lget_add_other L i j s : i <> j -> lget (PM.add (ikey i) s L) j = lget L j.
Proof.
  intros Hne. unfold lget. rewrite PM.gso; [reflexivity|].
  intros E. apply Hne. symmetry. apply ikey_inj. exact E.
Qed.

Lemma transfer_sound kill ops L i o k : nth_error ops i = Some o -> tab_sound kill ops L ->
  PS.In k (transfer kill o (out_of L (succs ops i))) -> live_gen kill ops i (key_reg k).
Proof.
  intros Hn Hs H. unfold transfer in H. apply PS.union_spec in H. destruct H as [H|H].
  - destruct (set_of_inv _ _ H) as (r & Hr & ->). rewrite key_reg_rkey.
    eapply LG_use; eassumption.
  - apply PS.diff_spec in H. destruct H as [Ho Hk].
    destruct (out_of_inv _ _ _ Ho) as (j & Hj & Hl).
    eapply LG_thru; [exact Hn | exact Hj | apply Hs; exact Hl |].
    intros Hin. apply Hk. rewrite <- (rkey_key_reg k). apply set_of_in. exact Hin.
Qed.

Lemma sweep_sound kill ops : forall ritems L,
  (forall it, In it ritems -> In it (items_of ops)) ->
  tab_sound kill ops L -> tab_sound kill ops (sweep kill ritems L).
Proof.
  induction ritems as [|[[i o] ss] t IH]; intros L Hin Hs; cbn; [exact Hs|].
  apply IH; [intros it Hit; apply Hin; right; exact Hit|].
  destruct (items_of_inv ops i o ss (Hin _ (or_introl eq_refl))) as [Hn ->].
  intros j k Hk. destruct (Nat.eq_dec i j) as [<-|Hne].
  - rewrite lget_add_same in Hk. apply PS.union_spec in Hk. destruct Hk as [Hk|Hk].
    + eapply transfer_sound; eassumption.
    + apply Hs. exact Hk.
  - rewrite lget_add_other in Hk by exact Hne. apply Hs. exact Hk.
Qed.

Lemma iterate_sound kill ops : forall fuel items ritems L L',
  (forall it, In it ritems -> In it (items_of ops)) ->
  tab_sound kill ops L -> iterate kill fuel items ritems L = Some L' -> tab_sound kill ops L'.
Proof.
  induction fuel as [|f IH]; intros items ritems L L' Hin Hs H; cbn in H; [discriminate|].
  pose proof (sweep_sound kill ops ritems L Hin Hs) as Hs'.
  destruct (is_postfix kill items (sweep kill ritems L)).
  - injection H as <-. exact Hs'.
  - eapply IH; eassumption.
Qed.

(* the computed table contains only registers that are live in the least solution *)
Theorem liveness_sound kill fuel ops L : liveness kill fuel ops = Some L -> tab_sound kill ops L.
Proof.
  unfold liveness. intros H. eapply iterate_sound; [| | exact H].
  - intros it Hit. apply in_rev. exact Hit.
  - intros i k Hk. unfold lget in Hk. rewrite PM.gempty in Hk. apply PS.empty_spec in Hk. destruct Hk.
Qed.

Lemma iterate_postfix kill : forall fuel items ritems L L',
  iterate kill fuel items ritems L = Some L' -> is_postfix kill items L' = true.
Proof.
  induction fuel as [|f IH]; intros items ritems L L' H; cbn in H; [discriminate|].
  destruct (is_postfix kill items (sweep kill ritems L)) eqn:E.
  - injection H as <-. exact E.
  - eapply IH; eassumption.
Qed.

(* the computed table IS the least solution of the liveness equations *)
Theorem liveness_exact kill fuel ops L : liveness kill fuel ops = Some L ->
  forall i r, PS.In (rkey r) (lget L i) <-> live_gen kill ops i r.
Proof.
  intros H i r. split.
  - intros Hin. rewrite <- (key_reg_rkey r). eapply liveness_sound; eassumption.
  - apply postfix_sound. unfold liveness in H. eapply iterate_postfix; eassumption.
Qed.

Lemma find_some_spec {A B} (f : A -> option B) : forall l b, find_some f l = Some b ->
  exists a, In a l /\ f a = Some b.
Proof.
  induction l as [|x t IH]; intros b H; cbn in H; [discriminate|].
  destruct (f x) as [b'|] eqn:E.
  - injection H as <-. exists x. split; [left; reflexivity | exact E].
  - destruct (IH _ H) as (a & Ha & Hf). exists a. split; [right; exact Ha | exact Hf].
Qed.

Lemma move_exempt_false o d v : move_exempt o d v = false -> forall s, kind o = KMove d s -> v <> s.
Proof.
  unfold move_exempt. intros H s Hk. rewrite Hk in H. rewrite N.eqb_refl in H. cbn in H.
  apply N.eqb_neq in H. intros E. apply H. symmetry. exact E.
Qed.

(* A reported conflict is a counterexample to the property: instruction i defines d, the
   different register v is live after i in the LEAST solution of the liveness equations (and is
   not the source of a MOVE into d), and both are spilled to the same slot. *)
Theorem slot_conflict_real ops m L i d v :
  liveness defs FUEL ops = Some L -> slot_conflict m L ops = Some (i, d, v) ->
  exists o n, nth_error ops i = Some o /\ In d (defs o) /\ live_out ops i v /\ v <> d /\
    (forall s, kind o = KMove d s -> v <> s) /\ slot_in m d = Some n /\ slot_in m v = Some n.
Proof.
  intros HL H. pose proof (liveness_sound _ _ _ _ HL) as Hs.
  unfold slot_conflict in H. apply find_some_spec in H. destruct H as ([[i' o] ss] & Hit & H).
  destruct (items_of_inv _ _ _ _ Hit) as [Hn ->].
  cbn in H. apply find_some_spec in H. destruct H as (d' & Hd & H).
  destruct (slot_in m d') as [sd|] eqn:Esd; [|discriminate].
  apply find_some_spec in H. destruct H as (k & Hk & H).
  destruct (andb (negb (N.eqb (key_reg k) d')) (negb (move_exempt o d' (key_reg k)))) eqn:Eg; [|discriminate].
  destruct (slot_in m (key_reg k)) as [sv|] eqn:Esv; [|discriminate].
  destruct (N.eqb sd sv) eqn:Eeq; [|discriminate].
  injection H as <- <- <-.
  apply andb_true_iff in Eg. destruct Eg as [Eg1 Eg2].
  apply negb_true_iff in Eg1, Eg2. apply N.eqb_neq in Eg1. apply N.eqb_eq in Eeq. subst sv.
  exists o, sd. repeat (split; [first [exact Hn | exact Hd | exact Eg1 | idtac ]|]); try exact Esv.
  - assert (Hin : PS.In k (out_of L (succs ops i'))).
    { apply PS.elements_spec1. apply In_InA; [typeclasses eauto | exact Hk]. }
    destruct (out_of_inv _ _ _ Hin) as (j & Hj & Hl).
    exists j. split; [exact Hj | apply Hs; exact Hl].
  - apply move_exempt_false. exact Eg2.
  - exact Esd.
Qed.

(* Conversely (completeness of the search on a consistent table): when no conflict is reported,
   no instruction defines a spilled register while another one with the same slot is live. *)
Lemma find_some_none {A B} (f : A -> option B) : forall l, find_some f l = None ->
  forall a, In a l -> f a = None.
Proof.
  induction l as [|x t IH]; intros H a Ha; [destruct Ha|].
  cbn in H. destruct (f x) eqn:E; [discriminate|].
  destruct Ha as [<-|Ha]; [exact E | apply IH; assumption].
Qed.

Theorem slot_conflict_none_valid ops m L :
  is_postfix defs (items_of ops) L = true -> slot_conflict m L ops = None ->
  forall i o d v n, nth_error ops i = Some o -> In d (defs o) -> live_out ops i v -> v <> d ->
    (forall s, kind o = KMove d s -> v <> s) -> slot_in m d = Some n -> slot_in m v <> Some n.
Proof.
  intros Hp H i o d v n Hn Hd Hlo Hne Hmv Hsd Hsv.
  unfold slot_conflict in H.
  pose proof (find_some_none _ _ H _ (items_of_in _ _ _ Hn)) as Hi. cbn in Hi.
  pose proof (find_some_none _ _ Hi _ Hd) as Hdd. cbn in Hdd. rewrite Hsd in Hdd.
  pose proof (live_out_in_out _ _ _ _ Hp Hlo) as Hin.
  apply PS.elements_spec1 in Hin. apply InA_alt in Hin. destruct Hin as (k & <- & Hk).
  pose proof (find_some_none _ _ Hdd _ Hk) as Hkk. cbn in Hkk.
  rewrite key_reg_rkey in Hkk. rewrite Hsv, N.eqb_refl in Hkk.
  assert (E1 : N.eqb v d = false) by (apply N.eqb_neq; exact Hne).
  assert (E2 : move_exempt o d v = false).
  { unfold move_exempt. destruct (kind o) eqn:Ek; try reflexivity.
    destruct (N.eqb d0 d) eqn:Ed; [|reflexivity]. apply N.eqb_eq in Ed. subst d0. cbn.
    apply N.eqb_neq. intros E. apply (Hmv s); [reflexivity | symmetry; exact E]. }
  rewrite E1, E2 in Hkk. cbn in Hkk. discriminate.
Qed.
