(* C08 — per-function judgement evaluated by vm_compute on the allocator dumps. *)
From SwayV Require Import Base.Util Asm.Model C08.Spec C08.Model.
Local Open Scope N_scope.

Fixpoint first_false {A} (p : A -> bool) (l : list A) (k : N) : N :=
  match l with [] => k | x :: t => if p x then first_false p t (k + 1) else k end.

Fixpoint first_diff (a b : list op) (k : N) : N :=
  match a, b with
  | x :: ta, y :: tb => if op_eqb x y then first_diff ta tb (k + 1) else k
  | _, _ => k
  end.

(* codes (second component: index of the offending instruction where meaningful)
   0  ok
   2  VIOLATION  two simultaneously live registers share a machine register (check_alloc rejects)
   3  VIOLATION  the allocated program is not the renamed input minus MOVE r r
   4  a virtual register is read before being written (entry not clean) — reported, not a violation by itself
   5  VIOLATION  a dropped MOVE r r cleared $of/$err that is read afterwards
   6  table/wf: the use/def lists do not fit the model's well-formedness (machinery)
   7  liveness iteration ran out of fuel (machinery) *)
Definition judge_alloc (input : list op) (asgl : list (reg * reg)) (alloc : list opkind) : N * N :=
  let a := amap_of asgl in
  let asg := asg_of a in
  let f := phi_of asg in
  match liveness defs FUEL input with
  | None => (7, 0)
  | Some L =>
    let items := items_of input in
    if negb (is_postfix defs items L) then (7, 1)
    else if negb (forallb (wf_opb asg) input) then (6, first_false (wf_opb asg) input 0)
    else if negb (forallb (check_item asg L) items) then (2, first_false (check_item asg L) items 0)
    else match match_alloc f input alloc with
         | None => (3, 0)
         | Some keep =>
           let ren := rename f input in
           match liveness defs_c FUEL ren with
           | None => (7, 2)
           | Some Lc =>
             if negb (dropped_flags_dead_with Lc ren keep) then (5, 0)
             else if entry_clean_with L input then (0, 0) else (4, 0)
           end
         end
  end.

(* 0 model = dump; 1 VIOLATION/correspondence: model of spill() differs from the dump (index);
   8 long-offset spill sequences (not modelled); 9 model panics *)
Definition judge_spill (before : list op) (spills : list reg) (after : list op) : N * N :=
  match spill before spills with
  | SpillOk l => if list_eqb op_eqb l after then (0, 0) else (1, first_diff l after 0)
  | SpillUnsupported => (8, 0)
  | SpillPanic s => (9, s)
  end.
