(* C08 — per-function judgement evaluated by vm_compute on the allocator dumps. *)
From SwayV Require Import Base.Util Asm.Model C08.Spec C08.Model C08.SlotModel.
Local Open Scope N_scope.

Fixpoint first_false {A} (p : A -> bool) (l : list A) (k : N) : N :=
  match l with [] => k | x :: t => if p x then first_false p t (k + 1) else k end.

Fixpoint first_diff (a b : list op) (k : N) : N :=
  match a, b with
  | x :: ta, y :: tb => if op_eqb x y then first_diff ta tb (k + 1) else k
  | _, _ => k
  end.

(* codes (second component: index of the offending instruction where meaningful)
   0  ok
   2  VIOLATION  two simultaneously live registers share a machine register (check_alloc rejects)
   3  VIOLATION  the allocated program is not the renamed input minus MOVE r r
   4  a virtual register is read before being written (entry not clean) — reported, not a violation by itself
   5  VIOLATION  a dropped MOVE r r cleared $of/$err that is read afterwards
   6  table/wf: the use/def lists do not fit the model's well-formedness (machinery)
   7  liveness iteration ran out of fuel (machinery) *)
Definition judge_alloc (input : list op) (asgl : list (reg * reg)) (alloc : list opkind) : N * N :=
  let a := amap_of asgl in
  let asg := asg_of a in
  let f := phi_of asg in
  match liveness defs FUEL input with
  | None => (7, 0)
  | Some L =>
    let items := items_of input in
    if negb (is_postfix defs items L) then (7, 1)
    else if negb (forallb (wf_opb asg) input) then (6, first_false (wf_opb asg) input 0)
    else if negb (forallb (check_item asg L) items) then (2, first_false (check_item asg L) items 0)
    else match match_alloc f input alloc with
         | None => (3, 0)
         | Some keep =>
           let ren := rename f input in
           match liveness defs_c FUEL ren with
           | None => (7, 2)
           | Some Lc =>
             if negb (dropped_flags_dead_with Lc ren keep) then (5, 0)
             else if entry_clean_with L input then (0, 0) else (4, 0)
           end
         end
  end.

(* 0 model = dump; 1 VIOLATION/correspondence: model of spill() differs from the dump (index);
   8 long-offset spill sequences (not modelled); 9 model panics *)
Definition judge_spill (before : list op) (spills : list reg) (after : list op) : N * N :=
  match spill before spills with
  | SpillOk l => if list_eqb op_eqb l after then (0, 0) else (1, first_diff l after 0)
  | SpillUnsupported => (8, 0)
  | SpillPanic s => (9, s)
  end.

(* ---- slots read back from the real output (SlotModel.judge_slots), plus a built-in mutant ----
   merge_op rewrites every spill access (LW/SW on $$locbase at or above the lowest spill slot) to
   the lowest slot: all spilled registers then share one slot, which judge_slots must refute
   (code 20) whenever two of them are simultaneously live. *)
Definition merge_op (wmin : N) (o : op) : op :=
  match kind o with
  | KOther opc [OReg a; OReg b; OImm w] =>
      if andb (orb (andb (N.eqb opc OPC_LW) (N.eqb b R_LOCBASE)) (andb (N.eqb opc OPC_SW) (N.eqb a R_LOCBASE)))
              (N.leb wmin w)
      then mkOp (uses o) (defs o) (cdefs o) (se o) (KOther opc [OReg a; OReg b; OImm wmin]) else o
  | _ => o
  end.

Definition judge_slots_merged (before : list op) (spills : list reg) (after : list op) : list N :=
  match align spills before after with
  | Some ((_, w0) :: evs) =>
      let wmin := fold_right N.min w0 (map snd evs) in
      judge_slots before spills (map (merge_op wmin) after)
  | _ => [21; 2]
  end.

(* one flat answer per alloc_spill record:
   [code; where; length js] ++ js ++ jm   with (code, where) = judge_spill, js = judge_slots on the
   real output, jm = judge_slots on the merged-slot mutant of the real output *)
Definition judge_spill_all (before : list op) (spills : list reg) (after : list op) : list N :=
  let '(c, w) := judge_spill before spills after in
  let js := judge_slots before spills after in
  c :: w :: N.of_nat (length js) :: js ++ judge_slots_merged before spills after.
