//! Shared helpers for the verification harness binaries.
pub mod util;
