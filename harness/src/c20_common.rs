//! Shared by the c20 and c21 harness binaries (included with #[path]): canonical JSON dumps of
//! `forc_pkg` sources, graphs and locks, and the external-parser oracles.
use forc_pkg::source::{self, git::Reference, reg::file_location::Namespace};
use forc_pkg::{DepKind, Graph, Lock};
use serde_json::{json, Value};
use std::str::FromStr;

pub fn hx(s: &str) -> String {
    hex::encode(s.as_bytes())
}

pub fn unhex(s: &str) -> Option<String> {
    if s == "-" {
        return Some(String::new());
    }
    String::from_utf8(hex::decode(s).ok()?).ok()
}

/// Display string of a forc `Cid` (its module is crate-private; it serialises as its Display).
fn cid_disp<T: serde::Serialize>(c: &T) -> String {
    match serde_json::to_value(c) {
        Ok(Value::String(s)) => s,
        other => format!("<cid?{other:?}>"),
    }
}

/// Structured, injective dump of a pinned source (all external values by their Display string).
pub fn src_json(p: &source::Pinned) -> Value {
    match p {
        source::Pinned::Member(_) => json!({"t": "member"}),
        source::Pinned::Path(p) => json!({"t": "path", "root": p.path_root.to_string()}),
        source::Pinned::Git(g) => {
            let (rk, r) = match &g.source.reference {
                Reference::Branch(s) => ("B", s.clone()),
                Reference::Tag(s) => ("T", s.clone()),
                Reference::Rev(s) => ("R", s.clone()),
                Reference::DefaultBranch => ("D", String::new()),
            };
            json!({"t": "git", "url": hx(&g.source.repo.to_string()), "rk": rk, "r": hx(&r),
                   "commit": hx(&g.commit_hash)})
        }
        source::Pinned::Ipfs(p) => {
            let s = p.to_string();
            json!({"t": "ipfs", "cid": hx(s.strip_prefix("ipfs+").unwrap_or(&s))})
        }
        source::Pinned::Registry(r) => {
            let ns = match &r.source.namespace {
                Namespace::Flat => Value::Null,
                Namespace::Domain(d) => Value::String(hx(d)),
            };
            json!({"t": "reg", "name": hx(&r.source.name), "ver": hx(&r.source.version.to_string()),
                   "cid": hx(&cid_disp(&r.cid)), "ns": ns})
        }
    }
}

pub fn graph_json(g: &Graph) -> Value {
    let nodes: Vec<Value> = g
        .node_indices()
        .map(|n| json!({"ix": n.index(), "name": hx(&g[n].name), "src": src_json(&g[n].source),
                        "disp": hx(&g[n].source.to_string())}))
        .collect();
    let edges: Vec<Value> = g
        .edge_indices()
        .map(|e| {
            let (a, b) = g.edge_endpoints(e).unwrap();
            let w = &g[e];
            let (k, salt) = match &w.kind {
                DepKind::Library => ("L", String::new()),
                DepKind::Contract { salt } => ("C", format!("{salt}")),
            };
            json!([a.index(), b.index(), hx(&w.name), k, salt])
        })
        .collect();
    json!({"nodes": nodes, "edges": edges})
}

/// The deserialised lock in its own (BTreeSet) iteration order.
pub fn lock_json(l: &Lock) -> Value {
    let v = serde_json::to_value(l).unwrap_or(Value::Null);
    let mut out = vec![];
    if let Some(pkgs) = v.get("package").and_then(|p| p.as_array()) {
        for p in pkgs {
            let strs = |k: &str| -> Vec<Value> {
                p.get(k)
                    .and_then(|d| d.as_array())
                    .map(|a| a.iter().map(|s| Value::String(hx(s.as_str().unwrap_or("")))).collect())
                    .unwrap_or_default()
            };
            out.push(json!({
                "name": hx(p.get("name").and_then(|s| s.as_str()).unwrap_or("")),
                "source": hx(p.get("source").and_then(|s| s.as_str()).unwrap_or("")),
                "version": p.get("version").cloned().unwrap_or(Value::Null),
                "deps": strs("dependencies"),
                "cdeps": strs("contract-dependencies"),
            }));
        }
    }
    Value::Array(out)
}

/// External parsers exactly as forc calls them: kind U = git url (gix_url through forc's `Url`),
/// C = `cid::Cid`, V = `semver::Version`. Returns the Display string of the parsed value.
pub fn oracle(kind: &str, s: &str) -> Option<String> {
    match kind {
        "U" => source::git::Url::from_str(s).ok().map(|u| u.to_string()),
        "C" => s.parse::<cid::Cid>().ok().map(|c| c.to_string()),
        "V" => semver::Version::from_str(s).ok().map(|v| v.to_string()),
        _ => None,
    }
}
