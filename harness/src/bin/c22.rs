//! C22 harness: build a real `forc_pkg::Graph` from an edge list and call `compilation_order`.
//! stdin: one case per line  `<n>;a-b:K,a-b:K,...`  (K = L library | C contract)
//! stdout: `ok i j k ...` | `err cycle|other` | `panic <msg>`
use forc_pkg::{source, DepKind, Edge, Graph, Pinned};
use hx::util::{guarded, quiet_panics};
use std::io::{BufRead, Write};

fn main() {
    quiet_panics();
    let stdin = std::io::stdin();
    let out = std::io::stdout();
    let mut out = std::io::BufWriter::new(out.lock());
    for line in stdin.lock().lines() {
        let line = line.unwrap();
        let line = line.trim();
        if line.is_empty() { continue; }
        let (n, es) = line.split_once(';').unwrap();
        let n: usize = n.parse().unwrap();
        let mut g = Graph::default();
        let nodes: Vec<_> = (0..n)
            .map(|i| g.add_node(Pinned { name: format!("p{i}"), source: "member".parse::<source::Pinned>().unwrap() }))
            .collect();
        for e in es.split(',').filter(|s| !s.is_empty()) {
            let (ab, k) = e.split_once(':').unwrap();
            let (a, b) = ab.split_once('-').unwrap();
            let (a, b): (usize, usize) = (a.parse().unwrap(), b.parse().unwrap());
            let kind = if k == "C" {
                DepKind::Contract { salt: fuel_tx::Salt::new([b as u8; 32]) }
            } else { DepKind::Library };
            // forc inserts edges dependent -> dependency with update_edge (simple digraph)
            g.update_edge(nodes[a], nodes[b], Edge::new(format!("p{b}"), kind));
        }
        let r = guarded(|| forc_pkg::compilation_order(&g));
        match r {
            Ok(Ok(order)) => {
                let s: Vec<String> = order.iter().map(|ix| ix.index().to_string()).collect();
                writeln!(out, "ok {}", s.join(" ")).unwrap();
            }
            Ok(Err(e)) => {
                let m = e.to_string();
                writeln!(out, "err {}", if m.contains("dependency cycle detected") { "cycle" } else { "other" }).unwrap();
            }
            Err(p) => writeln!(out, "panic {}", p.replace('\n', " ")).unwrap(),
        }
    }
}
