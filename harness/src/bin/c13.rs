//! C13 harness: build a script/predicate package that has `configurable { .. }` and `#[test]`
//! functions through the real forc pipeline, run the tests on fuel-vm with the bytecode as built,
//! then once per requested patch with the bytecode overwritten at the offset the JSON ABI reports.
//!   c13 <pkgdir>...        each <pkgdir> may contain `patches.json`:
//!        [{"name": "<configurable>", "hex": "<new encoded bytes>"} | {"offset": n, "hex": ..}, ...]
//! Output, one JSON line per package:
//!   {"pkg", "status": "ok"|"build_error"|"panic", "error",
//!    "bytecode_len", "abi": <JSON ABI as emitted by forc>,
//!    "base": [test...], "patched": [{"name","offset","tests":[test...]} | {"name","error"}]}
//!   test = {"name","passed","state","receipts":[{"k":"LogData","rb","data"}...]}
use hx::util::{guarded, quiet_panics};
use serde_json::{json, Value};

fn receipt(r: &fuel_tx::Receipt) -> Value {
    use fuel_tx::Receipt::*;
    match r {
        Log { ra, rb, .. } => json!({"k":"Log","ra":ra.to_string(),"rb":rb.to_string()}),
        LogData { rb, data, .. } => json!({"k":"LogData","rb":rb.to_string(),"data":hex::encode(data.as_ref().map(|d| d.to_vec()).unwrap_or_default())}),
        Return { val, .. } => json!({"k":"Return","val":val.to_string()}),
        ReturnData { data, .. } => json!({"k":"ReturnData","data":hex::encode(data.as_ref().map(|d| d.to_vec()).unwrap_or_default())}),
        Revert { ra, .. } => json!({"k":"Revert","ra":ra.to_string()}),
        Panic { reason, .. } => json!({"k":"Panic","reason":format!("{:?}", reason.reason())}),
        ScriptResult { result, .. } => json!({"k":"ScriptResult","result":format!("{:?}", result)}),
        _ => json!({"k":"Other"}),
    }
}

fn test_json(t: &forc_test::TestResult) -> Value {
    json!({"name": t.name, "passed": t.passed(), "state": format!("{:?}", t.state),
           "receipts": t.logs.iter().map(receipt).collect::<Vec<_>>()})
}

fn run_pkg(dir: &str) -> anyhow::Result<Value> {
    let mut opts = forc_test::TestOpts::default();
    opts.pkg.path = Some(dir.to_string());
    opts.pkg.offline = true;
    opts.pkg.terse = std::env::var("C13_VERBOSE").is_err();
    let release = std::env::var("C13_RELEASE").is_ok();
    opts.release = release;
    let built = forc_test::build(opts)?;
    let tested = built.run(
        forc_test::TestRunnerCount::Auto,
        None,
        fuel_tx::GasCostsValues::default(),
        forc_test::TestGasLimit::Default,
    )?;
    let p = match tested {
        forc_test::Tested::Package(p) => *p,
        forc_test::Tested::Workspace(_) => anyhow::bail!("workspace not supported"),
    };
    let base: Vec<Value> = p.tests.iter().map(test_json).collect();
    let abi = match &p.built.program_abi {
        sway_core::asm_generation::ProgramABI::Fuel(a) => serde_json::to_value(a)?,
        _ => Value::Null,
    };
    let bytes = p.built.bytecode.bytes.clone();
    let mut patched_out = vec![];
    let patches_path = std::path::Path::new(dir).join("patches.json");
    if patches_path.exists() {
        let patches: Vec<Value> = serde_json::from_str(&std::fs::read_to_string(&patches_path)?)?;
        for pt in patches {
            let name = pt.get("name").and_then(|v| v.as_str()).unwrap_or("").to_string();
            let newb = hex::decode(pt["hex"].as_str().unwrap_or(""))?;
            let off = if let Some(o) = pt.get("offset").and_then(|v| v.as_u64()) {
                Some(o)
            } else {
                abi.get("configurables").and_then(|c| c.as_array()).and_then(|cs| {
                    cs.iter().find(|c| c["name"].as_str() == Some(&name)).and_then(|c| c["offset"].as_u64())
                })
            };
            let Some(off) = off else {
                patched_out.push(json!({"name": name, "error": "no offset reported in the ABI"}));
                continue;
            };
            let off = off as usize;
            if off + newb.len() > bytes.len() {
                patched_out.push(json!({"name": name, "offset": off, "error": "patch beyond end of bytecode"}));
                continue;
            }
            let mut b2 = bytes.clone();
            b2[off..off + newb.len()].copy_from_slice(&newb);
            let mut tests = vec![];
            for entry in p.built.bytecode.entries.iter() {
                let Some(test_entry) = entry.kind.test() else { continue };
                let offset = u32::try_from(entry.finalized.imm)?;
                let name_t = entry.finalized.fn_name.clone();
                let setup = forc_test::setup::TestSetup::WithoutDeployment(fuel_vm::storage::MemoryStorage::default());
                let r = guarded(|| -> anyhow::Result<forc_test::TestResult> {
                    forc_test::execute::TestExecutor::build(
                        &b2,
                        offset,
                        setup,
                        test_entry,
                        name_t.clone(),
                        fuel_tx::GasCostsValues::default(),
                        forc_test::TestGasLimit::Default,
                    )?
                    .execute()
                });
                match r {
                    Ok(Ok(t)) => tests.push(test_json(&t)),
                    Ok(Err(e)) => tests.push(json!({"name": name_t, "error": format!("{:#}", e)})),
                    Err(pn) => tests.push(json!({"name": name_t, "error": format!("panic: {pn}")})),
                }
            }
            patched_out.push(json!({"name": name, "offset": off, "tests": tests}));
        }
    }
    Ok(json!({"bytecode_len": bytes.len(), "abi": abi, "base": base, "patched": patched_out}))
}

fn main() {
    quiet_panics();
    for d in std::env::args().skip(1) {
        let r = guarded(|| run_pkg(&d));
        let v = match r {
            Ok(Ok(mut v)) => {
                v["pkg"] = json!(d);
                v["status"] = json!("ok");
                v
            }
            Ok(Err(e)) => json!({"pkg": d, "status": "build_error", "error": format!("{:#}", e).chars().take(4000).collect::<String>()}),
            Err(p) => json!({"pkg": d, "status": "panic", "error": p}),
        };
        println!("{}", v);
    }
}
