//! C06 harness: compile-time evaluation of the real compiler.
//!
//!   c06 fold   stdin: one case per line, stdout: one result per line
//!       bin <op> <lty> <rty> <l> <r>        op: add sub mul div mod and or xor lsh rsh
//!       un not <ty> <v>
//!       cmp <eq|lt|gt> <ty> <l> <r>
//!       useless <op> <l|r> <ty> <c>         constant c on the left / right of a non-constant operand
//!     ty: u8 u16 u32 u64 u256 b256 bool; values decimal (u8..u64, bool as 0/1) or 0x<64 hex> (u256/b256)
//!     The case is turned into a small IR module text, parsed with sway_ir::parser, the `const-folding`
//!     pass is run through PassManager, and the returned value is inspected:
//!       val <decimal>      the returned value is now a constant (bool printed as 0/1)
//!       notfolded          the instruction is still there
//!       replaced           (useless) the result was replaced by the non-constant operand
//!       error <msg>        parse / verify / pass error
//!       panic <msg>        the Rust code panicked
//!
//!   c06 ce     stdin: `<ty>\t<expr>` per line; compiles (sway-core, no std)
//!                `library; const A: <ty> = <expr>;`
//!              to (unoptimised) IR with sway_core::ir_generation::compile_program, i.e. through
//!              const_eval.rs, and reports the initializer of the global A:
//!       val <decimal> | error <first error> | panic <msg> | noconst <why>
//!   c06 ce-dump  same input, prints the IR (debugging aid)
use hx::util::{guarded, quiet_panics};
use std::io::{BufRead, Write};
use sway_ir::{
    register_known_passes, ConstantValue, Context, InstOp, PassGroup, PassManager, Value,
    CONST_FOLDING_NAME,
};

fn fmt_const(ctx: &Context, v: &Value) -> Option<String> {
    let c = v.get_constant(ctx)?;
    Some(match &c.get_content(ctx).value {
        ConstantValue::Uint(n) => format!("val {n}"),
        ConstantValue::U256(n) | ConstantValue::B256(n) => format!("val {n}"),
        ConstantValue::Bool(b) => format!("val {}", *b as u8),
        other => format!("val ?{other:?}"),
    })
}

fn ir_text(case: &[&str]) -> Result<(String, bool), String> {
    // returns (module text, is_useless_case)
    let lit = |ty: &str, v: &str| -> String {
        match ty {
            "bool" => format!("const bool {}", if v == "0" { "false" } else { "true" }),
            _ => format!("const {ty} {v}"),
        }
    };
    match case {
        ["bin", op, lty, rty, l, r] => Ok((
            format!(
                "script {{\n    fn main() -> {lty} {{\n        entry():\n        l = {}\n        r = {}\n        res = {op} l, r\n        ret {lty} res\n    }}\n}}\n",
                lit(lty, l),
                lit(rty, r)
            ),
            false,
        )),
        ["un", "not", ty, v] => Ok((
            format!(
                "script {{\n    fn main() -> {ty} {{\n        entry():\n        l = {}\n        res = not l\n        ret {ty} res\n    }}\n}}\n",
                lit(ty, v)
            ),
            false,
        )),
        ["cmp", pred, ty, l, r] => Ok((
            format!(
                "script {{\n    fn main() -> bool {{\n        entry():\n        l = {}\n        r = {}\n        res = cmp {pred} l r\n        ret bool res\n    }}\n}}\n",
                lit(ty, l),
                lit(ty, r)
            ),
            false,
        )),
        ["useless", op, side, ty, c] => {
            let (a, b) = if *side == "l" { ("c", "x") } else { ("x", "c") };
            Ok((
                format!(
                    "script {{\n    fn main(x: {ty}) -> {ty} {{\n        entry(x: {ty}):\n        c = {}\n        res = {op} {a}, {b}\n        ret {ty} res\n    }}\n}}\n",
                    lit(ty, c)
                ),
                true,
            ))
        }
        _ => Err(format!("bad case {case:?}")),
    }
}

fn fold_case(line: &str) -> String {
    let parts: Vec<&str> = line.split_whitespace().collect();
    let (text, useless) = match ir_text(&parts) {
        Ok(t) => t,
        Err(e) => return format!("error {e}"),
    };
    let r = guarded(|| -> Result<String, String> {
        let se = sway_types::SourceEngine::default();
        let mut ir = sway_ir::parser::parse(
            &text,
            &se,
            sway_features::ExperimentalFeatures::default(),
            sway_ir::Backtrace::default(),
        )
        .map_err(|e| format!("parse: {e}"))?;
        let mut pm = PassManager::default();
        register_known_passes(&mut pm);
        let mut group = PassGroup::default();
        group.append_pass(CONST_FOLDING_NAME);
        pm.run(
            &mut ir,
            &group,
            &sway_ir::Options {
                print_initial: false,
                print_final: false,
                print_modified_only: false,
                print_metadata: false,
                print_passes: Default::default(),
                force_verify_ir: true,
                rounds: 1,
            },
        )
        .map_err(|e| format!("pass: {e}"))?;
        let module = ir.module_iter().next().ok_or("no module")?;
        let func = module.function_iter(&ir).next().ok_or("no function")?;
        let entry = func.get_entry_block(&ir);
        let term = entry.get_terminator(&ir).ok_or("no terminator")?;
        let InstOp::Ret(v, _) = &term.op else {
            return Err("terminator is not ret".into());
        };
        if let Some(s) = fmt_const(&ir, v) {
            return Ok(s);
        }
        if useless {
            if entry.get_arg(&ir, 0) == Some(*v) {
                return Ok("replaced".into());
            }
        }
        Ok("notfolded".into())
    });
    match r {
        Ok(Ok(s)) => s,
        Ok(Err(e)) => format!("error {}", e.replace('\n', " ")),
        Err(p) => format!("panic {}", p.replace('\n', " ")),
    }
}

fn ce_case(line: &str, dump: bool) -> String {
    let Some((ty, expr)) = line.split_once('\t') else {
        return "error bad case".into();
    };
    let src = format!("library;\nconst A: {ty} = {expr};\n");
    let r = guarded(|| -> Result<String, String> {
        use sway_core::{language::ty, namespace, Engines};
        let engines = Engines::default();
        let handler = sway_error::handler::Handler::default();
        let experimental = sway_features::ExperimentalFeatures::default();
        let pkg = namespace::Package::new(
            sway_types::Ident::new_no_span("c06_ce".to_string()),
            None,
            sway_types::ProgramId::new(0),
            false,
        );
        let programs = sway_core::compile_to_ast(
            &handler,
            &engines,
            src.as_str().into(),
            pkg,
            None,
            "c06_ce",
            None,
            experimental,
        );
        let (errors, _w, _i) = handler.consume();
        if !errors.is_empty() {
            return Ok(format!("error typecheck: {}", errors[0].to_string().replace('\n', " ")));
        }
        let programs = programs.map_err(|_| "compile_to_ast failed".to_string())?;
        let typed: std::sync::Arc<ty::TyProgram> =
            programs.typed.map_err(|_| "no typed program".to_string())?;
        let mut po = Default::default();
        let mut pco = Default::default();
        let ir = sway_core::ir_generation::compile_program(
            &typed,
            &mut po,
            &mut pco,
            false,
            &engines,
            experimental,
            sway_core::Backtrace::default().into(),
        );
        let ir = match ir {
            Ok(ir) => ir,
            Err(errs) => {
                return Ok(format!(
                    "error {}",
                    errs.first().map(|e| e.to_string()).unwrap_or_default().replace('\n', " ")
                ))
            }
        };
        if dump {
            return Ok(format!("dump\n{ir}"));
        }
        for module in ir.module_iter() {
            let path = vec!["c06_ce".to_string(), "A".to_string()];
            if let Some(g) = module.get_global_variable(&ir, &path) {
                if let Some(c) = g.get_initializer(&ir) {
                    return Ok(match &c.get_content(&ir).value {
                        ConstantValue::Uint(n) => format!("val {n}"),
                        ConstantValue::U256(n) | ConstantValue::B256(n) => format!("val {n}"),
                        ConstantValue::Bool(b) => format!("val {}", *b as u8),
                        other => format!("val ?{other:?}"),
                    });
                }
            }
        }
        Ok("noconst global A has no initializer".into())
    });
    match r {
        Ok(Ok(s)) => s,
        Ok(Err(e)) => format!("error {}", e.replace('\n', " ")),
        Err(p) => format!("panic {}", p.replace('\n', " ")),
    }
}

fn main() {
    quiet_panics();
    let mode = std::env::args().nth(1).unwrap_or_default();
    let stdin = std::io::stdin();
    let out = std::io::stdout();
    let mut out = std::io::BufWriter::new(out.lock());
    for line in stdin.lock().lines() {
        let line = line.unwrap();
        let line = line.trim_end_matches(['\r', '\n']);
        if line.trim().is_empty() {
            continue;
        }
        let res = match mode.as_str() {
            "fold" => fold_case(line.trim()),
            "ce" => ce_case(line, false),
            "ce-dump" => ce_case(line, true),
            _ => "error unknown mode".into(),
        };
        writeln!(out, "{res}").unwrap();
        out.flush().unwrap();
    }
}
