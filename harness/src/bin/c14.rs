//! C14 harness: type-check real Sway packages with `forc_pkg::check` (the path `forc check` and the LSP
//! use) and print every diagnostic of the package under test as JSON, one line per package:
//!   c14 <pkgdir>...
//! {"pkg":..., "status":"ok"|"error"|"panic", "error":..., "typed_ok":bool,
//!  "errors":[{"kind":"nonexhaustive"|"internal"|"other", "missing":..., "msg":..., "line":L, "end_line":L2}],
//!  "warnings":[{"kind":"unreachable"|"other", "line":L, "col":C, "last":bool, "catch_all":bool, "msg":...}]}
//! Lines are 1-based lines of the diagnostic's primary span (match expression span for errors, the arm's
//! scrutinee span for unreachable-arm warnings).
use hx::util::{guarded, quiet_panics};
use serde_json::json;
use sway_error::{error::CompileError, warning::Warning};
use sway_types::Spanned;

fn check_pkg(dir: &str) -> serde_json::Value {
    let r = guarded(|| -> anyhow::Result<serde_json::Value> {
        use forc_pkg::manifest::GenericManifestFile;
        let manifest_file = forc_pkg::manifest::ManifestFile::from_dir(std::path::PathBuf::from(dir))?;
        let member_manifests = manifest_file.member_manifests()?;
        let lock_path = manifest_file.lock_path()?;
        let plan = forc_pkg::BuildPlan::from_lock_and_manifests(
            &lock_path,
            &member_manifests,
            false,
            true,
            &Default::default(),
        )?;
        let engines = sway_core::Engines::default();
        let mut v = forc_pkg::check(
            &plan,
            sway_core::BuildTarget::default(),
            true,
            None,
            true,
            &engines,
            None,
            &[],
            &[],
            sway_core::DbgGeneration::None,
        )?;
        let (res, handler) = v.pop().expect("at least one package");
        let typed_ok = res.map(|p| p.typed.is_ok()).unwrap_or(false);
        let (errors, warnings, _infos) = handler.consume();
        let mut es = vec![];
        for e in errors.iter() {
            let sp = e.span();
            let line = sp.start_line_col_one_index().line;
            let end_line = sp.end_line_col_one_index().line;
            match e {
                CompileError::MatchExpressionNonExhaustive { missing_patterns, .. } => es.push(json!({
                    "kind": "nonexhaustive", "missing": missing_patterns, "line": line, "end_line": end_line})),
                CompileError::Internal(m, _) => es.push(json!({
                    "kind": "internal", "msg": m, "line": line, "end_line": end_line})),
                other => es.push(json!({
                    "kind": "other", "msg": format!("{}", other).chars().take(300).collect::<String>(),
                    "line": line, "end_line": end_line})),
            }
        }
        let mut ws = vec![];
        for w in warnings.iter() {
            let lc = w.span.start_line_col_one_index();
            match &w.warning_content {
                Warning::MatchExpressionUnreachableArm { is_last_arm, is_catch_all_arm, .. } => ws.push(json!({
                    "kind": "unreachable", "line": lc.line, "col": lc.col,
                    "last": is_last_arm, "catch_all": is_catch_all_arm})),
                other => ws.push(json!({
                    "kind": "other", "line": lc.line, "col": lc.col,
                    "msg": format!("{}", other).chars().take(200).collect::<String>()})),
            }
        }
        Ok(json!({"typed_ok": typed_ok, "errors": es, "warnings": ws}))
    });
    match r {
        Ok(Ok(mut v)) => {
            v["pkg"] = json!(dir);
            v["status"] = json!("ok");
            v
        }
        Ok(Err(e)) => json!({"pkg": dir, "status": "error", "error": format!("{:#}", e).chars().take(3000).collect::<String>()}),
        Err(p) => json!({"pkg": dir, "status": "panic", "error": p}),
    }
}

fn main() {
    quiet_panics();
    for d in std::env::args().skip(1) {
        println!("{}", check_pkg(&d));
    }
}
