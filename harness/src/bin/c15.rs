//! C15 harness: build one package with the real forc pipeline in THIS process and print a
//! digest of every artefact it wrote (bytecode, JSON ABI, storage slots JSON) plus contract id /
//! predicate root derived from the bytecode. Each invocation is a fresh process (fresh std
//! `RandomState`); `--threads N` sizes the global rayon pool to vary thread timings.
//!   c15 [--release] [--threads N] <pkgdir>
use hx::util::{guarded, quiet_panics};
use sha2::{Digest, Sha256};

fn main() {
    quiet_panics();
    let mut release = false;
    let mut dir = None;
    let mut args = std::env::args().skip(1);
    while let Some(a) = args.next() {
        if a == "--release" { release = true }
        else if a == "--threads" {
            let n: usize = args.next().unwrap().parse().unwrap();
            let _ = rayon::ThreadPoolBuilder::new().num_threads(n).build_global();
        } else { dir = Some(a) }
    }
    let dir = dir.expect("pkgdir");
    let out_dir = std::path::Path::new(&dir).join("out");
    let _ = std::fs::remove_dir_all(&out_dir);
    let r = guarded(|| -> anyhow::Result<Vec<String>> {
        let mut opts = forc_pkg::BuildOpts::default();
        opts.pkg.path = Some(dir.clone());
        opts.pkg.offline = true;
        opts.pkg.terse = true;
        opts.release = release;
        opts.tests = true; // library packages only have code in their #[test] entries
        let built = forc_pkg::build_with_options(&opts, None)?;
        let mut lines = vec![];
        let pkgs: Vec<std::sync::Arc<forc_pkg::BuiltPackage>> = match built {
            forc_pkg::Built::Package(p) => vec![p],
            forc_pkg::Built::Workspace(ps) => ps,
        };
        for p in pkgs {
            let bc = &p.bytecode.bytes;
            lines.push(format!("bytecode {} {}", p.descriptor.name, hex::encode(Sha256::digest(bc))));
            let abi = match &p.program_abi {
                sway_core::asm_generation::ProgramABI::Fuel(a) => serde_json::to_string(a)?,
                _ => String::new(),
            };
            lines.push(format!("abi {} {}", p.descriptor.name, hex::encode(Sha256::digest(abi.as_bytes()))));
            let slots = serde_json::to_string(&p.storage_slots)?;
            lines.push(format!("slots {} {}", p.descriptor.name, hex::encode(Sha256::digest(slots.as_bytes()))));
        }
        Ok(lines)
    });
    match r {
        Ok(Ok(lines)) => {
            println!("status ok");
            for l in lines { println!("{l}"); }
            // artefact files as written to disk
            let mut files = vec![];
            fn walk(p: &std::path::Path, out: &mut Vec<std::path::PathBuf>) {
                if let Ok(rd) = std::fs::read_dir(p) {
                    for e in rd.flatten() {
                        let p = e.path();
                        if p.is_dir() { walk(&p, out) } else { out.push(p) }
                    }
                }
            }
            walk(&out_dir, &mut files);
            files.sort();
            for f in files {
                let b = std::fs::read(&f).unwrap_or_default();
                println!("file {} {}", f.strip_prefix(&out_dir).unwrap().display(), hex::encode(Sha256::digest(&b)));
            }
        }
        Ok(Err(e)) => println!("status build_error {}", format!("{e:#}").replace('\n', " ").chars().take(300).collect::<String>()),
        Err(p) => println!("status panic {}", p.replace('\n', " ")),
    }
}
