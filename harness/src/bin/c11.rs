//! C11 harness: build each given contract package through the real forc pipeline (optionally printing the
//! initial IR to stdout before the JSON line, so the `_method_names` pool of `__entry` is observable),
//! slots forc emits for deployment (`BuiltPackage.storage_slots`), then run the package's `#[test]`
//! functions with forc-test (which deploys the contract with exactly those slots) and print receipts.
//!   c11 [--release] [--no-run] [--ir] [--verbose] <pkgdir>...
//! Output: one JSON line per package
//!   {"pkg":..,"status":"ok"|"build_error"|"panic","error":..,"slots":[[keyhex,valuehex]..],"tests":[..]}
use hx::util::{guarded, quiet_panics};
use serde_json::json;

fn receipt(r: &fuel_tx::Receipt) -> serde_json::Value {
    use fuel_tx::Receipt::*;
    match r {
        LogData { rb, data, .. } => json!({"k":"LogData","rb":rb.to_string(),"data":hex::encode(data.as_ref().map(|d| d.to_vec()).unwrap_or_default())}),
        Log { ra, rb, .. } => json!({"k":"Log","ra":ra.to_string(),"rb":rb.to_string()}),
        Revert { ra, .. } => json!({"k":"Revert","ra":ra.to_string()}),
        Panic { reason, .. } => json!({"k":"Panic","reason":format!("{:?}", reason.reason())}),
        _ => json!({"k":"Other"}),
    }
}

fn run_pkg(dir: &str, release: bool, no_run: bool, ir: bool, verbose: bool) -> serde_json::Value {
    let mut slots_json = json!(null);
    let r = guarded(|| -> anyhow::Result<serde_json::Value> {
        let mut opts = forc_test::TestOpts::default();
        opts.pkg.path = Some(dir.to_string());
        opts.pkg.offline = true;
        opts.pkg.terse = !verbose;
        opts.release = release;
        opts.no_output = true;
        opts.print.ir.initial = ir;
        let build_opts: forc_pkg::BuildOpts = opts.into();
        let build_plan = forc_pkg::BuildPlan::from_pkg_opts(&build_opts.pkg)?;
        let built = forc_pkg::build_with_options(&build_opts, None)?;
        let slots = match &built {
            forc_pkg::Built::Package(p) => p.storage_slots.clone(),
            forc_pkg::Built::Workspace(_) => vec![],
        };
        slots_json = json!(slots
            .iter()
            .map(|s| json!([hex::encode(s.key().as_ref()), hex::encode(s.value().as_ref())]))
            .collect::<Vec<_>>());
        if no_run {
            return Ok(json!([]));
        }
        let tests = forc_test::BuiltTests::from_built(built, &build_plan)?;
        let tested = tests.run(
            forc_test::TestRunnerCount::Auto,
            None,
            fuel_tx::GasCostsValues::default(),
            forc_test::TestGasLimit::Default,
        )?;
        let pkgs = match tested {
            forc_test::Tested::Package(p) => vec![*p],
            forc_test::Tested::Workspace(ps) => ps,
        };
        let mut out = vec![];
        for p in pkgs {
            for t in &p.tests {
                out.push(json!({
                    "name": t.name,
                    "passed": t.passed(),
                    "state": format!("{:?}", t.state),
                    "receipts": t.logs.iter().map(receipt).collect::<Vec<_>>(),
                }));
            }
        }
        Ok(json!(out))
    });
    match r {
        Ok(Ok(tests)) => json!({"pkg": dir, "status": "ok", "slots": slots_json, "tests": tests}),
        Ok(Err(e)) => json!({"pkg": dir, "status": "build_error", "slots": slots_json,
                             "error": format!("{:#}", e).chars().take(4000).collect::<String>()}),
        Err(p) => json!({"pkg": dir, "status": "panic", "slots": slots_json, "error": p}),
    }
}

fn main() {
    quiet_panics();
    let (mut release, mut no_run, mut ir, mut verbose) = (false, false, false, false);
    let mut dirs = vec![];
    for a in std::env::args().skip(1) {
        if a == "--release" { release = true } else if a == "--no-run" { no_run = true } else if a == "--ir" { ir = true } else if a == "--verbose" { verbose = true } else { dirs.push(a) }
    }
    for d in dirs {
        println!("{}", run_pkg(&d, release, no_run, ir, verbose));
    }
}
