//! C05 harness: IR text round trips through the real printer / parser.
//!   c05 <outfile>      cases on stdin, tab separated:
//!     rt   <id> <ir file> <pass,pass,...|->     after parsing and after every pass: t1 = print(m),
//!                                               m2 = parse(t1) (parse verifies), t2 = print(m2); t1 == t2 ?
//!     be   <id> <ir file> <O0|O1>               standard pipeline, then backend on m and on parse(print m):
//!                                               bytecode must be identical
//!     leaf <id> <const|type> <hex of leaf text> tiny module around the leaf; parse, print, extract the leaf
//! outfile lines:
//!   C <id>
//!   R <step> <name> ok | diff <line no> <hex t1 line> <hex t2 line> | reparse:<Class> | pass:<Class> | panic:<msg>
//!   B ok <bytes> | skip:<why> | diff <len1> <len2> | panic:<msg>
//!   L ok <hex of printed leaf> | reject:<Class> | panic:<msg> | noleaf
//!   E <id>
#[path = "../ir_common.rs"]
mod ir_common;
use hx::util::{guarded, hex_decode, quiet_panics};
use ir_common::*;
use std::io::{BufRead, Write};
use sway_ir::{Context, PassGroup};

fn clip(s: String) -> String {
    s.replace('\n', " ").chars().take(200).collect()
}

/// print -> parse -> print on the current state of `ctx`
fn round_trip(ctx: &Context) -> String {
    let r = guarded(|| {
        let t1 = sway_ir::printer::to_string(ctx);
        let se = sway_types::SourceEngine::default();
        let m2 = match sway_ir::parser::parse(&t1, &se, experimental(), sway_ir::Backtrace::default()) {
            Ok(m) => m,
            Err(e) => return format!("reparse:{} {}", err_class(&e), hex::encode(clip(e.to_string()))),
        };
        if let Err(e) = m2.verify() {
            return format!("reverify:{}", err_class(&e));
        }
        let t2 = sway_ir::printer::to_string(&m2);
        if t1 == t2 {
            return "ok".to_string();
        }
        // The printer names unnamed values after their arena key (`v<idx>v<version>`), which a re-parsed
        // module allocates afresh: compare modulo a renaming of these names by first occurrence, and
        // require the second round trip to be exact.
        let (c1, c2) = (canon_names(&t1), canon_names(&t2));
        if c1 == c2 {
            let se3 = sway_types::SourceEngine::default();
            return match sway_ir::parser::parse(&t2, &se3, experimental(), sway_ir::Backtrace::default()) {
                Ok(m3) => {
                    if sway_ir::printer::to_string(&m3) == t2 { "ok-renamed".to_string() } else { "unstable".to_string() }
                }
                Err(e) => format!("reparse2:{}", err_class(&e)),
            };
        }
        // Known asymmetry (KNOWN_FINDINGS entry-arg-immutability): the parser ignores the `mut` marker of
        // entry block arguments. Report it as its own class and keep comparing the rest.
        let (e1, e2) = (strip_entry_mut(&c1), strip_entry_mut(&c2));
        if e1 == e2 {
            return "ok-entrymut".to_string();
        }
        let (t1, t2) = (e1, e2);
        let (mut a, mut b) = (t1.lines(), t2.lines());
        let mut n = 0;
        loop {
            n += 1;
            match (a.next(), b.next()) {
                (Some(x), Some(y)) if x == y => continue,
                (x, y) => {
                    return format!("diff {} {} {}", n, hex::encode(x.unwrap_or("<eof>")), hex::encode(y.unwrap_or("<eof>")));
                }
            }
        }
    });
    match r {
        Ok(s) => s,
        Err(p) => format!("panic:{}", clip(p)),
    }
}

/// Canonical value names. The printer names unnamed values after their arena key (`v<idx>v<version>`);
/// a constant used at several places is printed as several `vK = const ...` lines with the same name.
/// Every *definition occurrence* (token followed by `=`, or by `:` / `!n:` in a block header) gets a
/// fresh number, a use refers to the latest definition of its name — the resolution the parser itself
/// performs (`val_map.insert` / `val_map.get`).
fn canon_names(t: &str) -> String {
    let b = t.as_bytes();
    let mut out = String::with_capacity(t.len());
    let mut map: std::collections::HashMap<&str, usize> = std::collections::HashMap::new();
    let mut next = 0usize;
    let is_id = |c: u8| c.is_ascii_alphanumeric() || c == b'_';
    let mut i = 0;
    while i < b.len() {
        if is_id(b[i]) && (i == 0 || !is_id(b[i - 1])) {
            let mut j = i;
            while j < b.len() && is_id(b[j]) {
                j += 1;
            }
            let tok = &t[i..j];
            let tb = tok.as_bytes();
            let mut k = 1;
            let mut ok = tb[0] == b'v';
            let d1 = k;
            while ok && k < tb.len() && tb[k].is_ascii_digit() {
                k += 1;
            }
            ok = ok && k > d1 && k < tb.len() && tb[k] == b'v';
            k += 1;
            let d2 = k;
            while ok && k < tb.len() && tb[k].is_ascii_digit() {
                k += 1;
            }
            ok = ok && k > d2 && k == tb.len();
            if ok {
                // definition?
                let mut m = j;
                while m < b.len() && b[m] == b' ' {
                    m += 1;
                }
                if m < b.len() && b[m] == b'!' {
                    m += 1;
                    while m < b.len() && b[m].is_ascii_digit() {
                        m += 1;
                    }
                }
                let is_def = m < b.len() && ((b[m] == b'=' && !(m + 1 < b.len() && b[m + 1] == b'=')) || b[m] == b':');
                let id = if is_def || !map.contains_key(tok) {
                    let n = next;
                    next += 1;
                    map.insert(tok, n);
                    n
                } else {
                    map[tok]
                };
                out.push_str(&format!("%{}", id));
            } else {
                out.push_str(tok);
            }
            i = j;
        } else {
            let ch_len = t[i..].chars().next().map(|c| c.len_utf8()).unwrap_or(1);
            out.push_str(&t[i..i + ch_len]);
            i += ch_len;
        }
    }
    out
}

fn strip_entry_mut(t: &str) -> String {
    t.lines()
        .map(|l| if l.trim_start().starts_with("entry(") { l.replace("mut ", "") } else { l.to_string() })
        .collect::<Vec<_>>()
        .join("\n")
}

fn pipeline(level: &str) -> Vec<&'static str> {
    // sway-core/src/lib.rs compile_ast_to_ir_to_asm
    let mut v = vec!["lower-init-aggr"];
    if level == "O1" {
        v.extend(["mem2reg", "fn-dedup-release", "inline", "arg_pointee_mutability_tagger", "simplify-cfg", "globals-dce", "dce",
                  "inline", "arg_pointee_mutability_tagger", "ccp", "const-folding", "simplify-cfg", "cse", "const-folding",
                  "simplify-cfg", "globals-dce", "dce", "fn-dedup-release"]);
    } else {
        v.extend(["fn-dedup-debug", "inline", "globals-dce", "dce"]);
    }
    v.extend(["const-demotion", "arg-demotion", "ret-demotion", "misc-demotion", "arg_pointee_mutability_tagger", "memcpyopt", "dce", "simplify-cfg"]);
    if level == "O1" {
        v.extend(["memcpyprop_reverse", "sroa", "mem2reg", "dce"]);
    }
    v
}

fn to_bytecode(ctx: &Context, level: &str) -> Result<Vec<u8>, String> {
    let handler = sway_error::handler::Handler::default();
    let cfg = sway_core::BuildConfig::dummy_for_asm_generation().with_optimization_level(if level == "O1" {
        sway_core::OptLevel::Opt1
    } else {
        sway_core::OptLevel::Opt0
    });
    let finalized_asm = sway_core::compile_ir_context_to_finalized_asm(&handler, ctx, Some(&cfg)).map_err(|_| {
        let (e, _, _) = handler.consume();
        format!("asm:{}", clip(e.iter().take(2).map(|e| e.to_string()).collect::<Vec<_>>().join(" | ")))
    })?;
    let mut asm = sway_core::CompiledAsm { finalized_asm, panic_occurrences: Default::default(), panicking_call_occurrences: Default::default() };
    let handler = sway_error::handler::Handler::default();
    let mut sm = sway_core::source_map::SourceMap::new();
    let bc = sway_core::asm_to_bytecode(&handler, &mut asm, &mut sm, ctx.source_engine, &cfg).map_err(|_| {
        let (e, _, _) = handler.consume();
        format!("bytecode:{}", clip(e.iter().take(2).map(|e| e.to_string()).collect::<Vec<_>>().join(" | ")))
    })?;
    Ok(bc.bytecode)
}

fn backend(text: &str, level: &str) -> String {
    let r = guarded(|| {
        let se = sway_types::SourceEngine::default();
        let mut ctx = match parse_ir(text, &se) {
            Ok(c) => c,
            Err(e) => return format!("skip:parse:{}", err_class(&e)),
        };
        ctx.verify_ssa_dominance = false;
        let mut pm = new_pass_manager();
        let mut g = PassGroup::default();
        for p in pipeline(level) {
            g.append_pass(pm.lookup_registered_pass(p).unwrap().name);
        }
        if let Err(e) = pm.run(&mut ctx, &g, &sway_ir::Options::default()) {
            return format!("skip:pipeline:{}", err_class(&e));
        }
        let b1 = match to_bytecode(&ctx, level) {
            Ok(b) => b,
            Err(e) => return format!("skip:{}", e),
        };
        let t1 = sway_ir::printer::to_string(&ctx);
        let se2 = sway_types::SourceEngine::default();
        let m2 = match sway_ir::parser::parse(&t1, &se2, experimental(), sway_ir::Backtrace::default()) {
            Ok(m) => m,
            Err(e) => return format!("reparse:{}", err_class(&e)),
        };
        match to_bytecode(&m2, level) {
            Ok(b2) if b1 == b2 => format!("ok {}", b1.len()),
            Ok(b2) => format!("diff {} {}", b1.len(), b2.len()),
            Err(e) => format!("backend-rejects-reparsed:{}", e),
        }
    });
    match r {
        Ok(s) => s,
        Err(p) => format!("panic:{}", clip(p)),
    }
}

fn main() {
    quiet_panics();
    let outp = std::env::args().nth(1).expect("usage: c05 <outfile>");
    let outp_s = outp.clone();
    let mut out = std::io::BufWriter::new(std::fs::File::create(outp).unwrap());
    let stdin = std::io::stdin();
    for line in stdin.lock().lines() {
        let line = line.unwrap();
        let p: Vec<&str> = line.split('\t').collect();
        if p.len() < 4 {
            continue;
        }
        let (mode, id) = (p[0], p[1]);
        writeln!(out, "C {}", id).unwrap();
        match mode {
            "rt" => {
                let text = std::fs::read_to_string(p[2]).unwrap_or_default();
                let se = sway_types::SourceEngine::default();
                match guarded(|| parse_ir(&text, &se)) {
                    Ok(Ok(mut ctx)) => {
                        writeln!(out, "R 0 parse {}", round_trip(&ctx)).unwrap();
                        let mut pm = new_pass_manager();
                        let mut step = 0;
                        for name in p[3].split(',').filter(|s| !s.is_empty() && *s != "-") {
                            step += 1;
                            match guarded(|| run_pass(&mut pm, &mut ctx, name)) {
                                Ok(Ok(_)) => writeln!(out, "R {} {} {}", step, name, round_trip(&ctx)).unwrap(),
                                Ok(Err(cls)) => {
                                    writeln!(out, "R {} {} pass:{}", step, name, cls).unwrap();
                                    break;
                                }
                                Err(pn) => {
                                    writeln!(out, "R {} {} passpanic:{}", step, name, clip(pn)).unwrap();
                                    break;
                                }
                            }
                        }
                    }
                    Ok(Err(e)) => writeln!(out, "R 0 parse input:{} {}", err_class(&e), hex::encode(clip(e.to_string()))).unwrap(),
                    Err(pn) => writeln!(out, "R 0 parse inputpanic:{}", clip(pn)).unwrap(),
                }
            }
            "dump" => {
                // dump <id> <ir file> <passes>: write the IR text after the passes to <ir file>.<id>.dump
                let text = std::fs::read_to_string(p[2]).unwrap_or_default();
                let se = sway_types::SourceEngine::default();
                if let Ok(Ok(mut ctx)) = guarded(|| parse_ir(&text, &se)) {
                    let mut pm = new_pass_manager();
                    for name in p[3].split(',').filter(|s| !s.is_empty() && *s != "-") {
                        let _ = guarded(|| run_pass(&mut pm, &mut ctx, name));
                    }
                    if let Ok(t) = guarded(|| sway_ir::printer::to_string(&ctx)) {
                        let _ = std::fs::write(format!("{}.{}.dump", outp_s, id), t);
                    }
                }
            }
            "be" => {
                let text = std::fs::read_to_string(p[2]).unwrap_or_default();
                writeln!(out, "B {}", backend(&text, p[3])).unwrap();
            }
            "leaf" => {
                // leaf <id> <const|type> <hex type text> <hex value text|->
                let ty = String::from_utf8_lossy(&hex_decode(p[3])).to_string();
                let r = if p[2] == "const" {
                    let val = String::from_utf8_lossy(&hex_decode(p.get(4).copied().unwrap_or(""))).to_string();
                    let text = format!("script {{\n    fn main() -> {ty} {{\n        entry():\n        v0 = const {ty} {val}\n        ret {ty} v0\n    }}\n}}\n");
                    leaf_text(&text, "= const ", None)
                } else {
                    let text = format!("script {{\n    fn main() -> () {{\n        local {ty} x\n\n        entry():\n        v0 = const unit ()\n        ret () v0\n    }}\n}}\n");
                    leaf_text(&text, "local ", Some(" x"))
                };
                writeln!(out, "L {}", r).unwrap();
            }
            _ => {}
        }
        writeln!(out, "E {}", id).unwrap();
        out.flush().unwrap();
    }
}

fn leaf_text(text: &str, marker: &str, suffix: Option<&str>) -> String {
    let r = guarded(|| {
        let se = sway_types::SourceEngine::default();
        let ctx = match sway_ir::parser::parse(text, &se, experimental(), sway_ir::Backtrace::default()) {
            Ok(c) => c,
            Err(e) => return format!("reject:{}", err_class(&e)),
        };
        let out = sway_ir::printer::to_string(&ctx);
        for l in out.lines() {
            if let Some(i) = l.find(marker) {
                let mut s = &l[i + marker.len()..];
                if let Some(sf) = suffix {
                    s = s.strip_suffix(sf).unwrap_or(s);
                }
                // the implementation's own round trip on the printed module
                let se2 = sway_types::SourceEngine::default();
                let rt = match sway_ir::parser::parse(&out, &se2, experimental(), sway_ir::Backtrace::default()) {
                    Ok(m2) => if sway_ir::printer::to_string(&m2) == out { "rt-ok" } else { "rt-diff" },
                    Err(_) => "rt-reject",
                };
                return format!("ok {} {}", hex::encode(s), rt);
            }
        }
        "noleaf".to_string()
    });
    match r {
        Ok(s) => s,
        Err(p) => format!("panic:{}", clip(p)),
    }
}
