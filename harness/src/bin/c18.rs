//! C18 harness: the real formatter applied twice, and the whole-text newline stages.
//! stdin, one request per line:
//!   `F <style> <src hex>`   style: a auto | n native | w windows | u unix
//!        -> `same <fmt1 hex>` fmt(fmt x) == fmt x | `diff <fmt1 hex> <fmt2 hex>` |
//!           `err1` x does not format (not applicable) | `err2 <fmt1 hex>` fmt x does not format again |
//!           `panic1 <msg>` | `panic2 <fmt1 hex>`
//!   `S <stage> <text hex> <raw hex>`  -> `ok <hex>` | `err` | `panic`   (swayfmt::verif_newline_stage)
//! Output lines are in input order (requests are processed in parallel).
use hx::util::{guarded, hex_decode, quiet_panics};
use rayon::prelude::*;
use std::io::{BufRead, Write};
use swayfmt::config::whitespace::NewlineStyle;

fn fmt_once(style: NewlineStyle, src: &str) -> Result<Result<String, String>, String> {
    guarded(|| {
        let mut f = swayfmt::Formatter::default();
        f.config.whitespace.newline_style = style;
        f.format(src.into()).map_err(|e| e.to_string())
    })
}

fn handle(line: &str) -> String {
    let parts: Vec<&str> = line.split(' ').collect();
    match parts[0] {
        "F" => {
            let style = match parts[1] { "w" => NewlineStyle::Windows, "u" => NewlineStyle::Unix, "n" => NewlineStyle::Native, _ => NewlineStyle::Auto };
            let src = String::from_utf8(hex_decode(parts.get(2).copied().unwrap_or(""))).unwrap();
            let one = match fmt_once(style, &src) {
                Ok(Ok(s)) => s,
                Ok(Err(_)) => return "err1".into(),
                Err(p) => return format!("panic1 {}", p.chars().map(|c| if c.is_control() { ' ' } else { c }).take(200).collect::<String>()),
            };
            match fmt_once(style, &one) {
                Ok(Ok(two)) => if two == one { format!("same {}", hex::encode(&one)) } else { format!("diff {} {}", hex::encode(&one), hex::encode(&two)) },
                Ok(Err(_)) => format!("err2 {}", hex::encode(&one)),
                Err(_) => format!("panic2 {}", hex::encode(&one)),
            }
        }
        "S" => {
            let stage: u8 = parts[1].parse().unwrap();
            let text = String::from_utf8(hex_decode(parts.get(2).copied().unwrap_or(""))).unwrap();
            let raw = String::from_utf8(hex_decode(parts.get(3).copied().unwrap_or(""))).unwrap();
            match guarded(|| swayfmt::verif_newline_stage(stage, &text, &raw)) {
                Ok(Ok(s)) => format!("ok {}", hex::encode(s)),
                Ok(Err(_)) => "err".into(),
                Err(_) => "panic".into(),
            }
        }
        _ => "bad".into(),
    }
}

fn main() {
    quiet_panics();
    let lines: Vec<String> = std::io::stdin().lock().lines().map(|l| l.unwrap()).filter(|l| !l.trim().is_empty()).collect();
    let res: Vec<String> = lines.par_iter().map(|l| handle(l.trim_end())).collect();
    let out = std::io::stdout();
    let mut out = std::io::BufWriter::new(out.lock());
    for r in res { writeln!(out, "{r}").unwrap(); }
}
