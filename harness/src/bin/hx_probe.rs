fn main() { println!("hx ok"); }
