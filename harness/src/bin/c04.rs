//! C04 harness: parse an IR file, run a sequence of registered passes one by one through the real
//! `PassManager` (SSA dominance verification switched on), optionally malform the result in memory,
//! and report after every step what `Context::verify()` says, together with the CFG of every
//! function as a Coq term for the proved checker.
//!   c04 <outfile>        cases on stdin, one per line, tab separated:
//!       <id> \t <ir file> \t <pass,pass,...|-> \t <mutation spec|-> \t <export 0|1>
//! outfile lines:
//!   C <id>
//!   S <step> <name> <status>          status = ok | verr:<Class> | perr:<Class> | panic:<msg> | na
//!   F <step> <fn name> <hash> <nblocks> <ninstrs>
//!   D <hash> <coq term>               (once per distinct CFG in the whole run)
//!   E <id>
#[path = "../ir_common.rs"]
mod ir_common;
use hx::util::{guarded, quiet_panics};
use ir_common::*;
use std::collections::HashSet;
use std::hash::{Hash, Hasher};
use std::io::{BufRead, Write};

fn h64(s: &str) -> u64 {
    let mut h = std::collections::hash_map::DefaultHasher::new();
    s.hash(&mut h);
    h.finish()
}

fn export_all(out: &mut impl Write, seen: &mut HashSet<u64>, ctx: &sway_ir::Context, step: usize) {
    let r = guarded(|| all_functions(ctx).into_iter().map(|f| export_fn(ctx, f)).collect::<Vec<_>>());
    match r {
        Ok(fs) => {
            for f in fs {
                let h = h64(&f.term);
                if seen.insert(h) {
                    writeln!(out, "D {:016x} {}", h, f.term).unwrap();
                }
                writeln!(out, "F {} {} {:016x} {} {}", step, f.name, h, f.nblocks, f.ninstrs).unwrap();
            }
        }
        Err(p) => writeln!(out, "X {} export-panic {}", step, p.replace('\n', " ")).unwrap(),
    }
}

fn verify_status(ctx: &sway_ir::Context) -> String {
    match guarded(|| ctx.verify()) {
        Ok(Ok(())) => "ok".into(),
        Ok(Err(e)) => format!("verr:{}", err_class(&e)),
        Err(p) => format!("panic:verify {}", p.replace('\n', " ").chars().take(200).collect::<String>()),
    }
}

fn main() {
    quiet_panics();
    let outp = std::env::args().nth(1).expect("usage: c04 <outfile>");
    let mut out = std::io::BufWriter::new(std::fs::File::create(outp).unwrap());
    let mut seen: HashSet<u64> = HashSet::new();
    let stdin = std::io::stdin();
    for line in stdin.lock().lines() {
        let line = line.unwrap();
        let p: Vec<&str> = line.split('\t').collect();
        if p.len() < 5 {
            continue;
        }
        let (id, path, passes, mutation, export) = (p[0], p[1], p[2], p[3], p[4] == "1");
        writeln!(out, "C {}", id).unwrap();
        let text = std::fs::read_to_string(path).unwrap_or_default();
        let se = sway_types::SourceEngine::default();
        let parsed = guarded(|| parse_ir(&text, &se));
        let mut ctx = match parsed {
            Ok(Ok(c)) => c,
            Ok(Err(e)) => {
                writeln!(out, "S 0 parse perr:{}", err_class(&e)).unwrap();
                writeln!(out, "E {}", id).unwrap();
                continue;
            }
            Err(pn) => {
                writeln!(out, "S 0 parse panic:{}", pn.replace('\n', " ").chars().take(200).collect::<String>()).unwrap();
                writeln!(out, "E {}", id).unwrap();
                continue;
            }
        };
        writeln!(out, "S 0 parse {}", verify_status(&ctx)).unwrap();
        if export {
            export_all(&mut out, &mut seen, &ctx, 0);
        }
        let mut pm = new_pass_manager();
        let mut step = 0;
        let mut alive = true;
        for name in passes.split(',').filter(|s| !s.is_empty() && *s != "-") {
            step += 1;
            let r = guarded(|| run_pass(&mut pm, &mut ctx, name));
            match r {
                Ok(Ok(_modified)) => {
                    writeln!(out, "S {} {} {}", step, name, verify_status(&ctx)).unwrap();
                }
                Ok(Err(cls)) => {
                    writeln!(out, "S {} {} perr:{}", step, name, cls).unwrap();
                    alive = false;
                }
                Err(pn) => {
                    writeln!(out, "S {} {} panic:{}", step, name, pn.replace('\n', " ").chars().take(200).collect::<String>()).unwrap();
                    alive = false;
                    break;
                }
            }
            if export {
                export_all(&mut out, &mut seen, &ctx, step);
            }
            if !alive {
                break;
            }
        }
        if alive && mutation != "-" {
            step += 1;
            match guarded(|| mutate(&mut ctx, mutation)) {
                Ok(Some(descr)) => {
                    writeln!(out, "S {} mut:{} {}", step, descr.replace(' ', "_"), verify_status(&ctx)).unwrap();
                    export_all(&mut out, &mut seen, &ctx, step);
                }
                Ok(None) => writeln!(out, "S {} mut na", step).unwrap(),
                Err(pn) => writeln!(out, "S {} mut panic:{}", step, pn.replace('\n', " ").chars().take(200).collect::<String>()).unwrap(),
            }
        }
        writeln!(out, "E {}", id).unwrap();
        out.flush().unwrap();
    }
}
