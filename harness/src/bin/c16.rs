//! C16 harness: run the REAL lexer (`sway_parse::lex_commented`) and parser (`sway_parse::parse_file`)
//! on inputs read from stdin (one per line, hex of valid UTF-8) and print, per input, one line
//!
//!   `<nbytes>\t<scalars>\t<ucls>\t<lex>\t<parse>`
//!
//! where everything is already in Coq term syntax (C16/Judge.v):
//!   scalars  `[i;...]`  the scalar values of the text that was lexed, three per primitive int
//!            ((c+1) in 21-bit fields, first scalar in the low bits); spans are `start * 2^31 + end`;
//!            all numbers are Coq primitive-int literals (parsed much faster than N literals)
//!   ucls     `[(233,6);...]`                     class bits of each distinct non-ASCII scalar
//!                                                (1 = char::is_whitespace, 2 = XID_Start, 4 = XID_Continue)
//!   lex      `XLexOk [toks] span [errs]` | `XLexErr [errs]` | `XLexPanic`
//!   parse    `XParse <0|1> [span;...] <nforeign_bad>` | `XParsePanic`
//! The token stream is flattened: a group is `TOpen d`, its children, then `TGroup d span inner`.
//! First line of output is `ascii-ok` after the ASCII character classes hard-coded in the Coq model
//! were compared with the real `char`/`unicode-xid` functions (or `ascii-MISMATCH ...`).
use hx::util::{guarded, hex_decode, quiet_panics};
use std::io::{BufRead, Write};
use sway_ast::literal::{LitIntType, Literal};
use sway_ast::token::{CommentKind, CommentedTokenStream, CommentedTokenTree, CommentedTree, DocStyle, Spacing};
use sway_error::error::CompileError;
use sway_error::handler::Handler;
use sway_error::lex_error::LexErrorKind;
use sway_features::ExperimentalFeatures;
use sway_types::ast::Delimiter;
use sway_types::span::Source;
use sway_types::{Span, Spanned};
use unicode_xid::UnicodeXID;

/// Coq list literal, chunked so that no literal has more than 400 elements (deep list notations
/// overflow coqc's stack).
pub fn coq_list(items: &[String]) -> String {
    if items.len() <= 400 {
        return format!("[{}]", items.join(";"));
    }
    let parts: Vec<String> = items.chunks(400).map(|c| format!("[{}]", c.join(";"))).collect();
    format!("({})", parts.join(" ++ "))
}

/// a span as one primitive int: start * 2^31 + end
pub fn sp(s: &Span) -> String {
    assert!(s.start() < (1 << 31) && s.end() < (1 << 31));
    (((s.start() as u64) << 31) | s.end() as u64).to_string()
}

pub fn delim(d: Delimiter) -> u32 {
    match d {
        Delimiter::Parenthesis => 0,
        Delimiter::Brace => 1,
        Delimiter::Bracket => 2,
    }
}

pub fn int_ty(t: &LitIntType) -> u32 {
    match t {
        LitIntType::U8 => 0,
        LitIntType::U16 => 1,
        LitIntType::U32 => 2,
        LitIntType::U64 => 3,
        LitIntType::U256 => 4,
        LitIntType::I8 => 5,
        LitIntType::I16 => 6,
        LitIntType::I32 => 7,
        LitIntType::I64 => 8,
    }
}

pub fn flatten(ts: &CommentedTokenStream, out: &mut Vec<String>) {
    for tt in ts.token_trees() {
        match tt {
            CommentedTokenTree::Comment(c) => {
                let k = match c.comment_kind {
                    CommentKind::Newlined => 0,
                    CommentKind::Trailing => 1,
                    CommentKind::Inlined => 2,
                    CommentKind::Multilined => 3,
                };
                out.push(format!("XComment {} {}", k, sp(&c.span)));
            }
            CommentedTokenTree::Tree(t) => match t {
                CommentedTree::Punct(p) => out.push(format!(
                    "XPunct {} {} {}",
                    p.kind.as_char() as u32,
                    if p.spacing == Spacing::Joint { "true" } else { "false" },
                    sp(&p.span)
                )),
                CommentedTree::Ident(i) => out.push(format!(
                    "XIdent {} {}",
                    if i.is_raw_ident() { "true" } else { "false" },
                    sp(&i.span())
                )),
                CommentedTree::Group(g) => {
                    out.push(format!("XOpen {}", delim(g.delimiter)));
                    flatten(&g.token_stream, out);
                    out.push(format!("XGroup {} {} {}", delim(g.delimiter), sp(&g.span), sp(&g.token_stream.span())));
                }
                CommentedTree::Literal(l) => match l {
                    Literal::String(s) => out.push(format!("XStr {}", sp(&s.span))),
                    Literal::Char(c) => out.push(format!("XChar {}", sp(&c.span))),
                    Literal::Int(i) => match &i.ty_opt {
                        None => out.push(format!("XInt {} None", sp(&i.span))),
                        Some((ty, tsp)) => out.push(format!("XInt {} (Some ({},{}))", sp(&i.span), int_ty(ty), sp(tsp))),
                    },
                    Literal::Bool(b) => out.push(format!("XBool {}", sp(&b.span))),
                },
                CommentedTree::DocComment(d) => out.push(format!(
                    "XDoc {} {} {}",
                    if d.doc_style == DocStyle::Outer { 0 } else { 1 },
                    sp(&d.span),
                    sp(&d.content_span)
                )),
            },
        }
    }
}

pub fn lex_kind(k: &LexErrorKind) -> u32 {
    use LexErrorKind::*;
    match k {
        UnclosedMultilineComment { .. } => 1,
        UnexpectedCloseDelimiter { .. } => 2,
        MismatchedDelimiters { .. } => 3,
        UnclosedDelimiter { .. } => 4,
        UnclosedStringLiteral { .. } => 5,
        UnclosedCharLiteral { .. } => 6,
        ExpectedCloseQuote { .. } => 7,
        IncompleteHexIntLiteral { .. } => 8,
        IncompleteBinaryIntLiteral { .. } => 9,
        IncompleteOctalIntLiteral { .. } => 10,
        InvalidIntSuffix { .. } => 11,
        InvalidCharacter { .. } => 12,
        InvalidHexEscape => 13,
        UnicodeEscapeMissingBrace { .. } => 14,
        InvalidUnicodeEscapeDigit { .. } => 15,
        UnicodeEscapeOutOfRange { .. } => 16,
        UnicodeEscapeInvalidCharValue { .. } => 17,
        UnicodeTextDirInLiteral { .. } => 18,
        InvalidEscapeCode { .. } => 19,
    }
}

pub fn lex_errs(errors: &[CompileError]) -> String {
    let v: Vec<String> = errors
        .iter()
        .map(|e| match e {
            CompileError::Lex { error } => format!("({},{})", lex_kind(&error.kind), sp(&error.span)),
            other => format!("(0,{})", sp(&other.span())),
        })
        .collect();
    coq_list(&v)
}

pub fn ascii_selfcheck() -> String {
    // must agree with ascii_ws / ascii_xid_start / ascii_xid_continue in coq/C16/Model.v
    for c in 0u32..128 {
        let ch = char::from_u32(c).unwrap();
        let ws = matches!(c, 9..=13 | 32);
        let xs = ch.is_ascii_alphabetic();
        let xc = ch.is_ascii_alphanumeric() || ch == '_';
        if ch.is_whitespace() != ws || ch.is_xid_start() != xs || ch.is_xid_continue() != xc {
            return format!("ascii-MISMATCH {}", c);
        }
        if ch.len_utf8() != 1 {
            return format!("ascii-MISMATCH len {}", c);
        }
    }
    "ascii-ok".to_string()
}

/// scalars (packed), class table and the real lexer's flattened stream of `text`, as Coq terms
pub fn dump_text(text: &str) -> (String, String, String) {
    let mut scal: Vec<u64> = Vec::new();
    let mut ucls: Vec<(u32, u32)> = Vec::new();
    for ch in text.chars() {
        scal.push(ch as u64 + 1);
        if !ch.is_ascii() && !ucls.iter().any(|(c, _)| *c == ch as u32) {
            let bits = (ch.is_whitespace() as u32) | ((ch.is_xid_start() as u32) << 1) | ((ch.is_xid_continue() as u32) << 2);
            ucls.push((ch as u32, bits));
        }
    }
    // three scalars per primitive int, (c+1) in 21-bit fields, first in the low bits
    let scal_items: Vec<String> = scal
        .chunks(3)
        .map(|c| (c[0] | (c.get(1).copied().unwrap_or(0) << 21) | (c.get(2).copied().unwrap_or(0) << 42)).to_string())
        .collect();
    let scal = coq_list(&scal_items);
    let ucls_s = format!("[{}]", ucls.iter().map(|(c, b)| format!("({},{})", c, b)).collect::<Vec<_>>().join(";"));

    // ---- lexer
    let lex = guarded(|| {
        let handler = Handler::default();
        let src: Source = text.into();
        let r = sway_parse::lex_commented(&handler, src, 0, text.len(), &None);
        let (errors, _w, _i) = handler.consume();
        match r {
            Ok(ts) => {
                let mut toks = Vec::new();
                flatten(&ts, &mut toks);
                format!("XLexOk {} {} {}", coq_list(&toks), sp(&ts.span()), lex_errs(&errors))
            }
            Err(_) => format!("XLexErr {}", lex_errs(&errors)),
        }
    });
    let lex_s = match lex {
        Ok(s) => s,
        Err(_) => "XLexPanic".to_string(),
    };

    (scal, ucls_s, lex_s)
}

fn main() {
    quiet_panics();
    let stdin = std::io::stdin();
    let out = std::io::stdout();
    let mut out = std::io::BufWriter::new(out.lock());
    writeln!(out, "{}", ascii_selfcheck()).unwrap();
    for line in stdin.lock().lines() {
        let line = line.unwrap();
        let line = line.trim();
        if line.is_empty() {
            continue;
        }
        let bytes = if line == "-" { vec![] } else { hex_decode(line) };
        let text = String::from_utf8(bytes).expect("case is not valid UTF-8");
        let (scal, ucls_s, lex_s) = dump_text(&text);

        // ---- parser (lexer + parser through the public entry point)
        let parse = guarded(|| {
            let handler = Handler::default();
            let src: Source = text.as_str().into();
            let r = sway_parse::parse_file(&handler, src, None, ExperimentalFeatures::default());
            let (errors, warnings, _i) = handler.consume();
            let mut spans = Vec::new();
            let mut foreign_bad = 0usize;
            let mut push = |s: Span| {
                if s.src().text.as_ref() == text.as_str() {
                    spans.push(sp(&s));
                } else if s.src().text.get(s.start()..s.end()).is_none() {
                    foreign_bad += 1;
                }
            };
            for e in &errors {
                push(e.span());
            }
            for w in &warnings {
                push(w.span());
            }
            format!("XParse {} {} {}", if r.is_ok() { 1 } else { 0 }, coq_list(&spans), foreign_bad)
        });
        let parse_s = match parse {
            Ok(s) => s,
            Err(m) => format!("XParsePanic (* {} *)", m.replace('\n', " ").replace("*)", "* )").chars().take(160).collect::<String>()),
        };
        writeln!(out, "{}\t{}\t{}\t{}\t{}", text.len(), scal, ucls_s, lex_s, parse_s).unwrap();
    }
}
