//! Generic Sway runner: build each given package (with its #[test] functions) through the real
//! forc pipeline and execute the tests on fuel-vm, printing one JSON line per package.
//!   swayrun [--release] <pkgdir>...
//! Output line: {"pkg":..., "status":"ok"|"build_error"|"panic", "error":..., "tests":[
//!    {"name":..., "passed":bool, "state":"Return(v)"|"ReturnData"|"Revert(c)"|..., "receipts":[...]}]}
use hx::util::{guarded, quiet_panics};
use serde_json::json;

fn receipt_str(r: &fuel_tx::Receipt) -> serde_json::Value {
    use fuel_tx::Receipt::*;
    match r {
        Log { ra, rb, rc, rd, .. } => json!({"k":"Log","ra":ra.to_string(),"rb":rb.to_string(),"rc":rc.to_string(),"rd":rd.to_string()}),
        LogData { ra, rb, data, .. } => json!({"k":"LogData","ra":ra.to_string(),"rb":rb.to_string(),"data":hex::encode(data.as_ref().map(|d| d.to_vec()).unwrap_or_default())}),
        Return { val, .. } => json!({"k":"Return","val":val.to_string()}),
        ReturnData { data, .. } => json!({"k":"ReturnData","data":hex::encode(data.as_ref().map(|d| d.to_vec()).unwrap_or_default())}),
        Revert { ra, .. } => json!({"k":"Revert","ra":ra.to_string()}),
        Panic { reason, .. } => json!({"k":"Panic","reason":format!("{:?}", reason.reason())}),
        ScriptResult { result, .. } => json!({"k":"ScriptResult","result":format!("{:?}", result)}),
        other => json!({"k":"Other","dbg":format!("{:?}", other).chars().take(120).collect::<String>()}),
    }
}

fn run_pkg(dir: &str, release: bool) -> serde_json::Value {
    let r = guarded(|| -> anyhow::Result<serde_json::Value> {
        let mut opts = forc_test::TestOpts::default();
        opts.pkg.path = Some(dir.to_string());
        opts.pkg.offline = true;
        opts.pkg.terse = std::env::var("SWAYRUN_VERBOSE").is_err();
        opts.release = release;
        let built = forc_test::build(opts)?;
        let tested = built.run(
            forc_test::TestRunnerCount::Auto,
            None,
            fuel_tx::GasCostsValues::default(),
            forc_test::TestGasLimit::Default,
        )?;
        let pkgs = match tested {
            forc_test::Tested::Package(p) => vec![*p],
            forc_test::Tested::Workspace(ps) => ps,
        };
        let mut tests = vec![];
        for p in pkgs {
            for t in &p.tests {
                tests.push(json!({
                    "name": t.name,
                    "passed": t.passed(),
                    "state": format!("{:?}", t.state),
                    "gas": t.gas_used,
                    "receipts": t.logs.iter().map(receipt_str).collect::<Vec<_>>(),
                }));
            }
        }
        Ok(json!(tests))
    });
    match r {
        Ok(Ok(tests)) => json!({"pkg": dir, "status": "ok", "tests": tests}),
        Ok(Err(e)) => json!({"pkg": dir, "status": "build_error", "error": format!("{:#}", e).chars().take(4000).collect::<String>()}),
        Err(p) => json!({"pkg": dir, "status": "panic", "error": p}),
    }
}

fn main() {
    quiet_panics();
    let mut release = false;
    let mut dirs = vec![];
    for a in std::env::args().skip(1) {
        if a == "--release" { release = true } else { dirs.push(a) }
    }
    for d in dirs {
        println!("{}", run_pkg(&d, release));
    }
}
