//! C03 harness.
//!   c03 <outfile>      cases on stdin, tab separated:
//!     dedup <id> <ir file> <prefix passes|-> <fn-dedup-release|fn-dedup-debug>
//!         run the prefix, export every function body (uninterpreted labels), run the dedup pass, report every
//!         merged pair (calls to `old` now go to `new`) with both bodies as Coq terms of C03.Model.fn
//!     run   <id> <ir file> <pass,pass,...>
//!         run exactly these passes, compile with the real backend, execute the script on fuel-vm
//! outfile lines:
//!   C <id>
//!   P <old fn> <new fn> <coq term old> \x01 <coq term new>       (dedup)
//!   N <number of functions before> <after> <merged pairs>          (dedup)
//!   X ok <state> <receipts> | pipeline:<Class> | backend:<msg> | panic:<msg> | notscript
//!   E <id>
#[path = "../ir_common.rs"]
mod ir_common;
use hx::util::{guarded, quiet_panics};
use ir_common::*;
use std::collections::HashMap;
use std::io::{BufRead, Write};
use sway_ir::{Block, Context, Function, InstOp, PassGroup, Value};

fn clip(s: String) -> String {
    s.replace('\n', " ").chars().take(300).collect()
}

#[derive(Default)]
struct Interner {
    map: HashMap<String, usize>,
}
impl Interner {
    fn id(&mut self, s: String) -> usize {
        let n = self.map.len();
        *self.map.entry(s).or_insert(n)
    }
}

/// Everything of an instruction except its operands and successor blocks: the Debug rendering of the
/// InstOp (all fields, so nothing the pass forgets to hash is lost) with operand values, blocks,
/// callee and local variable handles replaced by placeholders / names.
fn label_of(ctx: &Context, f: Function, op: &InstOp) -> String {
    let mut s = format!("{:?}", op);
    let mut ops = op.get_operands();
    ops.sort_by_key(|v| std::cmp::Reverse(format!("{:?}", v).len()));
    for v in ops {
        s = s.replace(&format!("{:?}", v), "V");
    }
    match op {
        InstOp::Branch(t) => s = s.replace(&format!("{:?}", t.block), "B"),
        InstOp::ConditionalBranch { true_block, false_block, .. } => {
            s = s.replace(&format!("{:?}", true_block.block), "B").replace(&format!("{:?}", false_block.block), "B")
        }
        InstOp::Call(callee, _) => s = s.replace(&format!("{:?}", callee), &format!("@{}@", callee.get_name(ctx))),
        InstOp::GetLocal(l) => {
            s = s.replace(&format!("{:?}", l), &format!("local:{}", f.lookup_local_name(ctx, l).cloned().unwrap_or_default()))
        }
        _ => {}
    }
    if is_pure(op) {
        s = format!("pure:{s}");
    }
    s
}

enum Opd {
    V(usize),
    C(String),
}

/// Coq term of C03.Model.fn; label and constant numbers are looked up through `intern` AFTER the callee
/// names inside labels have been mapped through `rep` (the merges the pass performed).
fn export_body(ctx: &Context, f: Function, rep: &HashMap<String, String>, intern: &mut Interner) -> String {
    let mut vid: HashMap<Value, usize> = HashMap::new();
    export_body_ids(ctx, f, rep, intern, &mut vid, true)
}

/// `vid` may be shared between two exports of the same function (before / after a pass) so that a value
/// keeps its number; `with_sig` adds the signature pseudo instruction.
fn export_body_ids(ctx: &Context, f: Function, rep: &HashMap<String, String>, intern: &mut Interner, vid: &mut HashMap<Value, usize>, with_sig: bool) -> String {
    let blocks: Vec<Block> = f.block_iter(ctx).collect();
    let bidx: HashMap<Block, usize> = blocks.iter().enumerate().map(|(i, b)| (*b, i)).collect();
    let mut id_of = |v: Value| -> usize {
        let n = vid.len();
        *vid.entry(v).or_insert(n)
    };
    let map_label = |mut s: String| -> String {
        // callee names -> representative
        while let Some(a) = s.find('@') {
            let rest = &s[a + 1..];
            let Some(b) = rest.find('@') else { break };
            let name = &rest[..b];
            let r = rep.get(name).cloned().unwrap_or_else(|| name.to_string());
            s = format!("{}fn:{}{}", &s[..a], r, &rest[b + 1..]);
        }
        s
    };
    let opd = |ctx: &Context, v: Value, id_of: &mut dyn FnMut(Value) -> usize| -> Opd {
        match v.get_constant(ctx) {
            Some(c) => Opd::C(format!("{:?}", c.get_content(ctx))),
            None => Opd::V(id_of(v)),
        }
    };
    let mut render = |o: Opd, intern: &mut Interner| -> String {
        match o {
            Opd::V(i) => format!("OVal {}", i),
            Opd::C(s) => format!("OConst {}", intern.id(format!("const:{s}"))),
        }
    };
    // signature pseudo-instruction: return type and locals (name, type, mutability, initializer), as hash_fn hashes them
    let mut sig = format!("ret:{}", f.get_return_type(ctx).as_string(ctx));
    for (name, lv) in f.locals_iter(ctx) {
        sig.push_str(&format!(
            ";{}:{}:{}:{}",
            name,
            lv.get_type(ctx).as_string(ctx),
            lv.is_mutable(ctx),
            lv.get_initializer(ctx).map(|c| format!("{:?}", c.get_content(ctx))).unwrap_or_default()
        ));
    }
    let mut bl = vec![];
    for (bi, b) in blocks.iter().enumerate() {
        let params: Vec<String> = b
            .arg_iter(ctx)
            .map(|a| {
                let ty = a.get_type(ctx).map(|t| t.as_string(ctx)).unwrap_or_default();
                format!("({},{})", id_of(*a), intern.id(format!("ty:{ty}")))
            })
            .collect();
        let mut body: Vec<String> = vec![];
        let mut term = "THalt 0 []".to_string();
        for ins in b.instruction_iter(ctx) {
            let Some(i) = ins.get_instruction(ctx) else { continue };
            let label = map_label(label_of(ctx, f, &i.op));
            let tgt = |t: &sway_ir::BranchToWithArgs, id_of: &mut dyn FnMut(Value) -> usize, intern: &mut Interner| -> String {
                let args: Vec<String> = t.args.iter().map(|a| render(opd(ctx, *a, id_of), intern)).collect();
                format!("({}%nat,[{}])", bidx.get(&t.block).copied().unwrap_or(blocks.len()), args.join(";"))
            };
            if i.op.is_terminator() {
                term = match &i.op {
                    InstOp::Ret(v, _) => {
                        let o = render(opd(ctx, *v, &mut id_of), intern);
                        format!("TRet {} ({})", intern.id(label), o)
                    }
                    InstOp::Branch(t) => format!("TBr {}", tgt(t, &mut id_of, intern)),
                    InstOp::ConditionalBranch { cond_value, true_block, false_block } => {
                        let c = render(opd(ctx, *cond_value, &mut id_of), intern);
                        format!("TCbr ({}) {} {}", c, tgt(true_block, &mut id_of, intern), tgt(false_block, &mut id_of, intern))
                    }
                    other => {
                        let os: Vec<String> = other.get_operands().into_iter().map(|a| render(opd(ctx, a, &mut id_of), intern)).collect();
                        format!("THalt {} [{}]", intern.id(label), os.join(";"))
                    }
                };
            } else {
                let id = id_of(ins);
                let os: Vec<String> = i.op.get_operands().into_iter().map(|a| render(opd(ctx, a, &mut id_of), intern)).collect();
                body.push(format!("mkI {} {} [{}]", id, intern.id(label), os.join(";")));
            }
        }
        if bi == 0 && with_sig {
            // pseudo instruction with a fresh id
            let fresh = 1_000_000 + bi;
            body.insert(0, format!("mkI {} {} []", fresh, intern.id(format!("sig:{sig}"))));
        }
        bl.push(format!("mkB [{}] [{}] ({})", params.join(";"), body.join(";"), term));
    }
    format!("[{}]", bl.join(";"))
}

fn call_sites(ctx: &Context) -> Vec<(String, usize, usize, String)> {
    let mut v = vec![];
    for f in all_functions(ctx) {
        for (bi, b) in f.block_iter(ctx).enumerate() {
            for (ii, ins) in b.instruction_iter(ctx).enumerate() {
                if let Some(sway_ir::Instruction { op: InstOp::Call(callee, _), .. }) = ins.get_instruction(ctx) {
                    v.push((f.get_name(ctx).to_string(), bi, ii, callee.get_name(ctx).to_string()));
                }
            }
        }
    }
    v
}

fn dedup(out: &mut impl Write, text: &str, prefix: &str, pass: &str) {
    let r = guarded(|| -> Result<Vec<String>, String> {
        let se = sway_types::SourceEngine::default();
        let mut ctx = parse_ir(text, &se).map_err(|e| format!("parse:{}", err_class(&e)))?;
        let mut pm = new_pass_manager();
        for name in prefix.split(',').filter(|s| !s.is_empty() && *s != "-") {
            run_pass(&mut pm, &mut ctx, name).map_err(|e| format!("prefix:{e}"))?;
        }
        let before_sites = call_sites(&ctx);
        let fns_before: Vec<Function> = all_functions(&ctx);
        let names_before: Vec<String> = fns_before.iter().map(|f| f.get_name(&ctx).to_string()).collect();
        // bodies must be exported from the BEFORE state, but labels need the merge map: export twice is not
        // possible after removal, so keep the context: clone by re-parsing the printed text is lossy; instead
        // run the pass on a second context parsed from the same text + prefix.
        let se2 = sway_types::SourceEngine::default();
        let mut ctx2 = parse_ir(text, &se2).map_err(|e| format!("parse:{}", err_class(&e)))?;
        let mut pm2 = new_pass_manager();
        for name in prefix.split(',').filter(|s| !s.is_empty() && *s != "-") {
            run_pass(&mut pm2, &mut ctx2, name).map_err(|e| format!("prefix:{e}"))?;
        }
        run_pass(&mut pm2, &mut ctx2, pass).map_err(|e| format!("pass:{e}"))?;
        let after_sites = call_sites(&ctx2);
        let names_after: Vec<String> = all_functions(&ctx2).iter().map(|f| f.get_name(&ctx2).to_string()).collect();
        let mut rep: HashMap<String, String> = HashMap::new();
        let after_map: HashMap<(String, usize, usize), String> =
            after_sites.into_iter().map(|(f, b, i, c)| ((f, b, i), c)).collect();
        for (f, b, i, c) in &before_sites {
            if let Some(c2) = after_map.get(&(f.clone(), *b, *i)) {
                if c2 != c {
                    rep.insert(c.clone(), c2.clone());
                }
            }
        }
        let mut lines = vec![];
        let mut intern = Interner::default();
        let by_name: HashMap<String, Function> = fns_before.iter().map(|f| (f.get_name(&ctx).to_string(), *f)).collect();
        // Functions that were removed although no surviving call site shows their replacement (they were only
        // called from functions that were removed as well): find the surviving function with the identical
        // exported body under the merges known so far (the export numbers values by first occurrence, so equal
        // modulo renaming = equal text). This search is untrusted; every pair is judged by the proved checker.
        let mut unresolved: Vec<String> =
            names_before.iter().filter(|n| !names_after.contains(n) && !rep.contains_key(*n)).cloned().collect();
        loop {
            let mut progress = false;
            let mut still = vec![];
            for r in unresolved.drain(..) {
                let body = export_body(&ctx, by_name[&r], &rep, &mut intern);
                let found = names_after.iter().find(|g| by_name.get(*g).map(|gf| export_body(&ctx, *gf, &rep, &mut intern) == body).unwrap_or(false));
                match found {
                    Some(g) => {
                        rep.insert(r, g.clone());
                        progress = true;
                    }
                    None => still.push(r),
                }
            }
            unresolved = still;
            if !progress || unresolved.is_empty() {
                break;
            }
        }
        let mut pairs: Vec<(&String, &String)> = rep.iter().collect();
        pairs.sort();
        for (old, new) in &pairs {
            let (Some(fo), Some(fnw)) = (by_name.get(*old), by_name.get(*new)) else { continue };
            let a = export_body(&ctx, *fo, &rep, &mut intern);
            let b = export_body(&ctx, *fnw, &rep, &mut intern);
            lines.push(format!("P {} {} {}\u{1}{}", old, new, a, b));
        }
        let gone = unresolved.len();
        lines.push(format!("N {} {} {} {}", names_before.len(), names_after.len(), pairs.len(), gone));
        Ok(lines)
    });
    match r {
        Ok(Ok(ls)) => {
            for l in ls {
                writeln!(out, "{}", l).unwrap();
            }
        }
        Ok(Err(e)) => writeln!(out, "N err {}", e).unwrap(),
        Err(p) => writeln!(out, "N panic {}", clip(p)).unwrap(),
    }
}

/// Instructions without an effect on the machine state (their result may depend on it): candidates for
/// removal by dead-code elimination. Arithmetic is included although it can trap on the VM (see the
/// KNOWN_FINDINGS entry on removed trapping instructions); stores, calls, asm blocks, logs, state access,
/// memory copies are not.
fn is_pure(op: &InstOp) -> bool {
    matches!(
        op,
        InstOp::BitCast(..)
            | InstOp::UnaryOp { .. }
            | InstOp::BinaryOp { .. }
            | InstOp::CastPtr(..)
            | InstOp::Cmp(..)
            | InstOp::GetElemPtr { .. }
            | InstOp::GetLocal(_)
            | InstOp::GetGlobal(_)
            | InstOp::GetConfig(_)
            | InstOp::GetStorageKey(_)
            | InstOp::IntToPtr(..)
            | InstOp::Load(_)
            | InstOp::Nop
            | InstOp::PtrToInt(..)
    )
}

/// pair <id> <file> <prefix> <pass>: bodies of every function before and after <pass> (same value numbers),
/// for functions that changed:  Q <fn> <nblocks before> <nblocks after> <before>\x01<after>\x01<block map>\x01<pure labels>
/// block map = for every block after the pass its index before the pass.
fn pair(out: &mut impl Write, text: &str, prefix: &str, pass: &str) {
    let r = guarded(|| -> Result<Vec<String>, String> {
        let se = sway_types::SourceEngine::default();
        let mut ctx = parse_ir(text, &se).map_err(|e| format!("parse:{}", err_class(&e)))?;
        let mut pm = new_pass_manager();
        for name in prefix.split(',').filter(|s| !s.is_empty() && *s != "-") {
            run_pass(&mut pm, &mut ctx, name).map_err(|e| format!("prefix:{e}"))?;
        }
        let rep = HashMap::new();
        let mut intern = Interner::default();
        let fns = all_functions(&ctx);
        let mut vids: HashMap<Function, HashMap<Value, usize>> = HashMap::new();
        let mut before: HashMap<Function, (String, Vec<Block>)> = HashMap::new();
        for f in &fns {
            let vid = vids.entry(*f).or_default();
            let t = export_body_ids(&ctx, *f, &rep, &mut intern, vid, false);
            before.insert(*f, (t, f.block_iter(&ctx).collect()));
        }
        run_pass(&mut pm, &mut ctx, pass).map_err(|e| format!("pass:{e}"))?;
        let mut lines = vec![];
        let mut same = 0;
        for f in all_functions(&ctx) {
            let Some((tb, blocks_before)) = before.get(&f) else { continue };
            let vid = vids.entry(f).or_default();
            let ta = export_body_ids(&ctx, f, &rep, &mut intern, vid, false);
            if &ta == tb {
                same += 1;
                continue;
            }
            let bmap: Vec<String> = f
                .block_iter(&ctx)
                .map(|b| blocks_before.iter().position(|x| *x == b).map(|i| i.to_string()).unwrap_or_else(|| "9999".into()))
                .collect();
            // pure labels: every label of a pure instruction of the function before/after
            lines.push(format!("Q {} {} {} {}\u{1}{}\u{1}[{}]", f.get_name(&ctx), blocks_before.len(), bmap.len(), tb, ta, bmap.iter().map(|s| format!("{s}%nat")).collect::<Vec<_>>().join(";")));
        }
        // pure label table (labels are interned per case)
        let mut pure: Vec<usize> = vec![];
        for (s, id) in &intern.map {
            if s.starts_with("pure:") {
                pure.push(*id);
            }
        }
        pure.sort();
        lines.push(format!("U [{}]", pure.iter().map(|p| p.to_string()).collect::<Vec<_>>().join(";")));
        lines.push(format!("N {} {}", same, lines.len() - 1));
        Ok(lines)
    });
    match r {
        Ok(Ok(ls)) => {
            for l in ls {
                writeln!(out, "{}", l).unwrap();
            }
        }
        Ok(Err(e)) => writeln!(out, "N err {}", e).unwrap(),
        Err(p) => writeln!(out, "N panic {}", clip(p)).unwrap(),
    }
}

fn consensus_params() -> fuel_tx::ConsensusParameters {
    use fuel_tx::consensus_parameters::ConsensusParametersV1;
    use fuel_tx::{ContractParameters, ScriptParameters, TxParameters};
    fuel_tx::ConsensusParameters::V1(ConsensusParametersV1 {
        script_params: ScriptParameters::DEFAULT.with_max_script_length(u64::MAX).with_max_script_data_length(u64::MAX),
        tx_params: TxParameters::DEFAULT.with_max_size(u64::MAX),
        contract_params: ContractParameters::DEFAULT.with_contract_max_size(u64::MAX).with_max_storage_slots(u64::MAX),
        gas_costs: fuel_tx::GasCostsValues::default().into(),
        block_gas_limit: u64::MAX,
        ..Default::default()
    })
}

fn execute(bytecode: &[u8]) -> Result<String, String> {
    use fuel_tx::{Chargeable, Finalizable};
    use fuel_vm::checked_transaction::builder::TransactionBuilderExt;
    use fuel_vm::interpreter::{Interpreter, InterpreterParams, MemoryInstance};
    use fuel_vm::storage::MemoryStorage;
    let secret_key = fuel_vm::prelude::SecretKey::try_from(fuel_tx::Bytes32::from([7u8; 32])).map_err(|e| format!("{e:?}"))?;
    let params = consensus_params();
    let mut tb = fuel_tx::TransactionBuilder::script(bytecode.to_vec(), vec![]);
    tb.with_params(params.clone())
        .add_unsigned_coin_input(secret_key, fuel_tx::UtxoId::new(fuel_tx::Bytes32::from([1u8; 32]), 0), 1, fuel_tx::AssetId::BASE, Default::default())
        .maturity(1.into());
    let tmp = tb.clone().finalize();
    let max_gas = tmp.max_gas(params.gas_costs(), params.fee_params()) + 1;
    tb.script_gas_limit(params.tx_params().max_gas_per_tx() - max_gas);
    let tx = tb
        .finalize_checked((u32::MAX >> 1).into())
        .into_ready(0, params.gas_costs(), params.fee_params(), None)
        .map_err(|e| format!("ready:{e:?}"))?;
    let mut vm: Interpreter<MemoryInstance, MemoryStorage, fuel_tx::Script> =
        Interpreter::with_storage(MemoryInstance::new(), MemoryStorage::default(), InterpreterParams::new(0, &params));
    let state = match vm.transact(tx) {
        Ok(t) => format!("{:?}", t.state()),
        Err(e) => format!("vmerr:{}", clip(format!("{e:?}"))),
    };
    let mut rs = vec![];
    for r in vm.receipts() {
        use fuel_tx::Receipt::*;
        rs.push(match r {
            Log { ra, rb, rc, rd, .. } => format!("Log({ra},{rb},{rc},{rd})"),
            LogData { ra, rb, data, .. } => format!("LogData({ra},{rb},{})", hex::encode(data.as_ref().map(|d| d.to_vec()).unwrap_or_default())),
            Return { val, .. } => format!("Return({val})"),
            ReturnData { data, .. } => format!("ReturnData({})", hex::encode(data.as_ref().map(|d| d.to_vec()).unwrap_or_default())),
            Revert { ra, .. } => format!("Revert({ra})"),
            Panic { reason, .. } => format!("Panic({:?})", reason.reason()),
            ScriptResult { result, .. } => format!("ScriptResult({:?})", result),
            other => format!("Other({})", clip(format!("{:?}", other)).chars().take(60).collect::<String>()),
        });
    }
    Ok(format!("{} {}", state.replace(' ', ""), rs.join(",")))
}

fn run_case(text: &str, passes: &str) -> String {
    let r = guarded(|| {
        if !text.trim_start().starts_with("script") {
            return "notscript".to_string();
        }
        let se = sway_types::SourceEngine::default();
        let mut ctx = match parse_ir(text, &se) {
            Ok(c) => c,
            Err(e) => return format!("parse:{}", err_class(&e)),
        };
        let mut pm = new_pass_manager();
        let mut g = PassGroup::default();
        for p in passes.split(',').filter(|s| !s.is_empty()) {
            match pm.lookup_registered_pass(p) {
                Some(pp) => g.append_pass(pp.name),
                None => return format!("pipeline:Unregistered:{p}"),
            }
        }
        if let Err(e) = pm.run(&mut ctx, &g, &options()) {
            return format!("pipeline:{}", err_class(&e));
        }
        let handler = sway_error::handler::Handler::default();
        let cfg = sway_core::BuildConfig::dummy_for_asm_generation();
        let finalized_asm = match sway_core::compile_ir_context_to_finalized_asm(&handler, &ctx, Some(&cfg)) {
            Ok(a) => a,
            Err(_) => {
                let (e, _, _) = handler.consume();
                return format!("backend:{}", clip(e.iter().take(2).map(|e| e.to_string()).collect::<Vec<_>>().join(" | ")));
            }
        };
        let mut asm = sway_core::CompiledAsm { finalized_asm, panic_occurrences: Default::default(), panicking_call_occurrences: Default::default() };
        let handler = sway_error::handler::Handler::default();
        let mut sm = sway_core::source_map::SourceMap::new();
        let bc = match sway_core::asm_to_bytecode(&handler, &mut asm, &mut sm, ctx.source_engine, &cfg) {
            Ok(b) => b,
            Err(_) => {
                let (e, _, _) = handler.consume();
                return format!("backend:{}", clip(e.iter().take(2).map(|e| e.to_string()).collect::<Vec<_>>().join(" | ")));
            }
        };
        match execute(&bc.bytecode) {
            Ok(s) => format!("ok {}", s),
            Err(e) => format!("exec:{}", clip(e)),
        }
    });
    match r {
        Ok(s) => s,
        Err(p) => format!("panic:{}", clip(p)),
    }
}

fn main() {
    quiet_panics();
    let outp = std::env::args().nth(1).expect("usage: c03 <outfile>");
    let mut out = std::io::BufWriter::new(std::fs::File::create(outp).unwrap());
    let stdin = std::io::stdin();
    for line in stdin.lock().lines() {
        let line = line.unwrap();
        let p: Vec<&str> = line.split('\t').collect();
        if p.len() < 4 {
            continue;
        }
        let (mode, id) = (p[0], p[1]);
        writeln!(out, "C {}", id).unwrap();
        let text = std::fs::read_to_string(p[2]).unwrap_or_default();
        match mode {
            "dedup" => dedup(&mut out, &text, p[3], p.get(4).copied().unwrap_or("fn-dedup-release")),
            "run" => writeln!(out, "X {}", run_case(&text, p[3])).unwrap(),
            "pair" => pair(&mut out, &text, p[3], p.get(4).copied().unwrap_or("dce")),
            _ => {}
        }
        writeln!(out, "E {}", id).unwrap();
        out.flush().unwrap();
    }
}
