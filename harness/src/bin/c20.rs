//! C20 harness: build a real `forc_pkg::Graph`, write it as Forc.lock the way forc does
//! (`Lock::from_graph` + `toml::ser::to_string_pretty`), read it back (`Lock::from_path` +
//! `to_graph`) and dump both graphs and the lock canonically.
//! stdin: one JSON case per line
//!   {"nodes":[{"name":hex,"src":{"t":"member"|"path"|"git"|"ipfs"|"reg", ...}}],
//!    "edges":[[from,to,namehex,"L"|"C",salthex]]}
//!   src fields as printed by c20_common::src_json (url/cid/ver/ns/name/r/commit hex-encoded text).
//!   or an oracle query line `U|C|V <hex>` (external url / cid / semver parser on that string)
//! stdout: one JSON object per case.
#[path = "../c20_common.rs"]
mod common;
use common::*;
use forc_pkg::source::{self, git, path, reg};
use forc_pkg::{DepKind, Edge, Graph, Pinned};
use hx::util::{guarded, quiet_panics};
use serde_json::{json, Value};
use std::io::{BufRead, Write};
use std::str::FromStr;

fn hs(v: &Value, k: &str) -> Option<String> {
    unhex(v.get(k)?.as_str()?)
}

fn build_src(j: &Value) -> Option<source::Pinned> {
    match j.get("t")?.as_str()? {
        "member" => "member".parse().ok(),
        "path" => {
            let root = forc_pkg::PinnedId::from_str(j.get("root")?.as_str()?).ok()?;
            Some(source::Pinned::Path(path::Pinned { path_root: root }))
        }
        "git" => {
            let repo = git::Url::from_str(&hs(j, "url")?).ok()?;
            let r = hs(j, "r")?;
            let reference = match j.get("rk")?.as_str()? {
                "B" => git::Reference::Branch(r),
                "T" => git::Reference::Tag(r),
                "R" => git::Reference::Rev(r),
                _ => git::Reference::DefaultBranch,
            };
            Some(source::Pinned::Git(git::Pinned {
                source: git::Source { repo, reference },
                commit_hash: hs(j, "commit")?,
            }))
        }
        // the ipfs module is crate-private: the only public constructor is the parser
        "ipfs" => format!("ipfs+{}", hs(j, "cid")?).parse().ok(),
        "reg" => {
            let namespace = match j.get("ns")? {
                Value::Null => reg::file_location::Namespace::Flat,
                v => reg::file_location::Namespace::Domain(unhex(v.as_str()?)?),
            };
            Some(source::Pinned::Registry(reg::Pinned {
                source: reg::Source {
                    name: hs(j, "name")?,
                    version: semver::Version::from_str(&hs(j, "ver")?).ok()?,
                    namespace,
                },
                cid: hs(j, "cid")?.parse().ok()?,
            }))
        }
        _ => None,
    }
}

fn build_graph(case: &Value) -> Option<Graph> {
    let mut g = Graph::default();
    let mut ix = vec![];
    for n in case.get("nodes")?.as_array()? {
        let name = hs(n, "name")?;
        let source = build_src(n.get("src")?)?;
        ix.push(g.add_node(Pinned { name, source }));
    }
    for e in case.get("edges")?.as_array()? {
        let e = e.as_array()?;
        let (a, b) = (e[0].as_u64()? as usize, e[1].as_u64()? as usize);
        let name = unhex(e[2].as_str()?)?;
        let kind = match e[3].as_str()? {
            "C" => DepKind::Contract { salt: fuel_tx::Salt::from_str(e[4].as_str()?).ok()? },
            _ => DepKind::Library,
        };
        // forc inserts edges dependent -> dependency with update_edge (simple digraph)
        g.update_edge(*ix.get(a)?, *ix.get(b)?, Edge::new(name, kind));
    }
    Some(g)
}

fn main() {
    quiet_panics();
    let dir = tempfile::tempdir().expect("tempdir");
    let lock_path = dir.path().join("Forc.lock");
    let stdin = std::io::stdin();
    let out = std::io::stdout();
    let mut out = std::io::BufWriter::new(out.lock());
    for line in stdin.lock().lines() {
        let line = line.unwrap();
        if line.trim().is_empty() {
            continue;
        }
        // oracle queries (same protocol as the c21 binary): `U|C|V <hex>`
        if let Some((kind, arg)) = line.trim().split_once(' ') {
            if matches!(kind, "U" | "C" | "V") {
                let s = unhex(arg).expect("oracle query must be valid UTF-8");
                let v = match guarded(|| oracle(kind, &s)) {
                    Ok(Some(d)) => json!({"k": kind, "res": "ok", "disp": hx(&d)}),
                    Ok(None) => json!({"k": kind, "res": "rej"}),
                    Err(m) => json!({"k": kind, "res": "panic", "msg": m}),
                };
                writeln!(out, "{}", v).unwrap();
                continue;
            }
        }
        let case: Value = serde_json::from_str(&line).expect("case json");
        let v = match build_graph(&case) {
            None => json!({"build": "skip"}),
            Some(g) => {
                let names_ok: Vec<bool> = g
                    .node_indices()
                    .map(|n| forc_util::validate_project_name(&g[n].name).is_ok())
                    .collect();
                let g1 = graph_json(&g);
                // write exactly as forc does (pkg.rs: toml::ser::to_string_pretty(&new_lock), fs::write)
                match guarded(|| toml::ser::to_string_pretty(&forc_pkg::Lock::from_graph(&g))) {
                    Err(m) => json!({"build": "ok", "g1": g1, "names_ok": names_ok, "write": "panic", "msg": m}),
                    Ok(Err(e)) => json!({"build": "ok", "g1": g1, "names_ok": names_ok, "write": "err", "msg": e.to_string()}),
                    Ok(Ok(text)) => {
                        std::fs::write(&lock_path, &text).expect("write lock");
                        let mut o = json!({"build": "ok", "g1": g1, "names_ok": names_ok, "write": "ok", "text": hx(&text)});
                        match guarded(|| forc_pkg::Lock::from_path(&lock_path)) {
                            Err(m) => { o["load"] = json!("panic"); o["msg"] = json!(m); }
                            Ok(Err(e)) => { o["load"] = json!("err"); o["msg"] = json!(e.to_string()); }
                            Ok(Ok(lock)) => {
                                o["load"] = json!("ok");
                                o["lock"] = lock_json(&lock);
                                match guarded(|| lock.to_graph()) {
                                    Ok(Ok(g2)) => { o["graph"] = json!("ok"); o["g2"] = graph_json(&g2); }
                                    Ok(Err(e)) => { o["graph"] = json!("err"); o["msg"] = json!(e.to_string()); }
                                    Err(m) => { o["graph"] = json!("panic"); o["msg"] = json!(m); }
                                }
                            }
                        }
                        o
                    }
                }
            }
        };
        writeln!(out, "{}", v).unwrap();
    }
}
