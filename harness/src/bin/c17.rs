//! C17 harness: compile packages through the full forc pipeline; a panic or an "internal compiler
//! error" diagnostic is the outcome of interest.  One JSON line per package:
//!   {"pkg","status":"ok"|"error"|"panic","site":"file:line","msg":..,"ice":bool}
use serde_json::json;
use std::sync::Mutex;

static LAST: Mutex<Option<(String, String)>> = Mutex::new(None);

fn main() {
    std::panic::set_hook(Box::new(|info| {
        let loc = info.location().map(|l| format!("{}:{}", l.file(), l.line())).unwrap_or_default();
        let msg = if let Some(s) = info.payload().downcast_ref::<&str>() { s.to_string() }
                  else if let Some(s) = info.payload().downcast_ref::<String>() { s.clone() } else { String::new() };
        if let Ok(mut g) = LAST.lock() { if g.is_none() { *g = Some((loc, msg)); } }
    }));
    let mut release = false;
    let mut dirs = vec![];
    for a in std::env::args().skip(1) { if a == "--release" { release = true } else { dirs.push(a) } }
    for d in dirs {
        *LAST.lock().unwrap() = None;
        let dd = d.clone();
        let r = std::panic::catch_unwind(move || {
            let mut opts = forc_pkg::BuildOpts::default();
            opts.pkg.path = Some(dd);
            opts.pkg.offline = true;
            opts.pkg.terse = true;
            opts.release = release;
            opts.tests = true;
            opts.no_output = true;
            forc_pkg::build_with_options(&opts, None).map(|_| ())
        });
        let v = match r {
            Ok(Ok(())) => json!({"pkg": d, "status": "ok"}),
            Ok(Err(e)) => {
                let m = format!("{e:#}");
                let ice = m.to_lowercase().contains("internal compiler error");
                json!({"pkg": d, "status": "error", "ice": ice, "msg": m.chars().take(600).collect::<String>()})
            }
            Err(_) => {
                let (site, msg) = LAST.lock().unwrap().clone().unwrap_or_default();
                // strip the absolute prefix so keys are stable
                let site = site.trim_start_matches("/repo/").to_string();
                json!({"pkg": d, "status": "panic", "site": site, "msg": msg.chars().take(300).collect::<String>()})
            }
        };
        println!("{v}");
    }
}
