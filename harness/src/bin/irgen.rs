//! irgen: compile single-file Sway programs (the ir_generation test sources, generated programs) to
//! their INITIAL IR (no pass run yet) the way /repo/test/src/ir_generation/mod.rs does: std is
//! type-checked once with forc_pkg::check, every source is compiled against it with
//! sway_core::compile_to_ast + ir_generation::compile_program, and printed with the IR printer.
//!   irgen <outdir> <file.sw>...      writes <outdir>/<stem>.ir ; one status line per file on stdout:
//!   <file> ok <bytes> | <file> error <msg> | <file> panic <msg>
use hx::util::{guarded, quiet_panics};
use std::path::PathBuf;
use sway_core::{namespace::Package, language::parsed::TreeType, Engines};

fn std_package(engines: &Engines) -> anyhow::Result<Package> {
    use forc_pkg::manifest::GenericManifestFile;
    let manifest_file = forc_pkg::manifest::ManifestFile::from_dir(PathBuf::from("/repo/sway-lib-std"))?;
    let member_manifests = manifest_file.member_manifests()?;
    let lock_path = manifest_file.lock_path()?;
    let plan = forc_pkg::BuildPlan::from_lock_and_manifests(&lock_path, &member_manifests, false, true, &Default::default())?;
    let mut v = forc_pkg::check(
        &plan,
        sway_core::BuildTarget::default(),
        true,
        None,
        false,
        engines,
        None,
        &[],
        if new_enc() { &[] } else { &[sway_features::Feature::NewEncoding] },
        sway_core::DbgGeneration::Full,
    )?;
    let (res, handler) = v.pop().ok_or_else(|| anyhow::anyhow!("no package"))?;
    let progs = res.ok_or_else(|| anyhow::anyhow!("std did not check: {:?}", handler.consume().0.iter().take(3).map(|e| e.to_string()).collect::<Vec<_>>()))?;
    let typed = progs.typed.map_err(|_| anyhow::anyhow!("std did not type check"))?;
    Ok(typed.namespace.current_package_ref().clone())
}

/// HX_NEW_ENCODING=1: compile with the ExperimentalFeatures default (new_encoding on) like a normal build.
fn new_enc() -> bool {
    std::env::var("HX_NEW_ENCODING").map(|v| v == "1").unwrap_or(false)
}

fn main() {
    quiet_panics();
    let args: Vec<String> = std::env::args().skip(1).collect();
    let outdir = PathBuf::from(&args[0]);
    std::fs::create_dir_all(&outdir).unwrap();
    let engines = Engines::default();
    let std_pkg = match guarded(|| std_package(&engines)) {
        Ok(Ok(p)) => p,
        Ok(Err(e)) => {
            println!("std error {:#}", e);
            std::process::exit(2);
        }
        Err(p) => {
            println!("std panic {}", p.replace('\n', " "));
            std::process::exit(2);
        }
    };
    let experimental = if new_enc() {
        sway_features::ExperimentalFeatures::default()
    } else {
        sway_features::ExperimentalFeatures { new_encoding: false, ..Default::default() }
    };
    let _ = TreeType::Script;
    for file in &args[1..] {
        let path = PathBuf::from(file);
        let r = guarded(|| -> anyhow::Result<String> {
            let src = std::fs::read_to_string(&path)?;
            let bld_cfg = sway_core::BuildConfig::root_from_file_name_and_manifest_path(
                path.clone(),
                PathBuf::from("/"),
                sway_core::BuildTarget::default(),
                sway_core::DbgGeneration::Full,
            )
            .with_include_tests(true);
            let handler = sway_error::handler::Handler::default();
            let name = sway_types::Ident::new_no_span("test_lib".to_string());
            let mut ns = Package::new(name, None, sway_types::ProgramId::new(0), false);
            ns.add_external("std".to_owned(), std_pkg.clone());
            let res = sway_core::compile_to_ast(&handler, &engines, src.as_str().into(), ns, Some(&bld_cfg), "test_lib", None, experimental);
            let (errors, _w, _i) = handler.consume();
            if !errors.is_empty() {
                anyhow::bail!("compile: {}", errors.iter().take(2).map(|e| e.to_string()).collect::<Vec<_>>().join(" | "));
            }
            let programs = res.map_err(|_| anyhow::anyhow!("compile_to_ast failed"))?;
            let typed = programs.typed.as_ref().map_err(|_| anyhow::anyhow!("not typed"))?;
            let mut po = Default::default();
            let mut pco = Default::default();
            let ir = sway_core::ir_generation::compile_program(typed, &mut po, &mut pco, true, &engines, experimental, sway_ir::Backtrace::default())
                .map_err(|e| anyhow::anyhow!("ir generation: {}", e.iter().take(2).map(|e| e.to_string()).collect::<Vec<_>>().join(" | ")))?;
            ir.verify().map_err(|e| anyhow::anyhow!("initial IR does not verify: {}", e))?;
            Ok(sway_ir::printer::to_string(&ir))
        });
        match r {
            Ok(Ok(text)) => {
                let stem = path.file_stem().unwrap().to_string_lossy().to_string();
                std::fs::write(outdir.join(format!("{stem}.ir")), &text).unwrap();
                println!("{} ok {}", file, text.len());
            }
            Ok(Err(e)) => println!("{} error {}", file, format!("{:#}", e).replace('\n', " ").chars().take(300).collect::<String>()),
            Err(p) => println!("{} panic {}", file, p.replace('\n', " ").chars().take(300).collect::<String>()),
        }
    }
}
