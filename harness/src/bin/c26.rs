//! C26 harness: incremental (LSP) compilation vs. a from-scratch compilation of the same text.
//!
//! Drives the REAL `sway_lsp::ServerState` in-process (compilation thread, `didOpen`/`didChange`/
//! `didSave` handlers, module/programs caches, garbage collection) over a small multi-module
//! package, applies a history of full-text edits (one session per history), and after every step
//! prints a canonical summary of what the server knows: diagnostics per file, document symbols
//! (name/kind/detail, nested) per open file, number of tokens per file, whether the programs cache
//! was reused.  For every step the same texts are also compiled by a brand-new server over a fresh
//! copy of the package and summarised the same way.
//!
//! stdin: one JSON case per line
//!   {"id":.., "gc":true, "files":{"lib.sw":"..","a.sw":"..","a/c.sw":".."}, "open":["lib.sw","a.sw"],
//!    "steps":[{"f":"a.sw","t":"<new full text>"}, {"save":"a.sw"}, ...], "fresh":true}
//! stdout: one JSON result per line
//!   {"id":.., "init":{"inc":S}, "steps":[{"inc":S,"fresh":S}...], "error":null|text}
//! S = {"diag":[[file,sev,l0,c0,l1,c1,msg]..], "sym":{file:[..]}, "tok":{file:n}, "reused":n, "lcs":text}
//!
//! Synchronisation: the `sway_lsp::verif` hook counts the worker's `recv` points (one when the
//! worker starts, one after every processed request); everything is sequential, so "all requests
//! sent so far are processed" is `recv points == servers created + requests sent`.
use hx::util::guarded;
use lsp_types::*;
use serde_json::{json, Value};
use std::collections::BTreeMap;
use std::io::{BufRead, Write};
use std::path::{Path, PathBuf};
use std::sync::atomic::{AtomicU64, Ordering};
use std::sync::{Arc, Mutex};
use std::time::{Duration, Instant};
use sway_lsp::handlers::{notification, request};
use sway_lsp::server_state::ServerState;

const WAIT_S: u64 = 20;
static RECV: AtomicU64 = AtomicU64::new(0);
static EXPECT: AtomicU64 = AtomicU64::new(0);
static PANICS: Mutex<Vec<String>> = Mutex::new(Vec::new());

fn hook(role: &'static str, access: &'static str, _v: i64) {
    if role == "W" && access == "recv" {
        RECV.fetch_add(1, Ordering::SeqCst);
    }
}

fn wait_processed(limit: Duration) -> Result<(), String> {
    let t0 = Instant::now();
    loop {
        if RECV.load(Ordering::SeqCst) >= EXPECT.load(Ordering::SeqCst) {
            return Ok(());
        }
        if t0.elapsed() > limit {
            // resynchronise so that later cases are not poisoned
            EXPECT.store(RECV.load(Ordering::SeqCst), Ordering::SeqCst);
            let p = PANICS.lock().unwrap().join(" | ");
            return Err(format!("compilation did not finish within {limit:?}; panics: {p}"));
        }
        std::thread::sleep(Duration::from_millis(1));
    }
}

struct Srv {
    state: Arc<ServerState>,
    dir: PathBuf,
}

fn write_pkg(dir: &Path, name: &str, files: &BTreeMap<String, String>) {
    let _ = std::fs::remove_dir_all(dir);
    std::fs::create_dir_all(dir.join("src")).unwrap();
    std::fs::write(
        dir.join("Forc.toml"),
        format!("[project]\nauthors = [\"verif\"]\nentry = \"lib.sw\"\nlicense = \"Apache-2.0\"\nname = \"{name}\"\nimplicit-std = false\n"),
    )
    .unwrap();
    for (f, t) in files {
        let p = dir.join("src").join(f);
        std::fs::create_dir_all(p.parent().unwrap()).unwrap();
        std::fs::write(p, t).unwrap();
    }
}

impl Srv {
    fn new(dir: PathBuf, gc: bool) -> Result<Srv, String> {
        EXPECT.fetch_add(1, Ordering::SeqCst);
        let t0 = Instant::now();
        let state = Arc::new(ServerState::default());
        if std::env::var("C26_TIMING").is_ok() {
            eprintln!("new server {:?}", t0.elapsed());
        }
        state.config.write().garbage_collection.gc_enabled = gc;
        wait_processed(Duration::from_secs(WAIT_S))?;
        Ok(Srv { state, dir })
    }
    fn uri(&self, f: &str) -> Url {
        Url::from_file_path(self.dir.join("src").join(f)).unwrap()
    }
    fn open(&self, rt: &tokio::runtime::Runtime, f: &str) -> Result<(), String> {
        let t0 = Instant::now();
        let r = self.open_(rt, f);
        if std::env::var("C26_TIMING").is_ok() {
            eprintln!("open {f} {:?}", t0.elapsed());
        }
        r
    }
    fn open_(&self, rt: &tokio::runtime::Runtime, f: &str) -> Result<(), String> {
        let uri = self.uri(f);
        let text = std::fs::read_to_string(uri.to_file_path().unwrap()).unwrap_or_default();
        EXPECT.fetch_add(1, Ordering::SeqCst);
        let st = self.state.clone();
        let r = guarded(|| {
            rt.block_on(async {
                tokio::time::timeout(
                    Duration::from_secs(WAIT_S),
                    notification::handle_did_open_text_document(
                        &st,
                        DidOpenTextDocumentParams {
                            text_document: TextDocumentItem { uri, language_id: "sway".into(), version: 1, text },
                        },
                    ),
                )
                .await
            })
        });
        match r {
            Err(p) => Err(format!("panic in didOpen: {p}")),
            Ok(Err(_)) => Err("didOpen timed out".into()),
            Ok(Ok(Err(e))) => Err(format!("didOpen error: {e}")),
            Ok(Ok(Ok(()))) => wait_processed(Duration::from_secs(WAIT_S)),
        }
    }
    fn change(&self, rt: &tokio::runtime::Runtime, f: &str, version: i32, text: &str) -> Result<(), String> {
        let t0 = Instant::now();
        let r = self.change_(rt, f, version, text);
        if std::env::var("C26_TIMING").is_ok() {
            eprintln!("change {f} {:?}", t0.elapsed());
        }
        r
    }
    fn change_(&self, rt: &tokio::runtime::Runtime, f: &str, version: i32, text: &str) -> Result<(), String> {
        let uri = self.uri(f);
        EXPECT.fetch_add(1, Ordering::SeqCst);
        let st = self.state.clone();
        let r = guarded(|| {
            rt.block_on(notification::handle_did_change_text_document(
                &st,
                DidChangeTextDocumentParams {
                    text_document: VersionedTextDocumentIdentifier { uri, version },
                    content_changes: vec![TextDocumentContentChangeEvent {
                        range: None,
                        range_length: None,
                        text: text.to_string(),
                    }],
                },
            ))
        });
        match r {
            Err(p) => {
                EXPECT.fetch_sub(1, Ordering::SeqCst);
                Err(format!("panic in didChange: {p}"))
            }
            Ok(Err(e)) => {
                EXPECT.fetch_sub(1, Ordering::SeqCst);
                Err(format!("didChange error: {e}"))
            }
            Ok(Ok(())) => {
                if std::env::var("C26_CHECKFLUSH").is_ok() {
                    if let Ok((turi, _)) = self.state.uri_and_session_from_workspace(&self.uri(f)) {
                        let on_disk = std::fs::read_to_string(turi.to_file_path().unwrap()).unwrap_or_default();
                        if on_disk != text {
                            eprintln!("UNFLUSHED {f}: {} bytes on disk, {} expected", on_disk.len(), text.len());
                        }
                    }
                }
                wait_processed(Duration::from_secs(WAIT_S))
            }
        }
    }
    /// didChange without waiting for the compilation (used for bursts of edits).
    fn change_nowait(&self, rt: &tokio::runtime::Runtime, f: &str, version: i32, text: &str) -> Result<(), String> {
        let uri = self.uri(f);
        let st = self.state.clone();
        let r = guarded(|| {
            rt.block_on(notification::handle_did_change_text_document(
                &st,
                DidChangeTextDocumentParams {
                    text_document: VersionedTextDocumentIdentifier { uri, version },
                    content_changes: vec![TextDocumentContentChangeEvent {
                        range: None,
                        range_length: None,
                        text: text.to_string(),
                    }],
                },
            ))
        });
        match r {
            Err(p) => Err(format!("panic in didChange: {p}")),
            Ok(Err(e)) => Err(format!("didChange error: {e}")),
            Ok(Ok(())) => Ok(()),
        }
    }
    /// Wait until the compilation thread is idle: nothing queued, not compiling, and no `recv`
    /// point for 300 ms. Resynchronises the request counter.
    fn wait_quiescent(&self, sent: u64) -> Result<(), String> {
        let t0 = Instant::now();
        let base = RECV.load(Ordering::SeqCst);
        let mut last = base;
        let mut stable_since = Instant::now();
        loop {
            let now = RECV.load(Ordering::SeqCst);
            if now != last {
                last = now;
                stable_since = Instant::now();
            }
            let idle = self.state.verif_pending_requests() == 0
                && !self.state.is_compiling.load(Ordering::SeqCst)
                && now > base;
            if idle && stable_since.elapsed() > Duration::from_millis(300) {
                break;
            }
            if now >= base + sent && stable_since.elapsed() > Duration::from_millis(300) {
                break;
            }
            if t0.elapsed() > Duration::from_secs(WAIT_S) {
                EXPECT.store(RECV.load(Ordering::SeqCst), Ordering::SeqCst);
                let p = PANICS.lock().unwrap().join(" | ");
                return Err(format!("burst did not finish; panics: {p}"));
            }
            std::thread::sleep(Duration::from_millis(2));
        }
        EXPECT.store(RECV.load(Ordering::SeqCst), Ordering::SeqCst);
        Ok(())
    }
    fn save(&self, rt: &tokio::runtime::Runtime, f: &str) -> Result<(), String> {
        let uri = self.uri(f);
        EXPECT.fetch_add(1, Ordering::SeqCst);
        let st = self.state.clone();
        let r = guarded(|| {
            rt.block_on(async {
                tokio::time::timeout(
                    Duration::from_secs(WAIT_S),
                    notification::verif_did_save_text_document(
                        &st,
                        DidSaveTextDocumentParams { text_document: TextDocumentIdentifier { uri }, text: None },
                    ),
                )
                .await
            })
        });
        match r {
            Err(p) => Err(format!("panic in didSave: {p}")),
            Ok(Err(_)) => Err("didSave timed out".into()),
            Ok(Ok(Err(e))) => Err(format!("didSave error: {e}")),
            Ok(Ok(Ok(()))) => wait_processed(Duration::from_secs(WAIT_S)),
        }
    }

    fn rel(p: &str) -> String {
        match p.rfind("/src/") {
            Some(i) => p[i + 5..].to_string(),
            None => p.to_string(),
        }
    }

    fn sym(s: &DocumentSymbol) -> Value {
        let ch: Vec<Value> = s.children.as_ref().map(|c| c.iter().map(Self::sym).collect()).unwrap_or_default();
        json!([s.name, format!("{:?}", s.kind), s.detail.clone().unwrap_or_default(),
               s.range.start.line, s.range.start.character, ch])
    }

    fn summary(&self, rt: &tokio::runtime::Runtime, open: &[String], all: &[String]) -> Value {
        let st = self.state.clone();
        let r = guarded(|| {
            let mut diag: Vec<Value> = vec![];
            let mut reused = -1i64;
            if let Some(f0) = open.first() {
                if let Ok((turi, session)) = st.uri_and_session_from_workspace(&self.uri(f0)) {
                    for (path, d) in session.diagnostics.read().iter() {
                        let file = Self::rel(&path.to_string_lossy());
                        for (sev, v) in [("I", &d.infos), ("W", &d.warnings), ("E", &d.errors)] {
                            for x in v.iter() {
                                let msg: String = x.message.lines().next().unwrap_or("").chars().take(120).collect();
                                diag.push(json!([file, sev, x.range.start.line, x.range.start.character,
                                                 x.range.end.line, x.range.end.character, msg]));
                            }
                        }
                    }
                    if let Some(p) = st.compiled_programs.program_from_uri(&turi, &st.engines.read()) {
                        reused = p.value().metrics.reused_programs as i64;
                    }
                }
            }
            diag.sort_by_key(|v| v.to_string());
            let mut sym = serde_json::Map::new();
            for f in open {
                let uri = self.uri(f);
                let res = rt.block_on(async {
                    tokio::time::timeout(
                        Duration::from_secs(5),
                        request::handle_document_symbol(
                            &st,
                            DocumentSymbolParams {
                                text_document: TextDocumentIdentifier { uri },
                                work_done_progress_params: Default::default(),
                                partial_result_params: Default::default(),
                            },
                        ),
                    )
                    .await
                });
                let res = match res {
                    Ok(r) => r,
                    Err(_) => {
                        sym.insert(f.clone(), json!("timeout"));
                        continue;
                    }
                };
                let v = match res {
                    Ok(Some(DocumentSymbolResponse::Nested(v))) => {
                        let mut l: Vec<Value> = v.iter().map(Self::sym).collect();
                        l.sort_by_key(|v| v.to_string());
                        Value::Array(l)
                    }
                    Ok(Some(_)) => json!("flat"),
                    Ok(None) => json!(null),
                    Err(e) => json!(format!("err {e}")),
                };
                sym.insert(f.clone(), v);
            }
            let mut tok: BTreeMap<String, (u64, Vec<String>)> = BTreeMap::new();
            for f in all {
                tok.insert(f.clone(), (0, vec![]));
            }
            for item in st.token_map.iter() {
                if let Some(p) = item.key().path.as_ref() {
                    let f = Self::rel(&p.to_string_lossy());
                    if let Some(e) = tok.get_mut(&f) {
                        e.0 += 1;
                        let k = item.key();
                        e.1.push(format!("{}:{}:{}", k.range.start.line, k.range.start.character, k.name));
                    }
                }
            }
            let tokv: serde_json::Map<String, Value> = tok
                .into_iter()
                .map(|(f, (n, mut names))| {
                    names.sort();
                    (f, json!([n, names]))
                })
                .collect();
            json!({"diag": diag, "sym": sym, "tok": tokv, "reused": reused})
        });
        match r {
            Ok(v) => v,
            Err(p) => json!({"panic": p}),
        }
    }

    fn shutdown(&self) {
        let _ = guarded(|| {
            let _ = self.state.shutdown_server();
        });
    }
}

fn main() {
    std::panic::set_hook(Box::new(|info| {
        let m = info.to_string().replace('\n', " ");
        let mut g = PANICS.lock().unwrap_or_else(|e| e.into_inner());
        if g.len() < 20 {
            g.push(m.chars().take(300).collect());
        }
    }));
    let work = PathBuf::from(std::env::var("C26_WORK").unwrap_or("/verif/work/C26/run".into()));
    sway_lsp::verif::set_hook(Box::new(hook));
    let rt = tokio::runtime::Builder::new_multi_thread().worker_threads(2).enable_all().build().unwrap();
    let stdin = std::io::stdin();
    let out = std::io::stdout();
    for (n, line) in stdin.lock().lines().enumerate() {
        let line = line.unwrap();
        if line.trim().is_empty() {
            continue;
        }
        let case: Value = serde_json::from_str(&line).unwrap();
        PANICS.lock().unwrap().clear();
        let gc = case["gc"].as_bool().unwrap_or(true);
        let want_fresh = case["fresh"].as_bool().unwrap_or(true);
        let mut files: BTreeMap<String, String> = case["files"]
            .as_object()
            .unwrap()
            .iter()
            .map(|(k, v)| (k.clone(), v.as_str().unwrap().to_string()))
            .collect();
        let open: Vec<String> = case["open"].as_array().unwrap().iter().map(|v| v.as_str().unwrap().to_string()).collect();
        let all: Vec<String> = files.keys().cloned().collect();
        let dir = work.join(format!("c{n}"));
        write_pkg(&dir, "c26pkg", &files);
        let mut error: Option<String> = None;
        let mut steps_out: Vec<Value> = vec![];
        let mut init = json!(null);
        match Srv::new(dir.clone(), gc) {
            Err(e) => error = Some(e),
            Ok(srv) => {
                for f in &open {
                    if let Err(e) = srv.open(&rt, f) {
                        error = Some(e);
                        break;
                    }
                }
                if error.is_none() {
                    init = srv.summary(&rt, &open, &all);
                }
                let mut version = 1;
                for (k, stp) in case["steps"].as_array().unwrap().iter().enumerate() {
                    if error.is_some() {
                        break;
                    }
                    let r = if let Some(f) = stp["save"].as_str() {
                        srv.save(&rt, f)
                    } else if let Some(b) = stp["burst"].as_array() {
                        let mut res = Ok(());
                        for e in b {
                            let f = e["f"].as_str().unwrap();
                            let t = e["t"].as_str().unwrap();
                            version += 1;
                            files.insert(f.to_string(), t.to_string());
                            if let Err(e) = srv.change_nowait(&rt, f, version, t) {
                                res = Err(e);
                                break;
                            }
                        }
                        if res.is_ok() {
                            res = srv.wait_quiescent(b.len() as u64);
                        }
                        res
                    } else {
                        let f = stp["f"].as_str().unwrap();
                        let t = stp["t"].as_str().unwrap();
                        version += 1;
                        files.insert(f.to_string(), t.to_string());
                        srv.change(&rt, f, version, t)
                    };
                    if let Err(e) = r {
                        error = Some(format!("step {k}: {e}"));
                        break;
                    }
                    let inc = srv.summary(&rt, &open, &all);
                    let mut fresh = json!(null);
                    if want_fresh {
                        let fdir = work.join(format!("c{n}_f{k}"));
                        write_pkg(&fdir, "c26pkg", &files);
                        match Srv::new(fdir.clone(), gc) {
                            Err(e) => error = Some(format!("fresh {k}: {e}")),
                            Ok(fs) => {
                                for f in &open {
                                    if let Err(e) = fs.open(&rt, f) {
                                        error = Some(format!("fresh {k}: {e}"));
                                        break;
                                    }
                                }
                                fresh = fs.summary(&rt, &open, &all);
                                fs.shutdown();
                            }
                        }
                        let _ = std::fs::remove_dir_all(&fdir);
                    }
                    steps_out.push(json!({"inc": inc, "fresh": fresh}));
                }
                srv.shutdown();
            }
        }
        let _ = std::fs::remove_dir_all(&dir);
        let panics = PANICS.lock().unwrap().clone();
        let res = json!({"id": case["id"], "init": init, "steps": steps_out, "error": error, "panics": panics});
        let mut o = out.lock();
        writeln!(o, "{res}").unwrap();
        o.flush().unwrap();
    }
}
