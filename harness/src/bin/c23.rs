//! C23 harness: drive the real `sway_lsp::core::document::{Documents, TextDocument}` through
//! edit histories.
//! argv[1]: scratch directory (documents are opened from files, as `handle_open_file` does).
//! stdin: one case per line  `<dochex>|<change>;<change>;...`   (prefix `B` = batch mode: all
//!        changes in ONE `update_text_document` call, a single token is printed for them)
//!        change = `F:<texthex>`  (full document)  |  `R:<l1>,<c1>,<l2>,<c2>:<texthex>`
//! stdout: one line per case, one token per change, each change being applied by its own
//!        `Documents::update_text_document` call:
//!        `d:<hex>` accepted, document afterwards | `r:<hex>` rejected (Err), document afterwards |
//!        `p` panic (rest of the history is not run).  First token `o:<hex>` = document as opened.
use hx::util::{guarded, hex_decode, quiet_panics};
use lsp_types::{Position, Range, TextDocumentContentChangeEvent, Url};
use std::io::{BufRead, Write};
use sway_lsp::core::document::{Documents, TextDocument};

fn main() {
    quiet_panics();
    let dir = std::env::args().nth(1).expect("scratch dir");
    std::fs::create_dir_all(&dir).unwrap();
    let rt = tokio::runtime::Builder::new_current_thread().enable_all().build().unwrap();
    let stdin = std::io::stdin();
    let out = std::io::stdout();
    let mut out = std::io::BufWriter::new(out.lock());
    let path = format!("{}/doc_{}.sw", dir.trim_end_matches('/'), std::process::id());
    for line in stdin.lock().lines() {
        let line = line.unwrap();
        let line = line.trim();
        if line.is_empty() { continue; }
        let (batch, line) = match line.strip_prefix('B') { Some(l) => (true, l), None => (false, line) };
        let (doc, chs) = line.split_once('|').unwrap();
        std::fs::write(&path, hex_decode(doc)).unwrap();
        let td = match rt.block_on(TextDocument::build_from_path(&path)) {
            Ok(t) => t,
            Err(e) => { writeln!(out, "openerr {e:?}").unwrap(); continue; }
        };
        let url = Url::from_file_path(&path).unwrap();
        let docs = Documents::new();
        docs.store_document(td).unwrap();
        let text_now = |docs: &Documents| docs.get_text_document(&url).map(|d| hex::encode(d.get_text())).unwrap_or_else(|_| "?".into());
        let mut toks = vec![format!("o:{}", text_now(&docs))];
        let mut all = Vec::new();
        for ch in chs.split(';').filter(|s| !s.is_empty()) {
            let change = if let Some(t) = ch.strip_prefix("F:") {
                TextDocumentContentChangeEvent { range: None, range_length: None, text: String::from_utf8(hex_decode(t)).unwrap() }
            } else {
                let rest = ch.strip_prefix("R:").unwrap();
                let (r, t) = rest.split_once(':').unwrap();
                let v: Vec<u32> = r.split(',').map(|x| x.parse::<u32>().unwrap()).collect();
                TextDocumentContentChangeEvent {
                    range: Some(Range::new(Position::new(v[0], v[1]), Position::new(v[2], v[3]))),
                    range_length: None,
                    text: String::from_utf8(hex_decode(t)).unwrap(),
                }
            };
            all.push(change);
        }
        let calls: Vec<&[TextDocumentContentChangeEvent]> = if batch { vec![&all[..]] } else { all.chunks(1).collect() };
        for changes in calls {
            match guarded(|| docs.update_text_document(&url, changes)) {
                Ok(Ok(s)) => {
                    let now = text_now(&docs);
                    // the returned text and the stored text must be the same thing
                    if hex::encode(&s) != now { toks.push(format!("x:{}", now)); } else { toks.push(format!("d:{}", now)); }
                }
                Ok(Err(_)) => toks.push(format!("r:{}", text_now(&docs))),
                Err(_) => { toks.push("p".into()); break; }
            }
        }
        writeln!(out, "{}", toks.join(" ")).unwrap();
    }
    let _ = std::fs::remove_file(&path);
}
