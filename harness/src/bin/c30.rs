//! C30 harness: one "build" = the dependency-resolution part of `forc build`
//! (`BuildPlan::from_pkg_opts`: pin + `Pinned::fetch` of every dependency) on a project whose only
//! dependency is a LOCAL git repository. HOME (forc cache), VERIF_GIT_FAULT and VERIF_GIT_TRACE are
//! set by the driver; an `abort` fault kills this process.
//! usage: c30 build <project dir> <dependency name>
//! stdout (last line): `ok <dir of the dependency's manifest used by the plan>` | `err <message>` | `panic <message>`
use forc_pkg::manifest::GenericManifestFile;
use forc_pkg::{BuildPlan, PkgOpts};

fn main() {
    let args: Vec<String> = std::env::args().collect();
    if args.len() < 4 || args[1] != "build" {
        eprintln!("usage: c30 build <project dir> <dep name>");
        std::process::exit(2);
    }
    hx::util::quiet_panics();
    let opts = PkgOpts { path: Some(args[2].clone()), offline: false, terse: true, locked: false,
                         output_directory: None, ipfs_node: Default::default() };
    let r = hx::util::guarded(|| BuildPlan::from_pkg_opts(&opts));
    match r {
        Ok(Ok(plan)) => {
            let mut dir = None;
            for (id, m) in plan.manifest_map() {
                let _ = id;
                if m.project.name == args[3] { dir = Some(m.dir().to_path_buf()); }
            }
            match dir {
                Some(d) => println!("ok {}", d.display()),
                None => println!("err dependency not in plan"),
            }
        }
        Ok(Err(e)) => println!("err {}", format!("{e:#}").replace('\n', " ")),
        Err(p) => println!("panic {}", p.replace('\n', " ")),
    }
}
