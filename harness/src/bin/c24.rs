//! C24 harness: drives the REAL `sway_lsp::ServerState` (compilation thread, notification
//! handlers, `wait_for_parsing`) under a turnstile scheduler built on the `sway_lsp::verif` hook.
//!
//! Every access of the scheduling protocol's shared state is preceded by a hook point. The
//! callback installed here parks the calling thread until the scheduler grants it, so exactly one
//! protocol thread runs between two points and the recorded trace is the real order of accesses.
//! Two kinds of grant are "detached" (the scheduler does not wait for the thread to come back):
//! `W compile` (the compilation runs concurrently with later handler steps, it polls `retrigger`)
//! and `Q await` (the waiter comes back only when tokio wakes it).
//!
//! stdin: one JSON case per line
//!   {"id":..,"events":"OCSR..","mode":"random","seed":n,"pwait":0.3}
//!   {"id":..,"events":"OCSR..","mode":"script","script":["s0","1@send","0*","w0",...]}
//! events: O didOpen, C didChange (full text, version = event index), S didSave, R documentSymbol.
//! thread ids: 0 = compilation thread, k+1 = client event k.
//! script directives: "s<k>" start event k; "<t>" one step of t; "<t>*" run t while it can step;
//!   "<t>@acc" run t until its next access is `acc`; "w<t>" wait (<= 3 s) until t is at a point.
//! After the script / random phase everything is run to quiescence; a waiter that is not woken
//! within the quiescence timeout is reported in "hung".
//! stdout: one JSON result per line.
use hx::util::quiet_panics;
use lsp_types::*;
use std::cell::Cell;
use std::collections::{BTreeMap, BTreeSet};
use std::io::{BufRead, Write};
use std::path::PathBuf;
use std::sync::{Arc, Condvar, Mutex, OnceLock};
use std::time::{Duration, Instant};
use sway_lsp::handlers::{notification, request};
use sway_lsp::server_state::ServerState;

thread_local! { static ME: Cell<Option<(u64, usize)>> = const { Cell::new(None) }; }

#[derive(Default)]
struct Inner {
    gen: u64,
    free: bool,
    at: BTreeMap<usize, (&'static str, &'static str, i64)>,
    granted: Option<usize>,
    running: BTreeSet<usize>,
    done: BTreeMap<usize, String>,
    trace: Vec<(usize, String, i64)>,
}

static SCHED: OnceLock<(Mutex<Inner>, Condvar)> = OnceLock::new();
fn sched() -> &'static (Mutex<Inner>, Condvar) {
    SCHED.get_or_init(|| (Mutex::new(Inner::default()), Condvar::new()))
}

fn hook(role: &'static str, access: &'static str, value: i64) {
    let (m, cv) = sched();
    let mut g = m.lock().unwrap();
    let me = ME.with(|c| c.get()).or_else(|| {
        if role == "W" {
            let v = (g.gen, 0usize);
            ME.with(|c| c.set(Some(v)));
            Some(v)
        } else {
            None
        }
    });
    let Some((gen, tid)) = me else { return };
    if g.gen != gen || g.free {
        return;
    }
    g.at.insert(tid, (role, access, value));
    g.running.remove(&tid);
    cv.notify_all();
    loop {
        g = cv.wait(g).unwrap();
        if g.gen != gen || g.free {
            return;
        }
        if g.granted == Some(tid) {
            g.granted = None;
            g.at.remove(&tid);
            g.running.insert(tid);
            cv.notify_all();
            return;
        }
    }
}

fn detached(access: &str) -> bool {
    access == "compile" || access == "await"
}

struct Rng(u64);
impl Rng {
    fn next(&mut self) -> u64 {
        self.0 ^= self.0 << 13;
        self.0 ^= self.0 >> 7;
        self.0 ^= self.0 << 17;
        self.0
    }
    fn below(&mut self, n: usize) -> usize {
        (self.next() % (n as u64)) as usize
    }
    fn chance(&mut self, p: f64) -> bool {
        (self.next() % 10_000) as f64 / 10_000.0 < p
    }
}

struct Case {
    state: Arc<ServerState>,
    rt: Arc<tokio::runtime::Runtime>,
    uri: Url,
    events: Vec<char>,
    spawned: usize,
    gen: u64,
    err: Option<String>,
}

fn text_for(k: usize) -> String {
    format!("library;\n\npub fn v{k}() -> u64 {{\n    {k}\n}}\n")
}

impl Case {
    fn enabled(&self, g: &Inner, tid: usize) -> bool {
        match g.at.get(&tid) {
            None => false,
            Some((_, "recv", _)) => self.state.verif_pending_requests() > 0,
            Some((_, "send", _)) => self.state.verif_pending_requests() == 0,
            Some(_) => true,
        }
    }
    fn enabled_tids(&self) -> Vec<usize> {
        let g = sched().0.lock().unwrap();
        g.at.keys().copied().filter(|t| self.enabled(&g, *t)).collect()
    }
    fn pending_access(&self, tid: usize) -> Option<&'static str> {
        sched().0.lock().unwrap().at.get(&tid).map(|p| p.1)
    }
    /// Wait until `tid` is parked at a point or finished.
    fn wait_settled(&mut self, tid: usize, limit: Duration) -> bool {
        let (m, cv) = sched();
        let mut g = m.lock().unwrap();
        let t0 = Instant::now();
        while !(g.at.contains_key(&tid) || g.done.contains_key(&tid)) {
            let left = limit.checked_sub(t0.elapsed());
            let Some(left) = left else { return false };
            g = cv.wait_timeout(g, left).unwrap().0;
        }
        true
    }
    fn grant(&mut self, tid: usize) {
        let (m, cv) = sched();
        let access;
        {
            let mut g = m.lock().unwrap();
            let Some(&(_, acc, val)) = g.at.get(&tid) else { return };
            access = acc;
            g.trace.push((tid, acc.to_string(), val));
            g.granted = Some(tid);
            cv.notify_all();
            while g.granted.is_some() {
                g = cv.wait(g).unwrap();
            }
        }
        if !detached(access) && !self.wait_settled(tid, Duration::from_secs(600)) {
            self.err = Some(format!("thread {tid} did not come back after {access}"));
        }
    }
    fn spawn_next(&mut self) {
        let k = self.spawned;
        if k >= self.events.len() {
            return;
        }
        self.spawned += 1;
        let (state, rt, uri, ev, gen) =
            (self.state.clone(), self.rt.clone(), self.uri.clone(), self.events[k], self.gen);
        std::thread::spawn(move || {
            ME.with(|c| c.set(Some((gen, k + 1))));
            let r = hx::util::guarded(|| {
                rt.block_on(async {
                    let id = TextDocumentIdentifier { uri: uri.clone() };
                    match ev {
                        'O' => notification::handle_did_open_text_document(
                            &state,
                            DidOpenTextDocumentParams {
                                text_document: TextDocumentItem {
                                    uri: uri.clone(),
                                    language_id: "sway".into(),
                                    version: 0,
                                    text: text_for(0),
                                },
                            },
                        )
                        .await
                        .map_err(|e| e.to_string()),
                        'C' => notification::handle_did_change_text_document(
                            &state,
                            DidChangeTextDocumentParams {
                                text_document: VersionedTextDocumentIdentifier {
                                    uri: uri.clone(),
                                    version: k as i32,
                                },
                                content_changes: vec![TextDocumentContentChangeEvent {
                                    range: None,
                                    range_length: None,
                                    text: text_for(k),
                                }],
                            },
                        )
                        .await
                        .map_err(|e| e.to_string()),
                        'S' => notification::verif_did_save_text_document(
                            &state,
                            DidSaveTextDocumentParams { text_document: id, text: None },
                        )
                        .await
                        .map_err(|e| e.to_string()),
                        _ => request::handle_document_symbol(
                            &state,
                            DocumentSymbolParams {
                                text_document: id,
                                work_done_progress_params: Default::default(),
                                partial_result_params: Default::default(),
                            },
                        )
                        .await
                        .map(|r| {
                            if let Some(DocumentSymbolResponse::Nested(v)) = r {
                                MARK.with(|m| m.set(marker_of(&v)));
                            }
                        })
                        .map_err(|e| e.to_string()),
                    }
                })
            });
            let res = match r {
                Ok(Ok(())) => format!("ok {}", MARK.with(|m| m.get())),
                Ok(Err(e)) => format!("err {e}"),
                Err(p) => format!("panic {p}"),
            };
            let (m, cv) = sched();
            let mut g = m.lock().unwrap();
            if g.gen == gen {
                g.done.insert(k + 1, res);
                g.running.remove(&(k + 1));
            }
            cv.notify_all();
        });
        if !self.wait_settled(k + 1, Duration::from_secs(600)) {
            self.err = Some(format!("event {k} did not reach its first point"));
        }
    }
    /// true if some thread is running detached (compiling or awaiting)
    fn detached_running(&self) -> (bool, bool) {
        let g = sched().0.lock().unwrap();
        (g.running.contains(&0), g.running.iter().any(|t| *t != 0))
    }
    /// Wait up to `limit` for any new arrival; returns true if the set of parked threads grew.
    fn wait_arrival(&self, limit: Duration) -> bool {
        let (m, cv) = sched();
        let mut g = m.lock().unwrap();
        let n0 = g.at.len() + g.done.len();
        let t0 = Instant::now();
        while g.at.len() + g.done.len() == n0 {
            let Some(left) = limit.checked_sub(t0.elapsed()) else { return false };
            g = cv.wait_timeout(g, left).unwrap().0;
        }
        true
    }
    fn run_while_enabled(&mut self, tid: usize, until: Option<&str>) {
        for _ in 0..200 {
            if self.err.is_some() {
                return;
            }
            if let (Some(u), Some(a)) = (until, self.pending_access(tid)) {
                if u == a {
                    return;
                }
            }
            if !self.enabled_tids().contains(&tid) {
                return;
            }
            self.grant(tid);
        }
    }
    fn quiesce(&mut self, quiet: Duration) {
        for _ in 0..5000 {
            if self.err.is_some() {
                return;
            }
            if self.spawned < self.events.len() {
                self.spawn_next();
                continue;
            }
            let en = self.enabled_tids();
            if let Some(t) = en.first() {
                self.grant(*t);
                continue;
            }
            let (wdet, hdet) = self.detached_running();
            if wdet {
                if !self.wait_arrival(Duration::from_secs(600)) {
                    self.err = Some("compilation did not finish".into());
                }
                continue;
            }
            if hdet && self.wait_arrival(quiet) {
                continue;
            }
            return;
        }
        self.err = Some("no quiescence within 5000 steps".into());
    }
}

thread_local! { static MARK: Cell<i64> = const { Cell::new(-1) }; }

fn marker_of(v: &[DocumentSymbol]) -> i64 {
    for s in v {
        if let Some(n) = s.name.strip_prefix('v') {
            if let Ok(k) = n.parse::<i64>() {
                return k;
            }
        }
    }
    -1
}

fn main() {
    quiet_panics();
    let work = PathBuf::from(std::env::var("C24_WORK").unwrap_or("/verif/work/C24/run".into()));
    let quiet_ms: u64 = std::env::var("C24_QUIET_MS").ok().and_then(|s| s.parse().ok()).unwrap_or(250);
    sway_lsp::verif::set_hook(Box::new(hook));
    let rt = Arc::new(
        tokio::runtime::Builder::new_multi_thread().worker_threads(4).enable_all().build().unwrap(),
    );
    let stdin = std::io::stdin();
    let out = std::io::stdout();
    for (n, line) in stdin.lock().lines().enumerate() {
        let line = line.unwrap();
        if line.trim().is_empty() {
            continue;
        }
        let case: serde_json::Value = serde_json::from_str(&line).unwrap();
        // fresh project directory per case
        let dir = work.join(format!("p{n}"));
        let _ = std::fs::remove_dir_all(&dir);
        std::fs::create_dir_all(dir.join("src")).unwrap();
        std::fs::write(
            dir.join("Forc.toml"),
            "[project]\nauthors = [\"verif\"]\nentry = \"main.sw\"\nlicense = \"Apache-2.0\"\nname = \"c24proj\"\nimplicit-std = false\n",
        )
        .unwrap();
        std::fs::write(dir.join("src/main.sw"), text_for(0)).unwrap();
        let uri = Url::from_file_path(dir.join("src/main.sw")).unwrap();

        let gen = {
            let mut g = sched().0.lock().unwrap();
            g.gen += 1;
            g.free = false;
            g.at.clear();
            g.running.clear();
            g.done.clear();
            g.trace.clear();
            g.granted = None;
            g.gen
        };
        let state = Arc::new(ServerState::default());
        let mut c = Case {
            state,
            rt: rt.clone(),
            uri: uri.clone(),
            events: case["events"].as_str().unwrap().chars().collect(),
            spawned: 0,
            gen,
            err: None,
        };
        if !c.wait_settled(0, Duration::from_secs(600)) {
            c.err = Some("compilation thread did not reach its first point".into());
        }
        let t0 = Instant::now();
        if case["mode"] == "script" {
            for d in case["script"].as_array().unwrap() {
                if c.err.is_some() {
                    break;
                }
                let d = d.as_str().unwrap();
                if let Some(k) = d.strip_prefix('s') {
                    let k: usize = k.parse().unwrap();
                    while c.spawned <= k && c.spawned < c.events.len() {
                        c.spawn_next();
                    }
                } else if let Some(t) = d.strip_prefix('w') {
                    c.wait_settled(t.parse().unwrap(), Duration::from_secs(600));
                } else if let Some(t) = d.strip_suffix('*') {
                    c.run_while_enabled(t.parse().unwrap(), None);
                } else if let Some((t, acc)) = d.split_once('@') {
                    c.run_while_enabled(t.parse().unwrap(), Some(acc));
                } else {
                    let t: usize = d.parse().unwrap();
                    if c.enabled_tids().contains(&t) {
                        c.grant(t);
                    } else {
                        c.err = Some(format!("script: thread {t} cannot step at '{d}'"));
                    }
                }
            }
        } else {
            let mut rng = Rng(case["seed"].as_u64().unwrap_or(1) | 1);
            for _ in 0..8 {
                rng.next();
            }
            let pwait = case["pwait"].as_f64().unwrap_or(0.3);
            c.spawn_next(); // the first event is issued before anything else
            for _ in 0..2000 {
                if c.err.is_some() {
                    break;
                }
                let en = c.enabled_tids();
                let can_spawn = c.spawned < c.events.len();
                let (wdet, hdet) = c.detached_running();
                if en.is_empty() && !can_spawn {
                    break; // hand over to quiesce
                }
                if (wdet || hdet) && rng.chance(pwait) {
                    c.wait_arrival(Duration::from_millis(if wdet { 400 } else { 5 }));
                    continue;
                }
                let nopt = en.len() + usize::from(can_spawn);
                let pick = rng.below(nopt);
                if pick < en.len() {
                    c.grant(en[pick]);
                } else {
                    c.spawn_next();
                }
            }
        }
        c.quiesce(Duration::from_millis(quiet_ms));
        let elapsed = t0.elapsed().as_millis();
        // collect
        let (trace, done, parked): (Vec<_>, BTreeMap<_, _>, Vec<_>) = {
            let g = sched().0.lock().unwrap();
            (
                g.trace.clone(),
                g.done.clone(),
                g.at.iter().map(|(t, p)| (*t, p.1)).collect(),
            )
        };
        let hung: Vec<usize> =
            (1..=c.spawned).filter(|t| !done.contains_key(t)).collect();
        // release everything, then look at what the server would answer now
        {
            let (m, cv) = sched();
            let mut g = m.lock().unwrap();
            g.free = true;
            cv.notify_all();
        }
        let marker = hx::util::guarded(|| {
            let temp = c.state.uri_from_workspace(&uri).ok()?;
            let engines = c.state.engines.read();
            sway_lsp::core::session::document_symbols(
                &temp,
                &c.state.token_map,
                &engines,
                &c.state.compiled_programs,
            )
            .map(|v| marker_of(&v))
        })
        .ok()
        .flatten()
        .unwrap_or(-1);
        let is_compiling = c.state.is_compiling.load(std::sync::atomic::Ordering::SeqCst);
        let pending = c.state.verif_pending_requests();
        let _ = hx::util::guarded(|| c.state.shutdown_server());
        let res = serde_json::json!({
            "id": case["id"], "events": case["events"],
            "trace": trace.iter().map(|(t,a,v)| serde_json::json!([t,a,v])).collect::<Vec<_>>(),
            "done": done.iter().map(|(t,r)| (t.to_string(), serde_json::Value::from(r.clone()))).collect::<serde_json::Map<_,_>>(),
            "hung": hung, "parked": parked.iter().map(|(t,a)| serde_json::json!([t,a])).collect::<Vec<_>>(),
            "marker": marker, "is_compiling": is_compiling, "pending": pending,
            "ms": elapsed as u64, "err": c.err, "last_error": sway_lsp::verif::last_error(),
        });
        let mut o = out.lock();
        writeln!(o, "{res}").unwrap();
        o.flush().unwrap();
        if hung.is_empty() {
            let _ = std::fs::remove_dir_all(&dir);
        }
    }
    // hung waiter threads (if any) must not keep the process alive
    std::process::exit(0);
}
