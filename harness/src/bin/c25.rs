//! C25 harness: drives the REAL `forc_util::fs_locking` step by step through the verification hook.
//!
//! Modes
//!   c25 child <pid>          one process playing one agent: reads commands on stdin
//!                            (`op <name> <dead,..>` / `go <dead,..>`), answers on stdout
//!                            (`ready <label>` / `ret <value>`). Crash = the driver kills it.
//!   c25 drive [threads|procs] <home>
//!                            stdin: one schedule per line (see below); agents are threads with
//!                            distinct injected pids (fast) or child processes (real processes).
//!   c25 enum <home> ...      stateless DFS over all interleavings of per-agent programs, driving
//!                            the real code (threads); prints one line per maximal schedule.
//!
//! Schedule line (drive):  `<init>;<tok> <tok> ...`   init = a|e|g|p<pid>   (absent, empty,
//! garbage, file holding <pid>); tok = `<agent>S<op>` start op | `<agent>.` one fs step |
//! `<agent>X` crash.   ops: c cleanup(new), k lock, r release, i is_locked, g get_locker_pid.
//! Output line: `<init>;<tok>=<obs> ...` where obs = `<view>` after a step, plus `:<ret>` when the
//! step completed the call, plus `@<label>` the label of the gate the agent is now waiting at.
//!   view: a absent | e empty | p<pid> | g garbage          ret: t|f (bool), n|s<pid> (option),
//!   o ok | x err, u (unit: cleanup done), P panic
//! Agent i has pid 100+i... no: pid = PID_BASE + i (equal-length decimal strings).
use forc_util::fs_locking::{verif, PidFileLocking};
use std::collections::BTreeSet;
use std::io::{BufRead, Write};
use std::path::{Path, PathBuf};
use std::sync::mpsc::{channel, Receiver, Sender};
use std::sync::{Arc, Mutex};

const PID_BASE: usize = 100;
const KEY: &str = "/verif-c25/flag.sw";

fn lock_dir(home: &Path) -> PathBuf {
    home.join(".forc").join(".lsp-locks")
}

/// Finds the path used by PidFileLocking::lsp(KEY) (hash of KEY); computed once by locking.
fn real_flag_path(home: &Path) -> PathBuf {
    let _ = home;
    let l = PidFileLocking::lsp(KEY);
    l.lock().expect("probe lock");
    let d = lock_dir(home);
    let mut found = None;
    for e in std::fs::read_dir(&d).unwrap() {
        let p = e.unwrap().path();
        if p.extension().and_then(|x| x.to_str()) == Some("lock") {
            found = Some(p);
        }
    }
    let p = found.expect("no lock file after probe lock");
    std::fs::remove_file(&p).unwrap();
    p
}

// ---------------------------------------------------------------------------------------------
// events from an agent
#[derive(Debug, Clone, PartialEq)]
enum Ev {
    Ready(String),
    Ret(String),
}

fn perform(op: &str) -> String {
    let r = hx::util::guarded(|| match op {
        // what `PidFileLocking::new` runs first (and ignores the result of)
        "c" => match PidFileLocking::cleanup_stale_files() {
            Ok(v) => format!("u{}", v.len()),
            Err(_) => "x".into(),
        },
        // the handle is built without the cleanup of `new`: build it with the hook gates
        // silenced is not possible, so ops other than `c` construct the handle through
        // `handle()` below, which suppresses gate announcements during construction.
        "k" => match handle().lock() {
            Ok(()) => "o".into(),
            Err(_) => "x".into(),
        },
        "r" => match handle().release() {
            Ok(()) => "o".into(),
            Err(_) => "x".into(),
        },
        "i" => if handle().is_locked() { "t".into() } else { "f".into() },
        "g" => match handle().get_locker_pid() {
            Some(p) => format!("s{p}"),
            None => "n".into(),
        },
        _ => panic!("unknown op {op}"),
    });
    match r {
        Ok(s) => s,
        Err(m) if m == "verif-crash" => "K".into(),
        Err(_) => "P".into(),
    }
}

thread_local! { static QUIET: std::cell::Cell<bool> = const { std::cell::Cell::new(false) }; }

/// A handle on the flag as the LSP keeps it (`Arc<PidFileLocking>` stored after `lsp(path)`):
/// constructing it runs `cleanup_stale_files`, which is a separate modelled call (`c`), so the
/// gates are passed through silently here and the construction happens while no file exists to
/// be cleaned... That would still touch the directory; instead the construction is done ONCE per
/// agent before the schedule starts (see `Agent`), which is exactly what sway-lsp does.
fn handle() -> Arc<PidFileLocking> {
    HANDLE.with(|h| h.borrow().clone().expect("handle not built"))
}
thread_local! { static HANDLE: std::cell::RefCell<Option<Arc<PidFileLocking>>> = const { std::cell::RefCell::new(None) }; }

fn build_handle() {
    QUIET.with(|q| q.set(true));
    let h = Arc::new(PidFileLocking::lsp(KEY));
    QUIET.with(|q| q.set(false));
    HANDLE.with(|x| *x.borrow_mut() = Some(h));
}

// ---------------------------------------------------------------------------------------------
// thread agents
enum Cmd {
    Op(String),
    Go,
    Crash,
    Quit,
}

struct ThreadAgent {
    tx: Sender<Cmd>,
    rx: Receiver<Ev>,
}

fn spawn_thread_agent(idx: usize, n: usize, dead: Arc<Mutex<BTreeSet<usize>>>) -> ThreadAgent {
    let (ctx, crx) = channel::<Cmd>();
    let (etx, erx) = channel::<Ev>();
    std::thread::spawn(move || {
        let crx = std::rc::Rc::new(crx);
        let crx2 = crx.clone();
        let etx2 = etx.clone();
        verif::install(Some(verif::Ctl {
            pid: PID_BASE + idx,
            step: Box::new(move |label| {
                if QUIET.with(|q| q.get()) {
                    return;
                }
                etx2.send(Ev::Ready(label.to_string())).unwrap();
                let c = crx2.recv().unwrap();
                match c {
                    Cmd::Go => {}
                    Cmd::Crash => std::panic::panic_any("verif-crash".to_string()),
                    _ => panic!("protocol"),
                }
            }),
            is_active: Box::new(move |pid| !dead.lock().unwrap().contains(&pid) && pid >= PID_BASE && pid < PID_BASE + n),
        }));
        build_handle();
        etx.send(Ev::Ret("init".into())).unwrap();
        loop {
            let c = crx.recv();
            match c {
                Ok(Cmd::Op(op)) => {
                    let r = perform(&op);
                    etx.send(Ev::Ret(r)).unwrap();
                }
                Ok(Cmd::Quit) | Err(_) => break,
                Ok(Cmd::Crash) => { etx.send(Ev::Ret("K".into())).unwrap(); }
                Ok(Cmd::Go) => panic!("go while idle"),
            }
        }
    });
    let a = ThreadAgent { tx: ctx, rx: erx };
    assert_eq!(a.rx.recv().unwrap(), Ev::Ret("init".into()));
    a
}

// process agents
struct ProcAgent {
    child: std::process::Child,
    inp: std::process::ChildStdin,
    out: std::io::BufReader<std::process::ChildStdout>,
}

fn dead_str(dead: &BTreeSet<usize>) -> String {
    let v: Vec<String> = dead.iter().map(|d| d.to_string()).collect();
    if v.is_empty() { "-".into() } else { v.join(",") }
}

impl ProcAgent {
    fn spawn(idx: usize, n: usize, home: &Path) -> ProcAgent {
        let exe = std::env::current_exe().unwrap();
        let mut child = std::process::Command::new(exe)
            .arg("child")
            .arg((PID_BASE + idx).to_string())
            .arg(n.to_string())
            .env("HOME", home)
            .stdin(std::process::Stdio::piped())
            .stdout(std::process::Stdio::piped())
            .spawn()
            .unwrap();
        let inp = child.stdin.take().unwrap();
        let out = std::io::BufReader::new(child.stdout.take().unwrap());
        let mut a = ProcAgent { child, inp, out };
        assert_eq!(a.read_ev(), Ev::Ret("init".into()));
        a
    }
    fn read_ev(&mut self) -> Ev {
        let mut l = String::new();
        self.out.read_line(&mut l).unwrap();
        let l = l.trim();
        if let Some(x) = l.strip_prefix("ready ") { Ev::Ready(x.into()) }
        else if let Some(x) = l.strip_prefix("ret ") { Ev::Ret(x.into()) }
        else { panic!("child said {l:?}") }
    }
}

fn child_main(pid: usize, n: usize) {
    hx::util::quiet_panics();
    let dead: Arc<Mutex<BTreeSet<usize>>> = Arc::new(Mutex::new(BTreeSet::new()));
    let dead2 = dead.clone();
    let dead3 = dead.clone();
    fn parse_dead(s: &str) -> BTreeSet<usize> {
        s.split(',').filter_map(|x| x.parse().ok()).collect()
    }
    verif::install(Some(verif::Ctl {
        pid,
        step: Box::new(move |label| {
            if QUIET.with(|q| q.get()) { return; }
            println!("ready {label}");
            std::io::stdout().flush().unwrap();
            let mut l = String::new();
            if std::io::stdin().read_line(&mut l).unwrap() == 0 { std::process::exit(0); }
            let mut it = l.split_whitespace();
            assert_eq!(it.next(), Some("go"));
            *dead2.lock().unwrap() = parse_dead(it.next().unwrap_or("-"));
        }),
        is_active: Box::new(move |p| !dead3.lock().unwrap().contains(&p) && p >= PID_BASE && p < PID_BASE + n),
    }));
    build_handle();
    println!("ret init");
    std::io::stdout().flush().unwrap();
    loop {
        let mut l = String::new();
        if std::io::stdin().read_line(&mut l).unwrap() == 0 { break; }
        let mut it = l.split_whitespace();
        match it.next() {
            Some("op") => {
                let op = it.next().unwrap().to_string();
                *dead.lock().unwrap() = parse_dead(it.next().unwrap_or("-"));
                let r = perform(&op);
                println!("ret {r}");
                std::io::stdout().flush().unwrap();
            }
            _ => break,
        }
    }
}

// ---------------------------------------------------------------------------------------------
enum Agent {
    T(ThreadAgent),
    P(ProcAgent),
}

struct World {
    home: PathBuf,
    flag: PathBuf,
    procs: bool,
    agents: Vec<Agent>,
    dead: Arc<Mutex<BTreeSet<usize>>>,
    /// per agent: Some(label) when blocked at a gate, None when idle; crashed agents are removed
    at: Vec<Option<String>>,
    crashed: Vec<bool>,
    n: usize,
}

impl World {
    fn new(home: &Path, procs: bool, n: usize) -> World {
        std::env::set_var("HOME", home);
        std::fs::create_dir_all(lock_dir(home)).unwrap();
        for e in std::fs::read_dir(lock_dir(home)).unwrap() {
            let _ = std::fs::remove_file(e.unwrap().path());
        }
        let flag = real_flag_path(home);
        let dead = Arc::new(Mutex::new(BTreeSet::new()));
        let mut w = World { home: home.into(), flag, procs, agents: vec![], dead, at: vec![], crashed: vec![], n };
        for i in 0..n { w.spawn(i); }
        w
    }
    fn spawn(&mut self, i: usize) {
        let a = if self.procs { Agent::P(ProcAgent::spawn(i, self.n, &self.home)) } else { Agent::T(spawn_thread_agent(i, self.n, self.dead.clone())) };
        if i < self.agents.len() { self.agents[i] = a; self.at[i] = None; self.crashed[i] = false; }
        else { self.agents.push(a); self.at.push(None); self.crashed.push(false); }
    }
    /// reset between schedules: respawn crashed agents, clear dead set, set the initial file
    fn reset(&mut self, init: &str) {
        for i in 0..self.agents.len() {
            if self.crashed[i] || self.at[i].is_some() {
                // an agent left mid-call: crash it (thread unwinds / process killed), respawn
                self.kill(i);
                self.spawn(i);
            }
        }
        self.dead.lock().unwrap().clear();
        let _ = std::fs::remove_file(&self.flag);
        match init.as_bytes()[0] {
            b'a' => {}
            b'e' => { std::fs::write(&self.flag, b"").unwrap(); }
            b'g' => { std::fs::write(&self.flag, b"not-a-pid").unwrap(); }
            b'p' => { std::fs::write(&self.flag, init[1..].as_bytes()).unwrap(); }
            _ => panic!("bad init"),
        }
    }
    fn kill(&mut self, i: usize) {
        match &mut self.agents[i] {
            Agent::T(t) => {
                if self.at[i].is_some() {
                    t.tx.send(Cmd::Crash).unwrap();
                    // the call unwinds; wait for its 'K' return so no fs op is pending
                    loop { if let Ev::Ret(_) = t.rx.recv().unwrap() { break; } }
                }
                let _ = t.tx.send(Cmd::Quit);
            }
            Agent::P(p) => { let _ = p.child.kill(); let _ = p.child.wait(); }
        }
        self.at[i] = None;
    }
    fn view(&self) -> String {
        match std::fs::read(&self.flag) {
            Err(_) => "a".into(),
            Ok(b) if b.is_empty() => "e".into(),
            Ok(b) => match std::str::from_utf8(&b).ok().and_then(|s| s.trim().parse::<usize>().ok()) {
                Some(p) => format!("p{p}"),
                None => "g".into(),
            },
        }
    }
    fn recv(&mut self, i: usize) -> Ev {
        match &mut self.agents[i] {
            Agent::T(t) => t.rx.recv().unwrap(),
            Agent::P(p) => p.read_ev(),
        }
    }
    /// returns the observation string for this token
    fn apply(&mut self, tok: &str) -> Result<String, String> {
        let i = (tok.as_bytes()[0] - b'0') as usize;
        if i >= self.agents.len() { return Err(format!("no agent {i}")); }
        let kind = tok.as_bytes()[1];
        if self.crashed[i] { return Ok(format!("{}!dead", self.view())); }
        match kind {
            b'S' => {
                if self.at[i].is_some() { return Ok(format!("{}!busy", self.view())); }
                let op = &tok[2..];
                let d = dead_str(&self.dead.lock().unwrap());
                match &mut self.agents[i] {
                    Agent::T(t) => t.tx.send(Cmd::Op(op.into())).unwrap(),
                    Agent::P(p) => { writeln!(p.inp, "op {op} {d}").unwrap(); p.inp.flush().unwrap(); }
                }
                self.after(i)
            }
            b'.' => {
                if self.at[i].is_none() { return Ok(format!("{}!idle", self.view())); }
                let d = dead_str(&self.dead.lock().unwrap());
                match &mut self.agents[i] {
                    Agent::T(t) => t.tx.send(Cmd::Go).unwrap(),
                    Agent::P(p) => { writeln!(p.inp, "go {d}").unwrap(); p.inp.flush().unwrap(); }
                }
                self.after(i)
            }
            b'X' => {
                self.dead.lock().unwrap().insert(PID_BASE + i);
                self.kill(i);
                self.crashed[i] = true;
                Ok(format!("{}", self.view()))
            }
            _ => Err(format!("bad token {tok}")),
        }
    }
    fn after(&mut self, i: usize) -> Result<String, String> {
        match self.recv(i) {
            Ev::Ready(l) => { self.at[i] = Some(l.clone()); Ok(format!("{}@{}", self.view(), l)) }
            Ev::Ret(r) => { self.at[i] = None; Ok(format!("{}:{}", self.view(), r)) }
        }
    }
    fn run_line(&mut self, line: &str) -> String {
        let (init, toks) = line.split_once(';').unwrap_or((line, ""));
        self.reset(init);
        let mut out = vec![];
        for tok in toks.split_whitespace() {
            match self.apply(tok) {
                Ok(o) => out.push(format!("{tok}={o}")),
                Err(e) => { out.push(format!("{tok}=ERR:{e}")); break; }
            }
        }
        format!("{};{}", init, out.join(" "))
    }
}

// ---------------------------------------------------------------------------------------------
/// Stateless DFS. `progs[i]` = ops of agent i in order. At each point the choices are, per agent:
/// step (if at a gate) / start its next op fused with ... (Start is its own token; it performs no
/// fs operation: the agent runs up to its first gate). To keep the number of schedules down the
/// Start token is always chosen together with the agent's first step (`iS<op> i.`), which is the
/// latest possible start. `crash_agent`: optionally one crash of that agent at every position.
fn enumerate(w: &mut World, init: &str, progs: &[Vec<String>], crash_agent: Option<usize>, limit: usize, out: &mut dyn Write) -> usize {
    // every execution runs to a leaf; `path` holds, per depth, the alternatives and the one taken
    let mut count = 0usize;
    let mut path: Vec<(Vec<Vec<String>>, usize)> = vec![];
    loop {
        if count >= limit { break; }
        w.reset(init);
        let mut obs = vec![];
        let mut next_op = vec![0usize; progs.len()];
        let mut crashed_used = false;
        let mut depth = 0usize;
        loop {
            if depth == path.len() {
                let mut choices: Vec<Vec<String>> = vec![];
                for i in 0..progs.len() {
                    if w.crashed[i] { continue; }
                    if w.at[i].is_some() {
                        choices.push(vec![format!("{i}.")]);
                        if crash_agent == Some(i) && !crashed_used { choices.push(vec![format!("{i}X")]); }
                    } else if next_op[i] < progs[i].len() {
                        choices.push(vec![format!("{i}S{}", progs[i][next_op[i]]), format!("{i}.")]);
                    }
                }
                if choices.is_empty() { break; }
                path.push((choices, 0));
            }
            let toks = path[depth].0[path[depth].1].clone();
            for tok in &toks {
                let o = w.apply(tok).unwrap();
                if tok.as_bytes()[1] == b'S' { next_op[(tok.as_bytes()[0] - b'0') as usize] += 1; }
                if tok.as_bytes()[1] == b'X' { crashed_used = true; }
                obs.push(format!("{tok}={o}"));
            }
            depth += 1;
        }
        writeln!(out, "{};{}", init, obs.join(" ")).unwrap();
        count += 1;
        // backtrack
        while let Some((c, i)) = path.last() {
            if i + 1 < c.len() { break; }
            path.pop();
        }
        match path.last_mut() {
            Some(l) => l.1 += 1,
            None => break,
        }
    }
    count
}

fn main() {
    let args: Vec<String> = std::env::args().collect();
    match args.get(1).map(|s| s.as_str()) {
        Some("child") => child_main(args[2].parse().unwrap(), args[3].parse().unwrap()),
        Some("drive") => {
            hx::util::quiet_panics();
            let procs = args[2] == "procs";
            let home = PathBuf::from(&args[3]);
            let n: usize = args.get(4).map(|s| s.parse().unwrap()).unwrap_or(3);
            let mut w = World::new(&home, procs, n);
            let stdin = std::io::stdin();
            let out = std::io::stdout();
            let mut out = std::io::BufWriter::new(out.lock());
            for line in stdin.lock().lines() {
                let line = line.unwrap();
                if line.trim().is_empty() { continue; }
                let r = w.run_line(line.trim());
                writeln!(out, "{r}").unwrap();
            }
            out.flush().unwrap();
            for i in 0..w.agents.len() { w.kill(i); }
        }
        Some("enum") => {
            // c25 enum <home> ; stdin lines: `<init>|<prog0>/<prog1>[/<prog2>]|<crash agent or ->|<limit>`
            hx::util::quiet_panics();
            let home = PathBuf::from(&args[2]);
            let n: usize = args.get(3).map(|s| s.parse().unwrap()).unwrap_or(2);
            let mut w = World::new(&home, false, n);
            let stdin = std::io::stdin();
            let out = std::io::stdout();
            let mut out = std::io::BufWriter::new(out.lock());
            for line in stdin.lock().lines() {
                let line = line.unwrap();
                let f: Vec<&str> = line.trim().split('|').collect();
                if f.len() < 4 { continue; }
                let progs: Vec<Vec<String>> = f[1].split('/').map(|p| p.chars().map(|c| c.to_string()).collect()).collect();
                let crash = f[2].parse::<usize>().ok();
                let limit: usize = f[3].parse().unwrap();
                let n = enumerate(&mut w, f[0], &progs, crash, limit, &mut out);
                writeln!(out, "#done {} {}", line.trim(), n).unwrap();
            }
            out.flush().unwrap();
            for i in 0..w.agents.len() { w.kill(i); }
        }
        _ => eprintln!("usage: c25 child <pid> | drive threads|procs <home> [n] | enum <home>"),
    }
}
