//! C21 harness: feed source strings and lock-file texts to the real forc-pkg readers.
//! stdin, one case per line (strings hex-encoded UTF-8 / raw bytes for lock texts):
//!   S <hex>   forc_pkg::source::Pinned::from_str
//!   L <hex>   write the bytes to a temp Forc.lock, Lock::from_path, then Lock::to_graph
//!   U|C|V <hex>  oracle query: the external url / cid / semver parser on that exact string
//! stdout: one JSON object per case. Every implementation call runs inside `guarded`.
#[path = "../c20_common.rs"]
mod common;
use common::*;
use hx::util::{guarded, quiet_panics};
use serde_json::json;
use std::io::{BufRead, Write};
use std::str::FromStr;

fn main() {
    quiet_panics();
    let dir = tempfile::tempdir().expect("tempdir");
    let lock_path = dir.path().join("Forc.lock");
    let stdin = std::io::stdin();
    let out = std::io::stdout();
    let mut out = std::io::BufWriter::new(out.lock());
    for line in stdin.lock().lines() {
        let line = line.unwrap();
        let line = line.trim();
        if line.is_empty() {
            continue;
        }
        let (kind, arg) = line.split_once(' ').unwrap_or((line, "-"));
        let v = match kind {
            "S" => {
                let s = unhex(arg).expect("S case must be valid UTF-8");
                match guarded(|| forc_pkg::source::Pinned::from_str(&s)) {
                    Ok(Ok(p)) => json!({"k": "S", "res": "ok", "src": src_json(&p), "disp": hx(&p.to_string())}),
                    Ok(Err(_)) => json!({"k": "S", "res": "err"}),
                    Err(m) => json!({"k": "S", "res": "panic", "msg": m}),
                }
            }
            "L" => {
                let bytes = if arg == "-" { vec![] } else { hex::decode(arg).expect("bad hex") };
                std::fs::write(&lock_path, &bytes).expect("write lock");
                match guarded(|| forc_pkg::Lock::from_path(&lock_path)) {
                    Err(m) => json!({"k": "L", "load": "panic", "msg": m}),
                    Ok(Err(_)) => json!({"k": "L", "load": "err"}),
                    Ok(Ok(lock)) => {
                        let lj = lock_json(&lock);
                        match guarded(|| lock.to_graph()) {
                            Ok(Ok(g)) => json!({"k": "L", "load": "ok", "lock": lj, "graph": "ok", "g": graph_json(&g)}),
                            Ok(Err(_)) => json!({"k": "L", "load": "ok", "lock": lj, "graph": "err"}),
                            Err(m) => json!({"k": "L", "load": "ok", "lock": lj, "graph": "panic", "msg": m}),
                        }
                    }
                }
            }
            "U" | "C" | "V" => {
                let s = unhex(arg).expect("oracle query must be valid UTF-8");
                match guarded(|| oracle(kind, &s)) {
                    Ok(Some(d)) => json!({"k": kind, "res": "ok", "disp": hx(&d)}),
                    Ok(None) => json!({"k": kind, "res": "rej"}),
                    Err(m) => json!({"k": kind, "res": "panic", "msg": m}),
                }
            }
            _ => json!({"k": "?", "res": "bad-case"}),
        };
        writeln!(out, "{}", v).unwrap();
    }
}
