//! C19 harness: the REAL formatter (`swayfmt::Formatter::format`, default config) on inputs read from
//! stdin (one per line, hex of valid UTF-8). Per input one line, tab separated, Coq term syntax
//! (see c16.rs for the encoding of texts and token streams):
//!
//!   `<status>\t<in_nbytes>\t<in_scalars>\t<in_lex>\t<out_nbytes>\t<out_scalars>\t<out_lex>\t<out_parse>\t<out_hex>\t<cmap>\t<in_ucls>`
//!
//!   cmap       the REAL `CommentMap::from_src(input)` (through `Formatter::with_comments_context`): its entries
//!              in BTreeMap iteration order as `XCmap [(span, kind);...]`, or `XCmapNone` when it errs/panics
//!
//!   status     `fmt-ok` | `fmt-err` (input does not parse / formatter error: not applicable) | `fmt-panic <msg>`
//!   out_parse  `1` the formatted text parses without diagnostics' errors | `0` | `2` parse_file panicked
//! For `fmt-err` / `fmt-panic` the out_* fields are `-`.
#[allow(dead_code)]
#[path = "c16.rs"]
mod c16;

use hx::util::{guarded, hex_decode, quiet_panics};
use rayon::prelude::*;
use std::io::{BufRead, Write};
use sway_error::handler::Handler;
use sway_features::ExperimentalFeatures;

fn handle(line: &str) -> String {
    let bytes = if line == "-" { vec![] } else { hex_decode(line) };
    let text = String::from_utf8(bytes).expect("case is not valid UTF-8");
    let (in_scal, in_ucls, in_lex) = c16::dump_text(&text);
    let cm = guarded(|| {
        let mut f = swayfmt::Formatter::default();
        if f.with_comments_context(&text).is_err() {
            return None;
        }
        let v: Vec<String> = f
            .comments_context
            .map
            .0
            .iter()
            .map(|(bs, c)| {
                let k = match c.comment_kind {
                    sway_ast::token::CommentKind::Newlined => 0,
                    sway_ast::token::CommentKind::Trailing => 1,
                    sway_ast::token::CommentKind::Inlined => 2,
                    sway_ast::token::CommentKind::Multilined => 3,
                };
                format!("({},{})", ((bs.start as u64) << 31) | bs.end as u64, k)
            })
            .collect();
        Some(c16::coq_list(&v))
    });
    let cm_s = match cm {
        Ok(Some(s)) => format!("XCmap {}", s),
        _ => "XCmapNone".to_string(),
    };
    let r = guarded(|| {
        let mut f = swayfmt::Formatter::default();
        f.format(text.as_str().into()).map_err(|e| e.to_string())
    });
    match r {
        Err(p) => format!(
            "fmt-panic {}\t{}\t{}\t{}\t-\t-\t-\t-\t-\t{}\t{}",
            p.chars().map(|c| if c.is_control() { ' ' } else { c }).take(160).collect::<String>(),
            text.len(), in_scal, in_lex, cm_s, in_ucls
        ),
        Ok(Err(_)) => format!("fmt-err\t{}\t{}\t{}\t-\t-\t-\t-\t-\t{}\t{}", text.len(), in_scal, in_lex, cm_s, in_ucls),
        Ok(Ok(out)) => {
            let (out_scal, _u, out_lex) = c16::dump_text(&out);
            let p = guarded(|| {
                let handler = Handler::default();
                let r = sway_parse::parse_file(&handler, out.as_str().into(), None, ExperimentalFeatures::default());
                r.is_ok() && !handler.has_errors()
            });
            let ps = match p { Ok(true) => "1", Ok(false) => "0", Err(_) => "2" };
            format!("fmt-ok\t{}\t{}\t{}\t{}\t{}\t{}\t{}\t{}\t{}\t{}", text.len(), in_scal, in_lex, out.len(), out_scal, out_lex, ps,
                    if out.is_empty() { "-".to_string() } else { hex::encode(&out) }, cm_s, in_ucls)
        }
    }
}

fn main() {
    quiet_panics();
    let stdin = std::io::stdin();
    let lines: Vec<String> = stdin.lock().lines().map(|l| l.unwrap().trim().to_string()).filter(|l| !l.is_empty()).collect();
    let res: Vec<String> = lines.par_iter().map(|l| handle(l)).collect();
    let out = std::io::stdout();
    let mut out = std::io::BufWriter::new(out.lock());
    writeln!(out, "{}", c16::ascii_selfcheck()).unwrap();
    for r in res {
        writeln!(out, "{}", r).unwrap();
    }
}
