//! C01/C02 harness.
//!   c01 diag [--release] <pkgdir>      build a generated package with diagnostics printed (stderr) -
//!                                      used only to explain a build_error reported by `swayrun`
//!   c01 ir [--release] <pkgdir> p1,p2,..   print the IR after each listed pass (debugging aid for findings)
//!   c01 e2e <script-pkgdir>...         build each maintainers' e2e *script* package in debug and in release
//!                                      (forc_pkg::build_with_options) and run the bytecode on fuel-vm the way
//!                                      test/src/e2e_vm_tests/harness.rs::runs_in_vm does; one JSON line per package:
//!   {"pkg":..., "debug": R, "release": R}   R = {"status":"ok","state":"Return(v)"|"ReturnData"|"Revert(c)",
//!        "value":v|c, "data":hex, "logs":[hex...]} | {"status":"build_error"|"panic"|"vm_error","error":...}
use hx::util::{guarded, quiet_panics};
use serde_json::json;

fn build(dir: &str, release: bool, terse: bool, tests: bool) -> anyhow::Result<forc_pkg::Built> {
    build_ir(dir, release, terse, tests, vec![])
}

fn build_ir(dir: &str, release: bool, terse: bool, tests: bool, print_after: Vec<String>) -> anyhow::Result<forc_pkg::Built> {
    let mut print = forc_pkg::PrintOpts::default();
    if !print_after.is_empty() {
        print.ir = sway_core::IrCli { initial: true, r#final: true, modified_only: true, print_metadata: false, passes: print_after };
    }
    let opts = forc_pkg::BuildOpts {
        print,
        pkg: forc_pkg::PkgOpts { path: Some(dir.to_string()), offline: true, terse, ..Default::default() },
        release,
        tests,
        build_profile: if release { forc_pkg::BuildProfile::RELEASE.to_string() } else { forc_pkg::BuildProfile::DEBUG.to_string() },
        ..Default::default()
    };
    forc_pkg::build_with_options(&opts, None)
}

fn run_script(bytes: Vec<u8>) -> anyhow::Result<serde_json::Value> {
    use fuel_tx::{ConsensusParameters, TransactionBuilder, Receipt};
    use fuel_vm::checked_transaction::builder::TransactionBuilderExt;
    use fuel_vm::prelude::*;
    use fuel_vm::interpreter::{Interpreter, MemoryInstance, NotSupportedEcal};
    use fuel_vm::storage::MemoryStorage;
    let storage = MemoryStorage::default();
    let maturity = 1.into();
    let block_height = (u32::MAX >> 1).into();
    let max_size = 64 * 1024 * 1024;
    let script_params = fuel_tx::ScriptParameters::DEFAULT.with_max_script_length(max_size).with_max_script_data_length(max_size);
    let tx_params = fuel_tx::TxParameters::DEFAULT.with_max_size(max_size);
    let params = ConsensusParameters::V1(fuel_tx::consensus_parameters::ConsensusParametersV1 {
        script_params, tx_params, ..Default::default() });
    let mut tb = TransactionBuilder::script(bytes, vec![]);
    // fixed key / ids (the e2e harness draws them from StdRng::seed_from_u64(2322); they are not observable)
    let secret = fuel_crypto::SecretKey::try_from(&[7u8; 32][..]).map_err(|e| anyhow::anyhow!("{e:?}"))?;
    tb.with_params(params)
        .add_unsigned_coin_input(secret, fuel_tx::UtxoId::new([1u8; 32].into(), 0), 1, Default::default(), Default::default())
        .maturity(maturity);
    let consensus_params = tb.get_params().clone();
    let params = ConsensusParameters::default();
    let tmp_tx = tb.clone().finalize();
    let max_gas = tmp_tx.max_gas(consensus_params.gas_costs(), consensus_params.fee_params()) + 1;
    tb.script_gas_limit(consensus_params.tx_params().max_gas_per_tx() - max_gas);
    let tx = tb.finalize_checked(block_height)
        .into_ready(0, params.gas_costs(), params.fee_params(), None)
        .map_err(|e| anyhow::anyhow!("{e:?}"))?;
    let mut i: Interpreter<_, _, _, NotSupportedEcal> =
        Interpreter::with_storage(MemoryInstance::new(), storage, Default::default());
    let transition = i.transact(tx).map_err(|e| anyhow::anyhow!("vm: {e:?}"))?;
    let state = *transition.state();
    let receipts = transition.receipts().to_vec();
    let mut logs = vec![];
    let mut data = String::new();
    for r in &receipts {
        match r {
            Receipt::LogData { data: d, .. } => logs.push(hex::encode(d.as_ref().map(|d| d.to_vec()).unwrap_or_default())),
            Receipt::Log { ra, .. } => logs.push(format!("{:016x}", ra)),
            Receipt::ReturnData { data: d, .. } => data = hex::encode(d.as_ref().map(|d| d.to_vec()).unwrap_or_default()),
            _ => {}
        }
    }
    let (st, val) = match state {
        ProgramState::Return(v) => ("Return".to_string(), v),
        ProgramState::ReturnData(_) => ("ReturnData".to_string(), 0),
        ProgramState::Revert(v) => ("Revert".to_string(), v),
        other => (format!("{:?}", other), 0),
    };
    Ok(json!({"status": "ok", "state": st, "value": val.to_string(), "data": data, "logs": logs}))
}

fn e2e_one(dir: &str, release: bool) -> serde_json::Value {
    let r = guarded(|| -> anyhow::Result<serde_json::Value> {
        let built = build(dir, release, true, false)?;
        let pkg = match built {
            forc_pkg::Built::Package(p) => p,
            forc_pkg::Built::Workspace(_) => anyhow::bail!("workspace"),
        };
        match run_script(pkg.bytecode.bytes.clone()) {
            Ok(v) => Ok(v),
            Err(e) => Ok(json!({"status": "vm_error", "error": format!("{:#}", e).chars().take(400).collect::<String>()})),
        }
    });
    match r {
        Ok(Ok(v)) => v,
        Ok(Err(e)) => json!({"status": "build_error", "error": format!("{:#}", e).chars().take(600).collect::<String>()}),
        Err(p) => json!({"status": "panic", "error": p}),
    }
}

fn main() {
    let args: Vec<String> = std::env::args().skip(1).collect();
    match args.first().map(|s| s.as_str()) {
        Some("diag") => {
            forc_tracing::init_tracing_subscriber(Default::default());
            let release = args.iter().any(|a| a == "--release");
            let dir = args.last().unwrap();
            match guarded(|| build(dir, release, false, true).map(|_| ())) {
                Ok(Ok(())) => println!("{}", json!({"pkg": dir, "status": "ok"})),
                Ok(Err(e)) => println!("{}", json!({"pkg": dir, "status": "build_error", "error": format!("{:#}", e)})),
                Err(p) => println!("{}", json!({"pkg": dir, "status": "panic", "error": p})),
            }
        }
        Some("ir") => {
            // c01 ir [--release] <pkgdir> pass1,pass2,...   IR after each listed pass that modified it (stdout)
            let release = args.iter().any(|a| a == "--release");
            let rest: Vec<&String> = args[1..].iter().filter(|a| *a != "--release").collect();
            let passes = rest[1].split(',').map(|s| s.to_string()).collect();
            let r = guarded(|| build_ir(rest[0], release, true, true, passes).map(|_| ()));
            println!("// build: {:?}", r.map(|x| x.map_err(|e| format!("{:#}", e))));
        }
        Some("e2e") => {
            quiet_panics();
            for d in &args[1..] {
                let dbg = e2e_one(d, false);
                let rel = e2e_one(d, true);
                println!("{}", json!({"pkg": d, "debug": dbg, "release": rel}));
            }
        }
        _ => eprintln!("usage: c01 diag [--release] <pkgdir> | c01 e2e <pkgdir>..."),
    }
}
