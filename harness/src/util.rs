use std::panic::{catch_unwind, AssertUnwindSafe};

/// Run `f`, mapping a Rust panic to `Err(message)`.
pub fn guarded<T>(f: impl FnOnce() -> T) -> Result<T, String> {
    match catch_unwind(AssertUnwindSafe(f)) {
        Ok(v) => Ok(v),
        Err(e) => {
            let msg = if let Some(s) = e.downcast_ref::<&str>() {
                s.to_string()
            } else if let Some(s) = e.downcast_ref::<String>() {
                s.clone()
            } else {
                "<non-string panic>".to_string()
            };
            Err(msg)
        }
    }
}

/// Silence the default panic hook (panics are outcomes, not noise).
pub fn quiet_panics() {
    std::panic::set_hook(Box::new(|_| {}));
}

pub fn hex_decode(s: &str) -> Vec<u8> {
    hex::decode(s).expect("bad hex in case line")
}
