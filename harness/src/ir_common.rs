//! Shared by the sway-ir harness bins (c03/c04/c05): parsing IR text, running registered passes one
//! at a time through the real `PassManager`, classifying verifier errors, exporting every function's
//! CFG (blocks, block args, instruction operands, terminator successors) as a Coq term, and
//! in-memory malformation of a valid IR through sway-ir's public mutation API.
#![allow(dead_code)]
use std::collections::HashMap;
use sway_features::ExperimentalFeatures;
use sway_ir::{
    register_known_passes, Backtrace, Block, Context, Function, InstOp, IrError, Options,
    PassGroup, PassManager, Value,
};
use sway_types::SourceEngine;

pub fn experimental() -> ExperimentalFeatures {
    // default: the setting of sway-ir/tests/tests.rs (new_encoding off). With HX_NEW_ENCODING=1 the
    // ExperimentalFeatures default (new_encoding on), i.e. what a normal forc build uses.
    if std::env::var("HX_NEW_ENCODING").map(|v| v == "1").unwrap_or(false) {
        ExperimentalFeatures::default()
    } else {
        ExperimentalFeatures { new_encoding: false, ..Default::default() }
    }
}

pub fn parse_ir<'e>(text: &str, se: &'e SourceEngine) -> Result<Context<'e>, IrError> {
    let mut ir = sway_ir::parser::parse(text, se, experimental(), Backtrace::default())?;
    // sway-core sets this flag from SWAY_FORCE_VERIFY_IR; with it `verify()` also checks SSA dominance.
    ir.verify_ssa_dominance = true;
    Ok(ir)
}

/// Variant name of an IrError (class, not message).
pub fn err_class(e: &IrError) -> String {
    let d = format!("{:?}", e);
    d.split(|c: char| !(c.is_ascii_alphanumeric() || c == '_')).next().unwrap_or("").to_string()
}

pub fn new_pass_manager() -> PassManager {
    let mut pm = PassManager::default();
    register_known_passes(&mut pm);
    pm
}

/// Names a random sequence may draw from: everything `register_known_passes` registers, except the
/// module printer (its only effect is printing the module to stdout).
pub const PASS_NAMES: &[&str] = &[
    "module-verifier", "escaped-symbols", "postorder", "dominators", "dominance-frontiers",
    "lower-init-aggr", "arg_pointee_mutability_tagger", "fn-dedup-release", "fn-dedup-debug",
    "mem2reg", "sroa", "inline", "const-folding", "ccp", "simplify-cfg", "globals-dce", "dce",
    "cse", "arg-demotion", "const-demotion", "ret-demotion", "misc-demotion", "memcpyopt",
    "memcpyprop_reverse",
];

pub fn options() -> Options {
    Options {
        print_initial: false,
        print_final: false,
        print_modified_only: false,
        print_metadata: false,
        print_passes: Default::default(),
        force_verify_ir: false,
        rounds: 1,
    }
}

/// Run one registered pass through `PassManager::run` (which verifies before and after).
/// Ok(modified) | Err(class)
pub fn run_pass(pm: &mut PassManager, ir: &mut Context, name: &str) -> Result<bool, String> {
    let Some(p) = pm.lookup_registered_pass(name) else {
        return Err("UnregisteredPass".into());
    };
    let sname: &'static str = p.name;
    let mut g = PassGroup::default();
    g.append_pass(sname);
    pm.run(ir, &g, &options()).map_err(|e| err_class(&e))
}

// ---------------------------------------------------------------------------------------------
// CFG export

pub struct FnCfg {
    pub name: String,
    pub term: String, // number stream, see export_fn
    pub nblocks: usize,
    pub ninstrs: usize,
}

/// Export the CFG of `f` as the number stream decoded by coq/C04/Judge.v (dec_fn):
///   nblocks { nargs arg* ninstrs { id nops op* kind } }   kind = 0 plain | 1+n terminator with n
///   successors followed by n * (block-index passed-arg-count).
/// Value ids are assigned per function in order of first appearance (definitions and uses alike), so
/// a use of a value that is defined nowhere in the function gets an id without a definition.
/// Constants are not values of the CFG model (always in scope). A branch to a block that is not in
/// the function's block list gets the out-of-range index `nblocks`.
pub fn export_fn(ctx: &Context, f: Function) -> FnCfg {
    let blocks: Vec<Block> = f.block_iter(ctx).collect();
    let bidx: HashMap<Block, usize> = blocks.iter().enumerate().map(|(i, b)| (*b, i)).collect();
    let mut vid: HashMap<Value, usize> = HashMap::new();
    let mut id_of = |v: Value| -> usize {
        let n = vid.len();
        *vid.entry(v).or_insert(n)
    };
    let mut out: Vec<usize> = vec![blocks.len()];
    let mut ninstrs = 0;
    for b in &blocks {
        let args: Vec<usize> = b.arg_iter(ctx).map(|a| id_of(*a)).collect();
        out.push(args.len());
        out.extend(args);
        let body: Vec<Value> = b.instruction_iter(ctx).collect();
        out.push(body.len());
        for ins in body {
            ninstrs += 1;
            out.push(id_of(ins));
            let Some(i) = ins.get_instruction(ctx) else {
                // not an instruction value inside an instruction list: an operand-less plain instr
                out.push(0);
                out.push(0);
                continue;
            };
            let ops: Vec<usize> = i.op.get_operands().into_iter().filter(|o| !o.is_constant(ctx)).map(|o| id_of(o)).collect();
            out.push(ops.len());
            out.extend(ops);
            if i.op.is_terminator() {
                let ss: Vec<&sway_ir::BranchToWithArgs> = match &i.op {
                    InstOp::Branch(t) => vec![t],
                    InstOp::ConditionalBranch { true_block, false_block, .. } => vec![true_block, false_block],
                    _ => vec![],
                };
                out.push(1 + ss.len());
                for t in ss {
                    out.push(bidx.get(&t.block).copied().unwrap_or(blocks.len()));
                    out.push(t.args.len());
                }
            } else {
                out.push(0);
            }
        }
    }
    let term = out.iter().map(|n| n.to_string()).collect::<Vec<_>>().join(" ");
    FnCfg { name: f.get_name(ctx).to_string(), term, nblocks: blocks.len(), ninstrs }
}

pub fn all_functions(ctx: &Context) -> Vec<Function> {
    ctx.module_iter().flat_map(|m| m.function_iter(ctx).collect::<Vec<_>>()).collect()
}

// ---------------------------------------------------------------------------------------------
// Malformations (through the public mutation API). `spec` = kind:a:b:c:d, numbers are reduced
// modulo the available sizes, so any numbers name a mutation. Returns a description or None if
// the mutation is not applicable (e.g. block without successors).

pub fn mutate(ctx: &mut Context, spec: &str) -> Option<String> {
    let parts: Vec<&str> = spec.split(':').collect();
    let kind = parts[0];
    let n = |i: usize| -> usize { parts.get(i).and_then(|s| s.parse().ok()).unwrap_or(0) };
    let fns = all_functions(ctx);
    if fns.is_empty() {
        return None;
    }
    let f = fns[n(1) % fns.len()];
    let blocks: Vec<Block> = f.block_iter(ctx).collect();
    if blocks.is_empty() {
        return None;
    }
    let b = blocks[n(2) % blocks.len()];
    let body: Vec<Value> = b.instruction_iter(ctx).collect();
    let fname = f.get_name(ctx).to_string();
    let bl = b.get_label(ctx);
    match kind {
        // swap two instructions of a block (a use may now precede its definition, a terminator may
        // end up in the middle)
        "swap" => {
            if body.len() < 2 {
                return None;
            }
            let (i, j) = (n(3) % body.len(), n(4) % body.len());
            if i == j {
                return None;
            }
            let mut nb = body.clone();
            nb.swap(i, j);
            b.take_body(ctx, nb);
            Some(format!("swap {fname}::{bl} {i}<->{j}"))
        }
        // move an instruction to the front of another block
        "move" => {
            if body.len() < 2 || blocks.len() < 2 {
                return None;
            }
            let i = n(3) % (body.len() - 1); // never the terminator
            let t = blocks[n(4) % blocks.len()];
            if t == b {
                return None;
            }
            let v = body[i];
            b.remove_instruction_at(ctx, i);
            let mut tb: Vec<Value> = t.instruction_iter(ctx).collect();
            tb.insert(0, v);
            t.take_body(ctx, tb);
            Some(format!("move {fname}::{bl}[{i}] -> {}", t.get_label(ctx)))
        }
        // delete a non-terminator instruction (its uses dangle)
        "del" => {
            if body.len() < 2 {
                return None;
            }
            let i = n(3) % (body.len() - 1);
            b.remove_instruction_at(ctx, i);
            Some(format!("del {fname}::{bl}[{i}]"))
        }
        // delete the terminator
        "delterm" => {
            if body.is_empty() {
                return None;
            }
            b.remove_last_instruction(ctx);
            Some(format!("delterm {fname}::{bl}"))
        }
        // retarget successor s of the block's terminator to block t (args kept, preds updated)
        "retarget" => {
            let t = blocks[n(4) % blocks.len()];
            let s = n(3);
            let old: Option<Block>;
            {
                let term = b.get_terminator_mut(ctx)?;
                match &mut term.op {
                    InstOp::Branch(to) => {
                        old = Some(to.block);
                        to.block = t;
                    }
                    InstOp::ConditionalBranch { true_block, false_block, .. } => {
                        let tgt = if s % 2 == 0 { true_block } else { false_block };
                        old = Some(tgt.block);
                        tgt.block = t;
                    }
                    _ => return None,
                }
            }
            let old = old?;
            if old == t {
                return None;
            }
            // keep the stored predecessor sets consistent with the new edge set
            let still = b.get_terminator(ctx).map(|i| match &i.op {
                InstOp::Branch(to) => to.block == old,
                InstOp::ConditionalBranch { true_block, false_block, .. } => true_block.block == old || false_block.block == old,
                _ => false,
            }).unwrap_or(false);
            if !still {
                old.remove_pred(ctx, &b);
            }
            t.add_pred(ctx, &b);
            Some(format!("retarget {fname}::{bl} succ{} -> {}", s % 2, t.get_label(ctx)))
        }
        // drop the last argument passed along successor s
        "droparg" => {
            let s = n(3);
            let term = b.get_terminator_mut(ctx)?;
            let args = match &mut term.op {
                InstOp::Branch(to) => &mut to.args,
                InstOp::ConditionalBranch { true_block, false_block, .. } => {
                    if s % 2 == 0 { &mut true_block.args } else { &mut false_block.args }
                }
                _ => return None,
            };
            args.pop()?;
            Some(format!("droparg {fname}::{bl} succ{}", s % 2))
        }
        // give the block one more parameter than its predecessors pass
        "addparam" => {
            if b.num_predecessors(ctx) == 0 {
                return None;
            }
            let ty = sway_ir::Type::get_uint64(ctx);
            b.new_arg(ctx, ty);
            Some(format!("addparam {fname}::{bl}"))
        }
        _ => None,
    }
}
