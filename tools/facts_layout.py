#!/usr/bin/env python3
"""Translate the layout facts of the *current* /repo tree into coq/Generated/LayoutFacts.v.

Sources (re-read on every run; any change of shape raises FactsError, which the calling check
turns into a violation — a silent drift between source and model is never tolerated):

* /repo/sway-ir/src/irtype.rs      `Type::size` arms, `TypeSize::in_bytes_aligned`, the
                                   `size_bytes_round_up_to_word_alignment!` macro, union/struct offsets
* /repo/sway-features/src/lib.rs   default of `str_array_no_padding`
* /repo/sway-lib-std/src/codec.sw  `is_encode_trivial` / `is_decode_trivial` bodies of the primitive impls,
                                   the array impls and the tuple impls, `TrivialBool`, `TrivialEnum`
* /repo/sway-lib-std/src/{vec,bytes,string}.sw   the same flags for Vec<T>, Bytes, String
* /repo/sway-core/src/semantic_analysis/ast_node/declaration/auto_impl/abi_encoding.rs
                                   shape of the derived `is_*_trivial` bodies for structs and enums
"""
import os, re, sys

ROOT = os.path.dirname(os.path.dirname(os.path.abspath(__file__)))
sys.path.insert(0, ROOT)
from vlib.core import REPO
OUT = os.path.join(ROOT, "coq", "Generated", "LayoutFacts.v")
# last good facts (committed): refreshed by save_snapshot() only after a successful translation from the
# registered /repo whose proofs check; used as the model's facts when the translation fails, so that the
# run can go on and SEARCH for a concrete failing input instead of stopping.
SNAP = os.path.join(ROOT, "coq", "Layout", "FactsSnapshot.v")


class FactsError(Exception):
    pass


def need(cond, what):
    if not cond:
        raise FactsError("layout facts: source shape changed: " + what)


def norm(s):
    s = re.sub(r"//[^\n]*", "", s)
    return re.sub(r"\s+", "", s)


def read(rel):
    p = os.path.join(REPO, rel)
    need(os.path.exists(p), "missing " + rel)
    return open(p, encoding="utf-8").read()


def block_after(src, header_re, what):
    """Text of the brace block that starts at the first `{` after the regex match."""
    m = re.search(header_re, src)
    need(m is not None, "cannot find " + what)
    i = src.index("{", m.end() - 1)
    depth, j = 0, i
    while j < len(src):
        if src[j] == "{": depth += 1
        elif src[j] == "}":
            depth -= 1
            if depth == 0:
                return src[i + 1:j]
        j += 1
    raise FactsError("layout facts: unbalanced braces after " + what)


def irtype_facts():
    src = read("sway-ir/src/irtype.rs")
    body = block_after(src, r"pub fn size\(&self, context: &Context\) -> TypeSize \{", "Type::size")
    body = block_after(body, r"match self\.get_content\(context\) \{", "Type::size match")
    n = norm(body)
    facts = {}

    def take(prefix_re, name):
        nonlocal n
        m = re.match(prefix_re, n)
        need(m is not None, "Type::size arm for %s (rest: %s)" % (name, n[:80]))
        n = n[m.end():]
        return m

    m = take(r"TypeContent::Unit\|TypeContent::Never=>TypeSize::new\((\d+)\),", "Unit|Never")
    facts["sz_unit"] = int(m.group(1))
    m = take(r"TypeContent::Uint\(8\)\|TypeContent::Bool=>TypeSize::new\((\d+)\),", "Uint(8)|Bool")
    facts["sz_u8"] = facts["sz_bool"] = int(m.group(1))
    m = take(r"TypeContent::Uint\(16\)\|TypeContent::Uint\(32\)\|TypeContent::Uint\(64\)\|TypeContent::TypedPointer\(_\)\|TypeContent::Pointer=>TypeSize::new\((\d+)\),", "Uint(16|32|64)|Pointer")
    facts["sz_u16"] = facts["sz_u32"] = facts["sz_u64"] = facts["sz_ptr"] = int(m.group(1))
    m = take(r"TypeContent::Uint\(256\)=>TypeSize::new\((\d+)\),", "Uint(256)")
    facts["sz_u256"] = int(m.group(1))
    take(r"TypeContent::Uint\(_\)=>unreachable!\(\),", "Uint(_)")
    m = take(r"TypeContent::Slice=>TypeSize::new\((\d+)\),", "Slice")
    facts["sz_slice"] = int(m.group(1))
    m = take(r"TypeContent::TypedSlice\(\.\.\)=>TypeSize::new\((\d+)\),", "TypedSlice")
    need(int(m.group(1)) == facts["sz_slice"], "TypedSlice size differs from Slice size")
    m = take(r"TypeContent::B256=>TypeSize::new\((\d+)\),", "B256")
    facts["sz_b256"] = int(m.group(1))
    m = take(r"TypeContent::StringSlice=>TypeSize::new\((\d+)\),", "StringSlice")
    facts["sz_strslice"] = int(m.group(1))
    take(r"TypeContent::StringArray\(n\)=>\{ifcontext\.experimental\.str_array_no_padding\{TypeSize::new\(\*n\)\}else\{TypeSize::new\(super::size_bytes_round_up_to_word_alignment!\(\*n\)\)\}\}", "StringArray")
    take(r"TypeContent::Array\(el_ty,cnt\)=>TypeSize::new\(cnt\*el_ty\.size\(context\)\.in_bytes\(\)\),", "Array (packed: cnt * elem in_bytes)")
    take(r"TypeContent::Struct\(field_tys\)=>\{TypeSize::new\(field_tys\.iter\(\)\.map\(\|field_ty\|field_ty\.size\(context\)\.in_bytes_aligned\(\)\)\.sum\(\),\)\}", "Struct (sum of aligned field sizes)")
    take(r"TypeContent::Union\(field_tys\)=>\{TypeSize::new\(field_tys\.iter\(\)\.map\(\|field_ty\|field_ty\.size\(context\)\.in_bytes_aligned\(\)\)\.max\(\)\.unwrap_or\(0\),\)\}", "Union (max of aligned variant sizes)")
    need(n == "", "unexpected extra Type::size arms: " + n[:120])

    # word rounding
    mac = block_after(src, r"macro_rules! size_bytes_round_up_to_word_alignment \{", "round-up macro")
    m = re.search(r"\(\$bytes_expr\+(\d+)\)-\(\(\$bytes_expr\+(\d+)\)%(\d+)\)", norm(mac))
    need(m is not None, "round-up macro body")
    need(int(m.group(1)) == int(m.group(2)) == int(m.group(3)) - 1, "round-up macro constants")
    facts["word"] = int(m.group(3))
    al = block_after(src, r"pub fn in_bytes_aligned\(&self\) -> u64 \{", "TypeSize::in_bytes_aligned")
    need(norm(al) == "(self.size_in_bytes+%d)-((self.size_in_bytes+%d)%%%d)" % (facts["word"] - 1, facts["word"] - 1, facts["word"]),
         "TypeSize::in_bytes_aligned body")
    # struct / union offsets
    so = norm(block_after(src, r"pub fn get_struct_field_offset_and_type\(", "get_struct_field_offset_and_type"))
    need(".take(field_idx).map(|field_ty|{field_ty.size(context).in_bytes_aligned()}).sum::<u64>();" in so,
         "struct field offset = sum of aligned sizes of the previous fields")
    uo = norm(block_after(src, r"pub fn get_union_field_offset_and_type\(", "get_union_field_offset_and_type"))
    need("Some((union_size_in_bytes-field_size_in_bytes,field_type))" in uo
         and "letunion_size_in_bytes=self.size(context).in_bytes();" in uo
         and "letfield_size_in_bytes=field_type.size(context).in_bytes();" in uo,
         "union variant offset = union size - variant size (left padded)")
    feats = read("sway-features/src/lib.rs")
    m = re.search(r"str_array_no_padding\s*=\s*(true|false)\s*,", feats)
    need(m is not None, "default of feature str_array_no_padding")
    facts["str_array_padded"] = (m.group(1) == "false")
    return facts


PRIMS = [("bool", "bool"), ("b256", "b256"), ("u256", "u256"), ("u64", "u64"), ("u32", "u32"), ("u16", "u16"),
         ("u8", "u8"), ("str", "str"), ("raw_slice", "raw_slice"), ("()", "unit")]


def trivial_body(src, trait, fn, ty_re, what, cfg=None):
    """Body (normalised) of `fn <fn>() -> bool` in `impl ... <trait> for <ty>`."""
    pat = r"impl(?:<[^>{]*>)?\s+%s\s+for\s+%s\s*(?:where[^{]*)?\{" % (trait, ty_re)
    ms = list(re.finditer(pat, src))
    if cfg is not None:
        ms = [m for m in ms if re.search(r"#\[cfg\(%s\)\]\s*$" % re.escape(cfg), src[:m.start()].rstrip() + "")]
    need(len(ms) == 1, "exactly one `impl %s for %s`%s (found %d)" % (trait, what, " under cfg " + cfg if cfg else "", len(ms)))
    body = block_after(src, re.escape(src[ms[0].start():ms[0].end()]), "impl %s for %s" % (trait, what))
    fb = block_after(body, r"fn %s\(\) -> bool \{" % fn, "%s of %s" % (fn, what))
    return norm(fb)


def flag(nb, what):
    need(nb in ("true", "false"), "%s is no longer a literal (got %s)" % (what, nb[:60]))
    return nb == "true"


def codec_facts(str_array_padded):
    src = read("sway-lib-std/src/codec.sw")
    f = {}
    for ty, nm in PRIMS:
        f["enc_trivial_" + nm] = flag(trivial_body(src, "AbiEncode", "is_encode_trivial", re.escape(ty), ty), "is_encode_trivial of " + ty)
        f["dec_trivial_" + nm] = flag(trivial_body(src, "AbiDecode", "is_decode_trivial", re.escape(ty), ty), "is_decode_trivial of " + ty)
    cfg = "experimental_str_array_no_padding = %s" % ("false" if str_array_padded else "true")
    f["enc_trivial_strarr"] = flag(trivial_body(src, "AbiEncode", "is_encode_trivial", r"str\[N\]", "str[N]", cfg), "is_encode_trivial of str[N]")
    f["dec_trivial_strarr"] = flag(trivial_body(src, "AbiDecode", "is_decode_trivial", r"str\[N\]", "str[N]", cfg), "is_decode_trivial of str[N]")
    # arrays: exactly the element's flag
    need(trivial_body(src, "AbiEncode", "is_encode_trivial", r"\[T; N\]", "[T; N]") == "is_encode_trivial::<T>()", "array is_encode_trivial = element's")
    need(trivial_body(src, "AbiDecode", "is_decode_trivial", r"\[T; N\]", "[T; N]") == "is_decode_trivial::<T>()", "array is_decode_trivial = element's")
    # arrays: element-wise loops (the reader advances by what each element consumes)
    def fn_body(trait, fn_re, what):
        ms = list(re.finditer(r"impl<T, const N: u64>\s+%s\s+for\s+\[T; N\]\s*(?:where[^{]*)?\{" % trait, src))
        need(len(ms) == 1, "exactly one `impl %s for [T; N]`" % trait)
        body = block_after(src, re.escape(src[ms[0].start():ms[0].end()]), "impl %s for [T; N]" % trait)
        return norm(block_after(body, fn_re, what))
    need(fn_body("AbiEncode", r"fn abi_encode\(self, buffer: Buffer\) -> Buffer \{", "array abi_encode")
         == "letmutbuffer=buffer;letmuti=0;whilei<N{buffer=self[i].abi_encode(buffer);i+=1;};buffer", "array abi_encode is the element loop")
    need(fn_body("AbiDecode", r"fn abi_decode\(ref mut buffer: BufferReader\) -> \[T; N\] \{", "array abi_decode")
         == "constLENGTH:u64=__size_of::<T>()*N;letmutarray=[0u8;LENGTH];letarray:&mut[T;N]=__transmute::<&mut[u8;LENGTH],&mut[T;N]>(&mutarray);"
            "letmuti=0;whilei<N{letitem:&mutT=__elem_at(array,i);*item=buffer.decode::<T>();i+=1;}*array", "array abi_decode is the element loop")
    # tuples: ids equal && every component
    for trait, fn, ef in (("AbiEncode", "is_encode_trivial", "is_encode_trivial"), ("AbiDecode", "is_decode_trivial", "is_decode_trivial")):
        letters = "ABCDEFGHIJKLMNOPQRSTUVWXYZ"
        count = 0
        for k in range(1, 27):
            tys = ", ".join(letters[:k])
            tre = r"\(" + re.escape(tys) + r",? ?\)"
            b = trivial_body(src, trait, fn, tre, "(%s)" % tys)
            exp = "letr=__runtime_mem_id::<Self>()==__encoding_mem_id::<Self>();" + "".join("letr=r&&%s::<%s>();" % (ef, c) for c in letters[:k]) + "r"
            need(b == exp, "%s of the %d-tuple impl" % (fn, k))
            count += 1
        f["tuple_impl_max"] = count
    # TrivialBool / TrivialEnum claim trivial both ways
    f["enc_trivial_trivialbool"] = flag(trivial_body(src, "AbiEncode", "is_encode_trivial", "TrivialBool", "TrivialBool"), "TrivialBool enc")
    f["dec_trivial_trivialbool"] = flag(trivial_body(src, "AbiDecode", "is_decode_trivial", "TrivialBool", "TrivialBool"), "TrivialBool dec")
    f["enc_trivial_trivialenum"] = flag(trivial_body(src, "AbiEncode", "is_encode_trivial", r"TrivialEnum<T>", "TrivialEnum<T>"), "TrivialEnum enc")
    f["dec_trivial_trivialenum"] = flag(trivial_body(src, "AbiDecode", "is_decode_trivial", r"TrivialEnum<T>", "TrivialEnum<T>"), "TrivialEnum dec")
    need("struct TrivialBool { value: u64, }" in re.sub(r"\s+", " ", src), "TrivialBool is a struct holding one u64")
    for rel, ty, nm in (("sway-lib-std/src/vec.sw", r"Vec<T>", "vec"), ("sway-lib-std/src/bytes.sw", "Bytes", "bytes"),
                        ("sway-lib-std/src/string.sw", "String", "string")):
        s = read(rel)
        f["enc_trivial_" + nm] = flag(trivial_body(s, "AbiEncode", "is_encode_trivial", ty, ty), "is_encode_trivial of " + ty)
        f["dec_trivial_" + nm] = flag(trivial_body(s, "AbiDecode", "is_decode_trivial", ty, ty), "is_decode_trivial of " + ty)
    # derived impls
    d = norm(read("sway-core/src/semantic_analysis/ast_node/declaration/auto_impl/abi_encoding.rs"))
    idq = '"__runtime_mem_id::<Self>()==__encoding_mem_id::<Self>()".to_string();'
    need(d.count("letmutis_encode_trivial=" + idq) == 2, "derived is_encode_trivial starts with the id comparison (struct and enum)")
    need(d.count("letmutis_decode_trivial=" + idq) == 1, "derived struct is_decode_trivial starts with the id comparison")
    need(d.count('is_encode_trivial.push_str("&&");is_encode_trivial.push_str(&format!("is_encode_trivial::<{}>()",') == 2,
         "derived is_encode_trivial conjoins every field/variant")
    need(d.count('is_decode_trivial.push_str("&&");is_decode_trivial.push_str(&format!("is_decode_trivial::<{}>()",field_type));') == 1,
         "derived struct is_decode_trivial conjoins every field")
    need('abi_decode_body?,"false",);' in d, "derived enum is_decode_trivial is the literal false")
    need('"letvariant:u64=buffer.decode::<u64>();"' in d and '"matchvariant{{{arms}_=>__revert(0),}}"' in d,
         "derived enum abi_decode reads a u64 tag and reverts on unknown tags")
    f["dec_trivial_enum"] = False
    return f


def generate(write=True):
    ir = irtype_facts()
    cf = codec_facts(ir["str_array_padded"])
    lines = ["(* GENERATED by tools/facts_layout.py from the current /repo tree. Do not edit. *)",
             "From Coq Require Import NArith Bool.", "Local Open Scope N_scope.", ""]
    for k in ("sz_unit", "sz_bool", "sz_u8", "sz_u16", "sz_u32", "sz_u64", "sz_ptr", "sz_u256", "sz_b256", "sz_slice", "sz_strslice", "word"):
        lines.append("Definition %s : N := %d." % (k, ir[k]))
    lines.append("Definition str_array_padded : bool := %s." % ("true" if ir["str_array_padded"] else "false"))
    for k in sorted(cf):
        v = cf[k]
        if isinstance(v, bool):
            lines.append("Definition %s : bool := %s." % (k, "true" if v else "false"))
        else:
            lines.append("Definition %s : N := %d." % (k, v))
    text = "\n".join(lines) + "\n"
    if write:
        os.makedirs(os.path.dirname(OUT), exist_ok=True)
        if not (os.path.exists(OUT) and open(OUT).read() == text):
            open(OUT, "w").write(text)
    return dict(ir, **cf), text


def _write_if_changed(path, text):
    os.makedirs(os.path.dirname(path), exist_ok=True)
    if not (os.path.exists(path) and open(path).read() == text):
        open(path, "w").write(text)


def prepare():
    """Translate; on failure install the last good snapshot as Generated/LayoutFacts.v.
    Returns (ok, error text or None)."""
    try:
        generate()
        return True, None
    except Exception as e:      # FactsError (shape changed) or any parsing accident
        if os.path.exists(SNAP):
            _write_if_changed(OUT, open(SNAP).read())
        return False, "%s: %s" % (type(e).__name__, e)


def save_snapshot():
    """Called by a check after translation AND proofs succeeded on the registered tree."""
    if REPO == "/repo" and os.path.exists(OUT):
        _write_if_changed(SNAP, open(OUT).read())


if __name__ == "__main__":
    try:
        facts, text = generate()
    except FactsError as e:
        print(str(e)); sys.exit(2)
    print(text)
