"""Minimiser for generated Frag programs: delete statements, drop functions, replace sub-expressions by
literals / by `true`/`false`, while a caller-supplied predicate (the disagreement) still holds.
Candidates are evaluated in parallel batches; the first surviving candidate of a batch is kept."""
import copy, concurrent.futures as cf
from . import fraggen as fg

def type_of(e, env, fns):
    k = e[0]
    if k == 'int': return ('int', e[1])
    if k == 'bool': return fg.TBOOL
    if k == 'b256': return fg.TB256
    if k == 'var': return env[e[1]]
    if k == 'bin':
        if e[1] in fg.CMP: return fg.TBOOL
        return type_of(e[3], env, fns)
    if k == 'not': return type_of(e[2], env, fns)
    if k in ('and', 'or'): return fg.TBOOL
    if k == 'if': return type_of(e[2], env, fns)
    if k == 'tup': return e[1]
    if k == 'proj': return fg.fields_of(e[3])[e[2]]
    if k == 'arr': return ('arr', e[1], len(e[2]))
    if k == 'idx': return type_of(e[1], env, fns)[1]
    if k == 'enum': return e[1]
    if k == 'call': return fns[e[2]]['ret']
    raise ValueError(e)

def default(t):
    k = t[0]
    if k == 'int': return ('int', t[1], 1, True)
    if k == 'bool': return ('bool', True)
    if k == 'b256': return ('b256', 1)
    if k in ('tup', 'struct'): return ('tup', t, [default(x) for x in fg.fields_of(t)])
    if k == 'arr': return ('arr', t[1], [default(t[1]) for _ in range(t[2])])
    if k == 'enum': return ('enum', t, 0, default(t[2][0]))

def is_lit(e):
    return e[0] in ('int', 'bool', 'b256')

EXPR_SLOTS = {'let': [4], 'const': [4], 'assign': [3], 'if': [1], 'while': [], 'return': [1], 'assert': [1],
              'require': [1, 3], 'revert': [1], 'log': [2], 'match': [1], 'expr': [1]}

def is_counter(s):
    """the increment of a loop counter (deleting or rewriting it would make the loop endless)"""
    return s[0] == 'assign' and s[1][:1] == 'i' and s[1][1:].isdigit()

def wellformed(p):
    """every variable and function referenced is in scope (types are preserved by construction)"""
    keys = set()
    def ex(e, sc):
        k = e[0]
        if k == 'var': return e[1] in sc
        if k == 'call': return e[2] in keys and all(ex(x, sc) for x in e[3])
        subs = {'bin': [3, 4], 'not': [2], 'and': [1, 2], 'or': [1, 2], 'if': [1, 2, 3], 'proj': [1], 'idx': [1, 2], 'enum': [3]}.get(k, [])
        ok = all(ex(e[i], sc) for i in subs)
        if k in ('tup', 'arr'): ok = ok and all(ex(x, sc) for x in e[2])
        return ok
    def blk(stmts, sc):
        sc = set(sc)
        for s in stmts:
            k = s[0]
            for i in EXPR_SLOTS.get(k, []):
                if not ex(s[i], sc): return False
            if k == 'assign':
                if s[1] not in sc: return False
                for a in s[2]:
                    if a[0] == 'idxvar' and a[1] not in sc: return False
            if k == 'if' and not (blk(s[2], sc) and blk(s[3], sc)): return False
            if k == 'while' and not (ex(s[1], sc) and blk(s[2], sc)): return False
            if k == 'match':
                for pt, body in s[3]:
                    if not blk(body, sc | set(fg.pat_binders(pt))): return False
            if k in ('let', 'const'): sc.add(s[1])
        return True
    for f in p.fns:
        if not blk(f['body'], {n for n, _ in f['params']}): return False
        if not f['body'] or f['body'][-1][0] != 'return': return False
        keys.add(f['key'])
    return blk(p.main, set())

def candidates(p):
    """yield smaller programs (deep copies)"""
    fns = {f['key']: f for f in p.fns}
    # 1. drop a function (only valid when unreferenced -> wellformed filters)
    for i in range(len(p.fns)):
        q = copy.deepcopy(p); del q.fns[i]
        used = {f['name'] for f in q.fns if f.get('generic')}
        q.templates = {g: s for g, s in q.templates.items() if '%s_%s' % (p.name, g) in used}
        yield q
    # 2. delete statements (larger chunks first)
    def blocks(q):
        out = [q.main] + [f['body'] for f in q.fns]
        i = 0
        while i < len(out):
            for s in out[i]:
                if s[0] == 'if': out += [s[2], s[3]]
                elif s[0] == 'while': out.append(s[2])
                elif s[0] == 'match': out += [b for _, b in s[3]]
            i += 1
        return out
    nb = len(blocks(p))
    for chunk in (4, 2, 1):
        for bi in range(nb):
            n = len(blocks(p)[bi])
            for j in range(0, n, chunk):
                if any(is_counter(s) for s in blocks(p)[bi][j:j + chunk]): continue
                q = copy.deepcopy(p)
                b = blocks(q)[bi]
                del b[j:j + chunk]
                yield q
    # 3. replace `if` / `while` / `match` statements by one of their bodies' statements inlined is unsafe
    #    (scopes); instead simplify expressions: replace a sub-expression by a literal of its type
    def expr_sites(q):
        sites = []
        def walk_e(e, env, setter):
            if not is_lit(e): sites.append((e, dict(env), setter))
            k = e[0]
            subs = {'bin': [3, 4], 'not': [2], 'and': [1, 2], 'or': [1, 2], 'if': [1, 2, 3], 'proj': [1], 'idx': [1], 'enum': [3]}.get(k, [])
            for i in subs:
                walk_e(e[i], env, (lambda ne, e=e, i=i, setter=setter: setter(e[:i] + (ne,) + e[i + 1:])))
            if k in ('tup', 'arr', 'call'):
                li = 2 if k != 'call' else 3
                for j, x in enumerate(e[li]):
                    def st(ne, e=e, j=j, li=li, setter=setter):
                        l2 = list(e[li]); l2[j] = ne
                        setter(e[:li] + (l2,) + e[li + 1:])
                    walk_e(x, env, st)
        def walk_b(stmts, env):
            env = dict(env)
            for si, s in enumerate(stmts):
                k = s[0]
                if is_counter(s): continue
                for i in EXPR_SLOTS.get(k, []):
                    def st(ne, stmts=stmts, si=si, i=i):
                        s0 = stmts[si]; stmts[si] = s0[:i] + (ne,) + s0[i + 1:]
                    walk_e(s[i], env, st)
                if k == 'if': walk_b(s[2], env); walk_b(s[3], env)
                elif k == 'while': walk_b(s[2], env)
                elif k == 'match':
                    mt = s[2]
                    for pt, body in s[3]:
                        e2 = dict(env)
                        qs = [pt[1]] if pt[0] == 's' else (pt[1] if pt[0] == 'tup' else [pt[3]])
                        ts = [mt] if pt[0] == 's' else (list(mt[1]) if pt[0] == 'tup' else [mt[2][pt[2]]])
                        for qq, tt in zip(qs, ts):
                            if qq[0] == 'var': e2[qq[1]] = tt
                        walk_b(body, e2)
                if k in ('let', 'const'): env[s[1]] = s[3]
        for f in q.fns:
            if f.get('generic'): continue
            walk_b(f['body'], {n: t for n, t in f['params']})
        walk_b(q.main, {})
        return sites
    nsites = len(expr_sites(p))
    for si in range(nsites):
        q = copy.deepcopy(p)
        fq = {f['key']: f for f in q.fns}
        sites = expr_sites(q)
        if si >= len(sites): break
        e, env, setter = sites[si]
        try:
            t = type_of(e, env, fq)
        except Exception:
            continue
        # loop conditions keep their shape (termination); the walker reaches them only through slot 1 of 'while'
        setter(default(t))
        yield q

def size(p):
    return len(p.sway())

def shrink(p, pred, batch=8, max_rounds=40, log=None):
    """pred(program) -> True when the failure persists.  Returns the smallest program found."""
    best = p
    for rnd in range(max_rounds):
        progress = False
        cands = [q for q in candidates(best) if wellformed(q) and size(q) < size(best)]
        i = 0
        while i < len(cands):
            group = cands[i:i + batch]
            with cf.ThreadPoolExecutor(max_workers=batch) as ex:
                res = list(ex.map(lambda q: _safe(pred, q), group))
            hit = [q for q, r in zip(group, res) if r]
            if hit:
                best = min(hit, key=size)
                progress = True
                if log: log("shrink: %d bytes" % size(best))
                break
            i += batch
        if not progress: break
    return best

def _safe(pred, q):
    try:
        return bool(pred(q))
    except Exception:
        return False
