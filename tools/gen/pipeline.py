"""Shared by props/c01.py and props/c02.py: generate Frag programs, build them with forc in debug and
release, run on fuel-vm, canonicalise what was observed, evaluate the reference semantics in Coq."""
import os, re, json, time, hashlib, random
from vlib import coq, sway
from vlib.core import REPO, sh
from . import fraggen

def repo_state():
    rc, head = sh("git -C %s rev-parse HEAD" % REPO)
    rc, diff = sh("git -C %s diff HEAD -- sway-core sway-ir sway-lib-std forc-test forc-pkg sway-types sway-ast sway-parse" % REPO)
    return head.strip()[:12] + "-" + hashlib.sha256(diff.encode()).hexdigest()[:10]

def generate(seed, npk, nprog, tag="g"):
    """deterministic in (seed, npk, nprog).  Returns [(pkgname, [Gen])]."""
    pkgs = []
    for k in range(npk):
        rng = random.Random((seed * 7919 + k) * 104729 + 17)
        gens = []
        for i in range(nprog):
            name = "%s%02dp%02d" % (tag, k, i)
            r = rng.random()
            if r < 0.08:
                g = fraggen.operator_sweep(rng, name)
            else:
                g = fraggen.Gen(rng, name, viol=rng.choice([0.0, 0.0, 0.008, 0.02, 0.05]), size=rng.choice([0.6, 1.0, 1.0, 1.5]))
                g.build()
            gens.append(g)
        pkgs.append(("%s%02d" % (tag, k), gens))
    return pkgs

def all_packages(seed, npk, nprog, tier):
    return generate(seed, npk, nprog) + corpus_packages(tier)

def corpus_packages(tier):
    """always-on programs: identity / absorbing constants against trap values (see fraggen.identity_trap_corpus).
    quick: the division / modulo / shift families and the reverting cases; thorough: everything"""
    packs = fraggen.identity_trap_corpus("z", full=(tier != "quick"))
    out = [("z%02d" % i, gens) for i, gens in enumerate(packs)]
    out += [("b%02d" % i, gens) for i, gens in enumerate(fraggen.boundary_corpus("b", full=(tier != "quick")))]
    return out

def search_packages():
    """the search run when C01's proof / T-gen no longer checks: every boundary split, every identity/trap pair"""
    return ([("sb%02d" % i, g) for i, g in enumerate(fraggen.boundary_corpus("sb", full=True))]
            + [("sz%02d" % i, g) for i, g in enumerate(fraggen.identity_trap_corpus("sz", full=True))])

def package_source(gens):
    return "library;\n\n" + "\n".join(g.p.sway() for g in gens)

def write_packages(base, pkgs):
    dirs = {}
    for name, gens in pkgs:
        dirs[name] = sway.write_pkg(base, name, {"lib.sw": package_source(gens)})
    return dirs

def observe(t):
    """forc-test result of one #[test] -> canonical observation (revert code or None, [(len, value)]).
    Gas, receipt ids, pc/is and panic metadata are dropped; a VM panic is Revert(0) (forc-test)."""
    st = t["state"]
    m = re.match(r"Revert\((\d+)\)", st)
    if m: rv = int(m.group(1))
    elif st.startswith("Return"): rv = None
    else: rv = ("other", st)
    logs = []
    for rc in t["receipts"]:
        if rc["k"] == "LogData":
            d = rc["data"] or ""
            logs.append((len(d) // 2, int(d, 16) if d else 0))
        elif rc["k"] == "Log":
            logs.append((8, int(rc["ra"])))
    return rv, logs

def run_profiles(dirs, jobs=None, timeout=1800):
    """{pkg: {'debug': result, 'release': result}} - both profiles of all packages in one parallel batch"""
    import concurrent.futures as cf
    out = {n: {} for n in dirs}
    with cf.ThreadPoolExecutor(max_workers=2) as ex:
        fd = ex.submit(sway.run_pkgs, list(dirs.values()), False, timeout, jobs)
        fr = ex.submit(sway.run_pkgs, list(dirs.values()), True, timeout, jobs)
        rd, rr = fd.result(), fr.result()
    for n, d in dirs.items():
        out[n]["debug"], out[n]["release"] = rd[d], rr[d]
    return out

def cq_obs(o):
    rv, logs = o
    return "(mkobs %s [%s])" % ("None" if rv is None else "(Some %d)" % rv, "; ".join("(%d, %d)" % x for x in logs))

HEADER = ("From Coq Require Import NArith List.\nImport ListNotations.\nLocal Open Scope N_scope.\n"
          "From SwayV Require Import Frag.Syntax Frag.Sem Frag.Typing Frag.Encode C01.Judge.")

def judge(ctx, cases, name="c01"):
    """cases: [(coq program text, observation)] -> [(code, expected_revert, expected_logs)]"""
    if not cases: return []
    nsh = min(16, len(cases))
    shards = [[] for _ in range(nsh)]
    for i, (p, o) in enumerate(cases):
        shards[i % nsh].append("Eval vm_compute in (judge FUEL\n %s\n %s)." % (p, cq_obs(o)))
    res = coq.run_cases(ctx, name, HEADER, ["\n".join(s) for s in shards])
    out = [None] * len(cases)
    for k, rs in enumerate(res):
        for j, r in enumerate(rs):
            code, (erv, elogs) = r
            erv = None if getattr(erv, "head", None) == "None" else (erv.args[0] if hasattr(erv, "args") else erv)
            out[k + j * nsh] = (code, erv, [tuple(x) for x in elogs])
    return out

def cache_path(work_root, seed, tier):
    return os.path.join(work_root, "C01", "runs_%s_%s_%s.json" % (seed, tier, repo_state()))

def save_cache(path, payload):
    os.makedirs(os.path.dirname(path), exist_ok=True)
    tmp = path + ".tmp"
    json.dump(payload, open(tmp, "w"))
    os.replace(tmp, path)

def load_cache(path, max_age=6 * 3600):
    try:
        if time.time() - os.path.getmtime(path) > max_age: return None
        return json.load(open(path))
    except Exception:
        return None
