"""Generator of well-typed programs of the Frag fragment (coq/Frag/Syntax.v), printed both as Sway
source (one #[test] function + name-mangled helpers per program) and as Coq terms.

Design points (see design_notes/C01.md):
 * type directed; integers carry a conservative interval so that arithmetic is overflow-free by
   construction (`fit` wraps operands in `% K`, divisors in `| 1`), except where a violation is
   injected on purpose (probability `viol` per operator) -> reverting programs stay a minority;
 * no undefined behaviour: every dynamic array index is `e % len` or a bounded loop counter;
 * terminating: loops are `let mut i = 0; while i < K { i = i + 1; ... }`, call graph acyclic;
 * hazards: near-duplicate functions, literal-only (foldable) expressions and local consts, loops
   swapping variables with break/continue, aggregates through calls, narrow arithmetic at the bounds,
   u256, #[inline(never)] identity functions hiding constants, generic functions (monomorphised on the
   Coq side), match on enums/ints/bools/tuples.
Nodes are tuples; types are hashable tuples:
  ('int', w) ('bool',) ('b256',) ('tup', (ts)) ('struct', name, (ts)) ('arr', t, n) ('enum', name, (ts))
"""
import copy

MAXW = {8: 2**8 - 1, 16: 2**16 - 1, 32: 2**32 - 1, 64: 2**64 - 1, 256: 2**256 - 1}
TBOOL, TB256, TUNIT = ('bool',), ('b256',), ('tup', ())
def TINT(w): return ('int', w)
U64 = TINT(64)

ARITH = ['Add', 'Sub', 'Mul', 'Div', 'Mod', 'BAnd', 'BOr', 'BXor', 'Shl', 'Shr']
CMP = ['Eq', 'Ne', 'Lt', 'Gt', 'Le', 'Ge']
SYM = {'Add': '+', 'Sub': '-', 'Mul': '*', 'Div': '/', 'Mod': '%', 'BAnd': '&', 'BOr': '|', 'BXor': '^',
       'Shl': '<<', 'Shr': '>>', 'Eq': '==', 'Ne': '!=', 'Lt': '<', 'Gt': '>', 'Le': '<=', 'Ge': '>='}

def fields_of(t):
    return t[1] if t[0] == 'tup' else t[2]

def is_scalar(t): return t[0] in ('int', 'bool', 'b256')

# ------------------------------------------------------------------------------------ printing: Sway
def sw_ty(t):
    k = t[0]
    if k == 'int': return 'u%d' % t[1]
    if k == 'bool': return 'bool'
    if k == 'b256': return 'b256'
    if k == 'tup': return '(' + ', '.join(sw_ty(x) for x in t[1]) + ')'
    if k in ('struct', 'enum'): return t[1]
    if k == 'arr': return '[%s; %d]' % (sw_ty(t[1]), t[2])
    raise ValueError(t)

def sw_lit(w, n):
    return ('0x%xu256' % n) if w == 256 else '%du%d' % (n, w)

def sw_expr(e):
    k = e[0]
    if k == 'int': return sw_lit(e[1], e[2])
    if k == 'bool': return 'true' if e[1] else 'false'
    if k == 'b256': return '0x%064x' % e[1]
    if k == 'var': return e[1]
    if k == 'bin': return '(%s %s %s)' % (sw_expr(e[3]), SYM[e[1]], sw_expr(e[4]))
    if k == 'not': return '(!%s)' % sw_expr(e[2])
    if k == 'and': return '(%s && %s)' % (sw_expr(e[1]), sw_expr(e[2]))
    if k == 'or': return '(%s || %s)' % (sw_expr(e[1]), sw_expr(e[2]))
    if k == 'if': return '(if %s { %s } else { %s })' % (sw_expr(e[1]), sw_expr(e[2]), sw_expr(e[3]))
    if k == 'tup':
        t = e[1]
        if t[0] == 'struct':
            return '%s { %s }' % (t[1], ', '.join('f%d: %s' % (i, sw_expr(x)) for i, x in enumerate(e[2])))
        return '(' + ', '.join(sw_expr(x) for x in e[2]) + ')'
    if k == 'proj':
        return '%s.%s' % (sw_expr(e[1]), ('f%d' % e[2]) if e[3][0] == 'struct' else str(e[2]))
    if k == 'arr': return '[' + ', '.join(sw_expr(x) for x in e[2]) + ']'
    if k == 'idx': return '%s[%s]' % (sw_expr(e[1]), sw_expr(e[2]))
    if k == 'enum':
        t = e[1]
        if t[2][e[2]] == TUNIT:
            if e[3] != ('tup', TUNIT, []): raise ValueError('unit variant with a non-literal payload: %r' % (e[3],))
            return '%s::V%d' % (t[1], e[2])
        return '%s::V%d(%s)' % (t[1], e[2], sw_expr(e[3]))
    if k == 'call': return '%s(%s)' % (e[1], ', '.join(sw_expr(x) for x in e[3]))
    raise ValueError(e)

def sw_spat(q):
    k = q[0]
    if k == 'wild': return '_'
    if k == 'var': return q[1]
    if k == 'int': return sw_lit(q[1], q[2])
    if k == 'bool': return 'true' if q[1] else 'false'
    raise ValueError(q)

def sw_pat(p):
    k = p[0]
    if k == 's': return sw_spat(p[1])
    if k == 'tup': return '(' + ', '.join(sw_spat(q) for q in p[1]) + ')'
    if k == 'enum':
        t = p[1]
        if t[2][p[2]] == TUNIT: return '%s::V%d' % (t[1], p[2])
        return '%s::V%d(%s)' % (t[1], p[2], sw_spat(p[3]))
    raise ValueError(p)

def sw_path(name, path):
    s = name
    for a in path:
        if a[0] == 'field': s += ('.f%d' % a[1]) if a[2][0] == 'struct' else ('.%d' % a[1])
        elif a[0] == 'idxvar': s += '[%s]' % a[1]
        else: s += '[%d]' % a[1]
    return s

def sw_block(stmts, ind, tail_return=False):
    out = []
    pad = '    ' * ind
    for j, s in enumerate(stmts):
        k = s[0]
        if k == 'let':
            out.append('%slet %s%s: %s = %s;' % (pad, 'mut ' if s[2] else '', s[1], sw_ty(s[3]), sw_expr(s[4])))
        elif k == 'const':
            out.append('%sconst %s: %s = %s;' % (pad, s[1], sw_ty(s[3]), sw_expr(s[4])))
        elif k == 'assign': out.append('%s%s = %s;' % (pad, sw_path(s[1], s[2]), sw_expr(s[3])))
        elif k == 'if':
            out.append('%sif %s {' % (pad, sw_expr(s[1])))
            out += sw_block(s[2], ind + 1)
            if s[3]:
                out.append('%s} else {' % pad)
                out += sw_block(s[3], ind + 1)
            out.append('%s}' % pad)
        elif k == 'while':
            out.append('%swhile %s {' % (pad, sw_expr(s[1])))
            out += sw_block(s[2], ind + 1)
            out.append('%s}' % pad)
        elif k == 'break': out.append(pad + 'break;')
        elif k == 'continue': out.append(pad + 'continue;')
        elif k == 'return':
            tx = sw_expr(s[1])
            # `if c { } [x]` / `if c { } (x, y)` would parse as indexing / a call of the block before
            if tail_return and j == len(stmts) - 1 and tx[0] not in '[(': out.append('%s%s' % (pad, tx))
            else: out.append('%sreturn %s;' % (pad, sw_expr(s[1])))
        elif k == 'assert': out.append('%sassert(%s);' % (pad, sw_expr(s[1])))
        elif k == 'require': out.append('%srequire(%s, %s);' % (pad, sw_expr(s[1]), sw_expr(s[3])))
        elif k == 'revert': out.append('%srevert(%s);' % (pad, sw_expr(s[1])))
        elif k == 'log': out.append('%slog(%s);' % (pad, sw_expr(s[2])))
        elif k == 'match':
            out.append('%smatch %s {' % (pad, sw_expr(s[1])))
            for p, body in s[3]:
                out.append('%s    %s => {' % (pad, sw_pat(p)))
                out += sw_block(body, ind + 2)
                out.append('%s    }' % pad)
            out.append('%s}' % pad)
        elif k == 'expr': out.append('%slet _ = %s;' % (pad, sw_expr(s[1])))
        else: raise ValueError(s)
    return out

# ------------------------------------------------------------------------------------ printing: Coq
def cq_ty(t):
    k = t[0]
    if k == 'int': return '(TInt W%d)' % t[1]
    if k == 'bool': return 'TBool'
    if k == 'b256': return 'TB256'
    if k in ('tup', 'struct'): return '(TTup [%s])' % '; '.join(cq_ty(x) for x in fields_of(t))
    if k == 'enum': return '(TEnum [%s])' % '; '.join(cq_ty(x) for x in t[2])
    if k == 'arr': return '(TArr %s %d)' % (cq_ty(t[1]), t[2])
    raise ValueError(t)

def cq_b(b): return 'true' if b else 'false'

def cq_expr(e, sc, fidx):
    k = e[0]
    r = lambda x: cq_expr(x, sc, fidx)
    if k == 'int': return '(EInt W%d %d)' % (e[1], e[2])
    if k == 'bool': return '(EBool %s)' % cq_b(e[1])
    if k == 'b256': return '(EB256 %d)' % e[1]
    if k == 'var': return '(EVar %d)' % sc.index(e[1])
    if k == 'bin': return '(EBin %s W%d %s %s)' % (e[1], e[2], r(e[3]), r(e[4]))
    if k == 'not': return '(ENot W%d %s)' % (e[1], r(e[2]))
    if k == 'and': return '(EAnd %s %s)' % (r(e[1]), r(e[2]))
    if k == 'or': return '(EOr %s %s)' % (r(e[1]), r(e[2]))
    if k == 'if': return '(EIf %s %s %s)' % (r(e[1]), r(e[2]), r(e[3]))
    if k == 'tup': return '(ETup [%s])' % '; '.join(r(x) for x in e[2])
    if k == 'proj': return '(EProj %s %d)' % (r(e[1]), e[2])
    if k == 'arr': return '(EArr %s [%s])' % (cq_ty(e[1]), '; '.join(r(x) for x in e[2]))
    if k == 'idx': return '(EIdx %s %s)' % (r(e[1]), r(e[2]))
    if k == 'enum':
        t = e[1]
        return '(EEnum [%s] %d %s)' % ('; '.join(cq_ty(x) for x in t[2]), e[2], r(e[3]))
    if k == 'call': return '(ECall %d [%s])' % (fidx[e[2]], '; '.join(r(x) for x in e[3]))
    raise ValueError(e)

def cq_spat(q):
    k = q[0]
    if k == 'wild': return 'QWild'
    if k == 'var': return 'QVar'
    if k == 'int': return '(QInt %d)' % q[2]
    if k == 'bool': return '(QBool %s)' % cq_b(q[1])

def pat_binders(p):
    qs = [p[1]] if p[0] == 's' else (p[1] if p[0] == 'tup' else [p[3]])
    return [q[1] for q in qs if q[0] == 'var']

def cq_pat(p):
    if p[0] == 's': return '(PS %s)' % cq_spat(p[1])
    if p[0] == 'tup': return '(PTup [%s])' % '; '.join(cq_spat(q) for q in p[1])
    return '(PEnum %d %s)' % (p[2], cq_spat(p[3]))

def cq_stmts(stmts, sc, fidx):
    if not stmts: return 'SSkip'
    s, rest = stmts[0], stmts[1:]
    k = s[0]
    if k in ('let', 'const'):
        return '(SLet %s %s)' % (cq_expr(s[4], sc, fidx), cq_stmts(rest, [s[1]] + sc, fidx))
    one = cq_stmt(s, sc, fidx)
    if not rest: return one
    return '(SSeq %s %s)' % (one, cq_stmts(rest, sc, fidx))

def cq_stmt(s, sc, fidx):
    k = s[0]
    E = lambda x: cq_expr(x, sc, fidx)
    B = lambda b: cq_stmts(b, sc, fidx)
    if k == 'assign':
        ps = []
        for a in s[2]:
            if a[0] == 'field': ps.append('AField %d' % a[1])
            elif a[0] == 'idxvar': ps.append('AIdxVar %d' % sc.index(a[1]))
            else: ps.append('AIdxLit %d' % a[1])
        return '(SAssign %d [%s] %s)' % (sc.index(s[1]), '; '.join(ps), E(s[3]))
    if k == 'if': return '(SIf %s %s %s)' % (E(s[1]), B(s[2]), B(s[3]))
    if k == 'while': return '(SWhile %s %s)' % (E(s[1]), B(s[2]))
    if k == 'break': return 'SBreak'
    if k == 'continue': return 'SContinue'
    if k == 'return': return '(SReturn %s)' % E(s[1])
    if k == 'assert': return '(SAssert %s)' % E(s[1])
    if k == 'require': return '(SRequire %s %s %s)' % (E(s[1]), cq_ty(s[2]), E(s[3]))
    if k == 'revert': return '(SRevert %s)' % E(s[1])
    if k == 'log': return '(SLog %s %s)' % (cq_ty(s[1]), E(s[2]))
    if k == 'match':
        arms = []
        for p, body in s[3]:
            bs = pat_binders(p)
            arms.append('(%s, %s)' % (cq_pat(p), cq_stmts(body, list(reversed(bs)) + sc, fidx)))
        return '(SMatch %s [%s])' % (E(s[1]), '; '.join(arms))
    if k == 'expr': return '(SExpr %s)' % E(s[1])
    raise ValueError(s)

# ------------------------------------------------------------------------------------ program object
class Program:
    """decls: struct/enum types; fns: list of dict(name, key, params, ret, body, attr, generic);
    main: list of stmts.  `key` identifies the Coq function (monomorphic instance)."""
    def __init__(self, name):
        self.name, self.types, self.fns, self.main, self.templates = name, [], [], [], {}

    def sway(self):
        out = []
        for t in self.types:
            if t[0] == 'struct':
                out.append('struct %s { %s }' % (t[1], ', '.join('f%d: %s' % (i, sw_ty(x)) for i, x in enumerate(t[2]))))
            else:
                out.append('enum %s { %s }' % (t[1], ', '.join('V%d: %s' % (i, sw_ty(x)) for i, x in enumerate(t[2]))))
        for src in self.templates.values():
            out.append(src)
        for f in self.fns:
            if f.get('generic'): continue
            if f['attr']: out.append(f['attr'])
            out.append('fn %s(%s)%s {' % (f['name'], ', '.join('%s: %s' % (n, sw_ty(t)) for n, t in f['params']),
                                          '' if f['ret'] == TUNIT else ' -> ' + sw_ty(f['ret'])))
            out += sw_block(f['body'], 1, tail_return=True)
            out.append('}')
        out.append('#[test]\nfn %s() {' % self.name)
        out += sw_block(self.main, 1)
        out.append('}')
        return '\n'.join(out) + '\n'

    def coq(self):
        fidx = {f['key']: i for i, f in enumerate(self.fns)}
        fds = []
        for f in self.fns:
            sc = [n for n, _ in f['params']]
            fds.append('{| fn_params := [%s]; fn_ret := %s; fn_body := %s |}' % (
                '; '.join(cq_ty(t) for _, t in f['params']), cq_ty(f['ret']), cq_stmts(f['body'], sc, fidx)))
        return '{| p_fns := [%s];\n   p_main := %s |}' % (';\n     '.join(fds), cq_stmts(self.main, [], fidx))

# ------------------------------------------------------------------------------------ generation
class Var:
    __slots__ = ('name', 'ty', 'mut', 'lo', 'hi', 'ro')
    def __init__(self, name, ty, mut=False, lo=0, hi=None, ro=False):
        self.name, self.ty, self.mut, self.lo, self.ro = name, ty, mut, lo, ro
        self.hi = hi if hi is not None else (MAXW[ty[1]] if ty[0] == 'int' else None)

class Gen:
    def __init__(self, rng, name, viol=0.015, size=1.0):
        self.rng, self.p, self.viol, self.size = rng, Program(name), viol, size
        self.n = 0
        self.idfns = {}
        self.stats = {}
        self.noviol = 0

    def stat(self, k): self.stats[k] = self.stats.get(k, 0) + 1
    def fresh(self, pre):
        self.n += 1
        return '%s%d' % (pre, self.n)

    # ---- types
    def scalar_ty(self):
        r = self.rng.random()
        for lim, t in ((0.30, U64), (0.44, TINT(8)), (0.54, TINT(16)), (0.66, TINT(32)), (0.77, TINT(256)), (0.93, TBOOL)):
            if r < lim: return t
        return TB256

    def any_ty(self, d=1):
        r = self.rng.random()
        if d <= 0 or r < 0.55: return self.scalar_ty()
        if r < 0.65: return ('tup', tuple(self.any_ty(d - 1) for _ in range(self.rng.randint(2, 3))))
        if r < 0.75: return ('arr', self.any_ty(d - 1), self.rng.randint(1, 4))
        named = self.p.types
        if named and r < 0.97: return self.rng.choice(named)
        return self.scalar_ty()

    def make_types(self):
        for _ in range(self.rng.randint(1, 3)):
            if self.rng.random() < 0.55:
                t = ('struct', '%s_S%d' % (self.p.name.upper(), len(self.p.types)),
                     tuple(self.any_ty(1) for _ in range(self.rng.randint(1, 4))))
            else:
                vs = [self.rng.choice([TUNIT, self.scalar_ty(), self.any_ty(1)]) for _ in range(self.rng.randint(2, 4))]
                t = ('enum', '%s_E%d' % (self.p.name.upper(), len(self.p.types)), tuple(vs))
            self.p.types.append(t)

    # ---- integer expressions with intervals
    def lit(self, w, n, prot=False): return ('int', w, n, prot)

    def int_lit(self, w):
        M = MAXW[w]
        r = self.rng.random()
        if r < 0.35: n = self.rng.randint(0, 9)
        elif r < 0.55: n = self.rng.choice([M, M - 1, M // 2, M // 2 + 1, 1 << (w // 2), (1 << (w // 2)) - 1, 1 << (w - 1)])
        elif r < 0.75: n = self.rng.randint(0, min(M, 300))
        else: n = self.rng.randint(0, M)
        return self.lit(w, n), n, n

    def fit(self, e, lo, hi, w, target):
        """make the value <= target"""
        if hi <= target: return e, lo, hi
        if target >= MAXW[w]: return e, lo, hi
        return ('bin', 'Mod', w, e, self.lit(w, target + 1, True)), 0, target

    def hide(self, e, t):
        """pass through an #[inline(never)] identity function"""
        if t not in self.idfns:
            nm = '%s_id%d' % (self.p.name, len(self.idfns))
            self.idfns[t] = nm
            self.p.fns.append(dict(name=nm, key=nm, params=[('x', t)], ret=t, body=[('return', ('var', 'x'))], attr='#[inline(never)]'))
        nm = self.idfns[t]
        return ('call', nm, nm, [e])

    def op_helper(self, op, w):
        """a small INLINABLE function `fn h(a, b) { a op b }`: in release a constant argument reaches the
        operator only after inlining (const-folding / asm constant propagation hazard)"""
        key = '%s_h%s%d' % (self.p.name, op, w)
        if not any(f['key'] == key for f in self.p.fns):
            t = ('int', w)
            bt = U64 if op in ('Shl', 'Shr') else t
            ret = TBOOL if op in CMP else t
            self.p.fns.append(dict(name=key, key=key, params=[('a', t), ('b', bt)], ret=ret,
                                   body=[('return', ('bin', op, w, ('var', 'a'), ('var', 'b')))],
                                   attr=self.rng.choice(['', '', '#[inline(always)]'])))
        return key

    def apply_form(self, form, op, w, ca, cb):
        """ca / cb: (value, is_constant_side).  forms: 'direct' literal op hidden, 'helper' through the inlinable
        helper, 'let' hidden value bound first"""
        bt = U64 if op in ('Shl', 'Shr') else ('int', w)
        def side(v, const, ty):
            l = self.lit(ty[1], v, True)
            return l if const else self.hide(l, ty)
        a, b = side(ca[0], ca[1], ('int', w)), side(cb[0], cb[1], bt)
        if form == 'helper':
            h = self.op_helper(op, w)
            return ('call', h, h, [a, b])
        return ('bin', op, w, a, b)

    def g_int(self, w, sc, d):
        rng, M = self.rng, MAXW[w]
        r = rng.random()
        vs = [v for v in sc if v.ty == ('int', w)]
        if d <= 0 or r < 0.22:
            if vs and rng.random() < 0.6:
                v = rng.choice(vs)
                return ('var', v.name), v.lo, v.hi
            e, lo, hi = self.int_lit(w)
            if rng.random() < 0.25: e = self.hide(e, ('int', w))
            return e, lo, hi
        if r < 0.72:
            op = rng.choice(ARITH)
            a, alo, ahi = self.g_int(w, sc, d - 1)
            if op in ('Shl', 'Shr'):
                if rng.random() < 0.8:
                    b, blo, bhi = self.lit(64, rng.choice([0, 1, 2, 3, w // 2, w - 1, w, w + 1, 64, 200] if rng.random() < 0.5 else [rng.randint(0, w)])), 0, 0
                    blo = bhi = b[2]
                else:
                    b, blo, bhi = self.g_int(64, sc, d - 1)
                self.stat('op_' + op)
                if op == 'Shl': return ('bin', op, w, a, b), 0, M
                return ('bin', op, w, a, b), 0, ahi >> min(blo, 300)
            b, blo, bhi = self.g_int(w, sc, d - 1)
            if rng.random() < 0.10:
                # zero / identity / absorbing element as a bare literal on one side
                c = rng.choice([0, 0, 1, M])
                if rng.random() < 0.5: a, alo, ahi = self.lit(w, c), c, c
                else: b, blo, bhi = self.lit(w, c), c, c
                self.stat('identity_const_operand')
            # Deliberate violations only where the trap is explicit control flow that survives when the value is unused:
            # u8/u16/u32 `+` and `*` (ops.sw compares and calls __revert).  A u64/u256 operation, any `/ % -`, traps inside
            # the VM instruction itself, and the compiler deletes such an instruction when its result is dead (known
            # finding dead-trapping-arithmetic-eliminated); those traps are exercised by the sweeps/corpora, which log the result.
            bad = self.noviol == 0 and w < 64 and op in ('Add', 'Mul') and rng.random() < self.viol * 4
            if bad: self.stat('violation_injected')
            self.stat('op_' + op)
            if op == 'Add':
                if not bad and ahi + bhi > M:
                    if ahi < M and rng.random() < 0.7: b, blo, bhi = self.fit(b, blo, bhi, w, M - ahi)
                    else:
                        a, alo, ahi = self.fit(a, alo, ahi, w, M // 2)
                        b, blo, bhi = self.fit(b, blo, bhi, w, M - M // 2)
                return ('bin', op, w, a, b), min(alo + blo, M), min(ahi + bhi, M)
            if op == 'Mul':
                if not bad and ahi * bhi > M:
                    s = 1 << (w // 2)
                    a, alo, ahi = self.fit(a, alo, ahi, w, rng.choice([s - 1, 3, 15]))
                    b, blo, bhi = self.fit(b, blo, bhi, w, M // max(ahi, 1))
                return ('bin', op, w, a, b), min(alo * blo, M), min(ahi * bhi, M)
            if op == 'Sub':
                if not bad and alo < bhi:
                    if alo > 0: b, blo, bhi = self.fit(b, blo, bhi, w, alo)
                    else:
                        K = 1 << (w - 1)
                        a, alo, ahi = ('bin', 'BOr', w, a, self.lit(w, K, True)), K, M
                        b, blo, bhi = self.fit(b, blo, bhi, w, K)
                return ('bin', op, w, a, b), max(alo - bhi, 0), max(ahi - blo, 0)
            if op in ('Div', 'Mod'):
                if not bad and blo < 1:
                    b, blo, bhi = ('bin', 'BOr', w, b, self.lit(w, 1, True)), max(blo, 1), bhi | 1
                if op == 'Div': return ('bin', op, w, a, b), 0, ahi // max(blo, 1)
                return ('bin', op, w, a, b), 0, min(ahi, max(bhi - 1, 0))
            if op == 'BAnd': return ('bin', op, w, a, b), 0, min(ahi, bhi)
            hi = (1 << max(ahi, bhi).bit_length()) - 1
            if op == 'BOr': return ('bin', op, w, a, b), max(alo, blo), hi
            return ('bin', op, w, a, b), 0, hi
        if r < 0.77:
            a, alo, ahi = self.g_int(w, sc, d - 1)
            self.stat('op_Not')
            return ('not', w, a), M - ahi, M - alo
        if r < 0.84:
            c = self.g_bool(sc, d - 1)
            a, alo, ahi = self.g_int(w, sc, d - 1)
            b, blo, bhi = self.g_int(w, sc, d - 1)
            return ('if', c, a, b), min(alo, blo), max(ahi, bhi)
        e = self.g_access(('int', w), sc, d) or self.g_call(('int', w), sc, d)
        if e is not None: return e, 0, M
        return self.g_int(w, sc, 0)

    def g_bool(self, sc, d):
        rng = self.rng
        r = rng.random()
        vs = [v for v in sc if v.ty == TBOOL]
        if d <= 0 or r < 0.15:
            if vs and rng.random() < 0.6: return ('var', rng.choice(vs).name)
            return ('bool', rng.random() < 0.5)
        if r < 0.60:
            t = self.scalar_ty()
            if t == TBOOL:
                return ('bin', rng.choice(['Eq', 'Ne']), 64, self.g_bool(sc, d - 1), self.g_bool(sc, d - 1))
            if t == TB256:
                return ('bin', rng.choice(CMP), 256, self.g_b256(sc, d - 1), self.g_b256(sc, d - 1))
            w = t[1]
            self.stat('cmp')
            return ('bin', rng.choice(CMP), w, self.g_int(w, sc, d - 1)[0], self.g_int(w, sc, d - 1)[0])
        if r < 0.72: return ('and', self.g_bool(sc, d - 1), self.g_bool(sc, d - 1))
        if r < 0.84: return ('or', self.g_bool(sc, d - 1), self.g_bool(sc, d - 1))
        if r < 0.90: return ('not', 64, self.g_bool(sc, d - 1))
        e = self.g_access(TBOOL, sc, d) or self.g_call(TBOOL, sc, d)
        return e if e is not None else self.g_bool(sc, 0)

    def g_b256(self, sc, d):
        rng = self.rng
        r = rng.random()
        vs = [v for v in sc if v.ty == TB256]
        if d <= 0 or r < 0.4:
            if vs and rng.random() < 0.6: return ('var', rng.choice(vs).name)
            return ('b256', rng.choice([0, 1, 2**256 - 1, rng.getrandbits(256), rng.getrandbits(64)]))
        if r < 0.8: return ('bin', rng.choice(['BAnd', 'BOr', 'BXor']), 256, self.g_b256(sc, d - 1), self.g_b256(sc, d - 1))
        if r < 0.9: return ('not', 256, self.g_b256(sc, d - 1))
        e = self.g_access(TB256, sc, d) or self.g_call(TB256, sc, d)
        return e if e is not None else self.g_b256(sc, 0)

    def g_expr(self, t, sc, d):
        k = t[0]
        if k == 'int': return self.g_int(t[1], sc, d)[0]
        if k == 'bool': return self.g_bool(sc, d)
        if k == 'b256': return self.g_b256(sc, d)
        rng = self.rng
        r = rng.random()
        vs = [v for v in sc if v.ty == t]
        if vs and r < 0.35: return ('var', rng.choice(vs).name)
        if d > 0 and r < 0.5:
            e = self.g_call(t, sc, d) or self.g_access(t, sc, d)
            if e is not None: return e
        if d > 0 and r < 0.58:
            return ('if', self.g_bool(sc, d - 1), self.g_expr(t, sc, d - 1), self.g_expr(t, sc, d - 1))
        if k in ('tup', 'struct'):
            return ('tup', t, [self.g_expr(x, sc, d - 1) for x in fields_of(t)])
        if k == 'arr':
            return ('arr', t[1], [self.g_expr(t[1], sc, d - 1) for _ in range(t[2])])
        if k == 'enum':
            tag = rng.randrange(len(t[2]))
            # a unit variant is printed without payload (`E::V0`): its payload must be the plain unit value, never an
            # expression with effects (a call returning unit would be evaluated by the reference and dropped by the printer)
            pay = ('tup', TUNIT, []) if t[2][tag] == TUNIT else self.g_expr(t[2][tag], sc, d - 1)
            return ('enum', t, tag, pay)
        raise ValueError(t)

    def safe_index(self, n, sc, d):
        """u64 expression guaranteed < n"""
        rng = self.rng
        vs = [v for v in sc if v.ty == U64 and v.hi < n]
        if vs and rng.random() < 0.5: return ('var', rng.choice(vs).name)
        if rng.random() < 0.4: return self.lit(64, rng.randrange(n), True)
        e, lo, hi = self.g_int(64, sc, max(d - 1, 0))
        if hi < n: return e
        return ('bin', 'Mod', 64, e, self.lit(64, n, True))

    def paths(self, vt, t, depth):
        """access paths from a value of type vt to a component of type t"""
        out = []
        if vt == t: out.append([])
        if depth <= 0: return out
        if vt[0] in ('tup', 'struct'):
            for i, ft in enumerate(fields_of(vt)):
                out += [[('f', i, vt)] + p for p in self.paths(ft, t, depth - 1)]
        elif vt[0] == 'arr':
            out += [[('i', vt[2])] + p for p in self.paths(vt[1], t, depth - 1)]
        return out

    def g_access(self, t, sc, d):
        cands = []
        for v in sc:
            if v.ty[0] in ('tup', 'struct', 'arr'):
                for p in self.paths(v.ty, t, 2):
                    if p: cands.append((v, p))
        if not cands: return None
        v, p = self.rng.choice(cands)
        e = ('var', v.name)
        for a in p:
            if a[0] == 'f': e = ('proj', e, a[1], a[2])
            else: e = ('idx', e, self.safe_index(a[1], sc, d))
        self.stat('access')
        return e

    # ---- calls
    GENERICS = ['pick', 'idt', 'fst', 'snd', 'mk', 'swp']

    def template(self, g):
        p = self.p.name
        if g not in self.p.templates:
            src = {'pick': 'fn %s_pick<T>(c: bool, a: T, b: T) -> T { if c { a } else { b } }',
                   'idt': '#[inline(never)]\nfn %s_idt<T>(x: T) -> T { x }',
                   'fst': 'fn %s_fst<A, B>(p: (A, B)) -> A { p.0 }',
                   'snd': '#[inline(never)]\nfn %s_snd<A, B>(p: (A, B)) -> B { p.1 }',
                   'mk': 'fn %s_mk<A, B>(a: A, b: B) -> (A, B) { (a, b) }',
                   'swp': 'fn %s_swp<A, B>(p: (A, B)) -> (B, A) { (p.1, p.0) }'}[g] % p
            self.p.templates[g] = src
        return '%s_%s' % (p, g)

    def instance(self, g, targs):
        nm = self.template(g)
        key = nm + '<' + ','.join(sw_ty(t) for t in targs) + '>'
        if not any(f['key'] == key for f in self.p.fns):
            V = lambda n: ('var', n)
            if g == 'pick':
                T = targs[0]; params = [('c', TBOOL), ('a', T), ('b', T)]; ret = T
                body = [('return', ('if', V('c'), V('a'), V('b')))]
            elif g == 'idt':
                T = targs[0]; params = [('x', T)]; ret = T; body = [('return', V('x'))]
            elif g in ('fst', 'snd'):
                A, B = targs; pt = ('tup', (A, B)); params = [('p', pt)]
                ret = A if g == 'fst' else B
                body = [('return', ('proj', V('p'), 0 if g == 'fst' else 1, pt))]
            elif g == 'mk':
                A, B = targs; params = [('a', A), ('b', B)]; ret = ('tup', (A, B))
                body = [('return', ('tup', ret, [V('a'), V('b')]))]
            else:
                A, B = targs; pt = ('tup', (A, B)); params = [('p', pt)]; ret = ('tup', (B, A))
                body = [('return', ('tup', ret, [('proj', V('p'), 1, pt), ('proj', V('p'), 0, pt)]))]
            self.p.fns.append(dict(name=nm, key=key, params=params, ret=ret, body=body, attr='', generic=True))
        return nm, key

    def g_call(self, t, sc, d):
        rng = self.rng
        if d <= 0: return None
        cands = [f for f in self.p.fns if f['ret'] == t and not f.get('generic') and f['key'] not in self.idfns.values()]
        if cands and rng.random() < 0.65:
            f = rng.choice(cands)
            self.stat('call')
            return ('call', f['name'], f['key'], [self.g_expr(pt, sc, d - 1) for _, pt in f['params']])
        if rng.random() < 0.6:
            g = rng.choice(['pick', 'idt', 'fst', 'snd'] + (['mk', 'swp'] if t[0] == 'tup' and len(t[1]) == 2 else []))
            self.stat('generic_call')
            if g == 'pick':
                nm, key = self.instance(g, (t,))
                return ('call', nm, key, [self.g_bool(sc, d - 1), self.g_expr(t, sc, d - 1), self.g_expr(t, sc, d - 1)])
            if g == 'idt':
                nm, key = self.instance(g, (t,))
                return ('call', nm, key, [self.g_expr(t, sc, d - 1)])
            if g in ('fst', 'snd'):
                o = self.scalar_ty()
                A, B = (t, o) if g == 'fst' else (o, t)
                nm, key = self.instance(g, (A, B))
                return ('call', nm, key, [self.g_expr(('tup', (A, B)), sc, d - 1)])
            if g == 'mk':
                nm, key = self.instance(g, t[1])
                return ('call', nm, key, [self.g_expr(t[1][0], sc, d - 1), self.g_expr(t[1][1], sc, d - 1)])
            nm, key = self.instance(g, (t[1][1], t[1][0]))
            return ('call', nm, key, [self.g_expr(('tup', (t[1][1], t[1][0])), sc, d - 1)])
        return None

    # ---- statements
    def const_expr(self, w, d):
        """literal-only expression (foldable); never violates"""
        self.noviol += 1
        try:
            save = self.idfns
            e, lo, hi = self.g_int_closed(w, d)
        finally:
            self.noviol -= 1
        return e, lo, hi

    def g_int_closed(self, w, d):
        rng, M = self.rng, MAXW[w]
        if d <= 0 or rng.random() < 0.3:
            e, lo, hi = self.int_lit(w)
            return e, lo, hi
        op = rng.choice(['Add', 'Sub', 'Mul', 'Div', 'Mod', 'BAnd', 'BOr', 'BXor', 'Shl', 'Shr'])
        a, alo, ahi = self.g_int_closed(w, d - 1)
        if op in ('Shl', 'Shr'):
            s = rng.choice([0, 1, 3, w // 2, w - 1])
            v = ((alo << s) & M) if op == 'Shl' else (alo >> s)
            return ('bin', op, w, a, self.lit(64, s)), v, v
        b, blo, bhi = self.g_int_closed(w, d - 1)
        x, y = alo, blo
        if op == 'Add' and x + y > M: op = 'BXor'
        if op == 'Mul' and x * y > M: op = 'BOr'
        if op == 'Sub' and x < y: a, b, x, y = b, a, y, x
        if op in ('Div', 'Mod') and y == 0: op = 'BAnd'
        v = {'Add': x + y, 'Sub': x - y, 'Mul': x * y, 'Div': x // y if y else 0, 'Mod': x % y if y else 0,
             'BAnd': x & y, 'BOr': x | y, 'BXor': x ^ y}[op]
        self.stat('closed_op')
        return ('bin', op, w, a, b), v, v

    def true_cond(self, sc, d):
        """a condition that holds by the intervals"""
        rng = self.rng
        t = rng.choice([U64, TINT(8), TINT(16), TINT(32), TINT(256)])
        w = t[1]
        e, lo, hi = self.g_int(w, sc, d)
        M = MAXW[w]
        if hi < M and rng.random() < 0.5: return ('bin', 'Lt', w, e, self.lit(w, rng.randint(hi + 1, min(M, hi + 5)), True))
        if lo > 0 and rng.random() < 0.5: return ('bin', 'Ge', w, e, self.lit(w, rng.randint(max(lo - 3, 0), lo), True))
        return ('bin', 'Le', w, e, self.lit(w, hi, True))

    def g_block(self, sc, n, d, inloop, ret, top=False):
        """returns list of statements; sc is not modified"""
        sc = list(sc)
        out = []
        rng = self.rng
        for _ in range(n):
            r = rng.random()
            if r < 0.30:
                t = self.any_ty(1)
                nm = self.fresh('v')
                if t[0] == 'int':
                    closed = rng.random() < 0.2
                    if closed:
                        e, lo, hi = self.const_expr(t[1], 2)
                        self.stat('closed_let')
                    else:
                        e, lo, hi = self.g_int(t[1], sc, d)
                    mut = rng.random() < 0.5 and not closed
                    if closed and t[1] == 64 and rng.random() < 0.3:
                        out.append(('const', nm.upper(), False, t, e)); nm = nm.upper()
                        self.stat('const_decl')
                    else:
                        out.append(('let', nm, mut, t, e))
                    sc.insert(0, Var(nm, t, mut) if mut else Var(nm, t, False, lo, hi))
                else:
                    mut = rng.random() < 0.5
                    out.append(('let', nm, mut, t, self.g_expr(t, sc, d)))
                    sc.insert(0, Var(nm, t, mut))
                if is_scalar(t) and rng.random() < 0.3: out.append(('log', t, ('var', nm)))
            elif r < 0.44:
                muts = [v for v in sc if v.mut and not v.ro]
                if not muts: continue
                v = rng.choice(muts)
                path, t = [], v.ty
                pre = []
                while t[0] in ('tup', 'struct', 'arr') and rng.random() < 0.7:
                    if t[0] == 'arr':
                        if rng.random() < 0.5:
                            path.append(('idxlit', rng.randrange(t[2])))
                        else:
                            iv = self.fresh('ix')
                            pre.append(('let', iv, False, U64, self.safe_index(t[2], sc, 1), t[2] - 1))
                            path.append(('idxvar', iv))
                        t = t[1]
                    else:
                        fs = fields_of(t)
                        if not fs: break
                        i = rng.randrange(len(fs))
                        path.append(('field', i, t)); t = fs[i]
                # index variables must be in scope for the expression too
                for s in pre:
                    out.append(s[:5]); sc.insert(0, Var(s[1], U64, False, 0, s[5]))
                out.append(('assign', v.name, path, self.g_expr(t, sc, d)))
                self.stat('assign_path' if path else 'assign')
            elif r < 0.56:
                c = self.g_bool(sc, d)
                a = self.g_block(sc, rng.randint(1, 3), d - 1, inloop, ret)
                b = self.g_block(sc, rng.randint(0, 2), d - 1, inloop, ret) if rng.random() < 0.6 else []
                out.append(('if', c, a, b))
            elif r < 0.66 and d > 0:
                out += self.g_loop(sc, d, ret)
            elif r < 0.76 and d > 0:
                s = self.g_match(sc, d, inloop, ret)
                if s: out.append(s)
            elif r < 0.88:
                t = self.any_ty(1) if rng.random() < 0.3 else self.scalar_ty()
                vs = [v for v in sc if v.ty == t]
                e = ('var', rng.choice(vs).name) if vs and rng.random() < 0.5 else self.g_expr(t, sc, d)
                out.append(('log', t, e))
            elif r < 0.91:
                if rng.random() < 0.8: out.append(('assert', self.true_cond(sc, 1)))
                else: out.append(('assert', self.g_bool(sc, d)))
                self.stat('assert')
            elif r < 0.935:
                t = self.scalar_ty()
                c = self.true_cond(sc, 1) if rng.random() < 0.8 else self.g_bool(sc, d)
                out.append(('require', c, t, self.g_expr(t, sc, 1)))
                self.stat('require')
            elif r < 0.95:
                out.append(('if', self.g_bool(sc, d) if rng.random() < 0.5 else ('not', 64, self.true_cond(sc, 1)),
                            [('revert', self.g_int(64, sc, 1)[0])], []))
                self.stat('revert_stmt')
            elif r < 0.97 and inloop:
                out.append(('if', self.g_bool(sc, 1), [(rng.choice(['break', 'continue']),)], []))
            elif r < 0.985 and ret is not None and not top:
                out.append(('if', self.g_bool(sc, 1), [('return', self.g_expr(ret, sc, 1))], []))
                self.stat('early_return')
            else:
                e = self.g_call(self.scalar_ty(), sc, d)
                if e is not None: out.append(('expr', e))
        return out

    def g_loop(self, sc, d, ret):
        rng = self.rng
        i = self.fresh('i')
        K = rng.randint(1, 6)
        out = [('let', i, True, U64, self.lit(64, 0, True))]
        sc2 = [Var(i, U64, True, 1, K, ro=True)] + list(sc)
        body = [('assign', i, [], ('bin', 'Add', 64, ('var', i), self.lit(64, 1, True)))]
        if rng.random() < 0.4:
            # swap two variables of the same type (phi / parallel move hazard)
            muts = [v for v in sc if v.mut and not v.ro]
            rng.shuffle(muts)
            pair = None
            for a in muts:
                for b in muts:
                    if a is not b and a.ty == b.ty: pair = (a, b)
            if pair:
                t = self.fresh('t')
                body += [('let', t, False, pair[0].ty, ('var', pair[0].name)),
                         ('assign', pair[0].name, [], ('var', pair[1].name)),
                         ('assign', pair[1].name, [], ('var', t))]
                sc2 = [Var(t, pair[0].ty)] + sc2
                self.stat('loop_swap')
                if rng.random() < 0.6:
                    body.append(('if', self.g_bool(sc2, 1), [(rng.choice(['break', 'continue']),)], []))
        body += self.g_block(sc2, rng.randint(1, 3), d - 1, True, ret)
        out.append(('while', ('bin', 'Lt', 64, ('var', i), self.lit(64, K, True)), body))
        self.stat('loop')
        return out

    def pat_lit(self, w):
        # literal patterns above 64 bits crash the compiler (pattern.rs: "pattern only works with 64 bits")
        n = self.int_lit(w)[1]
        return n if w != 256 else n % (1 << 64)

    def spat_for(self, t, binders):
        rng = self.rng
        r = rng.random()
        if t[0] == 'int' and r < 0.45: return ('int', t[1], self.pat_lit(t[1]))
        if t == TBOOL and r < 0.45: return ('bool', rng.random() < 0.5)
        if r < 0.8:
            nm = self.fresh('m'); binders.append((nm, t)); return ('var', nm)
        return ('wild',)

    def g_match(self, sc, d, inloop, ret):
        rng = self.rng
        kinds = ['int', 'bool', 'tup'] + (['enum'] * 3 if any(t[0] == 'enum' for t in self.p.types) else [])
        k = rng.choice(kinds)
        arms = []
        def arm(p, binders):
            sc2 = [Var(n, t) for n, t in reversed(binders)] + list(sc)
            body = self.g_block(sc2, rng.randint(1, 2), d - 1, inloop, ret)
            for n, t in binders:
                if is_scalar(t) and rng.random() < 0.6: body.insert(0, ('log', t, ('var', n)))
            arms.append((p, body))
        if k == 'enum':
            t = rng.choice([t for t in self.p.types if t[0] == 'enum'])
            e = self.g_expr(t, sc, d)
            tags = list(range(len(t[2])))
            rng.shuffle(tags)
            drop = rng.random() < 0.35
            if drop: tags = tags[:rng.randint(1, len(tags))]
            for tag in tags:
                pt = t[2][tag]
                if pt[0] == 'int' and rng.random() < 0.3:
                    arm(('enum', t, tag, ('int', pt[1], self.pat_lit(pt[1]))), [])
                if pt == TUNIT or rng.random() < 0.25: arm(('enum', t, tag, ('wild',)), [])
                else:
                    nm = self.fresh('m'); arm(('enum', t, tag, ('var', nm)), [(nm, pt)])
            if drop and len(tags) < len(t[2]): arm(('s', ('wild',)), [])
        elif k == 'int':
            t = rng.choice([U64, TINT(8), TINT(16), TINT(32), TINT(256)])
            e = self.g_expr(t, sc, d)
            seen = set()
            for _ in range(rng.randint(1, 3)):
                n = self.pat_lit(t[1])
                if n in seen: continue
                seen.add(n); arm(('s', ('int', t[1], n)), [])
            if rng.random() < 0.5: arm(('s', ('wild',)), [])
            else:
                nm = self.fresh('m'); arm(('s', ('var', nm)), [(nm, t)])
        elif k == 'bool':
            t = TBOOL
            e = self.g_expr(t, sc, d)
            first = rng.random() < 0.5
            arm(('s', ('bool', first)), [])
            if rng.random() < 0.6: arm(('s', ('bool', not first)), [])
            else: arm(('s', ('wild',)), [])
        else:
            ts = tuple(rng.choice([U64, TINT(8), TBOOL, TINT(32)]) for _ in range(rng.randint(2, 3)))
            t = ('tup', ts)
            e = self.g_expr(t, sc, d)
            seen = set()
            for _ in range(rng.randint(1, 3)):
                b = []
                qs = [self.spat_for(x, b) for x in ts]
                if all(q[0] in ('var', 'wild') for q in qs): continue
                key = repr([q if q[0] != 'var' else 'v' for q in qs])
                if key in seen: continue
                seen.add(key); arm(('tup', qs), b)
            if rng.random() < 0.5: arm(('s', ('wild',)), [])
            else:
                b = []
                qs = []
                for x in ts:
                    nm = self.fresh('m'); b.append((nm, x)); qs.append(('var', nm))
                arm(('tup', qs), b)
        self.stat('match_' + k)
        return ('match', e, t, arms)

    # ---- functions
    def make_fn(self):
        rng = self.rng
        nm = '%s_f%d' % (self.p.name, len(self.p.fns))
        params = [(self.fresh('a'), self.any_ty(1) if rng.random() < 0.4 else self.scalar_ty()) for _ in range(rng.randint(1, 3))]
        ret = TUNIT if rng.random() < 0.12 else (self.any_ty(1) if rng.random() < 0.35 else self.scalar_ty())
        sc = [Var(n, t) for n, t in params]
        body = self.g_block(sc, rng.randint(0, 4), 2, False, ret)
        # the tail expression sees the top-level lets of the body
        sc2 = list(sc)
        for s in body:
            if s[0] in ('let', 'const'): sc2.insert(0, Var(s[1], s[3], False) if s[3][0] != 'int' else Var(s[1], s[3], True))
        body.append(('return', self.g_expr(ret, sc2, 2)))
        attr = rng.choice(['#[inline(never)]', '#[inline(never)]', '', '', '', '#[inline(always)]'])
        f = dict(name=nm, key=nm, params=params, ret=ret, body=body, attr=attr)
        self.p.fns.append(f)
        self.stat('fn')
        return f

    def near_duplicate(self, f):
        """same body differing in one constant or operator (function-dedup hazard)"""
        rng = self.rng
        g = copy.deepcopy(f)
        sites = []
        def walk(x, path):
            if isinstance(x, tuple):
                # only comparisons are mutated (operator, or a literal operand): they cannot make an arithmetic
                # operation elsewhere leave the interval it was generated for
                if len(x) == 5 and x[0] == 'bin' and x[1] in CMP:
                    sites.append((path, 'op'))
                    for i in (3, 4):
                        y = x[i]
                        if isinstance(y, tuple) and len(y) == 4 and y[0] == 'int' and not y[3]: sites.append((path + [i], 'lit'))
                for i, y in enumerate(x):
                    if x[0] == 'while' and i == 1: continue
                    walk(y, path + [i])
            elif isinstance(x, list):
                for i, y in enumerate(x): walk(y, path + [i])
        walk(g['body'], [])
        if not sites: return None
        path, kind = rng.choice(sites)
        def edit(x, path):
            if not path:
                if kind == 'lit': return ('int', x[1], x[2] ^ 1, x[3])
                alt = {'Lt': 'Le', 'Le': 'Lt', 'Gt': 'Ge', 'Ge': 'Gt', 'Eq': 'Ne', 'Ne': 'Eq'}[x[1]]
                return ('bin', alt) + x[2:]
            i = path[0]
            if isinstance(x, tuple): return x[:i] + (edit(x[i], path[1:]),) + x[i + 1:]
            y = list(x); y[i] = edit(x[i], path[1:]); return y
        g['body'] = edit(g['body'], path)
        g['name'] = g['key'] = '%s_f%d' % (self.p.name, len(self.p.fns))
        # binders of the copy must not clash with the original inside one package: they are local, fine
        self.p.fns.append(g)
        self.stat('near_duplicate')
        return g

    def build(self):
        rng = self.rng
        self.make_types()
        nf = rng.randint(1, 4)
        for _ in range(nf):
            f = self.make_fn()
            if rng.random() < 0.35: self.near_duplicate(f)
        main = []
        sc = []
        # call every ordinary function at least once and log what it returns
        for f in [f for f in self.p.fns if not f.get('generic') and f['key'] not in self.idfns.values()]:
            if rng.random() < 0.8:
                args = [self.g_expr(t, sc, 1) for _, t in f['params']]
                if f['ret'] == TUNIT: main.append(('expr', ('call', f['name'], f['key'], args)))
                else: main.append(('log', f['ret'], ('call', f['name'], f['key'], args)))
        body = self.g_block(sc, max(3, int(rng.randint(5, 10) * self.size)), 3, False, None, top=True)
        main += body
        sc2 = []
        for s in body:
            if s[0] in ('let', 'const'): sc2.append((s[1], s[3]))
        for n, t in sc2:
            if rng.random() < (0.8 if is_scalar(t) else 0.4): main.append(('log', t, ('var', n)))
        self.p.main = main
        return self.p

def reverts_op(op, w, x, y):
    M = MAXW[w]
    return (op == 'Add' and x + y > M) or (op == 'Sub' and x < y) or (op == 'Mul' and x * y > M) or (op in ('Div', 'Mod') and y == 0)

def operator_sweep(rng, name, per=12):
    """T-corr (i): every operator of ops.sw on boundary-biased operands; each operand is either hidden behind an
    #[inline(never)] identity or a bare constant, the operator is applied directly or through a small inlinable
    helper; at most one reverting operation, placed last."""
    g = Gen(rng, name, viol=0.0)
    main = []
    last = None
    for _ in range(per):
        w = rng.choice([8, 16, 32, 64, 256])
        M = MAXW[w]
        pick = lambda: rng.choice([0, 0, 1, 1, 2, M, M, M - 1, M // 2, M // 2 + 1, 1 << (w // 2), rng.randint(0, M), rng.randint(0, 20)])
        op = rng.choice(ARITH + CMP + ['Not'])
        if op == 'Not':
            main.append(('log', ('int', w), ('not', w, g.hide(g.lit(w, pick()), ('int', w))))); continue
        x = pick()
        y = rng.choice([0, 1, w - 1, w, w + 1, 63, 64, 65, 255, 256, 257, 2**64 - 1, rng.randint(0, 300)]) if op in ('Shl', 'Shr') else pick()
        consts = rng.choice([(False, False), (False, False), (True, False), (False, True)])
        e = g.apply_form(rng.choice(['direct', 'helper']), op, w, (x, consts[0]), (y, consts[1]))
        s = ('log', TBOOL if op in CMP else ('int', w), e)
        if reverts_op(op, w, x, y): last = s
        else: main.append(s)
    if last and rng.random() < 0.5: main.append(last)
    g.p.main = main
    g.stats['sweep_ops'] = len(main)
    return g

def identity_trap_corpus(tag, full=False):
    """ALWAYS-ON corpus: for every binary operator and width, `C op f(v)`, `f(v) op C`, `h(C, f(v))`, `h(f(v), C)` with
    C an identity / absorbing constant (0, 1, max), v a trap / special value (0 for / and %, the overflow partner for
    + - *, shift amounts width-1, width, width+1, 255), f an #[inline(never)] identity and h a small INLINABLE helper
    (the constant meets the operator only after inlining).  Non-reverting cases share one program per (width, operator
    family); every reverting case is a program of its own.  full=False (quick tier) keeps every `C / f(0)`, `C % f(0)`,
    one `f(v) / 0`, `f(v) % 0` and one canonical overflow per (operator, width, form); full=True keeps all.
    Returns [[Gen]] (packages of about 32 programs)."""
    import random as _r
    rng = _r.Random(12345)
    progs = []
    def new():
        g = Gen(rng, '%sp%03d' % (tag, len(progs)), viol=0.0)
        progs.append(g)
        return g
    FAM = {'Add': 'arith', 'Sub': 'arith', 'Mul': 'arith', 'Div': 'arith', 'Mod': 'arith', 'BAnd': 'bits', 'BOr': 'bits',
           'BXor': 'bits', 'Shl': 'bits', 'Shr': 'bits'}
    CANON = {'Add': [(None, 1)], 'Sub': [(0, 1)], 'Mul': [(None, 2)]}     # None = max
    for w in (8, 16, 32, 64, 256):
        M = MAXW[w]
        ok = {'arith': [], 'bits': [], 'cmp': []}
        for op in ARITH + CMP:
            if op in ('Shl', 'Shr'):
                pairs = [(c, v) for c in (0, 1, M) for v in (0, 1, w - 1, w, w + 1, 255)]
            else:
                vals = [0, 1, M] + ([2, M - 1] if op in ('Add', 'Sub', 'Mul') else [])
                pairs = [(c, v) for c in (0, 1, M) for v in vals]
            for c, v in pairs:
                for form in ('direct', 'helper'):
                    for const_left in (True, False):
                        x, y = (c, v) if const_left else (v, c)
                        if op in ('Shl', 'Shr'): y = min(y, 2**64 - 1)      # the shift amount is a u64
                        ca, cb = ((x, True), (y, False)) if const_left else ((x, False), (y, True))
                        if reverts_op(op, w, x, y):
                            if not full:
                                if op in ('Div', 'Mod'):
                                    if not const_left and x != 1: continue
                                else:
                                    continue      # overflow boundaries: boundary_corpus
                            g = new()
                            g.p.main = [('log', U64, g.lit(64, len(progs), True)),
                                        ('log', TBOOL if op in CMP else ('int', w), g.apply_form(form, op, w, ca, cb)),
                                        ('log', U64, g.lit(64, 7, True))]
                            g.stats['identity_trap_reverting'] = 1
                            g.meta = dict(op=op, width=w, a=x, b=y, form=form)
                        else:
                            ok[FAM.get(op, 'cmp')].append((form, op, w, ca, cb))
        for fam, sts in ok.items():
            if sts:
                g = new()
                g.p.main = [('log', TBOOL if st[1] in CMP else ('int', w), g.apply_form(*st)) for st in sts]
                g.stats['identity_trap_ok_ops'] = len(sts)
    size = 32
    return [progs[i:i + size] for i in range(0, len(progs), size)]

def boundary_pairs(op, w, full):
    """operand pairs whose exact result is 2^w - 1, 2^w, 2^w + 1 (resp. 0 / -1 for subtraction)"""
    M = MAXW[w]
    H = 1 << (w - 1)
    if op == 'Add':
        ps = [(M, 1), (M - 1, 1), (1, M), (H, H), (H, H - 1), (M, 0), (M - 1, 2)]
    elif op == 'Sub':
        ps = [(0, 1), (0, 0), (1, 1), (1, 2), (M, M), (M - 1, M), (H, H), (H, H + 1), (H - 1, H)]
    elif op == 'Mul':
        ks = range(1, w) if full else sorted({1, w // 2, w - 1} & set(range(1, w)))
        ps = []
        for k in ks:
            ps += [(1 << k, 1 << (w - k)), (1 << k, (1 << (w - k)) - 1), ((1 << k) + 1, 1 << (w - k))]
            if full: ps.append((1 << (w - k), 1 << k))
        ps += [(M, 1), (M, 2), (1, M), ((1 << (w // 2)) + 1, (1 << (w // 2)) - 1), ((1 << (w // 2)) + 1, 1 << (w // 2))]
    else:
        ps = []
    return [(a, b) for a, b in dict.fromkeys(ps) if 0 <= a <= M and 0 <= b <= M]

def boundary_corpus(tag, full=False):
    """for + - * and every width: operands at the overflow boundary, both hidden behind #[inline(never)]
    identities (run-time arithmetic of ops.sw).  full=True (used as the search when C01's proof or T-gen breaks, and
    in the thorough tier) takes every power-of-two split for `*`.  Reverting cases are programs of their own and
    carry (op, width, a, b)."""
    import random as _r
    rng = _r.Random(54321)
    progs = []
    def new():
        g = Gen(rng, '%sp%03d' % (tag, len(progs)), viol=0.0)
        progs.append(g)
        return g
    for w in (8, 16, 32, 64, 256):
        for op in ('Add', 'Sub', 'Mul'):
            oks = []
            for a, b in boundary_pairs(op, w, full):
                if reverts_op(op, w, a, b):
                    g = new()
                    g.p.main = [('log', ('int', w), g.apply_form('direct', op, w, (a, False), (b, False))), ('log', U64, g.lit(64, 7, True))]
                    g.meta = dict(op=op, width=w, a=a, b=b, form='direct')
                    g.stats['boundary_reverting'] = 1
                else:
                    oks.append((a, b))
            if oks:
                g = new()
                g.p.main = [('log', ('int', w), g.apply_form('direct', op, w, (a, False), (b, False))) for a, b in oks]
                g.meta = dict(op=op, width=w, pairs=[(a, b) for a, b in oks])
                g.stats['boundary_ok_ops'] = len(oks)
    size = 40
    return [progs[i:i + size] for i in range(0, len(progs), size)]
