#!/bin/bash
# tools/seedconfirm.sh <NAME> <patch.diff> <demo.diff|-> "<existing-tests cargo args>" "<demo cargo args>"
# Independent confirmation of a seeded change in a private checkout (/tmp/confirm) with a private
# target directory: (1) with the change, the crate's existing tests pass; (2) with the change the
# demonstration fails; (3) without the change the demonstration passes.
set -u
name=$1; patch=$2; demo=$3; existing=$4; demoargs=$5
out=/verif/seeded/$name; mkdir -p "$out"
export CARGO_TARGET_DIR=/tmp/confirm_target CARGO_NET_OFFLINE=true
cd /tmp/confirm && git checkout -q -- . && git clean -fdq -e target && git checkout -q --detach $(git -C /repo rev-parse HEAD)
git apply "$patch" || { echo "patch does not apply" | tee "$out/confirm.txt"; exit 2; }
{
echo "### (1) existing tests WITH the change: cargo test $existing"
timeout 7200 cargo test --offline $existing 2>&1 | grep -E "^test result|FAILED|failed|panicked|error(\[|:)" | head -30
if [ "$demo" != "-" ]; then git apply "$demo" || echo "demo does not apply"; fi
echo "### (2) demonstration WITH the change: cargo test $demoargs"
timeout 7200 cargo test --offline $demoargs 2>&1 | grep -E "^test |^test result|panicked|error(\[|:)" | head -30
git apply -R "$patch" || echo "cannot reverse patch"
echo "### (3) demonstration WITHOUT the change: cargo test $demoargs"
timeout 7200 cargo test --offline $demoargs 2>&1 | grep -E "^test |^test result|panicked|error(\[|:)" | head -30
} 2>&1 | tee "$out/confirm.txt"
git checkout -q -- . ; git clean -fdq -e target
