#!/usr/bin/env python3
"""C15 T-gen: inventory of iteration over hash-ordered containers in the code-generation path.

Heuristic, source-level (no type checker): per file, collect identifiers bound to hash-ordered
containers (HashMap/HashSet/FxHashMap/FxHashSet/DashMap, incl. struct fields and parameters), then
list every place such an identifier is iterated (for-loops, .iter()/.keys()/.values()/.drain()/
.into_iter()/.iter_mut()/.values_mut()/.into_keys()/.into_values()/.retain()).  Each site is identified
by (file, enclosing fn, normalised source line) so that moving code does not change the id but editing
the iteration does."""
import os, re, sys, json, hashlib

REPO = os.environ.get("VERIF_REPO", "/repo")
PATHS = ["sway-core/src/asm_generation", "sway-ir/src/optimize", "sway-ir/src/analysis", "sway-ir/src/pass_manager.rs",
         "sway-core/src/ir_generation", "sway-core/src/abi_generation", "forc-pkg/src/pkg.rs", "sway-ir/src/function.rs",
         "sway-ir/src/module.rs", "sway-ir/src/context.rs"]
HASH_TY = r"(?:Fx)?Hash(?:Map|Set)|DashMap|DashSet"
ITER_M = r"iter|keys|values|drain|into_iter|iter_mut|values_mut|into_keys|into_values|retain|par_iter"

def files():
    for p in PATHS:
        full = os.path.join(REPO, p)
        if os.path.isfile(full):
            yield p
        else:
            for d, _, fs in os.walk(full):
                for f in sorted(fs):
                    if f.endswith(".rs"):
                        yield os.path.relpath(os.path.join(d, f), REPO)

def strip_tests(src):
    i = src.find("#[cfg(test)]")
    return src if i < 0 else src[:i]

def scan_file(rel):
    src = strip_tests(open(os.path.join(REPO, rel), encoding="utf-8").read())
    # join method-chain continuation lines (`\n   .iter()`) onto the line that starts the chain
    raw = src.split("\n")
    lines, origin = [], []
    for i, l in enumerate(raw, 1):
        if lines and l.strip().startswith(".") and not lines[-1].strip().startswith("//"):
            lines[-1] = lines[-1].rstrip() + l.strip()
        else:
            lines.append(l); origin.append(i)
    names = set()
    kinds = {}
    def add(n, line):
        names.add(n)
        for t in re.findall(r"(?:Fx)?Hash(?:Map|Set)|DashMap|DashSet", line):
            kinds.setdefault(n, set()).add('fx' if t.startswith('Fx') else ('dash' if t.startswith('Dash') else 'std'))
    # functions of this file that return a hash container (multi-line signatures joined crudely)
    flat = re.sub(r"\s+", " ", src)
    hash_fns = set(m.group(1) for m in re.finditer(r"\bfn\s+([a-z_][a-z0-9_]*)\s*(?:<[^>]*>)?\([^)]*\)\s*->\s*[^{;]*?\b(?:%s)\b" % HASH_TY, flat))
    for l in lines:
        if l.strip().startswith("//"): continue
        # let [mut] x: HashMap<..> / let [mut] x = HashMap::new() / FxHashMap::default() / field: HashMap<..> / param: &HashMap
        for m in re.finditer(r"\b(?:let\s+(?:mut\s+)?)?([a-z_][a-z0-9_]*)\s*:\s*&?\s*(?:mut\s+)?(?:[A-Za-z_:]*::)?(?:%s)\b" % HASH_TY, l):
            add(m.group(1), l)
        for m in re.finditer(r"\blet\s+(?:mut\s+)?([a-z_][a-z0-9_]*)(?:\s*:\s*[^=]+)?\s*=\s*(?:[A-Za-z_:]*::)?(?:%s)\s*(?:::<[^>]*>)?::" % HASH_TY, l):
            add(m.group(1), l)
        # any binding / field / parameter whose type or initialiser mentions a hash container
        for m in re.finditer(r"\b([a-z_][a-z0-9_]*)\s*(?::|=)\s*[^;]*?\b(?:%s)\b" % HASH_TY, l):
            if not re.match(r"\s*(use|pub use|type|pub type)\b", l):
                add(m.group(1), l)
        for m in re.finditer(r"\blet\s+(?:mut\s+)?([a-z_][a-z0-9_]*)\s*(?::[^=]+)?=\s*(?:self\.)?([a-z_][a-z0-9_]*)\s*\(", l):
            if m.group(2) in hash_fns:
                add(m.group(1), l)
        # collect::<FxHashSet<_>>() bound by let
        for m in re.finditer(r"\blet\s+(?:mut\s+)?([a-z_][a-z0-9_]*)\b.*collect::<\s*(?:%s)" % HASH_TY, l):
            add(m.group(1), l)
    names -= {"self", "_"}
    sites = []
    fn = "?"
    for ln, l in zip(origin, lines):
        m = re.search(r"\bfn\s+([A-Za-z_][A-Za-z0-9_]*)", l)
        if m and not l.strip().startswith("//"): fn = m.group(1)
        if l.strip().startswith("//"): continue
        hit = None
        for n in names:
            if re.search(r"\bfor\b[^;{]*\bin\s+&?(?:mut\s+)?(?:self\.)?%s\b(?!\s*\.\s*(?:get|contains|len|entry)\b)" % re.escape(n), l):
                hit = (n, "for")
            mm = re.search(r"\b(?:self\.)?%s\s*\.\s*(%s)\s*\(" % (re.escape(n), ITER_M), l)
            if mm: hit = (n, mm.group(1))
            if hit: break
        if hit:
            norm = re.sub(r"\s+", " ", l.strip())
            sid = hashlib.sha256(("%s|%s|%s" % (rel, fn, norm)).encode()).hexdigest()[:12]
            sites.append({"id": sid, "file": rel, "fn": fn, "line": ln, "ident": hit[0], "how": hit[1], "text": norm,
                          "kind": "+".join(sorted(kinds.get(hit[0], {"unknown"})))})
    return sites

def inventory():
    out = []
    for rel in files():
        out.extend(scan_file(rel))
    return out

if __name__ == "__main__":
    inv = inventory()
    for s in inv:
        print("%s %s:%d fn %s  [%s.%s %s]  %s" % (s["id"], s["file"], s["line"], s["fn"], s["ident"], s["how"], s["kind"], s["text"][:110]))
    print(len(inv), "sites", file=sys.stderr)
