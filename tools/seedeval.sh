#!/bin/bash
# tools/seedeval.sh <SEEDNAME> <patch.diff> <PID> [<PID>...]
# Apply a seeded change to the scratch checkout /tmp/seedrepo (never to /repo), run the named checks
# against it (VERIF_REPO), record their output under seeded/<SEEDNAME>/, undo the change.
set -u
name=$1; patch=$2; shift 2
cd "$(dirname "$0")/.."
out=seeded/$name
mkdir -p "$out"
git -C /tmp/seedrepo checkout -q -- . && git -C /tmp/seedrepo checkout -q --detach $(git -C /repo rev-parse HEAD) && git -C /tmp/seedrepo apply "$patch" || { echo "patch does not apply"; exit 2; }
for pid in "$@"; do
  echo "== $pid against seeded tree $name" | tee "$out/check_$pid.txt"
  # evidence of the registered checks must not be overwritten by experiment runs
  cp evidence/$pid.json /tmp/evidence_$pid.bak 2>/dev/null
  VERIF_REPO=/tmp/seedrepo timeout 5400 bin/check $pid 2>&1 | grep -E "^VIOLATION|->|done:" | head -40 | tee -a "$out/check_$pid.txt"
  cp /tmp/evidence_$pid.bak evidence/$pid.json 2>/dev/null
done
git -C /tmp/seedrepo checkout -q -- .
