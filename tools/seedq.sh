#!/bin/bash
# Serial queue for seeded-change evaluations: each work/seedq/*.job holds "NAME PATCH PID [PID...]"
cd /verif
while true; do
  j=$(ls work/seedq/*.job 2>/dev/null | head -1)
  if [ -z "$j" ]; then sleep 15; continue; fi
  while pgrep -f "tools/seedeval.sh" >/dev/null; do sleep 10; done
  args=$(cat "$j"); mv "$j" "$j.running"
  tools/seedeval.sh $args > "work/seed_$(echo $args | cut -d' ' -f1).log" 2>&1
  mv "$j.running" "$j.done"
done
