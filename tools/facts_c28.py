#!/usr/bin/env python3
"""C28 T-gen: constants and code shapes of the storage library that the Coq model (coq/C28/Model.v)
is built from.  Writes coq/Generated/C28Facts.v.  Every regex is anchored on the exact source shape
of the anchored function; any change of shape raises FactsError (reported as C28.tgen)."""
import os, re, sys

ROOT = os.path.dirname(os.path.dirname(os.path.abspath(__file__)))
REPO = os.environ.get("VERIF_REPO", "/repo")
OUT = os.path.join(ROOT, "coq", "Generated", "C28Facts.v")
# last good translation (committed): used when the translation fails, so that the check can go on
# with the model of the last known code and search for a failing input on the VM
SNAPSHOT = os.path.join(ROOT, "tools", "c28_facts_snapshot.v")
STD = "sway-lib-std/src/storage/"


class FactsError(Exception):
    pass


def read(rel):
    try:
        return open(os.path.join(REPO, rel), encoding="utf-8").read()
    except OSError as e:
        raise FactsError("cannot read %s: %s" % (rel, e))


def code_only(src):
    """drop // comments (incl. doc comments) and collapse white space."""
    out = []
    for l in src.split("\n"):
        i = l.find("//")
        if i >= 0:
            l = l[:i]
        out.append(l)
    return re.sub(r"\s+", " ", "\n".join(out))


def need(pat, text, what):
    m = re.search(pat, text)
    if not m:
        raise FactsError("shape not found: %s  (/%s/)" % (what, pat))
    return m


def fn_body(text, header_pat, what, legacy=None):
    """text is comment-free and white-space collapsed; returns the body of the first fn matching
    header_pat (brace matching)."""
    m = need(header_pat, text, what)
    i = text.index("{", m.end() - 1)
    depth, j = 0, i
    while j < len(text):
        if text[j] == "{":
            depth += 1
        elif text[j] == "}":
            depth -= 1
            if depth == 0:
                return text[i + 1:j].strip()
        j += 1
    raise FactsError("unbalanced braces in " + what)


def legacy_part(text, what):
    """the `#[cfg(experimental_dynamic_storage = false)] impl ... { ... }` block of a file."""
    m = need(r"#\[cfg\(experimental_dynamic_storage = false\)\] impl", text, what + ": legacy (quads) impl block")
    i = text.index("{", m.end())
    depth, j = 0, i
    while j < len(text):
        if text[j] == "{":
            depth += 1
        elif text[j] == "}":
            depth -= 1
            if depth == 0:
                return text[i:j + 1]
        j += 1
    raise FactsError("unbalanced braces in " + what)


def generate(write=True):
    f = {}
    # --- compiler side: key of a storage field
    c = code_only(read("sway-utils/src/constants.rs"))
    f["storage_domain"] = int(need(r"pub const STORAGE_DOMAIN: \[u8; 1\] = \[(\d+)u8\];", c, "STORAGE_DOMAIN").group(1))
    f["ns"] = need(r'pub const STORAGE_TOP_LEVEL_NAMESPACE: &str = "([a-z_]+)";', c, "STORAGE_TOP_LEVEL_NAMESPACE").group(1)
    f["sep"] = need(r'pub const STORAGE_FIELD_SEPARATOR: &str = "([^"]+)";', c, "STORAGE_FIELD_SEPARATOR").group(1)
    s = code_only(read("sway-core/src/ir_generation/storage.rs"))
    b = fn_body(s, r"fn hash_storage_key_string\(storage_key_string: &str\) -> Bytes32 \{", "hash_storage_key_string")
    need(r"^let mut hasher = Hasher::default\(\); hasher\.input\(sway_utils::constants::STORAGE_DOMAIN\); hasher\.input\(storage_key_string\); hasher\.finalize\(\)$",
         b, "hash_storage_key_string = sha256(STORAGE_DOMAIN ++ string)")
    b = fn_body(s, r"pub fn get_storage_key_string\(storage_field_path: &\[String\]\) -> String \{", "get_storage_key_string")
    need(r'^if storage_field_path\.len\(\) == 1 \{ format!\( "\{\}\{\}\{\}", sway_utils::constants::STORAGE_TOP_LEVEL_NAMESPACE, sway_utils::constants::STORAGE_FIELD_SEPARATOR, storage_field_path\.last\(\)\.unwrap\(\), \) \}',
         b, "get_storage_key_string: top-level field = NAMESPACE ++ SEPARATOR ++ name")
    b = fn_body(s, r"pub\(super\) fn get_storage_field_path_and_field_id\(", "get_storage_field_path_and_field_id")
    need(r"let id = hash_storage_key_string\(&path\); \(path, id\)$", b, "field id = hash_storage_key_string(path)")
    # default of the feature that selects the quads implementation
    feat = code_only(read("sway-features/src/lib.rs"))
    need(r"dynamic_storage = false,", feat, "experimental feature dynamic_storage defaults to false")

    # --- storage_api.sw
    a = code_only(read(STD + "storage_api.sw"))
    b = fn_body(a, r"fn slot_calculator<T>\(slot: b256, offset: u64\) -> \(b256, u64, u64\) \{", "slot_calculator")
    m = need(r"^let size_of_t = __size_of::<T>\(\); let last_slot = \(\(offset \* (\d+)\) \+ size_of_t \+ (\d+)\) >> (\d+); "
             r"let place_in_slot = offset % (\d+); "
             r"let number_of_slots = if __is_reference_type::<T>\(\) \{ \(\(place_in_slot \* (\d+)\) \+ size_of_t \+ (\d+)\) >> (\d+) \} else \{ (\d+) \}; "
             r"let mut offset_slot = slot\.as_u256\(\); add_u64_to_u256\(offset_slot, last_slot - number_of_slots\); "
             r"\(__transmute::<u256, b256>\(offset_slot\), number_of_slots, place_in_slot\)$", b, "slot_calculator body")
    (f["sc_word_bytes"], f["sc_round"], f["sc_shift"], f["sc_words"], f["sc2_word_bytes"], f["sc2_round"], f["sc2_shift"],
     f["sc_nonref_slots"]) = [int(x) for x in m.groups()]
    need(r"fn add_u64_to_u256\(ref mut num: u256, val: u64\) \{ asm\(num: num, val: val\) \{ wqop num num val i0; \} \}", a, "add_u64_to_u256 = wqop add")
    b = fn_body(a, r"pub fn write_quads<T>\(slot: b256, offset: u64, value: T\) \{", "write_quads")
    m = need(r"^if __size_of::<T>\(\) == 0 \{ return; \} if __size_of::<T>\(\) % (\d+) == 0 && offset == 0 \{ let value_addr = __addr_of::<T>\(value\); "
             r"let _ = __state_store_quad\(slot, value_addr, __size_of::<T>\(\) / (\d+)\); return; \} "
             r"let \(offset_slot, number_of_slots, place_in_slot\) = slot_calculator::<T>\(slot, offset\); "
             r"let padded_value = alloc_bytes\(number_of_slots \* (\d+)\); "
             r"let _ = __state_load_quad\(offset_slot, padded_value, number_of_slots\); "
             r"padded_value\.add::<u64>\(place_in_slot\)\.write::<T>\(value\); "
             r"let _ = __state_store_quad\(offset_slot, padded_value, number_of_slots\);$", b, "write_quads body")
    if len(set(m.groups())) != 1:
        raise FactsError("write_quads: slot size constants differ: %s" % (m.groups(),))
    f["slot_bytes"] = int(m.group(1))
    b = fn_body(a, r"pub fn read_quads<T>\(slot: b256, offset: u64\) -> Option<T> \{", "read_quads")
    need(r"^if __size_of::<T>\(\) == 0 \{ return None; \} let \(offset_slot, number_of_slots, place_in_slot\) = slot_calculator::<T>\(slot, offset\); "
         r"let result_ptr = alloc_bytes\(number_of_slots \* %d\); "
         r"if __state_load_quad\(offset_slot, result_ptr, number_of_slots\) \{ Some\(result_ptr\.add::<u64>\(place_in_slot\)\.read::<T>\(\)\) \} else \{ None \}$" % f["slot_bytes"],
         b, "read_quads body")
    b = fn_body(a, r"pub fn clear_quads<T>\(slot: b256, offset: u64\) -> bool \{", "clear_quads")
    need(r"^if __size_of::<T>\(\) == 0 \{ return true; \} let \(offset_slot, number_of_slots, _place_in_slot\) = slot_calculator::<T>\(slot, offset\); "
         r"__state_clear\(offset_slot, number_of_slots\)$", b, "clear_quads body")

    # --- storage_vec.sw (legacy part)
    v = code_only(read(STD + "storage_vec.sw"))
    m = need(r"#\[cfg\(experimental_dynamic_storage = false\)\] fn offset_calculator<T>\(index: u64\) -> u64 \{ let size_in_bytes = __size_of::<T>\(\); "
             r"let size_in_bytes = \(size_in_bytes \+ \((\d+) - 1\)\) - \(\(size_in_bytes \+ \((\d+) - 1\)\) % (\d+)\); \(index \* size_in_bytes\) / (\d+) \}",
             v, "offset_calculator")
    if len(set(m.groups())) != 1:
        raise FactsError("offset_calculator: word size constants differ: %s" % (m.groups(),))
    f["oc_word"] = int(m.group(1))
    lv = legacy_part(v, "storage_vec.sw")
    methods = re.findall(r"pub fn ([a-z_]+)\(self", lv)
    expected = ["push", "pop", "get", "remove", "swap_remove", "set", "insert", "len", "is_empty", "swap", "first", "last",
                "reverse", "fill", "resize", "store_vec", "load_vec", "iter"]
    if methods != expected:
        raise FactsError("StorageVec (quads) method list changed: %s" % methods)
    if lv.count("read_quads::<u64>(self.field_id(), 0).unwrap_or(0)") < 14:
        raise FactsError("StorageVec: length is no longer read as read_quads::<u64>(self.field_id(), 0).unwrap_or(0) everywhere")
    need(r"let key = sha256\(self\.field_id\(\)\);", lv, "StorageVec content base = sha256(field_id)")

    # --- storage_map.sw
    mp = code_only(read(STD + "storage_map.sw"))
    f["map_domain"] = int(need(r"const STORAGE_MAP_DOMAIN: u8 = (\d+);", mp, "STORAGE_MAP_DOMAIN").group(1))
    need(r"fn get_slot_key\(self, key: K\) -> b256 \{ sha256\(\(STORAGE_MAP_DOMAIN, key, self\.field_id\(\)\)\) \}", mp, "get_slot_key = sha256((DOMAIN, key, field_id))")
    need(r"pub fn get\(self, key: K\) -> StorageKey<V> where K: Hash, \{ let key = self\.get_slot_key\(key\); StorageKey::<V>::new\(key, 0, key\) \}", mp, "StorageMap::get")
    lm = legacy_part(mp, "storage_map.sw")
    need(r"pub fn insert\(self, key: K, value: V\) where K: Hash, \{ let key = self\.get_slot_key\(key\); write_quads::<V>\(key, 0, value\); \}", lm, "StorageMap::insert")
    need(r"pub fn remove\(self, key: K\) -> bool where K: Hash, \{ let key = self\.get_slot_key\(key\); clear_quads::<V>\(key, 0\) \}", lm, "StorageMap::remove")
    need(r"let val = read_quads::<V>\(key, 0\); match val \{ Option::Some\(v\) => \{ Result::Err\(StorageMapError::OccupiedError\(v\)\) \}, "
         r"Option::None => \{ write_quads::<V>\(key, 0, value\); Result::Ok\(value\) \} \}", lm, "StorageMap::try_insert")

    # --- hashing of the tuple components (hash.sw): u8 -> 1 byte, u64 -> 8 bytes, b256 -> 32 bytes
    h = code_only(read("sway-lib-std/src/hash.sw"))
    need(r"impl Hash for u8 \{ fn is_hash_trivial\(\) -> bool \{ true \} fn hash\(self, ref mut state: Hasher\) \{ state\.write_u8\(self\); \} \}", h, "Hash for u8")
    need(r"impl Hash for u64 \{ fn is_hash_trivial\(\) -> bool \{ true \} fn hash\(self, ref mut state: Hasher\) \{ state\.write_raw_slice\(raw_slice::from_parts::<u8>\(__addr_of\(self\), 8\)\); \} \}", h, "Hash for u64")
    need(r"impl Hash for b256 \{ fn is_hash_trivial\(\) -> bool \{ true \} fn hash\(self, ref mut state: Hasher\) \{ state\.write_raw_slice\(raw_slice::from_parts::<u8>\(__addr_of\(self\), 32\)\); \} \}", h, "Hash for b256")
    need(r"fn hash\(self, ref mut state: Hasher\) \{ self\.0\.hash\(state\); self\.1\.hash\(state\); self\.2\.hash\(state\); \}", h, "Hash for (A, B, C)")

    # --- storable_slice.sw
    sl = code_only(read(STD + "storable_slice.sw"))
    b = fn_body(sl, r"pub fn write_slice_quads\(slot: b256, slice: raw_slice\) \{", "write_slice_quads")
    m = need(r"^let number_of_bytes = slice\.number_of_bytes\(\); let number_of_slots = \(number_of_bytes \+ (\d+)\) >> (\d+); let mut ptr = slice\.ptr\(\); "
             r"ptr = realloc_bytes\(ptr, number_of_bytes, number_of_slots \* (\d+)\); let _ = __state_store_quad\(sha256\(slot\), ptr, number_of_slots\); "
             r"write_quads::<u64>\(slot, 0, number_of_bytes\);$", b, "write_slice_quads body")
    f["sl_round"], f["sl_shift"] = int(m.group(1)), int(m.group(2))
    if int(m.group(3)) != f["slot_bytes"]:
        raise FactsError("write_slice_quads: slot size %s" % m.group(3))
    b = fn_body(sl, r"pub fn read_slice_quads\(slot: b256\) -> Option<raw_slice> \{", "read_slice_quads")
    need(r"^match read_quads::<u64>\(slot, 0\)\.unwrap_or\(0\) \{ 0 => None, len => \{ let number_of_slots = \(len \+ %d\) >> %d; let ptr = alloc_bytes\(number_of_slots \* %d\); "
         r"let _ = __state_load_quad\(sha256\(slot\), ptr, number_of_slots\); Some\(__transmute::<\(raw_ptr, u64\), raw_slice>\(\(ptr, len\)\)\) \} \}$"
         % (f["sl_round"], f["sl_shift"], f["slot_bytes"]), b, "read_slice_quads body")
    b = fn_body(sl, r"pub fn clear_slice_quads\(slot: b256\) -> bool \{", "clear_slice_quads")
    need(r"^let len = read_quads::<u64>\(slot, 0\)\.unwrap_or\(0\); let number_of_slots = \(len \+ %d\) >> %d; let _ = __state_clear\(slot, 1\); "
         r"__state_clear\(sha256\(slot\), number_of_slots\)$" % (f["sl_round"], f["sl_shift"]), b, "clear_slice_quads body")
    for fn, ty in (("storage_bytes.sw", "Bytes"), ("storage_string.sw", "String")):
        t = legacy_part(code_only(read(STD + fn)), fn)
        need(r"fn write_slice\(self, [a-z]+: %s\) \{ write_slice_quads\(self\.field_id\(\), [a-z]+\.as_raw_slice\(\)\); \}" % ty, t, fn + " write_slice")
        need(r"fn read_slice\(self\) -> Option<%s> \{ match read_slice_quads\(self\.field_id\(\)\) \{ Some\(slice\) => \{ Some\(%s::from_moved_raw_slice\(slice\)\) \}, None => None, \} \}" % (ty, ty), t, fn + " read_slice")
        need(r"fn clear\(self\) -> bool \{ clear_slice_quads\(self\.field_id\(\)\) \}", t, fn + " clear")
        need(r"fn len\(self\) -> u64 \{ read_quads::<u64>\(self\.field_id\(\), 0\)\.unwrap_or\(0\) \}", t, fn + " len")
    # --- storage_key.sw: clear of a zero-sized (storage) type clears the slot at field_id as a u64
    k = code_only(read(STD + "storage_key.sw"))
    need(r"pub fn clear\(self\) -> bool \{ const IS_STORAGE_TYPE: bool = __size_of::<T>\(\) == 0; if IS_STORAGE_TYPE \{ clear_quads::<u64>\(self\.field_id, 0\) \} "
         r"else \{ clear_quads::<T>\(self\.slot, self\.offset\) \} \}", k, "StorageKey::clear (quads)")
    need(r"pub fn try_read\(self\) -> Option<T> \{ read_quads::<T>\(self\.slot, self\.offset\) \}", k, "StorageKey::try_read (quads)")

    def bl(sv):
        return "[" + ";".join(str(x) for x in sv.encode()) + "]"
    lines = ["(* GENERATED by tools/facts_c28.py from /repo — do not edit. *)",
             "From Coq Require Import NArith List.", "Import ListNotations.", "Open Scope N_scope.", ""]
    for nm in ["storage_domain", "map_domain", "sc_word_bytes", "sc_round", "sc_shift", "sc_words", "sc2_word_bytes", "sc2_round",
               "sc2_shift", "sc_nonref_slots", "slot_bytes", "oc_word", "sl_round", "sl_shift"]:
        lines.append("Definition c28_%s : N := %d." % (nm, f[nm]))
    lines.append("Definition c28_storage_ns : list N := %s.   (* %r *)" % (bl(f["ns"]), f["ns"]))
    lines.append("Definition c28_field_sep : list N := %s.   (* %r *)" % (bl(f["sep"]), f["sep"]))
    text = "\n".join(lines) + "\n"
    if write:
        os.makedirs(os.path.dirname(OUT), exist_ok=True)
        if not (os.path.exists(OUT) and open(OUT, encoding="utf-8").read() == text):
            open(OUT, "w", encoding="utf-8").write(text)
        if REPO == "/repo" and not (os.path.exists(SNAPSHOT) and open(SNAPSHOT, encoding="utf-8").read() == text):
            open(SNAPSHOT, "w", encoding="utf-8").write(text)
    f["text"] = text
    return f


def use_snapshot():
    """install the last good facts file; returns its text (raises FactsError if there is none)."""
    if not os.path.exists(SNAPSHOT):
        raise FactsError("no snapshot of a previous successful translation (%s)" % SNAPSHOT)
    text = open(SNAPSHOT, encoding="utf-8").read()
    os.makedirs(os.path.dirname(OUT), exist_ok=True)
    if not (os.path.exists(OUT) and open(OUT, encoding="utf-8").read() == text):
        open(OUT, "w", encoding="utf-8").write(text)
    return text


if __name__ == "__main__":
    try:
        r = generate()
    except FactsError as e:
        print("C28.tgen FAILED:", e)
        sys.exit(1)
    print(r["text"])
