#!/usr/bin/env python3
"""tools/seedmeta.py <seed dir name> <property> <caught_by text> : write seeded/<name>/meta.json"""
import json, os, sys, re
name, prop = sys.argv[1], sys.argv[2]
caught = sys.argv[3] if len(sys.argv) > 3 else None
d = os.path.join("/verif/seeded", name)
am = {}
p = os.path.join(d, "agent_meta.json")
if os.path.exists(p):
    try: am = json.load(open(p))
    except Exception: am = {}
checks = {}
for f in sorted(os.listdir(d)):
    if f.startswith("check_") and f.endswith(".txt"):
        t = open(os.path.join(d, f)).read()
        checks[f[6:-4]] = {"violation_lines": len(re.findall(r"^VIOLATION", t, re.M)),
                           "with_failing_input": len([l for l in re.findall(r"^VIOLATION.*$", t, re.M) if "no-failing-input-found" not in l]),
                           "first": (re.findall(r"-> (.*)", t) or [""])[0][:300]}
conf = open(os.path.join(d, "confirm.txt")).read() if os.path.exists(os.path.join(d, "confirm.txt")) else None
if caught is None:
    c = checks.get(prop, {})
    if c.get("with_failing_input"): caught = "caught: VIOLATION with a concrete failing input (%s)" % c.get("first", "")[:160]
    elif c.get("violation_lines"): caught = "caught as a broken tie only: VIOLATION ... no-failing-input-found (%s)" % c.get("first", "")[:160]
    else: caught = "MISSED by the quick tier of bin/check %s" % prop
meta = {"property": prop, "breaks": am.get("summary", ""), "needs_to_manifest": am.get("needs", ""),
        "commit_message": am.get("commit_message", ""),
        "source": "written by a fresh sub-agent that saw only the property text and its own worktree of /repo (nothing from /verif)",
        "confirmed_by_lead": ("tools/seedconfirm.sh in a private checkout /tmp/confirm with a private target dir: existing tests of the crate with the change, demonstration with the change (fails), demonstration without it (passes) — see confirm.txt" if conf else "see confirm notes"),
        "what_was_run": "tools/seedeval.sh: patch applied to the scratch checkout /tmp/seedrepo (never to /repo), `VERIF_REPO=/tmp/seedrepo bin/check <ID>` (quick tier), patch undone",
        "checks": checks, "caught_by": caught}
json.dump(meta, open(os.path.join(d, "meta.json"), "w"), indent=1)
print(json.dumps(meta["checks"]))
