"""T-gen for C01/C02: regenerate coq/Generated/C01Facts.v from the sources on every run.

 * sway-lib-std/src/ops.sw: every operator impl for u8 u16 u32 u64 u256 b256 bool is parsed (a small
   recursive-descent parser for the subset of Sway those bodies use) and re-expressed in C01.OpsAst
   (`impl : binop -> width -> option iexp`, `impl_not`, b256 / bool tables); trait default methods
   (`neq`, `ge`, `le`) and the method calls they contain are inlined.
 * primitives.sw: the `max()` constants;  flags.sw: the shape of panic_on_overflow_enabled and the mask;
   error_signals.sw: FAILED_ASSERT_SIGNAL / FAILED_REQUIRE_SIGNAL.
 * sway-ir/src/pass_manager.rs (+ sway-core/src/lib.rs): the O0 / O1 IR pass lists, the passes appended by
   the driver, and the asm optimisation round bound (for C02).
Anything not recognised raises FactsError (the check reports C01.tgen / C02.tgen)."""
import os, re

class FactsError(Exception):
    pass

# ------------------------------------------------------------------------------------------- lexer
TOK = re.compile(r"\s*(?:(?P<num>0x[0-9a-fA-F_]+|0b[01_]+|\d[\d_]*)(?P<suf>u8|u16|u32|u64|u256)?|(?P<id>[A-Za-z_][A-Za-z0-9_]*)|(?P<op>::|\|\||&&|==|->|[{}()<>,;=.!]))")

def strip_comments(s):
    return re.sub(r"//[^\n]*", "", s)

def lex(s):
    out, pos = [], 0
    s = s.strip()
    while pos < len(s):
        m = TOK.match(s, pos)
        if not m or m.end() == pos:
            raise FactsError("ops.sw: cannot tokenize at %r" % s[pos:pos + 40])
        pos = m.end()
        if m.group("num") is not None:
            t = m.group("num").replace("_", "")
            out.append(("num", int(t, 0)))
        elif m.group("id") is not None: out.append(("id", m.group("id")))
        else: out.append(("op", m.group("op")))
    return out

class P:
    def __init__(self, toks): self.t, self.i = toks, 0
    def peek(self, k=0): return self.t[self.i + k] if self.i + k < len(self.t) else (None, None)
    def next(self):
        x = self.peek(); self.i += 1; return x
    def eat(self, v):
        x = self.next()
        if x[1] != v: raise FactsError("ops.sw: expected %r, got %r" % (v, x[1]))
    def block(self):
        self.eat("{")
        lets = []
        while self.peek() == ("id", "let"):
            self.next()
            name = self.next()[1]
            self.eat("=")
            e = self.expr()
            self.eat(";")
            lets.append((name, e))
        e = self.expr()
        self.eat("}")
        for name, v in reversed(lets):
            e = ("let", name, v, e)
        return e
    def expr(self):
        e = self.postfix()
        while self.peek() == ("op", "||"):
            self.next()
            e = ("orelse", e, self.postfix())
        return e
    def args(self):
        self.eat("(")
        out = []
        while self.peek() != ("op", ")"):
            out.append(self.expr())
            if self.peek() == ("op", ","): self.next()
        self.eat(")")
        return out
    def postfix(self):
        e = self.primary()
        while self.peek() == ("op", ".") and self.peek(1)[0] == "id":
            self.next()
            m = self.next()[1]
            e = ("method", m, e, self.args())
        return e
    def primary(self):
        k, v = self.next()
        if k == "num": return ("lit", v)
        if (k, v) == ("op", "("):
            e = self.expr(); self.eat(")"); return e
        if k != "id": raise FactsError("ops.sw: unexpected token %r" % (v,))
        if v == "true": return ("lit", 1)
        if v == "false": return ("lit", 0)
        if v == "if":
            c = self.expr(); t = self.block()
            if self.next() != ("id", "else"): raise FactsError("ops.sw: if without else")
            return ("if", c, t, self.block())
        if v in ("Self", "u8", "u16", "u32", "u64", "u256", "b256") and self.peek() == ("op", "::"):
            self.next()
            m = self.next()[1]
            a = self.args()
            if m != "max" or a: raise FactsError("ops.sw: unsupported associated call %s::%s" % (v, m))
            return ("max", v)
        if v.startswith("__"):
            if self.peek() == ("op", "::"):
                self.next(); self.eat("<")
                depth = 1
                while depth:
                    t = self.next()[1]
                    if t == "<": depth += 1
                    elif t == ">": depth -= 1
            return ("intr", v, self.args())
        if self.peek() == ("op", "("):
            return ("call", v, self.args())
        return ("name", v)

# --------------------------------------------------------------------------------- ops.sw -> iexp
INTR2 = {"__add": "IAdd", "__sub": "ISub", "__mul": "IMul", "__div": "IDiv", "__mod": "IMod", "__and": "IAnd",
         "__or": "IOr", "__xor": "IXor", "__lsh": "ILsh", "__rsh": "IRsh", "__eq": "IEq", "__gt": "IGt", "__lt": "ILt"}
TRAITS = {"Add": ("add", "Add"), "Subtract": ("subtract", "Sub"), "Multiply": ("multiply", "Mul"), "Divide": ("divide", "Div"),
          "Mod": ("modulo", "Mod"), "BitwiseAnd": ("binary_and", "BAnd"), "BitwiseOr": ("binary_or", "BOr"),
          "BitwiseXor": ("binary_xor", "BXor")}
WIDTH = {"u8": 8, "u16": 16, "u32": 32, "u64": 64, "u256": 256}

def find_block(src, start):
    """src[start] == '{' -> index just after the matching '}'"""
    depth = 0
    for i in range(start, len(src)):
        if src[i] == "{": depth += 1
        elif src[i] == "}":
            depth -= 1
            if depth == 0: return i + 1
    raise FactsError("ops.sw: unbalanced braces")

def impl_fns(src, trait, ty):
    """{fn name: body text} of `impl <trait> for <ty> { ... }`"""
    m = re.search(r"^impl\s+%s\s+for\s+%s\s*\{" % (trait, re.escape(ty)), src, re.M)
    if not m: raise FactsError("ops.sw: impl %s for %s not found" % (trait, ty))
    end = find_block(src, m.end() - 1)
    body = src[m.end():end - 1]
    out = {}
    for fm in re.finditer(r"fn\s+(\w+)\s*\(([^)]*)\)\s*->\s*\w+\s*\{", body):
        e = find_block(body, fm.end() - 1)
        out[fm.group(1)] = (fm.group(2), body[fm.end() - 1:e])
    return out

def trait_default(src, trait, fn):
    m = re.search(r"^pub trait\s+%s\b[^{]*\{" % trait, src, re.M)
    if not m: raise FactsError("ops.sw: trait %s not found" % trait)
    end = find_block(src, m.end() - 1)
    body = src[m.end():end - 1]
    rest = src[end:]
    if rest.lstrip().startswith("{"):      # `trait T { required } { provided }`
        st = end + len(rest) - len(rest.lstrip())
        body += src[st + 1:find_block(src, st) - 1]
    fm = re.search(r"fn\s+%s\s*\(([^)]*)\)\s*->\s*\w+\s*\{" % fn, body)
    if not fm: raise FactsError("ops.sw: default method %s::%s not found" % (trait, fn))
    e = find_block(body, fm.end() - 1)
    return body[fm.end() - 1:e]

class Ops:
    def __init__(self, repo):
        std = os.path.join(repo, "sway-lib-std/src")
        self.src = strip_comments(open(os.path.join(std, "ops.sw")).read())
        self.consts = {}
        for m in re.finditer(r"^const\s+(\w+)\s*:\s*u64\s*=\s*([^;]+);", self.src, re.M):
            self.consts[m.group(1)] = P(lex(m.group(2))).expr()
        # helper functions that must be register-level identities
        for h, a, b in (("u8_as_u64", "u8", "u64"), ("u64_as_u8", "u64", "u8")):
            if not re.search(r"fn\s+%s\s*\(val:\s*%s\)\s*->\s*%s\s*\{\s*asm\(input:\s*val\)\s*\{\s*input:\s*%s\s*\}\s*\}" % (h, a, b, b), self.src):
                raise FactsError("ops.sw: helper %s is no longer the asm identity" % h)
        fl = strip_comments(open(os.path.join(std, "flags.sw")).read())
        if not re.search(r"pub fn panic_on_overflow_enabled\(\)\s*->\s*bool\s*\{\s*__eq\(__and\(flags\(\),\s*F_WRAPPING_DISABLE_MASK\),\s*0\)\s*\}", fl):
            raise FactsError("flags.sw: panic_on_overflow_enabled has a new shape")
        m = re.search(r"pub const F_WRAPPING_DISABLE_MASK:\s*u64\s*=\s*(0b[01_]+|0x[0-9a-fA-F_]+|\d+)\s*;", fl)
        if not m or int(m.group(1).replace("_", ""), 0) != 2:
            raise FactsError("flags.sw: F_WRAPPING_DISABLE_MASK is not bit 1 (F_WRAPPING)")
        rg = strip_comments(open(os.path.join(std, "registers.sw")).read())
        if not re.search(r"pub fn flags\(\)\s*->\s*u64\s*\{\s*asm\(\)\s*\{\s*flag\s*\}\s*\}", rg):
            raise FactsError("registers.sw: flags() no longer reads $flag")
        pr = strip_comments(open(os.path.join(std, "primitives.sw")).read())
        self.maxv = {}
        for ty in ("u8", "u16", "u32", "u64", "u256", "b256"):
            m = re.search(r"^impl\s+%s\s*\{" % ty, pr, re.M)
            if not m: raise FactsError("primitives.sw: impl %s not found" % ty)
            blk = pr[m.end():find_block(pr, m.end() - 1)]
            fm = re.search(r"pub fn max\(\)\s*->\s*Self\s*\{\s*(0x[0-9a-fA-F_]+|\d[\d_]*)(?:u\d+)?\s*\}", blk)
            if not fm: raise FactsError("primitives.sw: %s::max() not recognised" % ty)
            self.maxv[ty] = int(fm.group(1).replace("_", ""), 0)
        es = open(os.path.join(std, "error_signals.sw")).read()
        self.signals = {}
        for nm in ("FAILED_ASSERT_SIGNAL", "FAILED_REQUIRE_SIGNAL"):
            m = re.search(r"pub const %s\s*=\s*(0x[0-9a-fA-F_]+)\s*;" % nm, es)
            if not m: raise FactsError("error_signals.sw: %s not found" % nm)
            self.signals[nm] = int(m.group(1).replace("_", ""), 16)

    def body(self, trait, ty, fn):
        fns = impl_fns(self.src, trait, ty)
        if fn in fns: return P(lex(fns[fn][1])).block()
        return None

    def method(self, ty, name, recv, args):
        """inline `recv.name(args)` for a receiver of Sway type ty"""
        table = {"eq": ("PartialEq", "eq"), "neq": ("PartialEq", "neq"), "gt": ("Ord", "gt"), "lt": ("Ord", "lt"),
                 "ge": ("OrdEq", "ge"), "le": ("OrdEq", "le"), "not": ("Not", "not")}
        if name not in table: raise FactsError("ops.sw: method call .%s() not supported" % name)
        tr, fn = table[name]
        b = self.body(tr, ty, fn)
        if b is None: b = P(lex(trait_default(self.src, tr, fn))).block()
        return ("subst", b, recv, args[0] if args else None, ty)

    def conv(self, e, ty, env, selfx, otherx):
        """named AST -> Coq text.  env: let names (innermost first); selfx/otherx: Coq text of self/other"""
        k = e[0]
        C = lambda x: self.conv(x, ty, env, selfx, otherx)
        if k == "lit": return "(XLit %d)" % e[1]
        if k == "name":
            if e[1] == "self": return selfx
            if e[1] == "other": return otherx
            if e[1] in env: return "(XVar %d)" % env.index(e[1])
            if e[1] in self.consts: return self.conv(self.consts[e[1]], ty, [], selfx, otherx)
            raise FactsError("ops.sw: unknown name %s" % e[1])
        if k == "max":
            t = ty if e[1] == "Self" else e[1]
            if t == "b256": raise FactsError("ops.sw: b256::max() in an operator impl")
            return "(XMax W%d)" % WIDTH[t]
        if k == "intr":
            nm, a = e[1], e[2]
            if nm in INTR2 and len(a) == 2: return "(XBin %s %s %s)" % (INTR2[nm], C(a[0]), C(a[1]))
            if nm == "__not" and len(a) == 1: return "(XNot %s)" % C(a[0])
            if nm == "__transmute" and len(a) == 1: return "(XCast %s)" % C(a[0])
            if nm == "__revert" and len(a) == 1 and a[0][0] == "lit": return "(XRevert %d)" % a[0][1]
            raise FactsError("ops.sw: intrinsic %s/%d not supported" % (nm, len(a)))
        if k == "call":
            if e[1] in ("u8_as_u64", "u64_as_u8") and len(e[2]) == 1: return "(XCast %s)" % C(e[2][0])
            if e[1] == "panic_on_overflow_enabled" and not e[2]: return "XPanicOnOverflow"
            raise FactsError("ops.sw: call to %s not supported" % e[1])
        if k == "let": return "(XLet %s %s)" % (C(e[2]), self.conv(e[3], ty, [e[1]] + env, selfx, otherx))
        if k == "if": return "(XIf %s %s %s)" % (C(e[1]), C(e[2]), C(e[3]))
        if k == "orelse": return "(XOrElse %s %s)" % (C(e[1]), C(e[2]))
        if k == "method":
            # the receiver type: self/other have type ty; results of eq/gt/lt are bool
            recv = e[2]
            rty = "bool" if recv[0] == "method" and recv[1] in ("eq", "neq", "gt", "lt", "ge", "le") else ty
            sub = self.method(rty, e[1], recv, e[3])
            _, body, r, a, bty = sub
            if self.has_let(body): raise FactsError("ops.sw: inlined method body with let")
            return self.conv(body, bty, env, C(r), C(a) if a is not None else "XOther")
        raise FactsError("ops.sw: unsupported expression %r" % (e,))

    def has_let(self, e):
        if not isinstance(e, tuple): return False
        if e[0] == "let": return True
        return any(self.has_let(x) if isinstance(x, tuple) else any(self.has_let(y) for y in x) if isinstance(x, list) else False for x in e[1:])

    def impl(self, trait, ty, fn):
        b = self.body(trait, ty, fn)
        if b is None: b = P(lex(trait_default(self.src, trait, fn))).block()
        return self.conv(b, ty, [], "XSelf", "XOther")

def ops_tables(repo):
    o = Ops(repo)
    ints = ["u8", "u16", "u32", "u64", "u256"]
    rows = []
    def all_ops(ty):
        out = {}
        for tr, (fn, op) in TRAITS.items():
            out[op] = o.impl(tr, ty, fn)
        out["Shl"] = o.impl("Shift", ty, "lsh"); out["Shr"] = o.impl("Shift", ty, "rsh")
        out["Eq"] = o.impl("PartialEq", ty, "eq"); out["Ne"] = o.impl("PartialEq", ty, "neq")
        out["Lt"] = o.impl("Ord", ty, "lt"); out["Gt"] = o.impl("Ord", ty, "gt")
        out["Le"] = o.impl("OrdEq", ty, "le"); out["Ge"] = o.impl("OrdEq", ty, "ge")
        return out
    # OrdEq must be implemented without overriding ge/le
    for ty in ints + ["b256"]:
        if not re.search(r"^impl\s+OrdEq\s+for\s+%s\s*\{\s*\}" % ty, o.src, re.M):
            raise FactsError("ops.sw: impl OrdEq for %s is no longer empty" % ty)
    lines = ["(* GENERATED by tools/facts_c01.py from sway-lib-std/src/{ops,primitives,flags,error_signals}.sw, sway-ir/src/pass_manager.rs,",
             "   sway-core/src/lib.rs and sway-core/src/asm_generation/fuel/programs/abstract.rs - do not edit. *)",
             "From Coq Require Import NArith List String.", "From SwayV Require Import Frag.Syntax C01.OpsAst.",
             "Import ListNotations.", "Local Open Scope N_scope.", ""]
    lines.append("Definition impl (op : binop) (w : width) : option iexp :=\n  match op, w with")
    for ty in ints:
        for op, tx in all_ops(ty).items():
            lines.append("  | %s, W%d => Some %s" % (op, WIDTH[ty], tx))
    lines.append("  end.\n")
    lines.append("Definition impl_not (w : width) : option iexp :=\n  match w with")
    for ty in ints:
        lines.append("  | W%d => Some %s" % (WIDTH[ty], o.impl("Not", ty, "not")))
    lines.append("  end.\n")
    b = {}
    for tr, (fn, op) in TRAITS.items():
        if op in ("BAnd", "BOr", "BXor"): b[op] = o.impl(tr, "b256", fn)
    b["Eq"] = o.impl("PartialEq", "b256", "eq"); b["Ne"] = o.impl("PartialEq", "b256", "neq")
    b["Lt"] = o.impl("Ord", "b256", "lt"); b["Gt"] = o.impl("Ord", "b256", "gt")
    b["Le"] = o.impl("OrdEq", "b256", "le"); b["Ge"] = o.impl("OrdEq", "b256", "ge")
    lines.append("Definition impl_b256 (op : binop) : option iexp :=\n  match op with")
    for op, tx in b.items(): lines.append("  | %s => Some %s" % (op, tx))
    lines.append("  | _ => None\n  end.\n")
    lines.append("Definition impl_not_b256 : iexp := %s." % o.impl("Not", "b256", "not"))
    lines.append("Definition impl_not_bool : iexp := %s." % o.impl("Not", "bool", "not"))
    lines.append("Definition impl_eq_bool : iexp := %s." % o.impl("PartialEq", "bool", "eq"))
    lines.append("Definition impl_ne_bool : iexp := %s.\n" % o.impl("PartialEq", "bool", "neq"))
    lines.append("Definition max_of (w : width) : N :=\n  match w with")
    for ty in ints: lines.append("  | W%d => %d" % (WIDTH[ty], o.maxv[ty]))
    lines.append("  end.\n")
    lines.append("Definition failed_assert_signal : N := %d." % o.signals["FAILED_ASSERT_SIGNAL"])
    lines.append("Definition failed_require_signal : N := %d.\n" % o.signals["FAILED_REQUIRE_SIGNAL"])
    return lines

# ------------------------------------------------------------------------------------ pass lists
def pass_lists(repo):
    pm = open(os.path.join(repo, "sway-ir/src/pass_manager.rs")).read()
    names = {}
    for f in os.listdir(os.path.join(repo, "sway-ir/src/optimize")) + ["../pass_manager.rs"]:
        p = os.path.join(repo, "sway-ir/src/optimize", f)
        if os.path.isfile(p):
            for m in re.finditer(r"pub const (\w+_NAME)\s*:\s*&str\s*=\s*\"([^\"]+)\"\s*;", open(p).read()):
                names[m.group(1)] = m.group(2)
    def group(fn):
        m = re.search(r"pub fn %s\(\)\s*->\s*PassGroup\s*\{" % fn, pm)
        if not m: raise FactsError("pass_manager.rs: %s not found" % fn)
        body = pm[m.end():find_block(pm, m.end() - 1)]
        out = []
        for am in re.finditer(r"\.append_pass\(\s*(\w+)\s*\)", body):
            if am.group(1) not in names: raise FactsError("pass_manager.rs: unknown pass constant %s" % am.group(1))
            out.append(names[am.group(1)])
        if not out: raise FactsError("pass_manager.rs: %s has no passes" % fn)
        return out
    o1 = group("create_o1_pass_group")
    lib = open(os.path.join(repo, "sway-core/src/lib.rs")).read()
    a0 = lib.find("let mut pass_group = PassGroup::default();")
    a1 = lib.find("// Run the passes.", a0)
    if a0 < 0 or a1 < 0: raise FactsError("sway-core/src/lib.rs: construction of the pass group not found")
    seg = re.sub(r"//[^\n]*", "", lib[a0:a1])
    items, depth, mdepth, mode = [], 0, [], "all"
    tok = re.compile(r"match build_config\.optimization_level\s*\{|OptLevel::Opt([01])\s*=>|pass_group\.append_pass\(\s*(\w+)\s*\)|"
                     r"pass_group\.append_group\(\s*(\w+)\(\)\s*\)|[{}]")
    for m in tok.finditer(seg):
        t = m.group(0)
        if t.startswith("match"):
            mdepth.append(depth); depth += 1
        elif t == "{": depth += 1
        elif t == "}":
            depth -= 1
            if mdepth and depth == mdepth[-1]:
                mdepth.pop(); mode = "all"
            elif mdepth and depth == mdepth[-1] + 1: mode = "all"
        elif m.group(1) is not None:
            if not mdepth: raise FactsError("lib.rs: OptLevel arm outside a match on optimization_level")
            mode = "o" + m.group(1)
        elif m.group(2) is not None:
            if m.group(2) not in names: raise FactsError("lib.rs: unknown pass constant %s" % m.group(2))
            items.append((mode, [names[m.group(2)]]))
        elif m.group(3) is not None:
            if m.group(3) != "create_o1_pass_group": raise FactsError("lib.rs: unknown pass group %s" % m.group(3))
            items.append((mode, o1))
    if "append_group" in seg and not any(x[1] is o1 for x in items): raise FactsError("lib.rs: pass group not recognised")
    full0 = [p for md, ps in items if md in ("all", "o0") for p in ps]
    full1 = [p for md, ps in items if md in ("all", "o1") for p in ps]
    if not full0 or not full1 or full0 == full1: raise FactsError("lib.rs: O0/O1 pipelines not recognised")
    o0, common = full0, []
    o1 = full1
    asm_src = None
    for root, _, files in os.walk(os.path.join(repo, "sway-core/src/asm_generation")):
        for f in files:
            t = open(os.path.join(root, f)).read()
            mm = re.search(r"const MAX_OPT_ROUNDS\s*:\s*usize\s*=\s*(\d+)\s*;", t)
            if mm: asm_src = (int(mm.group(1)), t)
    if asm_src is None: raise FactsError("asm_generation: MAX_OPT_ROUNDS not found")
    rounds, t = asm_src
    m = re.search(r"OptLevel::Opt0\s*=>\s*self((?:\s*\.\w+\([^()]*\))+)\s*,", t)
    if not m: raise FactsError("asm optimizations/mod.rs: the Opt0 chain of asm passes not recognised")
    asm_passes = re.findall(r"\.(\w+)\(", m.group(1))
    o1m = re.search(r"OptLevel::Opt1\s*=>\s*\{(.*?)\n\s*self\s*\n", t, re.S)
    if (not o1m or o1m.group(1).count("self.optimize(data_section, OptLevel::Opt0)") != 2
            or "for _ in 0..MAX_OPT_ROUNDS" not in o1m.group(1)
            or "Ordering::Equal => break" not in o1m.group(1) or "Ordering::Greater => return old" not in o1m.group(1)):
        raise FactsError("asm optimizations/mod.rs: the Opt1 round loop has a new shape")
    return o0, o1, common, rounds, asm_passes

def coq_strs(l):
    return "[" + "; ".join('"%s"' % x for x in l) + "]%string"

def generate(repo, out_path):
    lines = ops_tables(repo)
    o0, o1, common, rounds, asm_passes = pass_lists(repo)
    lines.append("(* IR pass pipeline: the group selected by the optimisation level, then the passes the driver always appends *)")
    lines.append("Definition o0_passes : list string := %s." % coq_strs(o0))
    lines.append("Definition o1_passes : list string := %s." % coq_strs(o1))
    lines.append("Definition common_passes : list string := %s." % coq_strs(common))
    lines.append("Definition asm_passes : list string := %s." % coq_strs(asm_passes))
    lines.append("Definition max_opt_rounds : nat := %d." % rounds)
    text = "\n".join(lines) + "\n"
    os.makedirs(os.path.dirname(out_path), exist_ok=True)
    if not os.path.exists(out_path) or open(out_path).read() != text:
        open(out_path, "w").write(text)
    return dict(o0=o0, o1=o1, common=common, rounds=rounds, asm_passes=asm_passes)

if __name__ == "__main__":
    import sys
    print(generate(sys.argv[1] if len(sys.argv) > 1 else "/repo", "/verif/coq/Generated/C01Facts.v"))
