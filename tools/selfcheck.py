#!/usr/bin/env python3
"""Consistency check of MANIFEST.json, evidence files and claims (run with python3-vt for jsonschema)."""
import json, os, sys, glob
ROOT = os.path.dirname(os.path.dirname(os.path.abspath(__file__)))
import jsonschema
m = json.load(open(os.path.join(ROOT, "MANIFEST.json")))
jsonschema.validate(m, json.load(open("/root/.vp/MANIFEST.schema.json")))
es = json.load(open("/root/.vp/EVIDENCE.schema.json"))
ids = [json.loads(l)["id"] for l in open(os.path.join(ROOT, "properties.jsonl"))]
claimed = {c["property_id"]: c for c in m["checks"]}
na = {c["property_id"] for c in m.get("not_applicable", [])}
bad = 0
for pid in ids:
    if pid not in claimed and pid not in na:
        print("MISSING from manifest:", pid); bad += 1
    if pid in claimed:
        ev = os.path.join(ROOT, "evidence", pid + ".json")
        if not os.path.exists(ev):
            print(pid, "no evidence file"); bad += 1; continue
        e = json.load(open(ev))
        try:
            jsonschema.validate(e, es)
        except Exception as ex:
            print(pid, "evidence invalid:", str(ex)[:200]); bad += 1
        if e["level"] != claimed[pid]["level_claimed"]["category"]:
            print(pid, "level mismatch: evidence", e["level"], "manifest", claimed[pid]["level_claimed"]["category"]); bad += 1
        if e.get("violations"):
            print(pid, "evidence records", e["violations"], "violation(s)"); bad += 1
        print("%s %-24s wall=%6.0fs evals=%s" % (pid, e["level"], e["wall_s"], e["coverage"].get("evaluations")))
print("claimed:", len(claimed), "not claimed:", len(na), "problems:", bad)
sys.exit(1 if bad else 0)
