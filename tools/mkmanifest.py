#!/usr/bin/env python3
"""Regenerate MANIFEST.json from tools/claims.json (single source of truth for claims)."""
import json, os, sys
ROOT = os.path.dirname(os.path.dirname(os.path.abspath(__file__)))
claims = json.load(open(os.path.join(ROOT, "tools", "claims.json")))
import glob
for f in sorted(glob.glob(os.path.join(ROOT, "tools", "claims.d", "C*.json"))):
    c = json.load(open(f))
    pid = os.path.basename(f)[:-5]
    if c.get("not_applicable"):
        claims["not_applicable"][pid] = c["not_applicable"]
        claims["claimed"].pop(pid, None)
    else:
        claims["claimed"][pid] = c
    for h in c.get("hook_commits", []):
        if h not in claims.setdefault("hook_commits", []):
            claims["hook_commits"].append(h)
props = [json.loads(l) for l in open(os.path.join(ROOT, "properties.jsonl"))]
ids = [p["id"] for p in props]
def hook_commits():
    import subprocess
    try:
        out = subprocess.run(["git", "-C", "/repo", "log", "--reverse", "--format=%h", "--grep", "^hook:", "123f9c2..HEAD"], capture_output=True, text=True).stdout.split()
        return out or claims.get("hook_commits", [])
    except Exception:
        return claims.get("hook_commits", [])
checks, na = [], []
for pid in ids:
    c = claims["claimed"].get(pid)
    if c:
        checks.append({
            "property_id": pid,
            "quick_cmd": "bin/check %s --tier quick" % pid,
            "thorough_cmd": "bin/check %s --tier thorough" % pid,
            "evidence_file": "/verif/evidence/%s.json" % pid,
            "replay_cmd_template": "bin/check %s --replay {path}" % pid,
            "engine": "coq-model+correspondence",
            "level_claimed": {"category": c["category"], "text": c["text"], "design_ref": "DESIGN.md §4 " + pid},
            "level_note": c["note"],
            "technique": c["technique"],
        })
    else:
        na.append({"property_id": pid, "reason": claims["not_applicable"].get(pid, "check not built yet in this tree; no claim is made")})
m = {
    "version": 1,
    "setup_cmd": "bin/setup",
    "hooks": {
        "guard": "--cfg fuellabs_sway_verif",
        "enable": "RUSTFLAGS='--cfg fuellabs_sway_verif' (set by vlib/rust.py and harness/.cargo/config.toml) when building harness/ against /repo path dependencies",
        "baseline_off_cmd": "cd /repo && cargo nextest run --workspace --no-fail-fast --test-threads 8 --offline || cargo test --workspace --no-fail-fast --offline",
        "source_commits": hook_commits(),
        "add_only": False,
    },
    "engines": [{"name": "coq-model+correspondence", "path": "/verif/bin/check",
                 "serves_properties": [c["property_id"] for c in checks],
                 "kind_free_text": "Coq 8.16.1 theorems about hand-written executable models (coq/Cxx), tied to /repo by T-gen facts regenerated from source (tools/facts.py) and by differential correspondence runs (Rust harness in harness/, model evaluated with vm_compute)"}],
    "checks": checks,
    "notes": claims.get("notes", "") + " Hooks: 7 commits in /repo, all code under #[cfg(fuellabs_sway_verif)]; they only add lines except commit 85323d9 (fs_locking.rs), which replaces two calls std::process::id() by a cfg-dependent current_pid() that returns std::process::id() when the cfg is off (hence add_only=false).",
    "not_applicable": na,
}
json.dump(m, open(os.path.join(ROOT, "MANIFEST.json"), "w"), indent=1)
print("MANIFEST.json: %d checks, %d not claimed" % (len(checks), len(na)))
