#!/bin/bash
# tools/seedconfirm_forc.sh <NAME> <patch.diff> <demo_proj> "<existing-tests cargo args>" [forc test args]
# Confirmation of a compiler change whose demonstration is a Sway project: build forc WITH the change in the
# private checkout, run the crate's existing tests, run the demo with that forc (fails) and with the prebuilt
# forc of the unchanged tree (passes).
set -u
name=$1; patch=$2; demo=$3; existing=$4; shift 4
out=/verif/seeded/$name; mkdir -p "$out"
export CARGO_TARGET_DIR=/tmp/confirm_target CARGO_NET_OFFLINE=true
cd /tmp/confirm && git checkout -q -- . && git clean -fdq -e target && git checkout -q --detach $(git -C /repo rev-parse HEAD)
rm -rf /tmp/confirm_demo && cp -r "$demo" /tmp/confirm_demo
sed -i 's|path = "[^"]*sway-lib-std"|path = "/tmp/confirm/sway-lib-std"|' /tmp/confirm_demo/Forc.toml
{
git apply "$patch" || echo "patch does not apply"
echo "### (1) existing tests WITH the change: cargo test $existing"
timeout 7200 cargo test --offline $existing 2>&1 | grep -E "^test result|FAILED|panicked|error(\[|:)" | head -20
echo "### build forc WITH the change"
timeout 7200 cargo build --offline -p forc --bin forc 2>&1 | tail -1
echo "### (2) demonstration WITH the change: forc test $*"
timeout 1800 /tmp/confirm_target/debug/forc test --path /tmp/confirm_demo "$@" 2>&1 | grep -E "test |result|error|panicked|Aborting" | head -30
git apply -R "$patch"
echo "### (3) demonstration WITHOUT the change (prebuilt forc of the unchanged tree)"
timeout 1800 /tmp/seed_forc_target/debug/forc test --path /tmp/confirm_demo "$@" 2>&1 | grep -E "test |result|error|panicked|Aborting" | head -30
} 2>&1 | tee "$out/confirm.txt"
git checkout -q -- .
