#!/bin/bash
# Re-check every property's compiled theories with the independent checker; summary to design_notes/zz_coqchk.md
cd "$(dirname "$0")/../coq"
out=../design_notes/zz_coqchk.md
{
echo "# coqchk — independent re-check of the compiled theories"
echo
echo "\`coqchk -silent -o -Q . SwayV SwayV.<ID>.Props\` per property (run by tools/coqchk_all.sh on the final tree); it re-checks the"
echo "property file and everything it depends on and prints the axioms relied upon."
echo
echo "| id | result | axioms |"
echo "|---|---|---|"
for d in C*/; do
  id=${d%/}
  [ -f "$id/Props.vo" ] || { echo "| $id | Props.vo missing | |"; continue; }
  r=$(timeout 1800 coqchk -silent -o -Q . SwayV SwayV.$id.Props 2>&1)
  rc=$?
  ax=$(echo "$r" | awk '/\* Axioms:/{f=1;next} /\* Constants\/Inductives relying on type-in-type/{f=0} f' | tr -s ' \n' ' ' | sed 's/^ //;s/ $//')
  echo "| $id | $([ $rc -eq 0 ] && echo ok || echo "rc=$rc") | ${ax:-?} |"
done
} > $out
cat $out | tail -32
