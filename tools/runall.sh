#!/bin/bash
# Run every claimed check's quick command sequentially; summary in work/runall.txt
cd "$(dirname "$0")/.."
: > work/runall.txt
for pid in $(python3 -c "import json;print(' '.join(c['property_id'] for c in json.load(open('MANIFEST.json'))['checks']))"); do
  s=$(date +%s)
  timeout 3600 bin/check $pid > work/runall_$pid.log 2>&1; rc=$?
  e=$(date +%s)
  echo "$pid rc=$rc wall=$((e-s))s viol=$(grep -c '^VIOLATION' work/runall_$pid.log) known=$(grep -c '^KNOWN-FINDING' work/runall_$pid.log)" | tee -a work/runall.txt
done
