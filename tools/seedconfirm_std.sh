#!/bin/bash
# tools/seedconfirm_std.sh <NAME> <patch.diff> <demo_proj dir> [forc args]
# Confirmation of a std-only (.sw) seeded change with the prebuilt forc of the unchanged tree.
set -u
name=$1; patch=$2; demo=$3; shift 3
out=/verif/seeded/$name; mkdir -p "$out"
FORC=/tmp/seed_forc_target/debug/forc
cd /tmp/confirm && git checkout -q -- . && git clean -fdq -e target && git checkout -q --detach $(git -C /repo rev-parse HEAD)
rm -rf /tmp/confirm_demo && cp -r "$demo" /tmp/confirm_demo
sed -i 's|path = "[^"]*sway-lib-std"|path = "/tmp/confirm/sway-lib-std"|' /tmp/confirm_demo/Forc.toml
{
git apply "$patch" || echo "patch does not apply"
echo "### (1) std builds WITH the change (forc build on sway-lib-std)"
timeout 1800 $FORC build --path /tmp/confirm/sway-lib-std 2>&1 | tail -2
echo "### (2) demonstration WITH the change: forc test $*"
timeout 1800 $FORC test --path /tmp/confirm_demo "$@" 2>&1 | grep -E "test |result|error|panicked" | head -30
git apply -R "$patch"
echo "### (3) demonstration WITHOUT the change"
timeout 1800 $FORC test --path /tmp/confirm_demo "$@" 2>&1 | grep -E "test |result|error|panicked" | head -30
} 2>&1 | tee "$out/confirm.txt"
git checkout -q -- .
