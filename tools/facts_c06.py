"""T-gen for C06: scrape from the Rust sources of /repo which function every arm of the two
compile-time evaluators calls, and which VM instruction the lowering selects, and write them as Coq
definitions to coq/Generated/C06Facts.v.  The C06 model (coq/C06/Model.v) is defined ON these
definitions, so an edit that e.g. swaps `checked_add` for `wrapping_add`, drops an arm, or selects
another instruction changes the generated file and re-checks (and breaks) the proofs.

Every parser below insists on the exact shape it knows; anything else raises FactsError (reported by
props/c06.py as a violation named C06.tgen) — never a silent default.
"""
import os, re, sys

REPO = os.environ.get("VERIF_REPO", "/repo")
ROOT = os.path.dirname(os.path.dirname(os.path.abspath(__file__)))
OUT = os.path.join(ROOT, "coq", "Generated", "C06Facts.v")

CONSTANTS_RS = "sway-ir/src/optimize/constants.rs"
CONST_EVAL_RS = "sway-core/src/ir_generation/const_eval.rs"
U256_RS = "sway-types/src/u256.rs"
ASM_BUILDER_RS = "sway-core/src/asm_generation/fuel/fuel_asm_builder.rs"


class FactsError(Exception):
    pass


def need(cond, what):
    if not cond:
        raise FactsError(what)


def read(rel):
    p = os.path.join(REPO, rel)
    need(os.path.exists(p), "source file missing: " + rel)
    return open(p, encoding="utf-8").read()


def fn_body(src, header_re, rel):
    """Text of the function whose header matches header_re (brace matching from its first '{')."""
    m = re.search(header_re, src)
    need(m, "%s: function header /%s/ not found" % (rel, header_re))
    i = src.index("{", m.end() - 1) if src[m.end() - 1] != "{" else m.end() - 1
    depth, j = 0, i
    while j < len(src):
        c = src[j]
        if c == "{": depth += 1
        elif c == "}":
            depth -= 1
            if depth == 0:
                return src[i:j + 1]
        j += 1
    raise FactsError("%s: unbalanced braces after /%s/" % (rel, header_re))


def squash(s):
    s = re.sub(r"//[^\n]*", "", s)
    return re.sub(r"\s+", "", s)


BINOPS = ["Add", "Sub", "Mul", "Div", "Mod", "And", "Or", "Xor", "Lsh", "Rsh"]
TAGS = {"Uint": "TUint", "U256": "TU256", "B256": "TB256", "Bool": "TBool"}
FNS = {"checked_add", "checked_sub", "checked_mul", "checked_div", "checked_rem", "wrapping_add",
       "wrapping_sub", "wrapping_mul", "div", "rem", "bitand", "bitor", "bitxor", "checked_shl", "shr"}
SYM = {"&": "bitand", "|": "bitor", "^": "bitxor"}


def fn_name(name, where):
    need(name in FNS, "%s: function `%s` has no semantics in C06/Model.v (known: %s)" % (where, name, sorted(FNS)))
    return "F_" + name


# ------------------------------------------------------------------ constants.rs
def fold_binop_arm(rhs, ltag, where):
    """rhs is whitespace-free."""
    m = re.fullmatch(r"l\.(\w+)\(\*?r\)\.map\((\w+)\)", rhs)
    if m:
        need(m.group(2) == ltag, "%s: result constructor %s differs from lhs %s" % (where, m.group(2), ltag))
        return fn_name(m.group(1), where)
    m = re.fullmatch(r"Some\((\w+)\(l\.(\w+)\(\*?r\)\)\)", rhs)
    if m:
        need(m.group(1) == ltag, "%s: result constructor %s differs from lhs %s" % (where, m.group(1), ltag))
        return fn_name(m.group(2), where)
    m = re.fullmatch(r"Some\((\w+)\(l([&|^])r\)\)", rhs)
    if m:
        need(m.group(1) == ltag, "%s: result constructor %s differs from lhs %s" % (where, m.group(1), ltag))
        return fn_name(SYM[m.group(2)], where)
    m = re.fullmatch(r"u32::try_from\(\*r\)\.ok\(\)\.and_then\(\|r\|l\.(checked_sh[lr])\(r\)\.map\((\w+)\)\)", rhs)
    if m:
        need(m.group(2) == ltag, "%s: result constructor %s differs from lhs %s" % (where, m.group(2), ltag))
        return "F_u32_" + m.group(1)
    raise FactsError("%s: unrecognised arm body `%s`" % (where, rhs))


def parse_constants(src):
    rel = CONSTANTS_RS
    facts = {}
    # combine_binary_op
    body = squash(fn_body(src, r"fn combine_binary_op\([^)]*\)\s*->\s*bool\s*\{", rel))
    m = re.search(r"letv=match\(op,&val1\.value,&val2\.value\)\{(.*?)_=>None,\};", body)
    need(m, rel + ": combine_binary_op: `let v = match (op, &val1.value, &val2.value) {... _ => None, };` not found")
    arms_txt = m.group(1)
    heads = list(re.finditer(r"\((\w+),(\w+)\(l\),(\w+)\(r\)\)=>", arms_txt))
    need(heads, rel + ": combine_binary_op: no arms")
    need(heads[0].start() == 0, rel + ": combine_binary_op: text before first arm: " + arms_txt[:40])
    arms = {}
    for k, h in enumerate(heads):
        end = heads[k + 1].start() if k + 1 < len(heads) else len(arms_txt)
        rhs = arms_txt[h.end():end]
        need(rhs.endswith(","), rel + ": combine_binary_op: arm does not end with ',': " + rhs[-30:])
        op, lt, rt = h.group(1), h.group(2), h.group(3)
        where = "%s: combine_binary_op (%s, %s, %s)" % (rel, op, lt, rt)
        need(op in BINOPS, where + ": unknown operator")
        need(lt in TAGS and rt in TAGS, where + ": unknown operand kind")
        need((op, lt, rt) not in arms, where + ": duplicate arm")
        arms[(op, lt, rt)] = fold_binop_arm(rhs[:-1], lt, where)
    facts["fold_binop"] = arms

    # combine_cmp
    body = squash(fn_body(src, r"fn combine_cmp\([^)]*\)\s*->\s*bool\s*\{", rel))
    need("Predicate::Equal=>Some((inst_val,block,val1==val2))," in body,
         rel + ": combine_cmp: Equal arm is not `Some((inst_val, block, val1 == val2))`")
    need("letval1=val1.get_constant(context).unwrap();letval2=val2.get_constant(context).unwrap();" in body,
         rel + ": combine_cmp: val1/val2 are no longer the unique Constant handles")
    cmp_arms = {}
    for pname, p in (("GreaterThan", "PGt"), ("LessThan", "PLt")):
        m = re.search(r"Predicate::%s=>\{letr=match\(&val1\.get_content\(context\)\.value,&val2\.get_content\(context\)\.value,\)\{(.*?)_=>\{unreachable!" % pname, body)
        need(m, rel + ": combine_cmp: %s block not found" % pname)
        txt = m.group(1)
        found = re.findall(r"\((\w+)\(val1\),(\w+)\(val2\)\)=>val1([<>])val2,", txt)
        need("".join("(%s(val1),%s(val2))=>val1%sval2," % f for f in found) == txt,
             rel + ": combine_cmp: %s block has an arm of unknown shape: %s" % (pname, txt))
        for a, b, sym in found:
            need(a == b and a in TAGS, rel + ": combine_cmp: %s: mixed/unknown kinds %s %s" % (pname, a, b))
            cmp_arms[(p, a)] = "PGt" if sym == ">" else "PLt"
    facts["fold_cmp"] = cmp_arms

    # combine_unary_op
    body = squash(fn_body(src, r"fn combine_unary_op\([^)]*\)\s*->\s*bool\s*\{", rel))
    m = re.search(r"\(Not,Uint\(v\)\)=>val\.get_content\(context\)\.ty\.get_uint_width\(context\)\.and_then\(\|width\|\{letmax=matchwidth\{(.*?)_=>returnNone,\};Some\(Uint\(\(!v\)&max\)\)\}\),", body)
    need(m, rel + ": combine_unary_op: (Not, Uint(v)) arm is not `width -> max table; Some(Uint((!v) & max))`")
    masks = {}
    txt = m.group(1)
    found = re.findall(r"(\d+)=>(u8|u16|u32|u64)::MAX(asu64)?,", txt)
    need("".join("%s=>%s::MAX%s," % f for f in found) == txt, rel + ": combine_unary_op: unknown line in max table: " + txt)
    for w, t, _ in found:
        masks[int(w)] = (1 << int(t[1:])) - 1
    facts["fold_not_mask"] = masks
    wide = re.findall(r"\(Not,(U256|B256)\((\w)\)\)=>Some\((U256|B256)\(!(\w)\)\),", body)
    for a, v1, b, v2 in wide:
        need(a == b and v1 == v2, rel + ": combine_unary_op: wide Not arm mixes kinds")
    facts["fold_not_wide"] = sorted(a for a, _, _, _ in wide)
    rest = re.search(r"letv=match\(op,&val\.get_content\(context\)\.value\)\{(.*?)_=>None,\};", body)
    need(rest, rel + ": combine_unary_op: match not found")
    n_arms = len(re.findall(r"\(Not,", rest.group(1)))
    need(n_arms == 1 + len(wide), rel + ": combine_unary_op: %d Not arms, recognised %d" % (n_arms, 1 + len(wide)))

    # remove_useless_binary_op
    body = squash(fn_body(src, r"fn remove_useless_binary_op\([^)]*\)\s*->\s*bool\s*\{", rel))
    m = re.search(r"match\(op,val1,val2\)\{(.*?)_=>None,\}", body)
    need(m, rel + ": remove_useless_binary_op: match not found")
    txt = m.group(1)
    found = re.findall(r"\((\w+),(Some\(Uint\((\d+)\)\)|_),(Some\(Uint\((\d+)\)\)|_)\)=>Some\(\(block,candidate,\*(arg1|arg2)\)\),", txt)
    rebuilt = "".join("(%s,%s,%s)=>Some((block,candidate,*%s))," % (f[0], f[1], f[3], f[5]) for f in found)
    need(rebuilt == txt, rel + ": remove_useless_binary_op: arm of unknown shape in: " + txt)
    useless = []
    for op, l, lc, r, rc, keep in found:
        need(op in BINOPS, rel + ": remove_useless_binary_op: unknown op " + op)
        need((l == "_") != (r == "_"), rel + ": remove_useless_binary_op: exactly one side must be a constant pattern")
        if l != "_":
            need(keep == "arg2", rel + ": remove_useless_binary_op: (%s, const, _) must keep arg2" % op)
            useless.append((op, "OnLeft", int(lc)))
        else:
            need(keep == "arg1", rel + ": remove_useless_binary_op: (%s, _, const) must keep arg1" % op)
            useless.append((op, "OnRight", int(rc)))
    facts["useless"] = useless
    return facts


# ------------------------------------------------------------------ const_eval.rs
def ce_arm(rhs, where):
    m = re.fullmatch(r"arg1\.(\w+)\(\*?arg2\)", rhs)
    if m:
        need(m.group(1).startswith("checked_"), where + ": bare `%s` result is not an Option" % m.group(1))
        return fn_name(m.group(1), where)
    m = re.fullmatch(r"Some\(arg1\.(\w+)\(\*?arg2\)\)", rhs)
    if m:
        need(not m.group(1).startswith("checked_"), where + ": Some(checked_..) would nest Options")
        return fn_name(m.group(1), where)
    m = re.fullmatch(r"u32::try_from\(\*arg2\)\.ok\(\)\.and_then\(\|arg2\|arg1\.(checked_sh[lr])\(arg2\)\)", rhs)
    if m:
        return "F_u32_" + m.group(1)
    raise FactsError("%s: unrecognised arm body `%s`" % (where, rhs))


def parse_const_eval(src):
    rel = CONST_EVAL_RS
    body = squash(fn_body(src, r"fn const_eval_intrinsic\(", rel))
    facts = {}
    arms = {}
    pat = re.compile(r"\((Uint|U256|B256)\(arg1\),(Uint|U256|B256)\((?:ref)?arg2\)\)=>\{letresult=matchintrinsic\.kind\{(.*?)_=>unreachable!\(\),\};"
                     r"matchresult\{Some\((\w+)\)=>Ok\(Some\(ConstantContent\{ty,value:ConstantValue::(\w+)\(\4\),\}\)\),"
                     r"None=>Err\(ConstEvalError::CannotBeEvaluatedToConst\{span:intrinsic\.span\.clone\(\),\}\),\}\}")
    blocks = list(pat.finditer(body))
    need(len(blocks) >= 8, rel + ": const_eval_intrinsic: expected at least 8 operand-kind blocks of the known shape, found %d" % len(blocks))
    n_heads = len(re.findall(r"\((?:Uint|U256|B256)\(arg1\),(?:Uint|U256|B256)\((?:ref)?arg2\)\)=>\{", body))
    need(n_heads == len(blocks), rel + ": const_eval_intrinsic: %d operand-kind blocks, only %d have the known shape" % (n_heads, len(blocks)))
    for b in blocks:
        lt, rt, txt, _, ctor = b.groups()
        need(ctor == lt, rel + ": const_eval_intrinsic: block (%s,%s) builds a %s constant" % (lt, rt, ctor))
        heads = list(re.finditer(r"Intrinsic::(\w+)=>", txt))
        need(heads and heads[0].start() == 0, rel + ": const_eval_intrinsic: block (%s,%s): junk before first arm" % (lt, rt))
        for k, h in enumerate(heads):
            end = heads[k + 1].start() if k + 1 < len(heads) else len(txt)
            rhs = txt[h.end():end]
            need(rhs.endswith(","), rel + ": const_eval_intrinsic: arm without trailing comma")
            op = h.group(1)
            where = "%s: const_eval_intrinsic (%s, %s, %s)" % (rel, op, lt, rt)
            need(op in BINOPS, where + ": unknown operator")
            need((op, lt, rt) not in arms, where + ": duplicate arm")
            arms[(op, lt, rt)] = ce_arm(rhs[:-1], where)
    facts["ce_binop"] = arms
    # what happens for operand kinds without a block
    need(body.count('_=>{panic!("Typecheckerallowedincorrectargstobinaryop");}') == 3,
         rel + ": const_eval_intrinsic: the three binary-op groups no longer end in panic!(\"Type checker allowed incorrect args to binary op\")")

    # Eq
    need("Intrinsic::Eq=>{assert!(args.len()==2);letc=ConstantContent{ty:Type::get_bool(lookup.context),value:ConstantValue::Bool(args[0]==args[1]),};Ok(Some(Constant::unique(lookup.context,c)))}" in body,
         rel + ": const_eval_intrinsic: Eq arm is not `Bool(args[0] == args[1])`")
    # Gt / Lt
    cmp_arms = {}
    for iname, p, nxt in (("Gt", "PGt", "Intrinsic::Lt=>match"), ("Lt", "PLt", "Intrinsic::AddrOf")):
        m = re.search(r"Intrinsic::%s=>match\(&args\[0\]\.get_content\(lookup\.context\)\.value,&args\[1\]\.get_content\(lookup\.context\)\.value,\)\{(.*?)_=>\{unreachable!\(\"[^\"]*\"\)\}\},%s" % (iname, re.escape(nxt)), body)
        need(m, rel + ": const_eval_intrinsic: %s block not found" % iname)
        txt = m.group(1)
        one = r"\(ConstantValue::(\w+)\(val1\),ConstantValue::(\w+)\(val2\)\)=>\{letc=ConstantContent\{ty:Type::get_bool\(lookup\.context\),value:ConstantValue::Bool\(val1([<>])val2\),\};Ok\(Some\(Constant::unique\(lookup\.context,c\)\)\)\}"
        found = re.findall(one, txt)
        need(re.fullmatch("(?:%s)+" % one, txt), rel + ": const_eval_intrinsic: %s block has an arm of unknown shape" % iname)
        for a, b, sym in found:
            need(a == b and a in TAGS, rel + ": const_eval_intrinsic: %s: mixed/unknown kinds" % iname)
            cmp_arms[(p, a)] = "PGt" if sym == ">" else "PLt"
    facts["ce_cmp"] = cmp_arms
    # Not
    m = re.search(r"ConstantValue::Uint\(n\)=>\{letn=matcharg\.get_content\(lookup\.context\)\.ty\.get_uint_width\(lookup\.context\)\{(.*?)_=>unreachable!\(\"Invalidunsignedintegerwidth\"\),\};", body)
    need(m, rel + ": const_eval_intrinsic: Not/Uint width table not found")
    txt = m.group(1)
    casts = {}
    found = re.findall(r"Some\((\d+)\)=>(?:!\(\*nas(u8|u16|u32)\)asu64|(!n)),", txt)
    rebuilt = "".join("Some(%s)=>%s," % (w, "!(*nas%s)asu64" % t if t else "!n") for w, t, _ in found)
    need(rebuilt == txt, rel + ": const_eval_intrinsic: Not/Uint width table has a line of unknown shape: " + txt)
    for w, t, plain in found:
        casts[int(w)] = int(t[1:]) if t else 64
    facts["ce_not_cast"] = casts
    wide = []
    for t in ("U256", "B256"):
        if ("ConstantValue::%s(%s)=>Ok(Some(ConstantContent{ty:arg.get_content(lookup.context).ty,value:ConstantValue::%s(%s.not()),}))," % (t, "n" if t == "U256" else "v", t, "n" if t == "U256" else "v")) in body:
            wide.append(t)
    facts["ce_not_wide"] = wide
    return facts


# ------------------------------------------------------------------ u256.rs
def parse_u256(src):
    rel = U256_RS
    s = squash(src)
    f = {}
    for name in ("checked_add", "checked_mul"):
        sym = "+" if name == "checked_add" else "*"
        m = re.search(r"pubfn%s\(&self,other:&U256\)->Option<U256>\{letr=&self\.0\%s&other\.0;\(r\.bits\(\)<=(\d+)\)\.then_some\(Self\(r\)\)\}" % (name, sym), s)
        need(m, rel + ": %s is not `r = a %s b; (r.bits() <= N).then_some(r)`" % (name, sym))
        f[name + "_bits"] = int(m.group(1))
    need("pubfnchecked_sub(&self,other:&U256)->Option<U256>{(self.0>=other.0).then(||Self(&self.0-&other.0))}" in s,
         rel + ": checked_sub is not `(a >= b).then(|| a - b)`")
    need("pubfnchecked_div(&self,other:&U256)->Option<U256>{other.0.is_zero().not().then(||Self(&self.0/&other.0))}" in s,
         rel + ": checked_div is not `b.is_zero().not().then(|| a / b)`")
    need("pubfnchecked_rem(&self,other:&U256)->Option<U256>{ifother.0==BigUint::ZERO{None}else{Some(U256(&self.0%&other.0))}}" in s,
         rel + ": checked_rem is not `if b == 0 { None } else { Some(a % b) }`")
    need("pubfnshr(&self,other:&u64)->U256{U256((&self.0).shr(other))}" in s, rel + ": shr is not BigUint >> u64")
    need("fnrem(self,rhs:Self)->Self::Output{U256((&self.0).rem(&rhs.0))}" in s, rel + ": Rem::rem is not BigUint % BigUint")
    need("fnnot(self)->Self::Output{letmutbytes=self.to_be_bytes();bytes.iter_mut().for_each(|b|*b=!*b);U256(BigUint::from_bytes_be(&bytes))}" in s,
         rel + ": Not::not is not the 32-byte complement")
    m = re.search(r"pubfnchecked_shl\(&self,other:&u64\)->Option<U256>\{(.*?)letr=\(&self\.0\)\.shl\(other\);\(r\.bits\(\)<=(\d+)\)\.then_some\(Self\(r\)\)\}", s)
    need(m, rel + ": checked_shl is not `[guard] r = a << n; (r.bits() <= N).then_some(r)`")
    f["checked_shl_bits"] = int(m.group(2))
    g = m.group(1)
    if g == "":
        f["checked_shl_guard"] = None
    else:
        mg = re.fullmatch(r"if\*other>=(\d+)\{returnself\.0\.is_zero\(\)\.then\(\|\|self\.clone\(\)\);\}", g)
        need(mg, rel + ": checked_shl: unknown guard `%s`" % g)
        f["checked_shl_guard"] = int(mg.group(1))
    return f


# ------------------------------------------------------------------ fuel_asm_builder.rs
def parse_asm_builder(src):
    rel = ASM_BUILDER_RS
    f = {}
    body = squash(fn_body(src, r"fn compile_binary_op\(", rel))
    found = re.findall(r"BinaryOpKind::(\w+)=>Either::Left\(VirtualOp::(\w+)\(res_reg\.clone\(\),val1_reg,val2_reg\)\),", body)
    f["run64"] = {}
    for op, ins in found:
        need(op in BINOPS, rel + ": compile_binary_op: unknown op " + op)
        need(ins in ("ADD", "SUB", "MUL", "DIV", "MOD", "AND", "OR", "XOR", "SLL", "SRL"), rel + ": compile_binary_op: instruction %s not in the modelled ALU fragment" % ins)
        f["run64"][op] = "I_" + ins
    need(sorted(f["run64"]) == sorted(BINOPS), rel + ": compile_binary_op: arms %s, expected one per BinaryOpKind" % sorted(f["run64"]))
    body = squash(fn_body(src, r"fn compile_cmp\(", rel))
    f["cmp64"] = {}
    for pname, p in (("Equal", "PEq"), ("LessThan", "PLt"), ("GreaterThan", "PGt")):
        m = re.search(r"Predicate::%s=>\{self\.cur_bytecode\.push\(Op\{opcode:Either::Left\(VirtualOp::(\w+)\(res_reg\.clone\(\),lhs_reg,rhs_reg\)\)," % pname, body)
        need(m and m.group(1) in ("EQ", "LT", "GT"), rel + ": compile_cmp: %s arm not recognised" % pname)
        f["cmp64"][p] = "I_" + m.group(1)
    body = squash(fn_body(src, r"fn compile_unary_op\(", rel))
    need("UnaryOpKind::Not=>Either::Left(VirtualOp::NOT(res_reg.clone(),val_reg))," in body, rel + ": compile_unary_op: Not is not lowered to a single NOT")
    body = squash(fn_body(src, r"fn compile_wide_unary_op\(", rel))
    need("UnaryOpKind::Not=>VirtualOp::WQOP(result_reg,val1_reg,VirtualRegister::Constant(ConstantRegister::Zero),VirtualImmediate06::wide_op(crate::asm_lang::WideOperations::Not,false),)," in body,
         rel + ": compile_wide_unary_op: Not is not WQOP(.., $zero, wide_op(Not, false))")
    body = squash(fn_body(src, r"fn compile_wide_binary_op\(", rel))
    wide = {}
    for op, ins, ctor, args in re.findall(r"BinaryOpKind::(\w+)=>VirtualOp::(\w+)\(result_reg,val1_reg,val2_reg,VirtualImmediate06::(\w+)\(([^)]*)\),\),", body):
        need(op in BINOPS, rel + ": compile_wide_binary_op: unknown op " + op)
        a = args.split(",")
        if ins == "WQOP" and ctor == "wide_op":
            need(len(a) == 2 and a[0].startswith("WideOperations::") and a[1] in ("true", "false"), rel + ": compile_wide_binary_op: bad wide_op args " + args)
            w = a[0].split("::")[1]
            need(w in ("Add", "Sub", "Not", "Or", "Xor", "And", "Lsh", "Rsh"), rel + ": unknown WideOperations::" + w)
            wide[op] = "WI_op W%s %s" % (w, a[1])
        elif ins == "WQML" and ctor == "wide_mul":
            need(len(a) == 2 and all(x in ("true", "false") for x in a), rel + ": bad wide_mul args " + args)
            wide[op] = "WI_mul %s %s" % (a[0], a[1])
        elif ins == "WQDV" and ctor == "wide_div":
            need(len(a) == 1 and a[0] in ("true", "false"), rel + ": bad wide_div args " + args)
            wide[op] = "WI_div %s" % a[0]
        else:
            raise FactsError(rel + ": compile_wide_binary_op: %s => %s/%s not modelled" % (op, ins, ctor))
    body2 = squash(fn_body(src, r"fn compile_wide_modular_op\(", rel))
    need("BinaryOpKind::Mod=>VirtualOp::WQAM(result_reg,val1_reg,val2_reg,val3_reg)," in body2, rel + ": compile_wide_modular_op: Mod is not WQAM(result, a, b, c)")
    need("Mod" not in wide, rel + ": Mod lowered twice")
    wide["Mod"] = "WI_addmod"
    need(sorted(wide) == sorted(BINOPS), rel + ": wide lowering covers %s, expected every BinaryOpKind" % sorted(wide))
    f["wide"] = wide
    body = squash(fn_body(src, r"fn compile_wide_cmp_op\(", rel))
    f["wide_cmp"] = {}
    for pname, p in (("Equal", "PEq"), ("LessThan", "PLt"), ("GreaterThan", "PGt")):
        m = re.search(r"Predicate::%s=>VirtualOp::WQCM\(res_reg\.clone\(\),val1_reg,val2_reg,VirtualImmediate06::wide_cmp\(WideCmp::(\w+),true\),\)," % pname, body)
        need(m and m.group(1) in ("Equality", "LessThan", "GreaterThan"), rel + ": compile_wide_cmp_op: %s arm not recognised" % pname)
        f["wide_cmp"][p] = "W" + m.group(1)
    return f


# ------------------------------------------------------------------ Coq output
def coq_match3(name, arms, ret):
    lines = ["Definition %s (op : binop) (lt rt : tag) : option %s :=" % (name, ret), "  match op, lt, rt with"]
    for (op, lt, rt), v in sorted(arms.items(), key=lambda kv: (BINOPS.index(kv[0][0]), kv[0][1], kv[0][2])):
        lines.append("  | %s, %s, %s => Some %s" % (op, TAGS[lt], TAGS[rt], v))
    lines.append("  | _, _, _ => None")
    lines.append("  end.")
    return "\n".join(lines)


def coq_cmp(name, arms):
    lines = ["Definition %s (p : pred) (t : tag) : option pred :=" % name, "  match p, t with"]
    for (p, t), v in sorted(arms.items()):
        lines.append("  | %s, %s => Some %s" % (p, TAGS[t], v))
    lines.append("  | _, _ => None")
    lines.append("  end.")
    return "\n".join(lines)


def coq_nmap(name, d, comment):
    items = "; ".join("(%d, %d)" % (k, v) for k, v in sorted(d.items()))
    return "(* %s *)\nDefinition %s : list (N * N) := [%s]." % (comment, name, items)


def render(fc, fe, fu, fa):
    o = []
    o.append("(* GENERATED by tools/facts_c06.py from %s, %s, %s, %s.\n   Do not edit: regenerated on every run of the C06 check. *)" % (CONSTANTS_RS, CONST_EVAL_RS, U256_RS, ASM_BUILDER_RS))
    o.append("From SwayV Require Import C06.Types.\nLocal Open Scope N_scope.\n")
    o.append("(* constants.rs :: combine_binary_op — function called per (operator, lhs kind, rhs kind); no arm = not folded *)")
    o.append(coq_match3("fold_binop_fn", fc["fold_binop"], "fn"))
    o.append("\n(* constants.rs :: combine_cmp — comparison performed per (predicate, kind); Equal compares the unique\n   Constant handles for every kind; a missing Gt/Lt kind hits unreachable!() *)")
    o.append(coq_cmp("fold_cmp_fn", fc["fold_cmp"]))
    o.append("Definition fold_eq_any_kind : bool := true.")
    o.append("\n" + coq_nmap("fold_not_mask", fc["fold_not_mask"], "constants.rs :: combine_unary_op — (Not, Uint): width -> mask applied to the 64-bit complement"))
    o.append(wide_bool_fn("fold_not_wide", fc["fold_not_wide"]))
    o.append("\n(* constants.rs :: remove_useless_binary_op — (operator, side of the constant, constant); all on Uint constants *)")
    o.append("Definition useless_table : list (binop * side * N) :=\n  [%s]." % "; ".join("(%s, %s, %d)" % u for u in fc["useless"]))
    o.append("\n(* const_eval.rs :: const_eval_intrinsic — function called per (operator, lhs kind, rhs kind);\n   no block for the operand kinds = panic!(\"Type checker allowed incorrect args to binary op\") *)")
    o.append(coq_match3("ce_binop_fn", fe["ce_binop"], "fn"))
    o.append("\n(* const_eval.rs — Gt/Lt arms present (missing kind = unreachable!()); Eq compares the unique handles *)")
    o.append(coq_cmp("ce_cmp_fn", fe["ce_cmp"]))
    o.append("Definition ce_eq_any_kind : bool := true.")
    o.append("\n" + coq_nmap("ce_not_cast", fe["ce_not_cast"], "const_eval.rs — Not on Uint: width -> width of the cast the complement is taken in (`!(n as uW) as u64`)"))
    o.append(wide_bool_fn("ce_not_wide", fe["ce_not_wide"]))
    o.append("\n(* sway-types/src/u256.rs — bounds used by the checked operations *)")
    o.append("Definition u256_checked_add_bits : N := %d." % fu["checked_add_bits"])
    o.append("Definition u256_checked_mul_bits : N := %d." % fu["checked_mul_bits"])
    o.append("Definition u256_checked_shl_bits : N := %d." % fu["checked_shl_bits"])
    o.append("(* early exit `if *other >= G { return self.is_zero().then(..) }` of checked_shl; None = absent *)")
    o.append("Definition u256_checked_shl_guard : option N := %s." % ("None" if fu["checked_shl_guard"] is None else "Some %d" % fu["checked_shl_guard"]))
    o.append("\n(* fuel_asm_builder.rs — instruction selection *)")
    o.append("Definition run_instr64 (op : binop) : instr64 :=\n  match op with\n%s\n  end." % "\n".join("  | %s => %s" % (op, fa["run64"][op]) for op in BINOPS))
    o.append("Definition run_cmp64 (p : pred) : instr64 :=\n  match p with PEq => %s | PLt => %s | PGt => %s end." % (fa["cmp64"]["PEq"], fa["cmp64"]["PLt"], fa["cmp64"]["PGt"]))
    o.append("Definition run_wide (op : binop) : wide_instr :=\n  match op with\n%s\n  end." % "\n".join("  | %s => %s" % (op, fa["wide"][op]) for op in BINOPS))
    o.append("Definition run_wide_cmp (p : pred) : wide_cmp_mode :=\n  match p with PEq => %s | PLt => %s | PGt => %s end." % (fa["wide_cmp"]["PEq"], fa["wide_cmp"]["PLt"], fa["wide_cmp"]["PGt"]))
    return "\n".join(o) + "\n"


def wide_bool_fn(name, tags):
    if not tags:
        return "Definition %s (t : tag) : bool := false." % name
    return "Definition %s (t : tag) : bool :=\n  match t with %s | _ => false end." % (name, " | ".join("%s => true" % TAGS[t] for t in tags))


def generate(write=True):
    fc = parse_constants(read(CONSTANTS_RS))
    fe = parse_const_eval(read(CONST_EVAL_RS))
    fu = parse_u256(read(U256_RS))
    fa = parse_asm_builder(read(ASM_BUILDER_RS))
    text = render(fc, fe, fu, fa)
    if write:
        os.makedirs(os.path.dirname(OUT), exist_ok=True)
        if not (os.path.exists(OUT) and open(OUT, encoding="utf-8").read() == text):
            open(OUT, "w", encoding="utf-8").write(text)
    return {"constants": fc, "const_eval": fe, "u256": fu, "asm_builder": fa, "text": text}


if __name__ == "__main__":
    try:
        r = generate()
    except FactsError as e:
        print("C06.tgen FAILED:", e)
        sys.exit(1)
    print(r["text"])
