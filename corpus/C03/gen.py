#!/usr/bin/env python3
"""Deterministic generator of small Sway scripts for the fn-dedup validation (C03): every script has
function pairs with identical bodies (the pass should merge them) and pairs that differ in exactly one
operator / constant / operand / index / field (merging them is the defect named in the property).
Usage: gen.py <outdir> [n]   then   harness/target/debug/irgen corpus/C03/ir corpus/C03/src/*.sw"""
import random, sys, os

def expr(r, d, vs):
    if d <= 0 or r.random() < 0.25:
        return r.choice(vs + [str(r.choice([0, 1, 2, 3, 7, 10, 255, 1000]))])
    k = r.random()
    if k < 0.55:
        op = r.choice(["+", "*", "-", "/", "%", "&", "|", "^"])
        a, b = expr(r, d - 1, vs), expr(r, d - 1, vs)
        if op in "/%": b = "(%s | 1)" % b
        if op == "-": return "(if %s > %s { %s - %s } else { %s })" % (a, b, a, b, b)
        return "(%s %s %s)" % (a, op, b)
    if k < 0.8:
        c = "%s %s %s" % (expr(r, d - 1, vs), r.choice(["<", ">", "==", "!=", "<=", ">="]), expr(r, d - 1, vs))
        return "(if %s { %s } else { %s })" % (c, expr(r, d - 1, vs), expr(r, d - 1, vs))
    if k < 0.9:
        return "(%s, %s).%d" % (expr(r, d - 1, vs), expr(r, d - 1, vs), r.randrange(2))
    return "[%s, %s, %s][%d]" % (expr(r, d - 1, vs), expr(r, d - 1, vs), expr(r, d - 1, vs), r.randrange(3))

def body(r):
    vs = ["x", "y"]
    lines = []
    for i in range(r.randint(1, 3)):
        lines.append("    let v%d = %s;" % (i, expr(r, 2, vs))); vs.append("v%d" % i)
    if r.random() < 0.6:
        lines.append("    let mut acc = %s;" % expr(r, 1, vs))
        lines.append("    let mut i = 0;")
        lines.append("    while i < %d {" % r.choice([2, 3, 5]))
        lines.append("        acc = (acc %s %s) %% 1000003;" % (r.choice(["+", "*", "^"]), expr(r, 1, vs + ["i"])))
        lines.append("        i += 1;")
        lines.append("    }")
        vs.append("acc")
    if r.random() < 0.4:
        lines.append("    let s = P { a: %s, b: %s };" % (expr(r, 1, vs), expr(r, 1, vs)))
        vs += ["s.a", "s.b"]
    lines.append("    %s" % expr(r, 2, vs))
    return lines

MUTS = [("+", "*"), ("*", "+"), ("<", "<="), (">", ">="), ("==", "!="), ("&", "|"), ("^", "&"), ("/", "%")]

def mutate(r, lines):
    """change exactly one token; returns None if nothing applicable"""
    for _ in range(50):
        i = r.randrange(len(lines)); l = lines[i]
        k = r.random()
        toks = l.split(" ")
        if k < 0.4:
            idx = [j for j, t in enumerate(toks) if t.strip("();,[]{}").isdigit()]
            if not idx: continue
            j = r.choice(idx); core = toks[j].strip("();,[]{}")
            if "][" in toks[j] or toks[j].startswith("."): continue
            toks[j] = toks[j].replace(core, str(int(core) + 1), 1)
        elif k < 0.8:
            idx = [j for j, t in enumerate(toks) if any(t == a for a, _ in MUTS)]
            if not idx: continue
            j = r.choice(idx); toks[j] = dict(MUTS)[toks[j]]
        else:
            idx = [j for j, t in enumerate(toks) if t.strip("();,[]{}") in ("x", "y")]
            if not idx: continue
            j = r.choice(idx); core = toks[j].strip("();,[]{}")
            toks[j] = toks[j].replace(core, "y" if core == "x" else "x", 1)
        nl = " ".join(toks)
        if nl != l:
            return lines[:i] + [nl] + lines[i + 1:]
    return None

def program(r):
    out = ["script;", "", "struct P { a: u64, b: u64 }", ""]
    calls = []
    for p in range(3):
        b = body(r)
        variants = [("f%d_a" % p, b), ("f%d_b" % p, b)]
        m = mutate(r, b)
        if m is not None: variants.append(("f%d_m" % p, m))
        m2 = mutate(r, b)
        if m2 is not None and m2 != m: variants.append(("f%d_n" % p, m2))
        for name, lines in variants:
            out.append("fn %s(x: u64, y: u64) -> u64 {" % name); out += lines; out.append("}"); out.append("")
            calls.append("%s(%d, %d)" % (name, r.randrange(50), r.randrange(50)))
    out.append("fn main() -> u64 {")
    out.append("    let mut t = 0;")
    for c in calls: out.append("    t = (t ^ %s) %% 1000000007;" % c)
    out.append("    t"); out.append("}")
    return "\n".join(out) + "\n"

if __name__ == "__main__":
    outdir = sys.argv[1]; n = int(sys.argv[2]) if len(sys.argv) > 2 else 30
    os.makedirs(outdir, exist_ok=True)
    r = random.Random(20260922)
    for i in range(n):
        open(os.path.join(outdir, "d%02d.sw" % i), "w").write(program(r))
