"""C08 — register allocation never clobbers a live value.
Theorems: coq/C08/Props.v (renaming simulation for every instruction semantics, soundness of the
checker, dropped-move lemma, spill slots).  Per compiled function: translation validation of the
REAL allocator's output with the proved checker, evaluated in Coq (C08/Judge.v) on the dumps of
the sway-core hooks; the model of spill() is compared exactly with every alloc_spill record."""
import os, glob, json, time
from vlib import coq, rust, sway
from vlib.core import NCPU
from props import c08_asm as A

ILT = "/repo/test/src/in_language_tests/test_programs"
E2E = "/repo/test/src/e2e_vm_tests/test_programs/should_pass/language"
QUICK_STD = ["ops", "raw_slice", "flags", "assert", "result", "option"]
QUICK_E2E = 4
ALLOC_CODES = {0: "ok", 2: "live-registers-share", 3: "allocated-not-renamed-input", 4: "entry-not-clean",
               5: "dropped-move-cleared-live-flag", 6: "table-wf", 7: "liveness-fuel"}
SPILL_CODES = {0: "ok", 1: "spill-model-differs", 8: "long-offset-unmodelled", 9: "model-panic"}
SLOT_CODES = {20: "slot-shared-by-live-registers", 21: "slots-unreadable", 22: "slots-disjoint-on-live-registers", 7: "no-fuel"}


def _src(d):
    try: return open(os.path.join(d, "src/lib.sw")).read()
    except OSError:
        try: return open(os.path.join(d, "src/main.sw")).read()
        except OSError: return None

HEADER = "From SwayV Require Import Base.Util Asm.Model C08.Spec C08.Model C08.Judge.\nLocal Open Scope N_scope.\n"


def chunked_sum(terms, indent="    "):
    """sum of many terms in chunks of 6 (the type checker is super-linear in the length of one operator
    chain); all terms are still live when the first chunk is evaluated"""
    lines, acc = [], None
    for k in range(0, len(terms), 6):
        part = " + ".join(terms[k:k + 6])
        lines.append("%slet acc%d: u64 = %s%s;\n" % (indent, k, (acc + " + ") if acc else "", part))
        acc = "acc%d" % k
    return "".join(lines), acc


def gen_spill_fn(rng, name, n, shape):
    cs = [(rng.randint(1, 9), rng.randint(0, 99)) for _ in range(n)]
    val = lambda i, a, b: a * cs[i][0] + b + cs[i][1]
    if shape == "locals":
        body = "".join("    let v%d: u64 = a * %d + b + %d;\n" % (i, cs[i][0], cs[i][1]) for i in range(n))
        order = list(range(n)); rng.shuffle(order)
        lines, acc = chunked_sum(["v%d * %d" % (i, k + 1) for k, i in enumerate(order)])
        body += lines + "    " + acc + "\n"
        ev = lambda a, b: sum(val(i, a, b) * (k + 1) for k, i in enumerate(order))
    elif shape == "loop":
        body = "".join("    let v%d: u64 = a * %d + b + %d;\n" % (i, cs[i][0], cs[i][1]) for i in range(n))
        body += "    let mut i: u64 = 0;\n    let mut s: u64 = 0;\n    while i < b {\n        s = s + i * a;\n        i = i + 1;\n    }\n"
        lines, acc = chunked_sum(["v%d" % i for i in range(n)])
        body += lines + "    s + " + acc + "\n"
        ev = lambda a, b: sum(i * a for i in range(b)) + sum(val(i, a, b) for i in range(n))
    elif shape == "loopspill":
        # n values live ACROSS the loop back edge (defined before, used after) and m temporaries that are all live
        # at once INSIDE the loop body; >= 3 iterations: a slot shared between a live-across value and a
        # temporary of the body gives a wrong result
        m = 40
        ws = [rng.randint(1, 9) for _ in range(m)]
        body = "".join("    let v%d: u64 = a * %d + b + %d;\n" % (i, cs[i][0], cs[i][1]) for i in range(n))
        body += "    let mut i: u64 = 0;\n    let mut s: u64 = 1;\n    while i < b {\n"
        body += "".join("        let w%d: u64 = s + i * %d + 1;\n" % (j, ws[j]) for j in range(m))
        lines, acc = chunked_sum(["w%d" % j for j in range(m)], indent="        ")
        body += lines + "        s = " + acc + " % 1000003;\n        i = i + 1;\n    }\n"
        lines, acc = chunked_sum(["v%d" % i for i in range(n)])
        body += lines + "    s + " + acc + "\n"
        def ev(a, b):
            s_ = 1
            for i in range(b):
                s_ = sum(s_ + i * w + 1 for w in ws) % 1000003
            return s_ + sum(val(i, a, b) for i in range(n))
    elif shape == "loopuse":
        # n values defined BEFORE the loop and used at the start of every iteration (live across the back edge
        # although their last textual use precedes the temporaries' definitions), then m temporaries live at once
        # later in the body: a slot policy that looks at linear def..use intervals lets them share slots
        m = 44
        ws = [rng.randint(1, 9) for _ in range(m)]
        body = "".join("    let v%d: u64 = a * %d + b + %d;\n" % (i, cs[i][0], cs[i][1]) for i in range(n))
        body += "    let mut i: u64 = 0;\n    let mut s: u64 = 1;\n    while i < b {\n"
        lines, acc = chunked_sum(["v%d" % i for i in range(n)], indent="        ")
        body += lines + "        let sv: u64 = " + acc + ";\n"
        body += "".join("        let w%d: u64 = i * %d + %d;\n" % (j, ws[j], j + 1) for j in range(m))
        lines, acc = chunked_sum(["w%d" % j for j in range(m)], indent="        ")
        body += lines + "        s = (s + sv + " + acc + ") % 1000003;\n        i = i + 1;\n    }\n    s\n"
        def ev(a, b):
            s_ = 1
            for i in range(b):
                s_ = (s_ + sum(val(k, a, b) for k in range(n)) + sum(i * w + j + 1 for j, w in enumerate(ws))) % 1000003
            return s_
    else:  # right-nested xor: every left operand stays live
        n = min(n, 50)
        expr = "(a * %d + b + %d)" % cs[n - 1]
        for i in range(n - 2, -1, -1):
            expr = "((a * %d + b + %d) ^ %s)" % (cs[i][0], cs[i][1], expr)
        body = "    " + expr + "\n"
        def ev(a, b):
            r = val(n - 1, a, b)
            for i in range(n - 2, -1, -1): r = val(i, a, b) ^ r
            return r
    return "#[inline(never)]\nfn %s(a: u64, b: u64) -> u64 {\n%s}\n" % (name, body), ev


def gen_spill_pkg(rng, base, name, nfn, shapes=("locals", "nested", "loop", "loopspill")):
    """debug builds keep locals in memory, so only the nested shape creates register pressure there;
    release builds (mem2reg) spill on all shapes"""
    src, tests, meta = "library;\n\n", "", []
    for k in range(nfn):
        n, shape = rng.randint(38, 75), rng.choice(list(shapes))
        if k == 0 and "loopspill" in shapes: shape = "loopspill"      # always one loop with a spill inside
        if k == 1 and "loopuse" in shapes: shape = "loopuse"          # ... and one whose pre-loop values are used in the loop
        s, ev = gen_spill_fn(rng, "f%d" % k, n, shape)
        src += s + "\n"; meta.append((n, shape))
        for (a, b) in [(3, 5), (0, 0), (rng.randint(1, 1000), rng.randint(3, 40))]:
            tests += "#[test]\nfn t_f%d_%d_%d() {\n    assert(f%d(%d, %d) == %d);\n}\n" % (k, a, b, k, a, b, ev(a, b))
    return sway.write_pkg(base, name, {"lib.sw": src + tests}), meta


def cases_from_dump(path):
    last_co, out = {}, []
    for r in A.read_dump(path):
        k, tid, v = r["kind"], r["tid"], r["v"]
        if k == "alloc_coalesce": last_co[tid] = v["map"]
        elif k == "alloc_result" and v["input"]["ops"]: out.append(("alloc", v, last_co.get(tid, [])))
        elif k == "alloc_spill": out.append(("spill", v, None))
        elif k == "garbled": out.append(("garbled", None, None))
    return out


def alloc_case(v, cmap, mutate=None):
    itn = A.Interner()
    inp = A.ops_term(v["input"], itn)
    cm, asg = dict(map(tuple, cmap)), dict(map(tuple, v["assignment"]))
    phi = {}
    for name, vid in itn.virt.items():
        m = asg.get(cm.get(name, name))
        if m is not None: phi[vid] = itn.mreg(m)
    if mutate is not None:
        a, b = itn.virt[mutate[0]], itn.virt[mutate[1]]
        if a in phi: phi[b] = phi[a]
    alloc = "[" + ";\n".join(A.kind_of_text(t, itn, itn.mreg) for t in v["allocated"]) + "]"
    return "Eval vm_compute in (judge_alloc %s [%s] %s)." % (inp, ";".join("(%d,%d)" % p for p in phi.items()), alloc)


def spill_case(v):
    itn = A.Interner()
    before, after = A.ops_term(v["before"], itn), A.ops_term(v["after"], itn)
    v["_names"] = {vid: name for name, vid in itn.virt.items()}
    return "Eval vm_compute in (judge_spill_all %s %s %s)." % (before, A.nl(itn.vreg(r) for r in v["spills"]), after)


def find_mutation(v, cmap):
    """two distinct virtual registers read by one instruction (hence simultaneously live) that the
    allocator put into different machine registers"""
    cm, asg = dict(map(tuple, cmap)), dict(map(tuple, v["assignment"]))
    for o in v["input"]["ops"]:
        us = [u for u in o["u"] if u not in A.CONST_ID]
        if len(us) >= 2:
            ma, mb = asg.get(cm.get(us[0], us[0])), asg.get(cm.get(us[1], us[1]))
            if ma and mb and ma != mb: return (us[0], us[1])
    return None


def run(ctx):
    ctx.level = "proof"
    coq.build(["C08/Judge.vo"])      # first, so that the Props.v output is not interleaved by make -j
    ok, out = coq.check_props(ctx, "C08")
    if not ok:
        ctx.log(out[-3000:])
        ctx.violation("proof", {"theorems": [o for o in ctx.obligations if not o[1]], "log": out[-2000:]},
                      "C08 proofs do not check", no_input=True)
    base, dumps = os.path.join(ctx.work, "pkgs"), os.path.join(ctx.work, "dumps")
    os.makedirs(base, exist_ok=True)
    # ---- programs
    std_names = sorted(os.path.relpath(os.path.dirname(p), ILT) for p in glob.glob(ILT + "/**/Forc.toml", recursive=True))
    e2e_names = sorted(os.path.basename(os.path.dirname(p)) for p in glob.glob(E2E + "/*/Forc.toml"))
    if ctx.quick:
        std_sel = [n for n in QUICK_STD if n in std_names]
        e2e_sel = ctx.rng.sample(e2e_names, min(QUICK_E2E * 3, len(e2e_names)))
    else:
        std_sel, e2e_sel = std_names, e2e_names
    pkgs, kinds_of = [], {}
    for n in std_sel:
        d = A.prepare_pkg(os.path.join(ILT, n), base, "std_" + n.replace("/", "_"))
        if d: pkgs.append(d); kinds_of[d] = "std-test"
    ne = 0
    for n in e2e_sel:
        if ctx.quick and ne >= QUICK_E2E: break
        d = A.prepare_pkg(os.path.join(E2E, n), base, "e2e_" + n)
        if d: pkgs.append(d); kinds_of[d] = "e2e-language"; ne += 1
    gen_meta = {}
    rel_pkgs = []
    for k in range(1 if ctx.quick else 6):
        d, meta = gen_spill_pkg(ctx.rng, base, "spill_dbg_%d" % k, 3 if ctx.quick else 6, shapes=("nested",))
        pkgs.append(d); kinds_of[d] = "generated-spill"; gen_meta[d] = meta
        d, meta = gen_spill_pkg(ctx.rng, base, "spill_rel_%d" % k, 3 if ctx.quick else 6,
                                shapes=("locals", "nested", "loop", "loopspill", "loopuse"))
        rel_pkgs.append(d); kinds_of[d] = "generated-spill-release"; gen_meta[d] = meta
    t0 = time.time()
    try:
        res = A.run_pkgs_dump(rel_pkgs + pkgs, dumps, "alloc", release=set(rel_pkgs))
    except RuntimeError as e:
        ctx.violation("harness-build", {"log": str(e)[-3000:]}, "swayrun does not build against /repo", no_input=True)
        return
    # a killed/timed-out build (machine overloaded) is retried alone; it is never a property violation
    infra = []
    for d in [d for d, (r, _) in res.items() if r.get("status") == "harness_error"]:
        res.update(A.run_pkgs_dump([d], dumps, "alloc", release=set(rel_pkgs), jobs=1))
        if res[d][0].get("status") == "harness_error":
            infra.append(os.path.basename(d)); ctx.log("infrastructure failure building %s: %s" % (d, str(res[d][0].get("error"))[:200]))
    ctx.log("built %d packages in %.0fs" % (len(res), time.time() - t0))
    # ---- cases
    status, seen, cases, nrec, nspillrec = {}, {}, [], 0, 0
    for d, (r, dump) in res.items():
        status[r.get("status", "?")] = status.get(r.get("status", "?"), 0) + 1
        if r.get("status") != "ok":
            ctx.log("package %s: %s %s" % (os.path.basename(d), r.get("status"), str(r.get("error"))[:200]))
            if kinds_of[d].startswith("generated") and r.get("status") != "harness_error" and "register mapping" not in str(r.get("error")):
                ctx.violation("build-" + os.path.basename(d), {"pkg": d, "result": r},
                              "generated spill package does not build: %s" % str(r.get("error"))[:300])
        elif kinds_of[d].startswith("generated"):
            for t in r.get("tests", []):
                if not t.get("passed"):
                    ctx.violation("behaviour-%s-%s" % (os.path.basename(d), t["name"]),
                                  {"pkg": d, "test": t, "source": open(os.path.join(d, "src/lib.sw")).read()},
                                  "function needing many live registers computes a wrong value on the VM: %s %s" % (t["name"], t.get("state")))
        for kind, v, cm in cases_from_dump(dump):
            nrec += 1
            if kind == "garbled":
                continue
            key = A.digest(v, cm)
            if key in seen: continue
            seen[key] = 1
            if kind == "spill": nspillrec += 1
            cases.append((kind, v, cm, d))
        if not ctx.quick and os.path.exists(dump): os.remove(dump)    # dumps are large
    if not cases:
        ctx.violation("no-dumps", {"status": status}, "no allocator dumps were produced (hooks missing or packages failed)", no_input=True)
        return
    texts, mut_idx = [], []
    for kind, v, cm, d in cases:
        try:
            texts.append(alloc_case(v, cm) if kind == "alloc" else spill_case(v))
        except ValueError as e:
            texts.append(None)
            ctx.violation("dump-parse", {"pkg": d, "error": str(e)}, "dump could not be translated: %s" % e, no_input=True)
    # mutants: checker must reject
    muts = []
    cand = [i for i, c in enumerate(cases) if c[0] == "alloc" and texts[i] and 20 <= len(c[1]["input"]["ops"]) <= 400]
    ctx.rng.shuffle(cand)
    for i in cand:
        if len(muts) >= (6 if ctx.quick else 40): break
        m = find_mutation(cases[i][1], cases[i][2])
        if m: muts.append((i, m, alloc_case(cases[i][1], cases[i][2], mutate=m)))
    work = [(len(t), "c", i, t) for i, t in enumerate(texts) if t] + [(len(t), "m", j, t) for j, (_, _, t) in enumerate(muts)]
    work.sort(reverse=True)
    nsh = min(NCPU, max(1, len(work)))
    shards, loads = [[] for _ in range(nsh)], [0] * nsh
    for sz, tag, idx, t in work:
        k = loads.index(min(loads)); shards[k].append((tag, idx, t)); loads[k] += sz
    t0 = time.time()
    try:
        outs = coq.run_cases(ctx, "c08", HEADER, ["\n".join(t for _, _, t in sh) for sh in shards], timeout=2400)
    except RuntimeError as e:
        ctx.violation("model-eval", {"log": str(e)[-3000:]}, "C08 judge could not be evaluated", no_input=True)
        return
    ctx.log("judged %d cases (+%d mutants) in %.0fs" % (len(texts), len(muts), time.time() - t0))
    hist, shist, mut_rej, slhist, slmut = {}, {}, {}, {}, {}
    nfun = nspill = nontriv = 0
    samples = []
    for sh, rs in zip(shards, outs):
        if len(sh) != len(rs):
            ctx.violation("model-eval-count", {"expected": len(sh), "got": len(rs)}, "judge output count mismatch", no_input=True)
            return
        for (tag, idx, _), r in zip(sh, rs):
            code, where = int(r[0]), int(r[1])
            if tag == "m":
                mut_rej[code] = mut_rej.get(code, 0) + 1
                if code not in (2, 3):
                    i, m, _ = muts[idx]
                    ctx.violation("mutant-accepted", {"pkg": cases[i][3], "merged": m, "code": code},
                                  "the checker accepted an assignment that merges two simultaneously live registers", no_input=True)
                continue
            kind, v, cm, d = cases[idx]
            if kind == "alloc":
                nfun += 1
                name = ALLOC_CODES.get(code, str(code)); hist[name] = hist.get(name, 0) + 1
                ops = v["input"]["ops"]
                if len({x for o in ops for x in o["d"] if x not in A.CONST_ID}) >= 3: nontriv += 1
                if len(samples) < 4 and len(ops) > 30:
                    samples.append({"pkg": os.path.basename(d), "ops": len(ops), "first": [o["t"] for o in ops[:3]], "code": name})
                ctx_ops = [o["t"] for o in ops[max(0, where - 3):where + 3]]
                fn = next((o["t"] for o in ops if o["kind"]["k"] == "label"), "?")
                key = "%s-%s-%s" % (name, os.path.basename(d), fn)
                rep = {"pkg": d, "function_label": fn, "index": where, "ops_near": ctx_ops, "code": name,
                       "assignment": v["assignment"], "coalesce": cm}
                if code in (2, 3, 5):
                    ctx.violation(key, rep, "register allocation: %s in package %s function %s near op %d (%s)"
                                  % (name, os.path.basename(d), fn, where, "; ".join(ctx_ops)))
                elif code in (6, 7):
                    ctx.violation(key, rep, "use/def table or liveness iteration does not fit the model (%s): theorem C08_check_alloc_sound no longer applies to this function" % name, no_input=True)
            else:
                nspill += 1
                name = SPILL_CODES.get(code, str(code)); shist[name] = shist.get(name, 0) + 1
                # slots read back from the REAL output (C08_slot_conflict_real / _none_valid)
                nj = int(r[2]); js = [int(x) for x in r[3:3 + nj]]; jm = [int(x) for x in r[3 + nj:]]
                sname = SLOT_CODES.get(js[0], str(js[0])); slhist[sname] = slhist.get(sname, 0) + 1
                mname = SLOT_CODES.get(jm[0], str(jm[0])); slmut[mname] = slmut.get(mname, 0) + 1
                if js[0] == 20:
                    names = v.get("_names", {})
                    i, dreg, vreg = js[1], names.get(js[2], str(js[2])), names.get(js[3], str(js[3]))
                    bops = v["before"]["ops"]
                    fn = next((o["t"] for o in bops if o["kind"]["k"] == "label"), "?")
                    ctx.violation("slotshare-%s-%s" % (os.path.basename(d), fn),
                                  {"pkg": d, "source": _src(d), "function_label": fn, "defining_op_index": i,
                                   "defining_op": bops[i]["t"] if i < len(bops) else None,
                                   "defined_register": dreg, "live_register": vreg, "spills": v["spills"],
                                   "ops_near": [o["t"] for o in bops[max(0, i - 3):i + 4]],
                                   "theorem": "C08_slot_conflict_real: the second register is live after this instruction in the least liveness solution and both registers are spilled to the same slot"},
                                  "spill(): two simultaneously live spilled registers share a stack slot: %s is defined at op %d (%s) of %s in %s while %s, spilled to the same slot, is live after it"
                                  % (dreg, i, bops[i]["t"] if i < len(bops) else "?", fn, os.path.basename(d), vreg))
                elif js[0] != 22 and code == 0:
                    ctx.violation("slots-unreadable-%s" % os.path.basename(d), {"pkg": d, "answer": js},
                                  "the spill model equals the real output but its slots cannot be read back (%s): SlotModel.align does not fit" % sname, no_input=True)
                if code in (1, 9):
                    ctx.violation("spill-%s-%d" % (os.path.basename(d), where),
                                  {"pkg": d, "index": where, "spills": v["spills"],
                                   "after_near": [o["t"] for o in v["after"]["ops"][max(0, where - 3):where + 4]]},
                                  "spill(): %s at op %d — the real spilling differs from the model whose slots are proved distinct" % (name, where),
                                  no_input=True)
    if nspill and not slmut.get(SLOT_CODES[20]):
        ctx.violation("slot-mutant-accepted", {"mutant_judgements": slmut},
                      "no merged-slot mutant of a real spill record was refuted: the slot judgement is blind", no_input=True)
    if nspill == 0 and not infra:
        ctx.violation("no-spills", {"generated": gen_meta}, "no function needed spilling: the quantifier 'including functions that need spilling' is not exercised", no_input=True)
    ctx.coverage.update({
        "checker_cmd": "make -C coq C08/Props.vo (coqc 8.16.1) + coqc vm_compute of C08/Judge.v over the allocator dumps",
        "trusted_base": ["Coq 8.16.1 kernel + vm_compute", "sway-core hook dumps (verif_hooks.rs: ops_json, alloc_result, alloc_spill) report what the allocator saw/produced",
                         "props/c08_asm.py (op text -> Coq term: tokenising, interning)", "harness swayrun + forc-test + fuel-vm for the behavioural tests",
                         "the use/def table itself (Op::use_registers/def_registers) is taken as the instruction semantics' contract"],
        "programs": len(res), "package_status": status, "package_kinds": {k: list(kinds_of.values()).count(k) for k in set(kinds_of.values())},
        "dump_records": nrec, "infrastructure_failures": infra, "evaluations": nfun + nspill + len(muts), "functions_validated": nfun, "spill_records_validated": nspill,
        "distinct_nontrivial": nontriv,
        "rule": "distinct by content of (input ops, coalesce map, assignment, allocated ops); non-trivial = at least 3 distinct virtual registers defined",
        "disagreements_checked": nfun + nspill, "judgements": hist, "spill_judgements": shist, "slot_judgements_on_real_output": slhist, "slot_judgements_on_merged_slot_mutants": slmut,
        "mutants": {"tried": len(muts), "rejected_by_code": {ALLOC_CODES.get(k, k): n for k, n in mut_rej.items()}},
        "generated_spill_functions": {os.path.basename(d): m for d, m in gen_meta.items()},
        "samples": samples,
        "explanation": "Theorems hold for every program and every instruction semantics consistent with the use/def table; "
                       "that the REAL allocator's output satisfies the hypotheses (check_alloc, match_alloc, dropped-move flags) is validated per compiled function; "
                       "spill() is modelled and compared exactly, its semantic preservation is validated only (generated functions are also run on the VM).",
    })
    ctx.assumptions += ["instruction semantics reads only use_registers and writes only def/def_const registers (table taken from the compiler)",
                        "RVRT stops execution; calls preserve non-constant registers (callee pusha/popa) and do not read $of/$err",
                        "pusha/popa are opaque side-effecting ops (frame contents abstracted)",
                        "spilling: exact model comparison + slot disjointness proved; load/store semantic preservation not proved",
                        "allocator stages (interference graph, coalescing heuristics, simplify stack) are not modelled: their result is validated per function"]
