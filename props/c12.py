"""C12 — initial storage slots match what storage reads return.
Theorems: coq/C12/Props.v.  Tie: generated contracts with random storage declarations are built with the
real forc pipeline (harness bin c12); the emitted `BuiltPackage.storage_slots` are compared exactly with the
Coq model `slots_of` (judge in Coq, SHA-256 digests of the occurring key strings supplied from hashlib as
the instantiation of the section variable H), and forc-test deploys the contract with those slots and
every field is read in the VM (`storage::ns.f.read()`), logged and compared with its initializer."""
import os, json, hashlib, concurrent.futures as cf
from vlib import coq, rust, sway
from vlib.core import NCPU
from vlib.coqterm import nlist

TWO256 = 1 << 256

# ---------------------------------------------------------------- types and values
# type: ("unit",) ("bool",) ("u8",) ("u16",) ("u32",) ("u64",) ("u256",) ("b256",) ("str", n)
#       ("tuple", [t..]) ("struct", name, [t..]) ("enum", name, [t..])
PRIMS = ["bool", "u8", "u16", "u32", "u64", "u256", "b256"]

class Gen:
    def __init__(self, rng):
        self.rng = rng
        self.decls = []          # sway source of struct / enum declarations
        self.n = 0

    def named_struct(self, fs):
        name = "S%d" % self.n; self.n += 1
        self.decls.append("struct %s { %s }" % (name, ", ".join("f%d: %s" % (i, ty_src(t)) for i, t in enumerate(fs))))
        return ("struct", name, fs)

    def named_enum(self, vs):
        name = "E%d" % self.n; self.n += 1
        self.decls.append("enum %s { %s }" % (name, ", ".join("V%d: %s" % (i, ty_src(t)) for i, t in enumerate(vs))))
        return ("enum", name, vs)

    def wide_member(self):
        """a member of 16, 24 or 32 bytes"""
        r = self.rng
        c = r.random()
        if c < 0.35: return self.named_struct([(r.choice(["u64", "u64", "u32", "u16"]),) for _ in range(r.randint(2, 4))])
        if c < 0.55: return self.named_enum(r.choice([[("u64",), ("unit",)], [("u64",), ("u32",), ("bool",)], [("tuple", [("u64",), ("u64",)]), ("u8",)]]))
        if c < 0.80: return ("str", r.randint(9, 24))
        if c < 0.90: return ("b256",)
        return ("tuple", [("u64",), ("u64",)] + ([("bool",)] if r.random() < 0.5 else []))

    def layout_struct(self, depth):
        """a struct whose wide members start at word offsets 1, 2, 3 (mod 4) and cross slot boundaries"""
        r = self.rng
        fs = [(r.choice(["u64", "u64", "u32", "u16", "u8", "bool"]),) for _ in range(r.choice([1, 2, 3, 3, 5, 6, 7]))]
        fs.append(self.wide_member())
        for _ in range(r.randint(0, 2)):
            fs.append((r.choice(["u64", "u8", "bool"]),) if r.random() < 0.5 else self.wide_member())
        if depth > 0 and r.random() < 0.4:
            fs.insert(r.randint(1, len(fs)), self.layout_struct(depth - 1))
        return self.named_struct(fs)

    def ty(self, depth, allow_unit=False):
        r = self.rng
        if depth >= 2 and r.random() < 0.3:
            return self.layout_struct(1)
        k = r.random()
        if depth <= 0 or k < 0.45:
            c = r.random()
            if allow_unit and c < 0.12: return ("unit",)
            if c < 0.30: return ("str", r.choice([1, 3, 7, 8, 9, 16, 17, 31, 32, r.randint(1, 32)]))
            return (r.choice(PRIMS),)
        if k < 0.62:
            return ("tuple", [self.ty(depth - 1, True) for _ in range(r.randint(1, 4))])
        if k < 0.80:
            fs = [self.ty(depth - 1, True) for _ in range(r.randint(1, 5))]
            name = "S%d" % self.n; self.n += 1
            self.decls.append("struct %s { %s }" % (name, ", ".join("f%d: %s" % (i, ty_src(t)) for i, t in enumerate(fs))))
            return ("struct", name, fs)
        vs = [self.ty(depth - 1, True) for _ in range(r.randint(1, 5))]
        if r.random() < 0.15: vs = [("unit",) for _ in vs]        # tag-only enum
        name = "E%d" % self.n; self.n += 1
        self.decls.append("enum %s { %s }" % (name, ", ".join("V%d: %s" % (i, ty_src(t)) for i, t in enumerate(vs))))
        return ("enum", name, vs)

    def val(self, t):
        r = self.rng
        k = t[0]
        if k == "unit": return ("unit",)
        if k == "bool": return ("bool", r.random() < 0.5)
        if k in ("u8", "u16", "u32", "u64", "u256", "b256"):
            bits = {"u8": 8, "u16": 16, "u32": 32, "u64": 64, "u256": 256, "b256": 256}[k]
            c = r.random()
            n = 0 if c < 0.1 else (1 << bits) - 1 if c < 0.2 else r.getrandbits(bits) if c < 0.8 else r.randint(0, 255) % (1 << bits)
            return ("int", n)
        if k == "str":
            return ("bytes", bytes(r.choice(b"abcdefghijklmnopqrstuvwxyzABCXYZ0123456789 _-+*/<>!?.,:;") for _ in range(t[1])))
        if k == "tuple": return ("tuple", [self.val(x) for x in t[1]])
        if k == "struct": return ("tuple", [self.val(x) for x in t[2]])
        if k == "enum":
            tag = r.randrange(len(t[2]))
            return ("enum", tag, self.val(t[2][tag]))
        raise ValueError(k)

def ty_src(t):
    k = t[0]
    if k == "unit": return "()"
    if k == "str": return "str[%d]" % t[1]
    if k == "tuple": return "(%s%s)" % (", ".join(ty_src(x) for x in t[1]), "," if len(t[1]) == 1 else "")
    if k in ("struct", "enum"): return t[1]
    return k

def val_src(t, v):
    k = t[0]
    if k == "unit": return "()"
    if k == "bool": return "true" if v[1] else "false"
    if k in ("u8", "u16", "u32", "u64"): return "%d%s" % (v[1], k)
    if k == "u256": return "0x%064xu256" % v[1]
    if k == "b256": return "0x%064x" % v[1]
    if k == "str": return '__to_str_array("%s")' % v[1].decode()
    if k == "tuple": return "(%s%s)" % (", ".join(val_src(a, b) for a, b in zip(t[1], v[1])), "," if len(t[1]) == 1 else "")
    if k == "struct": return "%s { %s }" % (t[1], ", ".join("f%d: %s" % (i, val_src(a, b)) for i, (a, b) in enumerate(zip(t[2], v[1]))))
    if k == "enum":
        vt = t[2][v[1]]
        return "%s::V%d" % (t[1], v[1]) if vt[0] == "unit" else "%s::V%d(%s)" % (t[1], v[1], val_src(vt, v[2]))
    raise ValueError(k)

def ty_coq(t):
    k = t[0]
    if k == "str": return "(SStr %d)" % t[1]
    if k == "tuple": return "(SStruct [%s])" % ";".join(ty_coq(x) for x in t[1])
    if k == "struct": return "(SStruct [%s])" % ";".join(ty_coq(x) for x in t[2])
    if k == "enum": return "(SEnum [%s])" % ";".join(ty_coq(x) for x in t[2])
    return {"unit": "SUnit", "bool": "SBool", "u8": "SU8", "u16": "SU16", "u32": "SU32", "u64": "SU64", "u256": "SU256", "b256": "SB256"}[k]

def val_coq(v):
    k = v[0]
    if k == "unit": return "VUnit"
    if k == "bool": return "(VBool %s)" % ("true" if v[1] else "false")
    if k == "int": return "(VInt %d)" % v[1]
    if k == "bytes": return "(VBytes %s)" % nlist(v[1])
    if k == "tuple": return "(VTuple [%s])" % ";".join(val_coq(x) for x in v[1])
    if k == "enum": return "(VEnum %d %s)" % (v[1], val_coq(v[2]))
    raise ValueError(k)

def is_ref(t): return t[0] in ("u256", "b256", "str", "tuple", "struct", "enum")

def size(t):
    k = t[0]
    al = lambda n: (n + 7) // 8 * 8
    if k == "unit": return 0
    if k in ("bool", "u8"): return 1
    if k in ("u16", "u32", "u64"): return 8
    if k in ("u256", "b256"): return 32
    if k == "str": return al(t[1])
    if k == "tuple": return sum(al(size(x)) for x in t[1])
    if k == "struct": return sum(al(size(x)) for x in t[2])
    if k == "enum":
        m = max(al(size(x)) for x in t[2])
        return 8 + m
    raise ValueError(k)

def al8(n): return (n + 7) // 8 * 8

def members(t, maxdepth=3):
    """[(path, member type, byte offset)] of the members reachable through named-struct field accesses"""
    out = []
    def walk(t, path, off, d):
        if t[0] != "struct" or d == 0: return
        o = off
        for i, ft in enumerate(t[2]):
            if size(ft) > 0:
                out.append((path + [i], ft, o))
                walk(ft, path + [i], o, d - 1)
            o += al8(size(ft))
    walk(t, [], 0, maxdepth)
    return out

def pick_members(rng, t, k):
    ms = members(t)
    crossing = [m for m in ms if (m[2] // 8) % 4 != 0 and (m[2] % 32) + size(m[1]) > 32]
    inner = [m for m in ms if (m[2] // 8) % 4 != 0 and m not in crossing]
    rest = [m for m in ms if m not in crossing and m not in inner]
    for l in (crossing, inner, rest): rng.shuffle(l)
    return (crossing[:k] + inner[:max(1, k // 2)] + rest[:1])[:k + 2]

def member_at(t, v, path):
    for i in path: t, v = t[2][i], v[1][i]
    return t, v

# ---------------------------------------------------------------- declarations
NAMES = ["a", "ab", "abc", "b", "f", "foo", "foo_bar", "x", "x1", "val", "value", "s", "ns", "n", "k_1", "zz"]
NSNAMES = ["ns1", "ns2", "n", "ns", "inner", "a", "ab", "m1"]

def gen_decl(rng, nfields, kind):
    """kind: plain | overlap | overflow.  Returns dict(decls, fields[ {ns,name,key,ty,val} ], kind)."""
    g = Gen(rng)
    fields, used, usedns = [], set(), set()
    paths = [[]]
    for _ in range(rng.randint(0, 4)):
        base = rng.choice(paths)
        if len(base) >= 3: continue
        nm = rng.choice(NSNAMES)
        p = base + [nm]
        if tuple(p) in usedns: continue
        usedns.add(tuple(p)); paths.append(p)
    explicit_ranges = []
    while len(fields) < nfields:
        ns = rng.choice(paths)
        nm = rng.choice(NAMES)
        if (tuple(ns), nm) in used or tuple(ns + [nm]) in usedns: continue
        while True:
            t = g.ty(3)
            if size(t) > 0 and size(t) <= 400: break
        v = g.val(t)
        nsl = (size(t) + 31) // 32
        key = None
        if rng.random() < 0.3:
            c = rng.random()
            if c < 0.25: key = rng.randint(0, 64)
            elif c < 0.5 and explicit_ranges:
                k0, n0 = rng.choice(explicit_ranges); key = k0 + n0                      # exactly adjacent above
            elif c < 0.6: key = TWO256 - nsl                                             # last keys, no overflow
            else: key = rng.getrandbits(256)
            if key + nsl > TWO256: key = TWO256 - nsl
            if any(not (key + nsl <= k0 or k0 + n0 <= key) for k0, n0 in explicit_ranges):
                if kind != "overlap": key = None
            if key is not None: explicit_ranges.append((key, nsl))
        used.add((tuple(ns), nm))
        fields.append({"ns": ns, "name": nm, "key": key, "ty": t, "val": v})
    if kind == "overlap" and len(fields) >= 2:
        a, b = rng.sample(fields, 2)
        if a["key"] is None: a["key"] = rng.getrandbits(200)
        b["key"] = min(a["key"] + rng.randint(0, max(0, (size(a["ty"]) + 31) // 32 - 1)), TWO256 - (size(b["ty"]) + 31) // 32)
    return {"decls": g.decls, "fields": fields, "kind": kind}

def fixed_decl(kind):
    b = ("b256",)
    if kind == "overflow":
        return {"decls": [], "kind": "overflow", "fields": [
            {"ns": [], "name": "a", "key": TWO256 - 1, "ty": ("tuple", [b, b]), "val": ("tuple", [("int", 1), ("int", 2)])}]}
    # regression corpus: unit enum variant before further data (fixed by f414d7f), left-padded small
    # union members, tag-only enum, nested namespaces with equal field names
    E = ("enum", "E0", [("unit",), ("u64",)])
    F = ("enum", "F0", [("u8",), ("tuple", [("u64",), ("u64",)]), ("bool",), ("str", 5)])
    T = ("enum", "T0", [("unit",), ("unit",), ("unit",)])
    S = ("struct", "S0", [E, ("u64",)])
    P = ("struct", "P0", [("u8",), ("bool",), ("u16",), ("unit",), ("u32",)])
    decls = ["enum E0 { V0: (), V1: u64 }", "enum F0 { V0: u8, V1: (u64, u64), V2: bool, V3: str[5] }",
             "enum T0 { V0: (), V1: (), V2: () }", "struct S0 { f0: E0, f1: u64 }",
             "struct P0 { f0: u8, f1: bool, f2: u16, f3: (), f4: u32 }"]
    mk = lambda ns, name, key, ty, val: {"ns": ns, "name": name, "key": key, "ty": ty, "val": val}
    u = ("u64",)
    Q = ("struct", "Q0", [u, u])
    R = ("struct", "R0", [u, u, u, Q])                      # Q: 16 bytes at word 3, crosses the slot boundary
    O = ("struct", "O0", [u, ("b256",)])                    # 32 bytes at word 1
    K = ("struct", "K0", [("u8",), Q, ("u32",)])            # 16 bytes at word 1, inside the slot
    W = ("struct", "W0", [u, u, ("str", 17), R, E])         # 24 bytes at word 2; nested R at word 5
    decls += ["struct Q0 { f0: u64, f1: u64 }", "struct R0 { f0: u64, f1: u64, f2: u64, f3: Q0 }", "struct O0 { f0: u64, f1: b256 }",
              "struct K0 { f0: u8, f1: Q0, f2: u32 }", "struct W0 { f0: u64, f1: u64, f2: str[17], f3: R0, f4: E0 }"]
    q = lambda a, b: ("tuple", [("int", a), ("int", b)])
    rv = ("tuple", [("int", 1), ("int", 2), ("int", 3), q(44, 55)])
    fs = [
        mk([], "rec", None, R, rv),
        mk(["ns1"], "rec", None, R, ("tuple", [("int", 4), ("int", 5), ("int", 6), q(7, 8)])),
        mk([], "owned", None, O, ("tuple", [("int", 9), ("int", 0x1111111111111111222222222222222233333333333333334444444444444444)])),
        mk([], "packed", 0x4000, K, ("tuple", [("int", 5), q(66, 77), ("int", 88)])),
        mk([], "wide", None, W, ("tuple", [("int", 10), ("int", 11), ("bytes", b"seventeen bytes!!"), rv, ("enum", 1, ("int", 99))])),
        mk([], "s", None, S, ("tuple", [("enum", 0, ("unit",)), ("int", 5)])),
        mk([], "s2", None, S, ("tuple", [("enum", 1, ("int", 9)), ("int", 6)])),
        mk([], "t", None, ("tuple", [E, E, ("u8",)]), ("tuple", [("enum", 0, ("unit",)), ("enum", 0, ("unit",)), ("int", 7)])),
        mk([], "p", None, P, ("tuple", [("int", 3), ("bool", True), ("int", 9), ("unit",), ("int", 11)])),
        mk([], "f1", None, F, ("enum", 0, ("int", 200))),
        mk([], "f2", None, F, ("enum", 1, ("tuple", [("int", 1), ("int", 2)]))),
        mk([], "f3", None, F, ("enum", 2, ("bool", True))),
        mk([], "f4", None, F, ("enum", 3, ("bytes", b"hello"))),
        mk([], "tag", None, T, ("enum", 2, ("unit",))),
        mk(["ns1", "ns2"], "g", None, ("u64",), ("int", 77)),
        mk(["ns1"], "g", None, ("u64",), ("int", 78)),
        mk([], "g", None, ("u64",), ("int", 79)),
        mk(["ns1"], "h", 0x100, ("u32",), ("int", 6)),
        mk([], "top", TWO256 - 2, ("tuple", [b, ("u8",)]), ("tuple", [("int", (1 << 256) - 1), ("int", 255)])),
        mk([], "b", None, ("bool",), ("bool", True)),
        mk([], "w", None, ("u256",), ("int", (1 << 255) + 12345)),
        mk([], "st", None, ("str", 9), ("bytes", b"abcdefghi")),
    ]
    return {"decls": decls, "fields": fs, "kind": "plain", "all_members": True}

def source_order(fields):
    """fields in the order storage_src prints them (a namespace's own fields, then its sub-namespaces)"""
    tree = {"f": [], "ns": {}}
    for f in fields:
        node = tree
        for n in f["ns"]:
            node = node["ns"].setdefault(n, {"f": [], "ns": {}})
        node["f"].append(f)
    out = []
    def walk(node):
        out.extend(node["f"])
        for sub in node["ns"].values(): walk(sub)
    walk(tree)
    return out

def storage_src(fields):
    tree = {"f": [], "ns": {}}
    for i, f in enumerate(fields):
        node = tree
        for n in f["ns"]:
            node = node["ns"].setdefault(n, {"f": [], "ns": {}})
        node["f"].append(f)
    def emit(node, ind):
        out = []
        for f in node["f"]:
            k = " in 0x%064x" % f["key"] if f["key"] is not None else ""
            out.append("%s%s%s: %s = %s," % (ind, f["name"], k, ty_src(f["ty"]), val_src(f["ty"], f["val"])))
        for n, sub in node["ns"].items():
            out.append("%s%s {" % (ind, n)); out += emit(sub, ind + "    "); out.append("%s}," % ind)
        return out
    return "storage {\n%s\n}\n" % "\n".join(emit(tree, "    "))

def contract_src(d):
    fs = d["fields"]
    abi = "\n".join("    #[storage(read)] fn r%d();" % i for i in range(len(fs)))
    impl = []
    for i, f in enumerate(fs):
        acc = "storage%s.%s" % ("".join("::" + n for n in f["ns"]), f["name"])
        body = "let v = %s.read(); log(v);" % acc
        if is_ref(f["ty"]): body += " dump(v);"
        impl.append("    #[storage(read)] fn r%d() { %s }" % (i, body))
    for k, (i, path) in enumerate(d.get("members", [])):
        f = fs[i]
        acc = "storage%s.%s%s" % ("".join("::" + n for n in f["ns"]), f["name"], "".join(".f%d" % j for j in path))
        abi += "\n    #[storage(read)] fn m%d();" % k
        impl.append("    #[storage(read)] fn m%d() { let v = %s.read(); log(v); }" % (k, acc))
    tests = "\n".join(["#[test] fn t%d() { abi(A, CONTRACT_ID).r%d(); }" % (i, i) for i in range(len(fs))] +
                      ["#[test] fn tm%d() { abi(A, CONTRACT_ID).m%d(); }" % (k, k) for k in range(len(d.get("members", [])))])
    return ("contract;\n\n%s\n\n%s\nabi A {\n%s\n}\n\nfn dump<T>(v: T) {\n    let p = __addr_of(v);\n    let s = __size_of::<T>();\n"
            "    asm(p: p, s: s) { logd zero zero p s; }\n}\n\nimpl A for Contract {\n%s\n}\n\n%s\n"
            % ("\n".join(d["decls"]), storage_src(fs), abi, "\n".join(impl), tests))

def key_string(f):
    return "storage" + ("::" + "::".join(f["ns"]) if f["ns"] else "") + "." + f["name"]

def ident_coq(s): return nlist(s.encode())

def case_coq(d, res):
    fs = d["fields"]
    status = res.get("status")
    impl = {"ok": 0, "build_error": 1, "panic": 2}.get(status, 1)
    tests = {t["name"]: t for t in res.get("tests") or []}
    dg, items = [], []
    for i, f in enumerate(fs):
        if f["key"] is None:
            pre = b"\x00" + key_string(f).encode()
            dg.append("(%s, %s)" % (nlist(pre), nlist(hashlib.sha256(pre).digest())))
        t = tests.get("t%d" % i)
        logs = [r for r in (t["receipts"] if t else []) if r["k"] == "LogData"]
        lg = "Some %s" % nlist(bytes.fromhex(logs[0]["data"])) if logs and t.get("passed") else "None"
        dump = "Some %s" % nlist(bytes.fromhex(logs[1]["data"])) if len(logs) > 1 and is_ref(f["ty"]) else "None"
        f["_obs"] = {"passed": t.get("passed") if t else None, "state": t.get("state") if t else None,
                     "logs": [l["data"] for l in logs]}
        items.append("{| j_ns := [%s]; j_name := %s; j_key := %s; j_ty := %s; j_val := %s; j_log := %s; j_dump := %s |}" % (
            ";".join(ident_coq(n) for n in f["ns"]), ident_coq(f["name"]),
            "Some %d" % f["key"] if f["key"] is not None else "None", ty_coq(f["ty"]), val_coq(f["val"]), lg, dump))
    em = ";".join("(%d, %s)" % (int(k, 16), nlist(bytes.fromhex(v))) for k, v in (res.get("slots") or []))
    mems = []
    d["_mobs"] = []
    for k, (i, path) in enumerate(d.get("members", [])):
        t = tests.get("tm%d" % k)
        logs = [r for r in (t["receipts"] if t else []) if r["k"] == "LogData"]
        lg = "Some %s" % nlist(bytes.fromhex(logs[0]["data"])) if logs and t.get("passed") else "None"
        d["_mobs"].append({"passed": t.get("passed") if t else None, "state": t.get("state") if t else None, "logs": [l["data"] for l in logs]})
        mems.append("(%d%%nat, %s, %s)" % (i, ("[%s]%%nat" % ";".join(map(str, path))), lg))
    return ("Definition dg : list (list byte * list byte) := [%s].\nDefinition fs : list jfield := [%s].\nDefinition em : list slot := [%s].\n"
            "Eval vm_compute in (judge dg fs em %d).\nEval vm_compute in (judge_members dg fs em ([%s] : list jmember))."
            % (";".join(dg), ";\n ".join(items), em, impl, ";\n ".join(mems)))

def replay_of(d, res):
    return {"kind": d["kind"], "source": contract_src(d), "status": res.get("status"), "error": (res.get("error") or "")[:600],
            "slots": res.get("slots"), "fields": [{"path": key_string(f), "key": "0x%064x" % f["key"] if f["key"] is not None else None,
                                                  "ty": ty_src(f["ty"]), "init": val_src(f["ty"], f["val"]), "observed": f.get("_obs")} for f in d["fields"]]}

DECL_CODES = {0: "slots-agree", 1: "slots-differ-but-read-back", 2: "slots-do-not-read-back", 5: "digest-miss", 8: "panic-predicted",
              9: "panic-unpredicted", 10: "build-error", 11: "model-panics-impl-does-not"}
MEMBER_CODES = {0: "ok", 3: "vm-read-differs", 13: "no-value-observed", 7: "bad-path", 14: "model-read-differs", 15: "image-slice-differs"}
FIELD_CODES = {0: "ok", 3: "vm-read-differs", 4: "memory-image-differs", 6: "overlaps", 7: "unsupported", 13: "no-value-observed"}

def run(ctx):
    ctx.level = "proof"
    ok, out = coq.check_props(ctx, "C12", extra_targets=["C12/Judge.vo"])
    if not ok:
        ctx.log(out[-3000:])
        ctx.violation("proof", {"theorems": [o for o in ctx.obligations if not o[1]], "log": out[-2000:]},
                      "C12 proofs do not check", no_input=True)
    binp, bout = rust.build("c12")
    if binp is None:
        ctx.violation("harness-build", {"log": bout[-4000:]}, "harness c12 does not build against /repo", no_input=True)
        return
    npk, nf = (6, 14) if ctx.quick else (64, 28)
    decls = [fixed_decl("corpus"), fixed_decl("overflow")]
    while len(decls) < npk + 2:
        kind = "overlap" if ctx.rng.random() < 0.12 else "plain"
        decls.append(gen_decl(ctx.rng, ctx.rng.randint(max(3, nf // 2), nf), kind))
    for d in decls:
        d["fields"] = source_order(d["fields"])
        d["members"] = []
        if d["kind"] == "plain":
            for i, f in enumerate(d["fields"]):
                if f["ty"][0] == "struct":
                    d["members"] += [(i, p) for p, _, _ in (members(f["ty"]) if d.get("all_members") else pick_members(ctx.rng, f["ty"], 3))]
            d["members"] = d["members"][:40]
    base = os.path.join(ctx.work, "pkgs")
    dirs = [sway.write_pkg(base, "c12_%d" % i, {"main.sw": contract_src(d)}, entry="main.sw") for i, d in enumerate(decls)]

    def one(i):
        args = (["--no-run"] if decls[i]["kind"] != "plain" else []) + [dirs[i]]
        rc, o = rust.run(binp, args, timeout=3000)
        for line in o.split("\n"):
            if line.startswith("{"):
                try: return json.loads(line)
                except Exception: pass
        return {"status": "harness_error", "error": "rc=%s %s" % (rc, o[-800:])}
    with cf.ThreadPoolExecutor(max_workers=NCPU) as ex:
        results = list(ex.map(one, range(len(decls))))
    for i, r in enumerate(results):
        if r.get("status") == "harness_error":
            ctx.violation("harness-run", {"pkg": dirs[i], "out": r.get("error")}, "harness c12 failed to run", no_input=True)
            return
    shards = [case_coq(d, r) for d, r in zip(decls, results)]
    try:
        res = coq.run_cases(ctx, "c12", "From SwayV Require Import Base.Util C12.Model C12.Spec C12.Judge.", shards)
    except RuntimeError as e:
        ctx.violation("model-eval", {"log": str(e)[-3000:]}, "C12 judge could not be evaluated (correspondence C12.slots_of not checked)", no_input=True)
        return
    hist, fhist, nfields, nslots = {}, {}, 0, 0
    mhist, mshape, nmembers = {}, {}, 0
    for i, (d, r, rr) in enumerate(zip(decls, results, res)):
        codes = rr[0]
        dc, disj, fcs = codes[0], (codes[1] if len(codes) > 1 else None), codes[2:]
        hist[DECL_CODES.get(dc, str(dc))] = hist.get(DECL_CODES.get(dc, str(dc)), 0) + 1
        rep = replay_of(d, r)
        key = "decl_" + hashlib.sha256(storage_src(d["fields"]).encode()).hexdigest()[:12]
        nslots += len(r.get("slots") or [])
        if d["kind"] == "overflow":
            if dc == 8 or dc == 9:
                ctx.violation("explicit-key-range-overflow", rep,
                              "compiler panics (%s) when an explicit `in` key plus the field's slot count exceeds 2^256" % rep["error"][:80])
            elif dc != 10:
                ctx.log("note: the key-range overflow input no longer panics (decl code %d); update the model and KNOWN_FINDINGS" % dc)
                if dc in (1, 2, 11):
                    ctx.violation(key, dict(rep, correspondence="C12.slots_of"), "model predicts a panic in add_to_b256, implementation differs", no_input=True)
            continue
        if dc == 2 and d["kind"] == "overlap":
            dc = 1          # overlapping fields cannot all read back; only the slot comparison counts
        if dc == 2:
            ctx.violation(key, rep, "the storage slots forc emits do not read back as the declared initializers (model of read_quads on the emitted slots)")
        elif dc == 9:
            ctx.violation(key, rep, "compiler panic on a supported storage declaration: %s" % rep["error"][:200])
        elif dc == 10:
            ctx.violation(key, rep, "supported storage declaration rejected: %s" % rep["error"][:300])
        elif dc in (1, 11, 8):
            ctx.violation(key, dict(rep, correspondence="C12.slots_of"),
                          "emitted slots differ from the Coq model (%s) while the oracle accepts them: theorems C12_read_back* no longer tied to the code" % DECL_CODES[dc], no_input=True)
        elif dc == 5:
            ctx.violation(key, dict(rep, correspondence="C12.key_string"), "key string of the model is not the documented \"storage::ns.field\" string (digest lookup missed)", no_input=True)
        if disj == 0 and d["kind"] == "plain":
            ctx.violation(key, dict(rep, hypothesis="spread / explicit_okb"), "key ranges of a declaration generated as non-overlapping overlap (hash spread hypothesis fails on real SHA-256 digests, or generator error)", no_input=True)
        if d["kind"] != "plain":
            continue
        for j, (f, c) in enumerate(zip(d["fields"], fcs)):
            nfields += 1
            fhist[FIELD_CODES.get(c, str(c))] = fhist.get(FIELD_CODES.get(c, str(c)), 0) + 1
            frep = dict(rep, field=rep["fields"][j])
            fkey = key + "_" + key_string(f)
            if c in (3, 13):
                ctx.violation(fkey, frep, "field %s: value read back in the VM (%s) is not the declared initializer %s" % (
                    key_string(f), f["_obs"], val_src(f["ty"], f["val"])[:120]))
            elif c == 4:
                ctx.violation(fkey, dict(frep, correspondence="C12.mem_plain"), "memory image of the value read in the VM differs from the layout model", no_input=True)
            elif c in (6, 7):
                ctx.violation(fkey, dict(frep, correspondence="C12.generator"), "generated field is %s for the judge" % FIELD_CODES[c], no_input=True)
    for d, r, rr in zip(decls, results, res):
        if d["kind"] != "plain" or len(rr) < 2: continue
        rep = replay_of(d, r)
        key = "decl_" + hashlib.sha256(storage_src(d["fields"]).encode()).hexdigest()[:12]
        for k, ((i, path), c) in enumerate(zip(d["members"], rr[1])):
            f = d["fields"][i]
            mt, mv = member_at(f["ty"], f["val"], path)
            acc = key_string(f) + "".join(".f%d" % j for j in path)
            off = [o for p, _, o in members(f["ty"]) if p == path][0]
            nmembers += 1
            mhist[MEMBER_CODES.get(c, str(c))] = mhist.get(MEMBER_CODES.get(c, str(c)), 0) + 1
            mshape[(off // 8 % 4, size(mt))] = mshape.get((off // 8 % 4, size(mt)), 0) + 1
            mrep = dict(rep, member={"access": acc, "ty": ty_src(mt), "init": val_src(mt, mv)[:300], "byte_offset": off,
                                     "word_offset_in_slot": off // 8 % 4, "size": size(mt), "observed": d["_mobs"][k]})
            if c in (3, 13):
                ctx.violation(key + "_" + acc, mrep, "partial read %s.read() (%d bytes at word %d of its slot): value read in the VM (%s) is not the initializer's member %s" % (
                    acc, size(mt), off // 8 % 4, d["_mobs"][k], val_src(mt, mv)[:120]))
            elif c in (14, 15):
                ctx.violation(key + "_" + acc, dict(mrep, correspondence="C12.Members"), "model of the member read (%s) disagrees although the VM read is right" % MEMBER_CODES[c], no_input=True)
            elif c == 7:
                ctx.violation(key + "_" + acc, dict(mrep, correspondence="C12.generator"), "generated member path is not supported by the judge", no_input=True)
    kinds = {}
    def walk(t):
        kinds[t[0]] = kinds.get(t[0], 0) + 1
        for x in (t[1] if t[0] == "tuple" else t[2] if t[0] in ("struct", "enum") else []): walk(x)
    for d in decls:
        for f in d["fields"]: walk(f["ty"])
    distinct = len({(key_string(f), f["key"], ty_src(f["ty"]), val_src(f["ty"], f["val"])) for d in decls for f in d["fields"] if is_ref(f["ty"]) and size(f["ty"]) > 8})
    ctx.coverage.update({
        "checker_cmd": "make -C coq C12/Props.vo C12/Judge.vo (coqc 8.16.1) + coqc vm_compute judge over harness output",
        "trusted_base": ["Coq 8.16.1 kernel + vm_compute", "harness/src/bin/c12.rs (forc_pkg::build_with_options, forc_test run, printing)",
                         "props/c12.py (contract text generation, hashlib.sha256 digests passed as the instantiation of H)",
                         "SHA-256 is a Section variable: collision-free/spread only assumed on the key strings of each declaration, and checked on the real digests per case",
                         "fuel-vm SRWQ and std::storage read path are modelled (C12/Model.v read_quads), tied by in-VM reads",
                         "ABI encoding of the logged value (C09) used to compare the in-VM value with the initializer"],
        "evaluations": nfields + nmembers, "distinct_nontrivial": distinct,
        "rule": "one evaluation = one storage field (or one nested struct member through the StorageKey field-access syntax) built, deployed with the emitted slots and read in the VM; non-trivial = reference-typed field larger than one word (struct/tuple/enum/str/b256/u256); distinct by (path, key, type, initializer)",
        "samples": [{"path": key_string(f), "ty": ty_src(f["ty"]), "init": val_src(f["ty"], f["val"])[:160]} for f in decls[2]["fields"][:4]] if len(decls) > 2 else [],
        "packages": len(decls), "emitted_slots": nslots, "decl_judgements": hist, "field_judgements": fhist, "type_nodes": kinds,
        "member_reads": nmembers, "member_judgements": mhist,
        "member_shapes_wordoffset_size": {"%d:%d" % k: v for k, v in sorted(mshape.items())},
        "explicit_keys": sum(1 for d in decls for f in d["fields"] if f["key"] is not None),
        "namespaced_fields": sum(1 for d in decls for f in d["fields"] if f["ns"]),
        "explanation": "Theorems (all well-typed constants of non-zero size, all keys whose range stays below 2^256): the slots the model of serialize_to_storage_slots emits read back, through the model of std's read_quads, as the initializer's memory image, for one field and for whole declarations with disjoint key ranges under any slot order; key strings are injective; implicit keys are H(0 :: key string); ranges are disjoint under the stated hash hypotheses and the decidable explicit-key side condition. Arrays are excluded (compiler panics: C17).",
    })
    ctx.assumptions += ["model = code is established by exact comparison of emitted slots on the generated declarations only",
                        "SHA-256 is not modelled: hypotheses collision_free/spread are section hypotheses, evaluated on the real digests of each generated declaration",
                        "literal initializers only (const-evaluation of expressions is C06)"]
