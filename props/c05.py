"""C05 — IR text round-trips.
Theorems: coq/C05/Props.v (leaf parsers invert leaf printers: strings, decimals, u256/b256, type syntax).
Correspondence: each leaf through the real parser+printer in a tiny module, judged in Coq (C05/Judge.v).
Property on the implementation: for every corpus module at every stage of pass sequences,
print(parse(print m)) = print m modulo the arena-key value names (second round trip exact), the re-parsed
module verifies, and after the standard pipeline the backend produces identical bytecode for m and parse(print m)."""
import os, glob, collections
from vlib import coq, rust
from vlib.core import NCPU, ROOT, REPO
from props.c04 import PASSES, TRANSFORMS, corpus_files, short

O0 = "lower-init-aggr fn-dedup-debug inline globals-dce dce const-demotion arg-demotion ret-demotion misc-demotion arg_pointee_mutability_tagger memcpyopt dce simplify-cfg".split()
O1 = ("lower-init-aggr mem2reg fn-dedup-release inline arg_pointee_mutability_tagger simplify-cfg globals-dce dce inline "
      "arg_pointee_mutability_tagger ccp const-folding simplify-cfg cse const-folding simplify-cfg globals-dce dce fn-dedup-release "
      "const-demotion arg-demotion ret-demotion misc-demotion arg_pointee_mutability_tagger memcpyopt dce simplify-cfg "
      "memcpyprop_reverse sroa mem2reg dce").split()
GOOD = ("ok", "ok-renamed", "ok-entrymut")
CODES = {0: "agree-accept", 1: "agree-reject", 2: "agree-panic", 3: "PRINT-DIFFERS", 4: "MODEL-REJECTS", 5: "MODEL-ACCEPTS",
         6: "PANIC-DISAGREE", 7: "fuel", 8: "reject-vs-panic(type position)"}


def hx(s): return (s if isinstance(s, bytes) else s.encode("latin-1")).hex()


# ---------------------------------------------------------------- leaf generators
def gen_string(rng):
    """returns (leaf text bytes of the literal, nominal length)"""
    n = rng.choice([0, 1, 2, 3, 5, 8, 17])
    out, ln = b'"', 0
    bad = rng.random() < 0.12
    for _ in range(n):
        k = rng.random()
        if k < 0.45:
            c = rng.choice([32, 33, 35, 65, 91, 93, 126, rng.randint(35, 126)])
            if c in (34, 92): c = 65
            out += bytes([c])
        elif k < 0.9:
            b = rng.choice([0, 9, 10, 13, 31, 34, 92, 127, 128, 255, rng.randrange(256)])
            out += ("\\x%02x" % b).encode() if rng.random() < 0.7 else ("\\x%02X" % b).encode()
        else:
            out += rng.choice([b"\\x4", b"\\n", b"\\\\", b"\\xg0", b"\x7f", b"\t"]) if bad else b"z"
        ln += 1
    return out + b'"', ln


def gen_dec(rng):
    k = rng.random()
    if k < 0.5: n = rng.choice([0, 1, 9, 10, 255, 256, 2**32, 2**63, 2**64 - 1, rng.randrange(2**64)])
    elif k < 0.7: n = rng.randrange(10**rng.randint(1, 19))
    elif k < 0.85: n = rng.choice([2**64, 2**64 + 1, 10**20, 10**25 + 7])
    else: return rng.choice([b"007", b"00", b"0x10", b"1_000", b"-1", b"12 ", b"1a"])
    return str(n).encode()


def gen_hex(rng):
    k = rng.random()
    if k < 0.6:
        v = rng.choice([0, 1, 2**255, 2**256 - 1, rng.randrange(2**256), rng.randrange(2**64)])
        s = "%064x" % v
        if rng.random() < 0.3: s = s.upper()
        return ("0x" + s).encode()
    return rng.choice([b"0x" + b"0" * 63, b"0x" + b"f" * 65, b"0x" + b"g" * 64, b"0X" + b"0" * 64, b"0x" + b"0" * 62])


def gen_ty(rng, d=0):
    """returns printed text of a random type in a random but legal spelling"""
    leaves = ["()", "unit", "bool", "u8", "u64", "u256", "b256", "slice", "ptr", "never", "string<%d>" % rng.choice([0, 1, 7, 2**64 - 1])]
    if d > 3 or rng.random() < 0.35: return rng.choice(leaves)
    sp = lambda: rng.choice(["", " ", "  "])
    k = rng.randrange(5)
    if k == 0: return "[%s%s;%s%d%s]" % (sp(), gen_ty(rng, d + 1), sp(), rng.choice([0, 1, 3, 2**64 - 1]), sp())
    if k == 1: return "{%s%s}" % (sp(), (","+sp()).join(gen_ty(rng, d + 1) for _ in range(rng.randrange(4))))
    if k == 2: return "(%s%s%s)" % (sp() or " ", ("|" + sp()).join(gen_ty(rng, d + 1) + sp() for _ in range(rng.randint(1, 3))), sp())
    if k == 3: return "__ptr %s" % gen_ty(rng, d + 1)
    return "__slice[%s%s%s]" % (sp(), gen_ty(rng, d + 1), sp())


BAD_TYPES = ["u16", "u32", "str", "(  )", "( )", "[u64]", "[u64; ]", "{u64,}", "string<>", "__ptr", "u64x", "uint", "( u64 | )", "string<18446744073709551616>"]


def run_c05(binp, lines, work, tag, env=None):
    import concurrent.futures as cf
    d = os.path.join(work, "run"); os.makedirs(d, exist_ok=True)
    nproc = min(NCPU, max(1, len(lines) // 200))
    def one(k):
        outp = os.path.join(d, "%s_%d.out" % (tag, k))
        if os.path.exists(outp): os.remove(outp)
        rc, text = rust.run(binp, [outp], input="".join(l + "\n" for l in lines[k::nproc]), timeout=3000, env=env)
        if rc != 0 or not os.path.exists(outp):
            raise RuntimeError("harness c05 failed rc=%s: %s" % (rc, text[-1500:]))
        res, cur = {}, None
        for l in open(outp, errors="replace"):
            if l[0] == "C": cur = l[2:].strip(); res[cur] = []
            elif l[0] in "RBL": res[cur].append(l.rstrip("\n"))
        return res
    out = {}
    with cf.ThreadPoolExecutor(max_workers=nproc) as ex:
        for r in ex.map(one, range(nproc)): out.update(r)
    return out


def rt_failure(rlines):
    """first step whose round trip is not good; None if all fine (pass failures are C04's subject)"""
    for l in rlines:
        p = l.split(" ", 3)
        st = p[3]
        if st.startswith("pass:") or st.startswith("passpanic") or st.startswith("input"):
            return None
        if st.split(" ")[0] not in GOOD:
            return (int(p[1]), p[2], st)
    return None


def run(ctx):
    ctx.level = "other"
    coq.build(["C05/Judge.vo"])          # separately: parallel make would interleave its output with the Print Assumptions of Props.v
    ok, out = coq.check_props(ctx, "C05")
    if not ok:
        ctx.log(out[-3000:])
        ctx.violation("proof", {"theorems": [o for o in ctx.obligations if not o[1]], "log": out[-2000:]}, "C05 proofs do not check", no_input=True)
    binp, bout = rust.build("c05")
    if binp is None:
        ctx.violation("harness-build", {"log": bout[-4000:]}, "harness c05 does not build against /repo", no_input=True)
        return
    rng, quick = ctx.rng, ctx.quick

    # ------------------------------------------------------------ leaves
    nleaf = 250 if quick else 3000
    leaves = []   # (kind, type text, value text or None, model input bytes)
    for _ in range(nleaf):
        lit, ln = gen_string(rng); leaves.append(("KStr", "string<%d>" % ln, lit, lit))
        v = gen_dec(rng); leaves.append(("KDec", rng.choice(["u64", "u64", "u8"]), v, v))
        v = gen_hex(rng); leaves.append(("KHex", rng.choice(["u256", "b256"]), v, v))
        t = gen_ty(rng).encode(); leaves.append(("KTy", t, None, t))
    for t in BAD_TYPES: leaves.append(("KTy", t.encode(), None, t.encode()))
    lines = []
    for i, (k, ty, val, _) in enumerate(leaves):
        if k == "KTy": lines.append("leaf\tl%d\ttype\t%s\t-" % (i, hx(ty)))
        else: lines.append("leaf\tl%d\tconst\t%s\t%s" % (i, hx(ty), hx(val)))
    try:
        res = run_c05(binp, lines, ctx.work, "leaf")
    except RuntimeError as e:
        ctx.violation("harness-run", {"log": str(e)[-3000:]}, "harness c05 failed to run", no_input=True); return
    items, impl_rt = [], collections.Counter()
    for i, (k, ty, val, minp) in enumerate(leaves):
        l = res.get("l%d" % i, ["L missing"])[0][2:]
        if l.startswith("ok "):
            p = l.split(" ")
            printed = bytes.fromhex(p[1]); impl_rt[p[2]] += 1
            if p[2] != "rt-ok":
                ctx.violation("leaf-rt:%s:%s" % (k, hx(minp)[:60]), {"kind": k, "type": ty if isinstance(ty, str) else ty.decode("latin-1"), "text": minp.decode("latin-1"), "result": p[2]},
                              "leaf %r: the printed module does not round-trip (%s)" % (minp[:60], p[2]))
            if k != "KTy":
                # printed = "<type> <value>": compare the value part only
                tys = ty if isinstance(ty, str) else ty.decode()
                sp = printed.find(b" ")
                printed = printed[sp + 1:] if sp >= 0 else printed
            r = "RPrinted %s" % coq.coqterm.nlist(printed)
        elif l.startswith("panic"): r = "RPanic"
        else: r = "RReject"
        items.append("(%s, %s, %s)" % (k, coq.coqterm.nlist(minp), r))
    nsh = min(NCPU, max(1, len(items) // 100))
    per = (len(items) + nsh - 1) // nsh
    shards = ["Definition cs : list (kind * bytes * rust_res) := [\n%s\n].\nEval vm_compute in (judge_all cs)." % ";\n".join(items[k * per:(k + 1) * per]) for k in range(nsh)]
    try:
        jres = coq.run_cases(ctx, "c05", "From SwayV Require Import Base.Util C05.Model C05.Judge.\nOpen Scope N_scope.", shards)
    except RuntimeError as e:
        ctx.violation("model-eval", {"log": str(e)[-3000:]}, "C05 judge could not be evaluated", no_input=True); return
    codes = [c for sh in jres for c in sh[0]]
    assert len(codes) == len(leaves), (len(codes), len(leaves))
    leaf_hist = collections.Counter()
    ndiff = 0
    for (k, ty, val, minp), c in zip(leaves, codes):
        leaf_hist["%s:%s" % (k, CODES.get(c, c))] += 1
        if 3 <= c <= 7:
            ndiff += 1
            if ndiff <= 5:
                ctx.violation("leaf-corr:%s:%s" % (k, hx(minp)[:60]), {"kind": k, "text": minp.decode("latin-1"), "judgement": CODES.get(c, c),
                              "correspondence": "C05 leaf model vs sway_ir parser/printer"},
                              "leaf model and implementation differ on %s %r (%s): theorems of C05/Props.v no longer tied to the code" % (k, minp[:60], CODES.get(c, c)),
                              no_input=True)
    ctx.log("leaves: %s ; implementation round trip %s" % (dict(leaf_hist), dict(impl_rt)))

    # ------------------------------------------------------------ whole modules
    ir_tests, ir_gen = corpus_files()
    files = ir_tests + ir_gen
    seqs = {}
    lines = []
    def add(f, ps):
        i = "m%d" % len(seqs); seqs[i] = (f, ps); lines.append("rt\t%s\t%s\t%s" % (i, f, ",".join(ps) or "-"))
    per_file = 12 if quick else 150
    maxlen = 8 if quick else 12
    for f in files:
        add(f, O1); add(f, O0)
        for p in TRANSFORMS: add(f, [p])
        for _ in range(per_file):
            add(f, [rng.choice(TRANSFORMS) for _ in range(rng.randint(2, maxlen))])
    be = {}
    for f in files:
        for lv in ("O0", "O1"):
            i = "b%d" % len(be); be[i] = (f, lv); lines.append("be\t%s\t%s\t%s" % (i, f, lv))
    try:
        res = run_c05(binp, lines, ctx.work, "mod")
    except RuntimeError as e:
        ctx.violation("harness-run", {"log": str(e)[-3000:]}, "harness c05 failed to run", no_input=True); return
    # The same under the ExperimentalFeatures default (new_encoding on, what a normal forc build uses): modules
    # compiled with the new encoding (corpus/C05/newenc: __entry, entry_orig, test entries, raw slice constants,
    # unnamed contract calls), and the old-encoding modules read into a new-encoding context.
    newenc = sorted(glob.glob(os.path.join(ROOT, "corpus/C05/newenc/*.ir")))
    if len(newenc) < 50:
        ctx.violation("corpus", {"newenc": len(newenc)}, "corpus/C05/newenc not found", no_input=True); return
    ne_lines, ne_seqs = [], {}
    def add_ne(f, ps):
        i = "n%d" % len(ne_seqs); ne_seqs[i] = (f, ps); ne_lines.append("rt\t%s\t%s\t%s" % (i, f, ",".join(ps) or "-"))
    for f in newenc:
        add_ne(f, O1); add_ne(f, O0)
        for _ in range(4 if quick else 60):
            add_ne(f, [rng.choice(TRANSFORMS) for _ in range(rng.randint(1, maxlen))])
    for f in files:
        add_ne(f, O0)
    ne_be = {}
    for f in newenc:
        for lv in ("O0", "O1"):
            i = "nb%d" % len(ne_be); ne_be[i] = (f, lv); ne_lines.append("be\t%s\t%s\t%s" % (i, f, lv))
    try:
        ne_res = run_c05(binp, ne_lines, ctx.work, "newenc", env={"HX_NEW_ENCODING": "1"})
    except RuntimeError as e:
        ctx.violation("harness-run", {"log": str(e)[-3000:]}, "harness c05 failed to run (new encoding)", no_input=True); return
    res.update(ne_res)
    nfiles_old = len(seqs)
    seqs.update(ne_seqs)
    for i, (f, lv) in ne_be.items(): be[i] = (f, lv)
    NEWENC = set(ne_seqs) | set(ne_be)

    rt_hist = collections.Counter()
    groups = {}
    stages = 0
    entrymut = None
    for i, (f, ps) in seqs.items():
        rl = res.get(i, [])
        for l in rl:
            stages += 1
            st = l.split(" ", 3)[3].split(" ")[0].split(":")[0]
            rt_hist[st] += 1
            if st == "ok-entrymut" and (entrymut is None or len(ps) < len(entrymut[1])):
                entrymut = (f, ps[:int(l.split(" ")[1])])
        ff = rt_failure(rl)
        if ff is None and rl and rl[0].split(" ", 3)[3].startswith("input") and "/corpus/C05/newenc/" in f:
            # a module printed by the compiler that the parser cannot read at all
            ff = (0, "parse", rl[0].split(" ", 3)[3])
        if ff is not None:
            cls = ff[2].split(" ")[0]
            groups.setdefault((f, ff[1], cls, i in NEWENC), (ps[:ff[0]], ff, i in NEWENC))
    # minimise
    cnt = [0]
    for (f, pname, cls, ne), (ps, ff, _ne) in sorted(groups.items(), key=lambda kv: (len(kv[1][0]), kv[0])):
        env = {"HX_NEW_ENCODING": "1"} if ne else None
        changed = True
        while changed and len(ps) > 1:
            changed = False
            for k in range(len(ps) - 1):
                trial = ps[:k] + ps[k + 1:]
                cnt[0] += 1
                r = run_c05(binp, ["rt\tx\t%s\t%s" % (f, ",".join(trial))], ctx.work, "min", env=env).get("x", [])
                f2 = rt_failure(r)
                if f2 is not None and f2[0] == len(trial) and f2[2].split(" ")[0] == cls:
                    ps = trial; changed = True; break
        detail = ff[2]
        if detail.startswith("diff "):
            p = detail.split(" ")
            try: detail = "line %s: %r became %r" % (p[1], bytes.fromhex(p[2]).decode()[:160].strip(), bytes.fromhex(p[3]).decode()[:160].strip())
            except Exception: pass
        key = "%s%s:%s" % ("newenc:" if ne else "", short(f), ",".join(ps))
        ctx.violation(key, {"ir_file": f, "passes": ps, "new_encoding_context": ne, "result": ff[2][:600],
                            "replay": "printf 'rt\\tx\\t%s\\t%s\\n' | %sharness/target/debug/c05 /dev/stdout" % (f, ",".join(ps), "HX_NEW_ENCODING=1 " if ne else "")},
                      "IR text of %s after [%s] does not round-trip: %s" % (short(f), ",".join(ps), detail))
    if entrymut is not None:
        ctx.violation("entry-arg-immutability", {"ir_file": entrymut[0], "passes": entrymut[1], "stages_affected": rt_hist["ok-entrymut"]},
                      "the immutability tag of entry-block arguments is lost in the text round trip: the printer writes `entry(x: __ptr T)` for an argument "
                      "tagged immutable (arg_pointee_mutability_tagger) and `entry(mut x: ...)` otherwise, the parser ignores the marker for the entry block "
                      "and always creates mutable arguments, so print(parse(print m)) shows `mut x` (e.g. %s after [%s])" % (short(entrymut[0]), ",".join(entrymut[1])))
    be_hist = collections.Counter()
    for i, (f, lv) in be.items():
        l = (res.get(i) or ["B missing"])[0][2:]
        cls = l.split(" ")[0].split(":")[0]
        be_hist[cls] += 1
        if cls in ("diff", "backend-rejects-reparsed", "reparse", "missing"):
            ctx.violation("%s:backend-%s" % (short(f), lv), {"ir_file": f, "level": lv, "result": l[:400]},
                          "after the %s pipeline the backend output for parse(print m) differs from the one for m on %s: %s" % (lv, short(f), l[:200]))
    ctx.log("modules: round trips %s ; backend %s ; %d minimisation runs" % (dict(rt_hist), dict(be_hist), cnt[0]))
    if rt_hist["ok"] + rt_hist["ok-renamed"] < 1000 or be_hist["ok"] < 100:
        ctx.violation("too-few", {"rt": dict(rt_hist), "be": dict(be_hist)}, "too few successful round trips: the check did not exercise the property", no_input=True)

    distinct = len({(f, tuple(ps)) for f, ps in seqs.values() if len(ps) >= 2})
    ctx.coverage.update({
        "explanation": "Leaf printers/parsers (string constants with escapes, u64 decimals, u256/b256 hex, type syntax) are modelled and the inversion "
                       "parse(print x) = x is proved for all well-formed x; the models are tied to the real parser/printer by differential runs through tiny "
                       "IR modules. The instruction grammar is not modelled: the round trip of whole modules is decided on the implementation for every corpus "
                       "module at every stage of the standard O0/O1 pipelines, every single pass and random pass sequences, modulo the arena-key value names "
                       "(second round trip must be exact), plus bytecode identity after the backend.",
        "checker_cmd": "make -C coq C05/Props.vo C05/Judge.vo; coqc vm_compute judge_all over leaf results",
        "trusted_base": ["Coq 8.16.1 kernel + vm_compute", "harness/src/bin/c05.rs (module templates, leaf extraction, name canonicalisation)", "props/c05.py"],
        "evaluations": len(leaves) + stages + len(be),
        "distinct_nontrivial": distinct,
        "rule": "leaf cases: random literals/types in legal and illegal spellings (%d); module cases: (module, pass sequence) with at least 2 passes, distinct by "
                "(file, sequence): O0 and O1 pipelines, each transformation pass alone, %d random sequences of length 2..%d per module, %d modules; "
                "every stage of every sequence is round-tripped (%d stages)" % (len(leaves), per_file, maxlen, len(files), stages),
        "samples": [{"leaf": leaves[k][3].decode("latin-1")[:60], "kind": leaves[k][0], "judgement": CODES.get(codes[k], codes[k])} for k in (0, 1, 2, 3)]
                   + [{"file": short(f), "passes": ps[:6]} for f, ps in list(seqs.values())[20:22]],
        "leaf_judgements": dict(leaf_hist), "leaf_implementation_roundtrip": dict(impl_rt),
        "module_roundtrips": dict(rt_hist), "backend_identity": dict(be_hist), "stages": stages,
    })
    ctx.assumptions += ["leaf models equal the implementation only as far as the generated leaf cases show",
                        "instruction grammar, metadata and module structure are not modelled; validated per module",
                        "value names are compared modulo the printer's arena-key naming (print(parse(print m)) is literally different after passes)",
                        "behavioural identity after the backend is established as bytecode identity"]
