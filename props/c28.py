"""C28 — persistent storage collections behave like their models.
Theorems: coq/C28/Props.v (slot-store model of storage_api/storage_vec/storage_map/storable_slice refines
list / map / byte-string models; frame).  Correspondence + the property on the implementation: generated
contract packages (two StorageVec<u64>, three StorageMap, StorageBytes, StorageString) whose #[test]
functions run random operation histories through abi(S, CONTRACT_ID) on fuel-vm and log every result;
judged inside Coq (C28/Judge.v) against S (the property) and M (correspondence), with sha256 instantiated
by a digest table computed here with hashlib."""
import os, sys, json, hashlib
from vlib import coq, sway, rust
from vlib.core import ROOT, NCPU

sys.path.insert(0, os.path.join(ROOT, "tools"))

U64 = 2 ** 64
LCG_A, LCG_C, LCG_M = 1103515245, 12345, 2 ** 31


def lcg(x):
    return (x * LCG_A + LCG_C) % LCG_M


def lcg_bytes(seed, n, ascii_only):
    out, x = [], seed
    for _ in range(n):
        x = lcg(x)
        b = (x >> 16) & 0xff
        out.append(32 + b % 95 if ascii_only else b)
    return out


def lcg_words(seed, n):
    out, x = [], seed
    for _ in range(n):
        x = lcg(x); hi = x
        x = lcg(x)
        out.append(hi * LCG_M + x)
    return out


def sha(bs):
    return int.from_bytes(hashlib.sha256(bytes(bs)).digest(), "big")


def be(n, x):
    return list(x.to_bytes(n, "big"))


# ---------------------------------------------------------------- Sway source of a package
CONTRACT = r'''contract;
use std::storage::storage_vec::*;
use std::storage::storage_map::*;
use std::storage::storage_bytes::*;
use std::storage::storage_string::*;
use std::storage::storable_slice::*;
use std::storage::storage_api::read_quads;
use std::bytes::Bytes;
use std::string::String;
use std::hash::*;

struct P5 { a: u64, b: u64, c: u64, d: u64, e: u64 }
struct S3 { a: u64, b: u64, c: u64 }
struct S7 { a: u64, b: u64, c: u64, d: u64, e: u64, f: u64, g: u64 }
// word offsets: a 0, b 1, c 2..4 (crosses slot 0/1), d 5..11 (place 1), e 12, f 13, g 14..20 (place 2, three slots), h 21..23
struct Nest { a: u64, b: u64, c: S3, d: S7, e: u64, f: u64, g: S7, h: S3 }

storage {
    %(va)s: StorageVec<u64> = StorageVec {},
    %(ma)s: StorageMap<u64, u64> = StorageMap {},
    %(ba)s: StorageBytes = StorageBytes {},
    %(vb)s: StorageVec<u64> = StorageVec {},
    %(mb)s: StorageMap<b256, u64> = StorageMap {},
    %(sa)s: StorageString = StorageString {},
    %(mc)s: StorageMap<u64, P5> = StorageMap {},
    %(vc)s: StorageVec<S3> = StorageVec {},
    %(vd)s: StorageVec<S7> = StorageVec {},
    %(st)s: Nest = %(st_init)s,
}
abi S {
    #[storage(read, write)] fn v_push(f: u64, v: u64) -> Vec<u64>;
    #[storage(read, write)] fn v_pop(f: u64) -> Vec<u64>;
    #[storage(read)] fn v_get(f: u64, i: u64) -> Vec<u64>;
    #[storage(read, write)] fn v_set(f: u64, i: u64, v: u64) -> Vec<u64>;
    #[storage(read, write)] fn v_insert(f: u64, i: u64, v: u64) -> Vec<u64>;
    #[storage(read, write)] fn v_remove(f: u64, i: u64) -> Vec<u64>;
    #[storage(read, write)] fn v_swap(f: u64, i: u64, j: u64) -> Vec<u64>;
    #[storage(read, write)] fn v_swap_remove(f: u64, i: u64) -> Vec<u64>;
    #[storage(read)] fn v_len(f: u64) -> Vec<u64>;
    #[storage(read)] fn v_is_empty(f: u64) -> Vec<u64>;
    #[storage(read, write)] fn v_clear(f: u64) -> Vec<u64>;
    #[storage(read)] fn v_first(f: u64) -> Vec<u64>;
    #[storage(read)] fn v_last(f: u64) -> Vec<u64>;
    #[storage(read, write)] fn v_reverse(f: u64) -> Vec<u64>;
    #[storage(read, write)] fn v_fill(f: u64, v: u64) -> Vec<u64>;
    #[storage(read, write)] fn v_resize(f: u64, n: u64, v: u64) -> Vec<u64>;
    #[storage(read, write)] fn v_store(f: u64, seed: u64, n: u64) -> Vec<u64>;
    #[storage(read)] fn v_load(f: u64) -> Vec<u64>;
    #[storage(read, write)] fn ma_insert(k: u64, v: u64) -> Vec<u64>;
    #[storage(read)] fn ma_get(k: u64) -> Vec<u64>;
    #[storage(read, write)] fn ma_remove(k: u64) -> Vec<u64>;
    #[storage(read, write)] fn ma_try_insert(k: u64, v: u64) -> Vec<u64>;
    #[storage(read, write)] fn mb_insert(k: b256, v: u64) -> Vec<u64>;
    #[storage(read)] fn mb_get(k: b256) -> Vec<u64>;
    #[storage(read, write)] fn mb_remove(k: b256) -> Vec<u64>;
    #[storage(read, write)] fn mb_try_insert(k: b256, v: u64) -> Vec<u64>;
    #[storage(read, write)] fn mc_insert(k: u64, v: P5) -> Vec<u64>;
    #[storage(read)] fn mc_get(k: u64) -> Vec<u64>;
    #[storage(read, write)] fn mc_remove(k: u64) -> Vec<u64>;
    #[storage(read, write)] fn mc_try_insert(k: u64, v: P5) -> Vec<u64>;
    #[storage(read, write)] fn b_write(f: u64, seed: u64, n: u64) -> Vec<u64>;
    #[storage(read)] fn b_read(f: u64) -> Vec<u64>;
    #[storage(read, write)] fn b_clear(f: u64) -> Vec<u64>;
    #[storage(read, write)] fn b_clear_key(f: u64) -> Vec<u64>;
    #[storage(read)] fn b_len(f: u64) -> Vec<u64>;
    #[storage(read)] fn probe(k: b256) -> Vec<u64>;
    #[storage(read, write)] fn x3_push(v: S3) -> Vec<u64>;
    #[storage(read, write)] fn x3_pop() -> Vec<u64>;
    #[storage(read)] fn x3_get(i: u64) -> Vec<u64>;
    #[storage(read, write)] fn x3_set(i: u64, v: S3) -> Vec<u64>;
    #[storage(read, write)] fn x3_insert(i: u64, v: S3) -> Vec<u64>;
    #[storage(read, write)] fn x3_remove(i: u64) -> Vec<u64>;
    #[storage(read, write)] fn x3_swap(i: u64, j: u64) -> Vec<u64>;
    #[storage(read, write)] fn x3_swap_remove(i: u64) -> Vec<u64>;
    #[storage(read)] fn x3_len() -> Vec<u64>;
    #[storage(read)] fn x3_first() -> Vec<u64>;
    #[storage(read)] fn x3_last() -> Vec<u64>;
    #[storage(read, write)] fn x3_reverse() -> Vec<u64>;
    #[storage(read, write)] fn x3_fill(v: S3) -> Vec<u64>;
    #[storage(read, write)] fn x3_resize(n: u64, v: S3) -> Vec<u64>;
    #[storage(read)] fn x3_load() -> Vec<u64>;
    #[storage(read, write)] fn x7_push(v: S7) -> Vec<u64>;
    #[storage(read, write)] fn x7_pop() -> Vec<u64>;
    #[storage(read)] fn x7_get(i: u64) -> Vec<u64>;
    #[storage(read, write)] fn x7_set(i: u64, v: S7) -> Vec<u64>;
    #[storage(read, write)] fn x7_insert(i: u64, v: S7) -> Vec<u64>;
    #[storage(read, write)] fn x7_remove(i: u64) -> Vec<u64>;
    #[storage(read)] fn x7_len() -> Vec<u64>;
    #[storage(read)] fn x7_load() -> Vec<u64>;
    #[storage(read)] fn c_read(i: u64) -> Vec<u64>;
    #[storage(read, write)] fn c_w1(i: u64, v: u64) -> Vec<u64>;
    #[storage(read, write)] fn c_w3(i: u64, v: S3) -> Vec<u64>;
    #[storage(read, write)] fn c_w7(i: u64, v: S7) -> Vec<u64>;
}
fn lcg(x: u64) -> u64 { (x * 1103515245 + 12345) %% 2147483648 }
fn mkbytes(seed: u64, n: u64, ascii_only: bool) -> Bytes {
    let mut b = Bytes::new();
    let mut x = seed;
    let mut i = 0;
    while i < n {
        x = lcg(x);
        let y = (x >> 16) & 0xff;
        let z = if ascii_only { 32 + y %% 95 } else { y };
        b.push(z.try_as_u8().unwrap());
        i += 1;
    }
    b
}
fn mkwords(seed: u64, n: u64) -> Vec<u64> {
    let mut r = Vec::new();
    let mut x = seed;
    let mut i = 0;
    while i < n {
        x = lcg(x);
        let hi = x;
        x = lcg(x);
        r.push(hi * 2147483648 + x);
        i += 1;
    }
    r
}
fn o0() -> Vec<u64> { Vec::new() }
fn o1(a: u64) -> Vec<u64> { let mut r = Vec::new(); r.push(a); r }
fn o2(a: u64, b: u64) -> Vec<u64> { let mut r = Vec::new(); r.push(a); r.push(b); r }
fn ob(b: bool) -> Vec<u64> { o1(if b { 1 } else { 0 }) }
#[storage(read)]
fn okey(k: Option<StorageKey<u64>>) -> Vec<u64> {
    match k {
        Some(k) => match k.try_read() { Some(v) => o2(1, v), None => o1(2), },
        None => o1(0),
    }
}
fn obytes(b: Bytes) -> Vec<u64> {
    let mut r = Vec::new();
    r.push(1);
    let mut i = 0;
    while i < b.len() { r.push(b.get(i).unwrap().as_u64()); i += 1; }
    r
}
fn op5(tag: u64, v: P5) -> Vec<u64> {
    let mut r = Vec::new();
    r.push(tag); r.push(v.a); r.push(v.b); r.push(v.c); r.push(v.d); r.push(v.e);
    r
}
fn p3(ref mut r: Vec<u64>, v: S3) { r.push(v.a); r.push(v.b); r.push(v.c); }
fn p7(ref mut r: Vec<u64>, v: S7) { r.push(v.a); r.push(v.b); r.push(v.c); r.push(v.d); r.push(v.e); r.push(v.f); r.push(v.g); }
fn o3(v: S3) -> Vec<u64> { let mut r = Vec::new(); p3(r, v); r }
fn o7(v: S7) -> Vec<u64> { let mut r = Vec::new(); p7(r, v); r }
fn t3(v: S3) -> Vec<u64> { let mut r = Vec::new(); r.push(1); p3(r, v); r }
fn t7(v: S7) -> Vec<u64> { let mut r = Vec::new(); r.push(1); p7(r, v); r }
#[storage(read)]
fn okey3(k: Option<StorageKey<S3>>) -> Vec<u64> {
    match k {
        Some(k) => match k.try_read() { Some(v) => t3(v), None => o1(2), },
        None => o1(0),
    }
}
#[storage(read)]
fn okey7(k: Option<StorageKey<S7>>) -> Vec<u64> {
    match k {
        Some(k) => match k.try_read() { Some(v) => t7(v), None => o1(2), },
        None => o1(0),
    }
}
impl S for Contract {
    #[storage(read, write)] fn x3_push(v: S3) -> Vec<u64> { storage.%(vc)s.push(v); o0() }
    #[storage(read, write)] fn x3_pop() -> Vec<u64> { match storage.%(vc)s.pop() { Some(v) => t3(v), None => o1(0), } }
    #[storage(read)] fn x3_get(i: u64) -> Vec<u64> { okey3(storage.%(vc)s.get(i)) }
    #[storage(read, write)] fn x3_set(i: u64, v: S3) -> Vec<u64> { storage.%(vc)s.set(i, v); o0() }
    #[storage(read, write)] fn x3_insert(i: u64, v: S3) -> Vec<u64> { storage.%(vc)s.insert(i, v); o0() }
    #[storage(read, write)] fn x3_remove(i: u64) -> Vec<u64> { o3(storage.%(vc)s.remove(i)) }
    #[storage(read, write)] fn x3_swap(i: u64, j: u64) -> Vec<u64> { storage.%(vc)s.swap(i, j); o0() }
    #[storage(read, write)] fn x3_swap_remove(i: u64) -> Vec<u64> { o3(storage.%(vc)s.swap_remove(i)) }
    #[storage(read)] fn x3_len() -> Vec<u64> { o1(storage.%(vc)s.len()) }
    #[storage(read)] fn x3_first() -> Vec<u64> { okey3(storage.%(vc)s.first()) }
    #[storage(read)] fn x3_last() -> Vec<u64> { okey3(storage.%(vc)s.last()) }
    #[storage(read, write)] fn x3_reverse() -> Vec<u64> { storage.%(vc)s.reverse(); o0() }
    #[storage(read, write)] fn x3_fill(v: S3) -> Vec<u64> { storage.%(vc)s.fill(v); o0() }
    #[storage(read, write)] fn x3_resize(n: u64, v: S3) -> Vec<u64> { storage.%(vc)s.resize(n, v); o0() }
    #[storage(read)] fn x3_load() -> Vec<u64> {
        let l = storage.%(vc)s.load_vec();
        let mut r = Vec::new();
        let mut i = 0;
        while i < l.len() { p3(r, l.get(i).unwrap()); i += 1; }
        r
    }
    #[storage(read, write)] fn x7_push(v: S7) -> Vec<u64> { storage.%(vd)s.push(v); o0() }
    #[storage(read, write)] fn x7_pop() -> Vec<u64> { match storage.%(vd)s.pop() { Some(v) => t7(v), None => o1(0), } }
    #[storage(read)] fn x7_get(i: u64) -> Vec<u64> { okey7(storage.%(vd)s.get(i)) }
    #[storage(read, write)] fn x7_set(i: u64, v: S7) -> Vec<u64> { storage.%(vd)s.set(i, v); o0() }
    #[storage(read, write)] fn x7_insert(i: u64, v: S7) -> Vec<u64> { storage.%(vd)s.insert(i, v); o0() }
    #[storage(read, write)] fn x7_remove(i: u64) -> Vec<u64> { o7(storage.%(vd)s.remove(i)) }
    #[storage(read)] fn x7_len() -> Vec<u64> { o1(storage.%(vd)s.len()) }
    #[storage(read)] fn x7_load() -> Vec<u64> {
        let l = storage.%(vd)s.load_vec();
        let mut r = Vec::new();
        let mut i = 0;
        while i < l.len() { p7(r, l.get(i).unwrap()); i += 1; }
        r
    }
    #[storage(read)] fn c_read(i: u64) -> Vec<u64> {
        if i == 0 { match storage.%(st)s.a.try_read() { Some(v) => o2(1, v), None => o1(0), } }
        else if i == 1 { match storage.%(st)s.b.try_read() { Some(v) => o2(1, v), None => o1(0), } }
        else if i == 2 { match storage.%(st)s.c.try_read() { Some(v) => t3(v), None => o1(0), } }
        else if i == 3 { match storage.%(st)s.d.try_read() { Some(v) => t7(v), None => o1(0), } }
        else if i == 4 { match storage.%(st)s.e.try_read() { Some(v) => o2(1, v), None => o1(0), } }
        else if i == 5 { match storage.%(st)s.f.try_read() { Some(v) => o2(1, v), None => o1(0), } }
        else if i == 6 { match storage.%(st)s.g.try_read() { Some(v) => t7(v), None => o1(0), } }
        else { match storage.%(st)s.h.try_read() { Some(v) => t3(v), None => o1(0), } }
    }
    #[storage(read, write)] fn c_w1(i: u64, v: u64) -> Vec<u64> {
        if i == 0 { storage.%(st)s.a.write(v); } else if i == 1 { storage.%(st)s.b.write(v); } else if i == 4 { storage.%(st)s.e.write(v); } else { storage.%(st)s.f.write(v); }
        o0()
    }
    #[storage(read, write)] fn c_w3(i: u64, v: S3) -> Vec<u64> { if i == 2 { storage.%(st)s.c.write(v); } else { storage.%(st)s.h.write(v); } o0() }
    #[storage(read, write)] fn c_w7(i: u64, v: S7) -> Vec<u64> { if i == 3 { storage.%(st)s.d.write(v); } else { storage.%(st)s.g.write(v); } o0() }
    #[storage(read, write)] fn v_push(f: u64, v: u64) -> Vec<u64> { if f == 0 { storage.%(va)s.push(v); } else { storage.%(vb)s.push(v); } o0() }
    #[storage(read, write)] fn v_pop(f: u64) -> Vec<u64> {
        let r = if f == 0 { storage.%(va)s.pop() } else { storage.%(vb)s.pop() };
        match r { Some(v) => o2(1, v), None => o1(0), }
    }
    #[storage(read)] fn v_get(f: u64, i: u64) -> Vec<u64> { okey(if f == 0 { storage.%(va)s.get(i) } else { storage.%(vb)s.get(i) }) }
    #[storage(read, write)] fn v_set(f: u64, i: u64, v: u64) -> Vec<u64> { if f == 0 { storage.%(va)s.set(i, v); } else { storage.%(vb)s.set(i, v); } o0() }
    #[storage(read, write)] fn v_insert(f: u64, i: u64, v: u64) -> Vec<u64> { if f == 0 { storage.%(va)s.insert(i, v); } else { storage.%(vb)s.insert(i, v); } o0() }
    #[storage(read, write)] fn v_remove(f: u64, i: u64) -> Vec<u64> { o1(if f == 0 { storage.%(va)s.remove(i) } else { storage.%(vb)s.remove(i) }) }
    #[storage(read, write)] fn v_swap(f: u64, i: u64, j: u64) -> Vec<u64> { if f == 0 { storage.%(va)s.swap(i, j); } else { storage.%(vb)s.swap(i, j); } o0() }
    #[storage(read, write)] fn v_swap_remove(f: u64, i: u64) -> Vec<u64> { o1(if f == 0 { storage.%(va)s.swap_remove(i) } else { storage.%(vb)s.swap_remove(i) }) }
    #[storage(read)] fn v_len(f: u64) -> Vec<u64> { o1(if f == 0 { storage.%(va)s.len() } else { storage.%(vb)s.len() }) }
    #[storage(read)] fn v_is_empty(f: u64) -> Vec<u64> { ob(if f == 0 { storage.%(va)s.is_empty() } else { storage.%(vb)s.is_empty() }) }
    #[storage(read, write)] fn v_clear(f: u64) -> Vec<u64> { ob(if f == 0 { storage.%(va)s.clear() } else { storage.%(vb)s.clear() }) }
    #[storage(read)] fn v_first(f: u64) -> Vec<u64> { okey(if f == 0 { storage.%(va)s.first() } else { storage.%(vb)s.first() }) }
    #[storage(read)] fn v_last(f: u64) -> Vec<u64> { okey(if f == 0 { storage.%(va)s.last() } else { storage.%(vb)s.last() }) }
    #[storage(read, write)] fn v_reverse(f: u64) -> Vec<u64> { if f == 0 { storage.%(va)s.reverse(); } else { storage.%(vb)s.reverse(); } o0() }
    #[storage(read, write)] fn v_fill(f: u64, v: u64) -> Vec<u64> { if f == 0 { storage.%(va)s.fill(v); } else { storage.%(vb)s.fill(v); } o0() }
    #[storage(read, write)] fn v_resize(f: u64, n: u64, v: u64) -> Vec<u64> { if f == 0 { storage.%(va)s.resize(n, v); } else { storage.%(vb)s.resize(n, v); } o0() }
    #[storage(read, write)] fn v_store(f: u64, seed: u64, n: u64) -> Vec<u64> { if f == 0 { storage.%(va)s.store_vec(mkwords(seed, n)); } else { storage.%(vb)s.store_vec(mkwords(seed, n)); } o0() }
    #[storage(read)] fn v_load(f: u64) -> Vec<u64> { if f == 0 { storage.%(va)s.load_vec() } else { storage.%(vb)s.load_vec() } }

    #[storage(read, write)] fn ma_insert(k: u64, v: u64) -> Vec<u64> { storage.%(ma)s.insert(k, v); o0() }
    #[storage(read)] fn ma_get(k: u64) -> Vec<u64> { match storage.%(ma)s.get(k).try_read() { Some(v) => o2(1, v), None => o1(0), } }
    #[storage(read, write)] fn ma_remove(k: u64) -> Vec<u64> { ob(storage.%(ma)s.remove(k)) }
    #[storage(read, write)] fn ma_try_insert(k: u64, v: u64) -> Vec<u64> {
        match storage.%(ma)s.try_insert(k, v) { Ok(x) => o2(0, x), Err(StorageMapError::OccupiedError(x)) => o2(1, x), }
    }
    #[storage(read, write)] fn mb_insert(k: b256, v: u64) -> Vec<u64> { storage.%(mb)s.insert(k, v); o0() }
    #[storage(read)] fn mb_get(k: b256) -> Vec<u64> { match storage.%(mb)s.get(k).try_read() { Some(v) => o2(1, v), None => o1(0), } }
    #[storage(read, write)] fn mb_remove(k: b256) -> Vec<u64> { ob(storage.%(mb)s.remove(k)) }
    #[storage(read, write)] fn mb_try_insert(k: b256, v: u64) -> Vec<u64> {
        match storage.%(mb)s.try_insert(k, v) { Ok(x) => o2(0, x), Err(StorageMapError::OccupiedError(x)) => o2(1, x), }
    }
    #[storage(read, write)] fn mc_insert(k: u64, v: P5) -> Vec<u64> { storage.%(mc)s.insert(k, v); o0() }
    #[storage(read)] fn mc_get(k: u64) -> Vec<u64> { match storage.%(mc)s.get(k).try_read() { Some(v) => op5(1, v), None => o1(0), } }
    #[storage(read, write)] fn mc_remove(k: u64) -> Vec<u64> { ob(storage.%(mc)s.remove(k)) }
    #[storage(read, write)] fn mc_try_insert(k: u64, v: P5) -> Vec<u64> {
        match storage.%(mc)s.try_insert(k, v) { Ok(x) => op5(0, x), Err(StorageMapError::OccupiedError(x)) => op5(1, x), }
    }

    #[storage(read, write)] fn b_write(f: u64, seed: u64, n: u64) -> Vec<u64> {
        if f == 0 { storage.%(ba)s.write_slice(mkbytes(seed, n, false)); } else { storage.%(sa)s.write_slice(String::from_ascii(mkbytes(seed, n, true))); }
        o0()
    }
    #[storage(read)] fn b_read(f: u64) -> Vec<u64> {
        if f == 0 { match storage.%(ba)s.read_slice() { Some(b) => obytes(b), None => o1(0), } }
        else { match storage.%(sa)s.read_slice() { Some(s) => obytes(s.as_bytes()), None => o1(0), } }
    }
    #[storage(read, write)] fn b_clear(f: u64) -> Vec<u64> {
        ob(if f == 0 { <StorageKey<StorageBytes> as StorableSlice<Bytes>>::clear(storage.%(ba)s) } else { <StorageKey<StorageString> as StorableSlice<String>>::clear(storage.%(sa)s) })
    }
    #[storage(read, write)] fn b_clear_key(f: u64) -> Vec<u64> { ob(if f == 0 { storage.%(ba)s.clear() } else { storage.%(sa)s.clear() }) }
    #[storage(read)] fn b_len(f: u64) -> Vec<u64> { o1(if f == 0 { storage.%(ba)s.len() } else { storage.%(sa)s.len() }) }
    #[storage(read)] fn probe(k: b256) -> Vec<u64> {
        match read_quads::<(u64, u64, u64, u64)>(k, 0) {
            Some(v) => { let mut r = Vec::new(); r.push(1); r.push(v.0); r.push(v.1); r.push(v.2); r.push(v.3); r },
            None => o1(0),
        }
    }
}
'''

VEC_OPS = ["push", "push", "push", "pop", "get", "get", "set", "insert", "remove", "swap", "swap_remove", "len", "is_empty",
           "clear", "first", "last", "reverse", "fill", "resize", "store", "load", "load"]
MAP_OPS = ["insert", "insert", "get", "get", "remove", "try_insert"]
BYTES_OPS = ["write", "write", "write", "read", "read", "clear", "clear_key", "len"]
FIELD_ORDER = ["va", "ma", "ba", "vb", "mb", "sa", "mc", "vc", "vd", "st"]
WVEC = {"vc": (3, "x3", ["push", "push", "push", "pop", "get", "get", "get", "set", "set", "insert", "remove", "swap", "swap_remove",
                         "len", "first", "last", "reverse", "fill", "resize", "load", "load"]),
        "vd": (7, "x7", ["push", "push", "push", "pop", "get", "get", "get", "set", "insert", "remove", "len", "load"])}
# struct fields of the Nest-typed storage field: index -> (word offset, words, is reference type)
CELLS = {0: (0, 1, False), 1: (1, 1, False), 2: (2, 3, True), 3: (5, 7, True), 4: (12, 1, False), 5: (13, 1, False), 6: (14, 7, True), 7: (21, 3, True)}
NEST_WORDS = 24


def rand_val(rng):
    return rng.choice([0, 1, U64 - 1, rng.randrange(U64), rng.randrange(U64), rng.randrange(1000)])


class Pkg:
    """one generated contract: field names, key pools, histories."""
    def __init__(self, rng, idx):
        self.idx = idx
        self.names = {}
        used = set()
        for k in FIELD_ORDER:
            while True:
                n = k + "_" + "".join(rng.choice("abcdefghijklmnopqrstuvwxyz0123456789_") for _ in range(rng.choice([1, 3, 8, 20])))
                if n not in used and not n.endswith("_"):
                    break
            used.add(n); self.names[k] = n
        self.fid = {k: sha([0] + list(("storage." + n).encode())) for k, n in self.names.items()}
        base = rng.randrange(2 ** 256 - 8)
        self.keys = {"ma": [0, 1, U64 - 1, rng.randrange(U64), rng.randrange(U64)],
                     "mc": [0, 2, rng.randrange(U64), rng.randrange(1 << 20)],
                     "mb": [0, 2 ** 256 - 1, base, base + 1, rng.randrange(2 ** 256)]}
        self.st_init = [rand_val(rng) for _ in range(NEST_WORDS)]
        self.tab = {}     # preimage (tuple of bytes) -> digest
        for k, n in self.names.items():
            self.h([0] + list(("storage." + n).encode()))
        self.tests = []

    def h(self, pre):
        d = sha(pre)
        self.tab[tuple(pre)] = d
        return d

    def base(self, k):            # sha256(field_id)
        return self.h(be(32, self.fid[k]))

    def kbytes(self, m, key):
        return be(32, key) if m == "mb" else be(8, key)

    def mslot(self, m, key):
        return self.h([1] + self.kbytes(m, key) + be(32, self.fid[m]))


def gen_history(rng, pkg, maxlen):
    """returns (ops, reverts): ops are tuples; a reverting op (if any) is the last one."""
    n = rng.randint(3, maxlen)
    want_revert = rng.random() < 0.25
    lens = {"va": 0, "vb": 0}
    ops = []
    touched = []          # candidate probe slots
    focus = rng.choice(["vec", "vec", "map", "bytes", "mix", "mix", "vecw", "vecw", "cell"])
    lens.update({"vc": 0, "vd": 0})
    while len(ops) < n:
        kind = focus if focus != "mix" else rng.choice(["vec", "vec", "map", "bytes", "vecw", "cell"])
        if rng.random() < 0.15:
            kind = rng.choice(["vec", "map", "bytes", "vecw", "cell"])
        if kind == "vecw":
            f = rng.choice(["vc", "vc", "vd"])
            w, _, names = WVEC[f]
            L = lens[f]
            o = rng.choice(names)
            if L < 3 and rng.random() < 0.6:
                o = "push"

            def idxw(valid_upto):
                if valid_upto > 0 and rng.random() < 0.9:
                    return rng.randrange(valid_upto)
                return rng.choice([valid_upto, valid_upto + 1, U64 - 1])
            val = [rand_val(rng) for _ in range(w)]
            if o == "push": op = ("w", f, "push", val); lens[f] += 1
            elif o == "pop": op = ("w", f, "pop"); lens[f] = max(0, L - 1)
            elif o == "get": op = ("w", f, "get", idxw(L))
            elif o in ("len", "first", "last", "load", "reverse"): op = ("w", f, o)
            elif o == "fill": op = ("w", f, "fill", val)
            elif o == "resize":
                m = rng.choice([0, L, L + 1, rng.randint(0, 7)]); op = ("w", f, "resize", m, val); lens[f] = m
            elif o == "set":
                i = idxw(L); op = ("w", f, "set", i, val)
                if i >= L: op = op + ("REVERT",)
            elif o == "insert":
                i = idxw(L + 1); op = ("w", f, "insert", i, val)
                if i > L: op = op + ("REVERT",)
                else: lens[f] += 1
            elif o in ("remove", "swap_remove"):
                i = idxw(L); op = ("w", f, o, i)
                if i >= L: op = op + ("REVERT",)
                else: lens[f] -= 1
            elif o == "swap":
                i, j = idxw(L), idxw(L); op = ("w", f, "swap", i, j)
                if i >= L or j >= L: op = op + ("REVERT",)
            if op[-1] == "REVERT":
                if want_revert and len(ops) >= 2:
                    ops.append(op[:-1])
                    return ops, True
                continue
            ops.append(op)
            b = pkg.base(f)
            touched += [pkg.fid[f]] + [b + j for j in range(6)]
        elif kind == "cell":
            i = rng.randrange(8)
            off, w, _ = CELLS[i]
            if rng.random() < 0.5:
                ops.append(("c", i, "read"))
            else:
                ops.append(("c", i, "write", [rand_val(rng) for _ in range(w)]))
            touched += [pkg.fid["st"] + j for j in range(6)]
        elif kind == "vec":
            f = rng.choice(["va", "vb"])
            L = lens[f]
            o = rng.choice(VEC_OPS)
            if L == 0 and rng.random() < 0.6:
                o = rng.choice(["push", "push", "resize", "store", "insert"])

            def idx(valid_upto):     # an index that is valid when < valid_upto
                if valid_upto > 0 and rng.random() < 0.9:
                    return rng.choice([0, valid_upto - 1, rng.randrange(valid_upto)])
                return rng.choice([valid_upto, valid_upto + 1, U64 - 1, rng.randrange(U64)])
            if o == "push": op = ("v", f, "push", rand_val(rng)); lens[f] += 1
            elif o == "pop": op = ("v", f, "pop"); lens[f] = max(0, L - 1)
            elif o == "get": op = ("v", f, "get", idx(L))
            elif o in ("len", "is_empty", "first", "last", "load", "reverse"): op = ("v", f, o)
            elif o == "clear": op = ("v", f, "clear"); lens[f] = 0
            elif o == "fill": op = ("v", f, "fill", rand_val(rng))
            elif o == "resize":
                m = rng.choice([0, L, L + 1, rng.randint(0, 13), rng.randint(0, 9)])
                op = ("v", f, "resize", m, rand_val(rng)); lens[f] = m
            elif o == "store":
                m = rng.randint(0, 11)
                op = ("v", f, "store", rng.randrange(LCG_M), m); lens[f] = m
            elif o == "set":
                i = idx(L); op = ("v", f, "set", i, rand_val(rng))
                if i >= L: op = op + ("REVERT",)
            elif o == "insert":
                i = idx(L + 1); op = ("v", f, "insert", i, rand_val(rng))
                if i > L: op = op + ("REVERT",)
                else: lens[f] += 1
            elif o in ("remove", "swap_remove"):
                i = idx(L); op = ("v", f, o, i)
                if i >= L: op = op + ("REVERT",)
                else: lens[f] -= 1
            elif o == "swap":
                i, j = idx(L), idx(L); op = ("v", f, "swap", i, j)
                if i >= L or j >= L: op = op + ("REVERT",)
            if op[-1] == "REVERT":
                if want_revert and len(ops) >= 2:
                    ops.append(op[:-1])
                    return ops, True
                continue
            ops.append(op)
            b = pkg.base(f)
            touched += [pkg.fid[f], b, b + 1, b + 2, b + 3]
        elif kind == "map":
            m = rng.choice(["ma", "mb", "mc"])
            key = rng.choice(pkg.keys[m])
            o = rng.choice(MAP_OPS)
            if o in ("insert", "try_insert"):
                v = [rand_val(rng) for _ in range(5 if m == "mc" else 1)]
                ops.append(("m", m, o, key, v))
            else:
                ops.append(("m", m, o, key))
            sl = pkg.mslot(m, key)
            touched += [sl, sl + 1] if m == "mc" else [sl, sl + 1]
        else:
            f = rng.choice(["ba", "sa"])
            o = rng.choice(BYTES_OPS)
            if o == "write":
                nb = rng.choice([0, 1, 7, 8, 31, 32, 33, 64, 65, rng.randint(0, 100), rng.randint(0, 40)])
                ops.append(("b", f, "write", rng.randrange(LCG_M), nb))
            else:
                ops.append(("b", f, o))
            b = pkg.base(f)
            touched += [pkg.fid[f], b, b + 1, b + 2]
    # probes of raw slots (M only) replace the tail of the history
    touched = [t for t in touched if t < 2 ** 256]
    if touched:
        k = rng.randint(1, 4)
        probes = [("p", rng.choice(touched)) for _ in range(k)]
        ops = ops[:max(1, maxlen - k)] + probes if len(ops) + k > maxlen else ops + probes
    return ops, False


def sway_struct(v):
    if len(v) == 1:
        return str(v[0])
    return "S%d { %s }" % (len(v), ", ".join("%s: %d" % (n, x) for n, x in zip("abcdefg", v)))


def sway_call(pkg, op):
    if op[0] == "w":
        return "c.%s_%s(%s)" % (WVEC[op[1]][1], op[2], ", ".join(sway_struct(a) if isinstance(a, list) else str(a) for a in op[3:]))
    if op[0] == "c":
        if op[2] == "read":
            return "c.c_read(%d)" % op[1]
        return "c.c_w%d(%d, %s)" % (len(op[3]), op[1], sway_struct(op[3]))
    if op[0] == "v":
        f = 0 if op[1] == "va" else 1
        return "c.v_%s(%s)" % (op[2], ", ".join([str(f)] + [str(a) for a in op[3:]]))
    if op[0] == "m":
        m, o, key = op[1], op[2], op[3]
        ks = ("0x%064x" % key) if m == "mb" else str(key)
        if o in ("insert", "try_insert"):
            v = op[4]
            vs = "P5 { a: %d, b: %d, c: %d, d: %d, e: %d }" % tuple(v) if m == "mc" else str(v[0])
            return "c.%s_%s(%s, %s)" % (m, o, ks, vs)
        return "c.%s_%s(%s)" % (m, o, ks)
    if op[0] == "b":
        f = 0 if op[1] == "ba" else 1
        if op[2] == "write":
            return "c.b_write(%d, %d, %d)" % (f, op[3], op[4])
        return "c.b_%s(%d)" % (op[2], f)
    return "c.probe(0x%064x)" % op[1]


def nl(xs):
    return "[" + ";".join(str(x) for x in xs) + "]"


def coq_op(pkg, op):
    if op[0] == "w":
        o, a = op[2], op[3:]
        c = {"push": "WPush %s", "pop": "WPop", "get": "WGet %s", "set": "WSet %s %s", "insert": "WInsert %s %s", "remove": "WRemove %s",
             "swap": "WSwap %s %s", "swap_remove": "WSwapRemove %s", "len": "WLen", "first": "WFirst", "last": "WLast", "reverse": "WReverse",
             "fill": "WFill %s", "resize": "WResize %s %s", "load": "WLoad"}
        return "OVecW f_%s %d (%s)" % (op[1], WVEC[op[1]][0], c[o] % tuple(nl(x) if isinstance(x, list) else str(x) for x in a))
    if op[0] == "c":
        off, w, isref = CELLS[op[1]]
        return "OCell f_st %d %d %s (%s)" % (off, w, "true" if isref else "false", "CRead" if op[2] == "read" else "CWrite %s" % nl(op[3]))
    if op[0] == "v":
        o, a = op[2], op[3:]
        c = {"push": "VPush %d", "pop": "VPop", "get": "VGet %d", "set": "VSet %d %d", "insert": "VInsert %d %d", "remove": "VRemove %d",
             "swap": "VSwap %d %d", "swap_remove": "VSwapRemove %d", "len": "VLen", "is_empty": "VIsEmpty", "clear": "VClear",
             "first": "VFirst", "last": "VLast", "reverse": "VReverse", "fill": "VFill %d", "resize": "VResize %d %d", "load": "VLoad"}
        if o == "store":
            body = "VStore %s" % nl(lcg_words(a[0], a[1]))
        else:
            body = c[o] % tuple(a)
        return "OVec f_%s (%s)" % (op[1], body)
    if op[0] == "m":
        m, o, key = op[1], op[2], op[3]
        kb = nl(pkg.kbytes(m, key))
        w, isref = (5, "true") if m == "mc" else (1, "false")
        if o == "insert": body = "MInsert %s %s" % (kb, nl(op[4]))
        elif o == "try_insert": body = "MTryInsert %s %s" % (kb, nl(op[4]))
        elif o == "get": body = "MGet %s" % kb
        else: body = "MRemove %s" % kb
        return "OMap f_%s %d %s (%s)" % (m, w, isref, body)
    if op[0] == "b":
        if op[2] == "write":
            body = "BWrite %s" % nl(lcg_bytes(op[3], op[4], op[1] == "sa"))
        else:
            body = {"read": "BRead", "clear": "BClear", "clear_key": "BClearKey", "len": "BLen"}[op[2]]
        return "OBytes f_%s (%s)" % (op[1], body)
    return "OProbe %d" % op[1]


def opname(op):
    if op[0] == "w":
        return "vec_s%d_%s" % (WVEC[op[1]][0], op[2])
    if op[0] == "c":
        return "cell_w%d_%s" % (CELLS[op[1]][1], op[2])
    return {"v": "vec", "m": "map_" + str(op[1]), "b": "bytes" if op[1] == "ba" else "string", "p": "probe"}[op[0]] + ("_" + op[2] if op[0] != "p" else "")


def parse_log(data_hex):
    b = bytes.fromhex(data_hex)
    if len(b) < 8 or len(b) % 8:
        return None
    n = int.from_bytes(b[:8], "big")
    if len(b) != 8 + 8 * n:
        return None
    return [int.from_bytes(b[8 + 8 * i:16 + 8 * i], "big") for i in range(n)]


CODES = {0: "ok", 1: "model-output-differs", 2: "spec-output-differs", 3: "documented-revert-missing", 4: "model-revert-differs",
         5: "unexpected-revert", 6: "revert-after-all-ops", 7: "digest-missing", 8: "model-panic", 9: "log-count"}
VIOLATION_CODES = (2, 3, 5)


def run(ctx):
    ctx.level = "proof"
    import facts_c28
    tgen_error = None
    try:
        facts = facts_c28.generate()
    except facts_c28.FactsError as e:
        # the tie between source and model is broken: keep going with the last good facts (model of the
        # last known code) and look for a concrete failing input on the VM; the break itself is reported
        # at the end (no_input) whatever the search finds
        tgen_error = str(e)
        try:
            facts_c28.use_snapshot(); facts = {"snapshot": True}
        except facts_c28.FactsError as e2:
            facts = None; tgen_error += " ; " + str(e2)
        ctx.log("C28.tgen FAILED (%s); continuing with the last good facts snapshot" % tgen_error[:200])

    def report_tgen():
        if tgen_error:
            ctx.violation("C28.tgen", {"translator": "tools/facts_c28.py", "error": tgen_error, "name": "C28.tgen",
                                       "model_used": "tools/c28_facts_snapshot.v (last good translation)"},
                          "C28.tgen: the storage library no longer has the shape the facts translator parses: %s" % tgen_error, no_input=True)
    ok, out = coq.check_props(ctx, "C28", extra_targets=["C28/Judge.vo"])
    if not ok:
        ctx.log(out[-3000:])
        ctx.violation("proof", {"theorems": [o for o in ctx.obligations if not o[1]], "log": out[-2000:]}, "C28 proofs do not check", no_input=True)
    ctx.log("proofs %s" % ("checked" if ok else "DO NOT CHECK"))
    if facts is None:
        report_tgen()
        return
    npk = 5 if ctx.quick else 96
    ntests = (11, 14) if ctx.quick else (16, 24)
    maxlen = 25 if ctx.quick else 40
    base = os.path.join(ctx.work, "pkgs")
    pkgs, dirs = [], []
    for k in range(npk):
        p = Pkg(ctx.rng, k)
        nt = ctx.rng.randint(*ntests)
        for i in range(nt):
            p.tests.append(gen_history(ctx.rng, p, maxlen))
        if k == 0:      # corpus: fixed shapes named in the property text (slot boundary, swap_remove of last, empty bytes)
            p.tests[0] = ([("v", "va", "push", 1), ("v", "va", "push", 2), ("v", "va", "push", 3), ("v", "va", "push", 4), ("v", "va", "push", 5),
                           ("v", "vb", "push", 9), ("v", "va", "swap_remove", 4), ("v", "va", "insert", 0, 7), ("v", "va", "remove", 2),
                           ("v", "va", "load"), ("v", "vb", "load"), ("v", "va", "reverse"), ("v", "va", "load"), ("v", "va", "clear"),
                           ("v", "va", "push", 8), ("v", "va", "get", 0), ("v", "va", "get", 1), ("p", p.base("va"))], False)
            p.tests[1] = ([("b", "ba", "write", 5, 33), ("b", "sa", "write", 6, 32), ("b", "ba", "read"), ("b", "sa", "read"), ("b", "ba", "write", 7, 0),
                           ("b", "ba", "read"), ("b", "ba", "len"), ("b", "sa", "clear"), ("b", "sa", "read"), ("p", p.base("ba") + 1)], False)
            p.tests[2] = ([("m", "mc", "insert", 0, [1, 2, 3, 4, 5]), ("m", "ma", "insert", 0, [6]), ("m", "mc", "get", 0), ("m", "ma", "get", 0),
                           ("m", "mc", "remove", 0), ("m", "mc", "get", 0), ("m", "ma", "get", 0), ("m", "mc", "try_insert", 0, [9, 8, 7, 6, 5]),
                           ("m", "mc", "try_insert", 0, [1, 1, 1, 1, 1]), ("v", "va", "push", 3), ("v", "va", "set", 1, 4)], True)
        st = p.st_init
        nest = "Nest { a: %d, b: %d, c: %s, d: %s, e: %d, f: %d, g: %s, h: %s }" % (
            st[0], st[1], sway_struct(st[2:5]), sway_struct(st[5:12]), st[12], st[13], sway_struct(st[14:21]), sway_struct(st[21:24]))
        if k == 0:      # struct elements / struct fields that straddle 32-byte slot boundaries, all residues mod 4
            vs3 = [[10 * i + 1, 10 * i + 2, 10 * i + 3] for i in range(6)]
            p.tests[3] = ([("w", "vc", "push", v) for v in vs3[:5]] + [("w", "vc", "get", i) for i in range(5)] + [("w", "vc", "load"),
                          ("w", "vc", "set", 2, vs3[5]), ("w", "vc", "get", 1), ("w", "vc", "get", 2), ("w", "vc", "get", 3), ("w", "vc", "remove", 0),
                          ("w", "vc", "load"), ("p", p.base("vc")), ("p", p.base("vc") + 1), ("p", p.base("vc") + 2)], False)
            vs7 = [[100 * i + j for j in range(7)] for i in range(4)]
            p.tests[4] = ([("w", "vd", "push", v) for v in vs7] + [("w", "vd", "get", i) for i in range(4)] + [("w", "vd", "load"), ("w", "vd", "pop"),
                          ("w", "vd", "insert", 1, vs7[3]), ("w", "vd", "load"), ("p", p.base("vd") + 1), ("p", p.base("vd") + 3)], False)
            p.tests[5] = ([("c", i, "read") for i in range(8)] + [("c", 2, "write", [7, 8, 9]), ("c", 6, "write", [1, 2, 3, 4, 5, 6, 7]), ("c", 3, "write", [9] * 7),
                          ("c", 1, "write", [5])] + [("c", i, "read") for i in range(8)] + [("p", p.fid["st"] + j) for j in (0, 1, 3, 5)], False)
        src = [CONTRACT % dict(p.names, st_init=nest)]
        for i, (ops, rev) in enumerate(p.tests):
            body = "\n".join("    log(%s);" % sway_call(p, o) for o in ops)
            src.append("%s\nfn t%02d() {\n    let c = abi(S, CONTRACT_ID);\n%s\n}\n" % ("#[test(should_revert)]" if rev else "#[test]", i, body))
        d = sway.write_pkg(base, "c28p%03d" % k, {"main.sw": "\n".join(src)}, entry="main.sw")
        pkgs.append(p); dirs.append(d)
    res = {}
    for i in range(0, len(dirs), 32):
        res.update(sway.run_pkgs(dirs[i:i + 32]))
    ctx.log("%d packages executed" % len(res))
    shards, meta = [], []
    stats = {}
    for p, d in zip(pkgs, dirs):
        r = res[d]
        if r["status"] != "ok":
            stats[r["status"]] = stats.get(r["status"], 0) + 1
            if r["status"] == "build_error":      # compiler diagnostics through the c28 harness (swayrun + type-check messages)
                binp, _ = rust.build("c28")
                if binp:
                    _, diag = rust.run(binp, [d], env={"C28_VERBOSE": "1"}, timeout=900)
                    r["error"] = r.get("error", "") + " | " + diag[:1200]
            ctx.violation("pkg-" + r["status"], {"package": d, "error": r.get("error", "")[:1500]},
                          "generated storage contract: forc test %s: %s" % (r["status"], r.get("error", "")[:300]), no_input=(r["status"] != "panic"))
            continue
        byname = {t["name"]: t for t in r["tests"]}
        lines = ["Definition tab : htab := [%s]." % ";\n ".join("(%s, %d)" % (nl(pre), dg) for pre, dg in sorted(p.tab.items())),
                 "Definition names : list (list N) := [%s]." % "; ".join(nl(p.names[k].encode()) for k in FIELD_ORDER)]
        for k in FIELD_ORDER:
            lines.append("Definition f_%s : N := Eval vm_compute in fid tab %s." % (k, nl(p.names[k].encode())))
        st = p.st_init
        lines.append("Definition init_store : store := [%s]." % "; ".join(
            "(f_st + %d, (%d, %d, %d, %d))" % ((j,) + tuple(st[4 * j:4 * j + 4])) for j in range(NEST_WORDS // 4)))
        lines.append("Definition init_cells : list (N * N * list N) := [%s]." % "; ".join(
            "(f_st, %d, %s)" % (off, nl(st[off:off + w])) for off, w, _ in CELLS.values()))
        cases = []
        for i, (ops, rev) in enumerate(p.tests):
            t = byname.get("t%02d" % i)
            if t is None:
                ctx.violation("missing-test", {"package": d, "test": i}, "test missing from forc-test output", no_input=True)
                continue
            obs = [parse_log(rc["data"]) for rc in t["receipts"] if rc["k"] == "LogData"]
            if any(o is None for o in obs):
                ctx.violation("bad-log", {"package": d, "test": i, "receipts": t["receipts"][:40]}, "unparsable log record", no_input=True)
                continue
            reverted = not t["state"].startswith("Return")
            lines.append("Eval vm_compute in (judge_init tab names init_store init_cells [%s]\n [%s] %s)." % (
                ";\n  ".join(coq_op(p, o) for o in ops), "; ".join(nl(o) for o in obs), "true" if reverted else "false"))
            cases.append((i, ops, rev, obs, t))
        shards.append("\n".join(lines)); meta.append((p, d, cases))
    hist, opstat, total, lens, reverting = {}, {}, 0, [], 0
    reported, suppressed = set(), {}
    distinct = set()
    samples = []
    if shards:
        try:
            out = coq.run_cases(ctx, "c28", "From SwayV Require Import Base.Util Generated.C28Facts C28.Model C28.Step C28.Spec C28.Judge.\nOpen Scope N_scope.", shards)
        except RuntimeError as e:
            ctx.violation("model-eval", {"log": str(e)[-3000:]}, "C28 model/judge could not be evaluated (correspondence C28.corr/step not checked)", no_input=True)
            out = []
        ctx.log("judged")
        for g, (p, d, cases) in zip(out, meta):
            for codes, (i, ops, rev, obs, t) in zip(g, cases):
                total += 1; lens.append(len(ops)); reverting += 1 if rev else 0
                if len(ops) >= 3: distinct.add(json.dumps(ops))
                for o in ops: opstat[opname(o)] = opstat.get(opname(o), 0) + 1
                if len(samples) < 3: samples.append({"ops": [list(map(str, o)) for o in ops[:8]], "outputs": [list(map(str, o)) for o in obs[:8]], "state": t["state"]})
                for c in codes: hist[CODES.get(c, str(c))] = hist.get(CODES.get(c, str(c)), 0) + 1
                c = codes[-1] if codes else 0
                if c == 0: continue
                at = len(codes) - 1
                bad = ops[at] if at < len(ops) else None
                rep = {"package": d, "test": "t%02d" % i, "history": [list(map(str, o)) for o in ops], "failing_index": at,
                       "failing_op": list(map(str, bad)) if bad else None, "logged": [list(map(str, o)) for o in obs], "state": t["state"],
                       "fields": p.names, "how": "write the package from props/c28.py CONTRACT with these field names and the history as a #[test]; run with forc test"}
                key = "%s_%s" % (opname(bad) if bad else "end", CODES.get(c, c))
                if key in reported or len(reported) >= 15:      # one replay per (operation kind, judgement); the
                    suppressed[key] = suppressed.get(key, 0) + 1   # framework prints 20 lines and the tgen break must stay visible
                    continue
                reported.add(key)
                if c in VIOLATION_CODES:
                    ctx.violation(key, rep, "storage collection differs from its list/map/bytes model: %s at operation %d (%s) of the history" % (CODES[c], at, bad))
                else:
                    ctx.violation(key, dict(rep, correspondence="C28.corr/step"), "model M and execution differ (%s) at operation %d (%s); S accepts the execution" % (CODES.get(c, c), at, bad), no_input=True)
    report_tgen()
    ctx.coverage.update({
        "checker_cmd": "python3 tools/facts_c28.py ; make -C coq C28/Props.vo C28/Judge.vo (coqc 8.16.1) ; coqc vm_compute judge over fuel-vm logs",
        "trusted_base": ["Coq 8.16.1 kernel + vm_compute", "tools/facts_c28.py (regex translation of constants / code shapes, fails loudly)",
                         "harness/src/bin/swayrun.rs", "props/c28.py (contract wrapper methods, Sway printer, log parsing, hashlib sha256 digests)",
                         "fuel-vm storage instructions srwq/swwq/scwq as modelled in C28/Model.v, tied by the raw-slot probes"],
        "evaluations": total, "distinct_nontrivial": len(distinct),
        "rule": "random operation histories (3..%d operations incl. 1-4 raw slot probes) over 10 storage fields of a generated contract (u64 vectors, vectors of 3- and 7-word structs, maps, bytes, string, a struct-typed field whose members straddle slot boundaries), executed in-VM through contract calls; indices mostly in range, sometimes == len / huge; out-of-bounds set/insert/remove/swap/swap_remove only as the last operation of a should_revert test; non-trivial = at least 3 operations; distinct by operation list" % maxlen,
        "samples": samples, "packages": len(pkgs), "package_failures": stats, "judgements_per_operation": hist, "operations": opstat,
        "history_length": {"min": min(lens) if lens else 0, "max": max(lens) if lens else 0, "mean": round(sum(lens) / len(lens), 1) if lens else 0},
        "reverting_histories": reverting, "further_failing_histories_per_key": suppressed,
        "explanation": "Refinement and frame theorems are about the Coq slot-store model under hypotheses on sha256 (injective and spread on the occurring pre-images); the model is tied to std + fuel-vm by comparing every logged result and raw slot probes; StorageBytes/StorageString are validated only where Props.v says so.",
    })
    ctx.assumptions += ["sha256 is injective on the occurring pre-images and distinct digests are farther apart than any collection's slot range (Section hypotheses of C28/Proofs)",
                        "model = std + fuel-vm is established by the logged results and raw slot probes of the generated histories only",
                        "StorageVec element type u64; map value types u64 and a 5-word struct; map key types u64 and b256"]
