"""C04 — IR passes keep the IR well-formed.
Theorems: coq/C04/Props.v (check_fn sound for path-based SSA well-formedness).
Run: real sway-ir PassManager on corpus IR with pass sequences (all single passes and ordered pairs,
random longer sequences); after every pass Context::verify() (SSA dominance on) and the proved
check_fn (on the exported CFG of every function, judged by vm_compute) must accept.
Correspondence of the two verifiers: both are also run on IR malformed in memory."""
import os, glob, collections
from vlib import coq, rust
from vlib.core import NCPU, ROOT, REPO

PASSES = ("module-verifier escaped-symbols postorder dominators dominance-frontiers lower-init-aggr "
          "arg_pointee_mutability_tagger fn-dedup-release fn-dedup-debug mem2reg sroa inline const-folding ccp "
          "simplify-cfg globals-dce dce cse arg-demotion const-demotion ret-demotion misc-demotion memcpyopt "
          "memcpyprop_reverse").split()
TRANSFORMS = PASSES[5:]
MUT_KINDS = ["swap", "move", "del", "delterm", "retarget", "droparg", "addparam"]
# verifier error classes that belong to the structural / dominance subset that check_fn also decides
STRUCT_CLASSES = {"VerifyInvalidScope", "MissingTerminator", "MisplacedTerminator", "VerifyBranchParamsMismatch",
                  "VerifyBranchToMissingBlock", "VerifyEntryBlockHasPredecessors"}
CODES = {0: "accept", 9: "no-blocks", 10: "terminator", 11: "branch-target/arg-count", 12: "entry-has-pred",
         13: "double-def", 14: "only-undefined-operand", 15: "not-dominated", 16: "fuel", 17: "internal",
         18: "only-entry-block-exemption", 19: "only-entry-exemption+undefined-operand", 99: "undecodable"}
# causes of "verify() accepts, proved checker rejects" that exist on the unchanged tree (named by the relaxed
# checkers of Judge.v); each is one finding with a canonical key
GAP_KEYS = {18: "verifier:entry-block-exemption"}
GAP_TEXT = {18: "Context::verify() skips an entry block with at most one instruction (verify_block's 'empty unreferenced block' exemption "
                "is not restricted to non-entry blocks): a function whose entry block has no terminator, or whose only instruction uses "
                "an undominated value, verifies"}



REGRESSION = [("dce/copy_prop_2.ir", ["memcpyprop_reverse", "sroa", "mem2reg"]),
              ("memcpyopt/copy_prop_2.ir", ["memcpyprop_reverse", "sroa", "mem2reg"]),
              ("mem2reg/is_prime.ir", ["inline", "ccp"]), ("serialize/entry.ir", ["ccp"])]


def corpus_files():
    a = [f for f in sorted(glob.glob(os.path.join(REPO, "sway-ir/tests/**/*.ir"), recursive=True)) if "/verify/" not in f]
    # initial IR of test/src/ir_generation/tests/*.sw and of corpus/C04/gen_src/*.sw (small programs written for this
    # check: u256 arithmetic, functions named after IR keywords, string escapes, nested aggregates), produced by the irgen bin
    b = sorted(glob.glob(os.path.join(ROOT, "corpus/C04/irgen/*.ir"))) + sorted(glob.glob(os.path.join(ROOT, "corpus/C04/gen/*.ir")))
    return a, b


def short(f):
    if "/sway-ir/tests/" in f: return f.split("/sway-ir/tests/")[1]
    if "/corpus/C04/" in f: return f.split("/corpus/C04/")[1]
    return os.path.basename(f)


class Case:
    __slots__ = ("id", "file", "passes", "mut", "steps", "fns")
    def __init__(self, id, file, passes, mut="-"):
        self.id, self.file, self.passes, self.mut = id, file, list(passes), mut
        self.steps = []      # (step, name, status)
        self.fns = {}        # step -> [(fn name, hash)]


def run_harness(ctx, binp, cases, tag, export=True):
    """Run cases (split over NCPU processes). Returns dict hash -> coq term."""
    import concurrent.futures as cf
    d = os.path.join(ctx.work, "run"); os.makedirs(d, exist_ok=True)
    nproc = min(NCPU, max(1, len(cases) // 500))
    chunks = [cases[k::nproc] for k in range(nproc)]
    byid = {c.id: c for c in cases}
    terms = {}
    def one(k):
        inp = "".join("%s\t%s\t%s\t%s\t%d\n" % (c.id, c.file, ",".join(c.passes) or "-", c.mut, 1 if export else 0) for c in chunks[k])
        outp = os.path.join(d, "%s_%d.out" % (tag, k))
        if os.path.exists(outp): os.remove(outp)
        rc, text = rust.run(binp, [outp], input=inp, timeout=3000)
        return rc, outp, text
    with cf.ThreadPoolExecutor(max_workers=nproc) as ex:
        results = list(ex.map(one, range(nproc)))
    for rc, outp, text in results:
        if rc != 0 or not os.path.exists(outp):
            raise RuntimeError("harness c04 failed rc=%s: %s" % (rc, text[-1500:]))
        cur = None
        for l in open(outp, errors="replace"):
            t = l[0]
            if t == "C": cur = byid[l[2:].strip()]
            elif t == "S":
                p = l.rstrip("\n").split(" ", 3)
                cur.steps.append((int(p[1]), p[2], p[3]))
            elif t == "F":
                p = l.split()
                cur.fns.setdefault(int(p[1]), []).append((p[2], p[3]))
            elif t == "D":
                h, term = l[2:].rstrip("\n").split(" ", 1)
                terms[h] = term
            elif t == "X":
                cur.steps.append((int(l.split()[1]), "export", "panic:" + l.strip()))
    return terms


def judge_terms(ctx, terms, judged):
    """Evaluate judge_fn on every not yet judged CFG; fills judged[hash] = code."""
    todo = [h for h in terms if h not in judged]
    if not todo: return
    todo.sort(key=lambda h: -len(terms[h]))
    nsh = min(NCPU, max(1, len(todo) // 100))
    buckets = [[] for _ in range(nsh)]
    sizes = [0] * nsh
    for h in todo:                       # greedy balance by text size
        k = sizes.index(min(sizes)); buckets[k].append(h); sizes[k] += len(terms[h]) + 200
    shards, layout = [], []
    for b in buckets:
        # several string literals per file, each < 16 KB (a 100 KB literal overflows coqc's stack)
        chunks, cur, size = [], [], 0
        for h in b:
            if cur and size + len(terms[h]) > 16000:
                chunks.append(cur); cur, size = [], 0
            cur.append(h); size += len(terms[h]) + 1
        if cur: chunks.append(cur)
        layout.append(chunks)
        shards.append("\n".join('Definition cs%d : string := "%s".\nEval vm_compute in (judge_stream cs%d).' % (k, ";".join(terms[h] for h in ch), k)
                                for k, ch in enumerate(chunks)))
    res = coq.run_cases(ctx, "c04", "From Coq Require Import String.\nFrom SwayV Require Import Base.Util C04.Model C04.Judge.", shards, timeout=2400)
    for chunks, r in zip(layout, res):
        assert len(r) == len(chunks), (len(r), len(chunks))
        for ch, codes in zip(chunks, r):
            assert len(codes) == len(ch), (len(codes), len(ch))
            for h, c in zip(ch, codes): judged[h] = c
    return
    for b, r in zip(buckets, res):
        codes = r[0]
        assert len(codes) == len(b), (len(codes), len(b))
        for h, c in zip(b, codes): judged[h] = c


def first_failure(case, judged):
    """First step of the valid stream (parse + passes) that is not accepted by both verifiers.
    Returns None or (step, passname, what, kind) ; kind in rust|check|panic."""
    for step, name, status in case.steps:
        if name.startswith("mut"): break
        if status.startswith("panic"):
            return (step, name, status[:160], "panic")
        if status != "ok":
            return (step, name, status, "rust")
        for fname, h in case.fns.get(step, []):
            c = judged.get(h)
            if c is not None and c != 0:
                return (step, name, "check_fn rejects %s: %s" % (fname, CODES.get(c, c)), "check")
    return None


def fail_class(ff):
    return None if ff is None else (ff[1], ff[3], ff[2].split(" ")[0][:60] if ff[3] != "check" else ff[2].split(": ")[-1])


def minimise(ctx, binp, case, ff, judged, counter):
    """Drop passes while the same pass still fails in the same way."""
    passes = case.passes[:ff[0]]          # passes up to and including the failing one
    target = fail_class(ff)
    changed = True
    while changed and len(passes) > 1:
        changed = False
        for i in range(len(passes) - 1):   # never drop the failing (last) pass
            trial = passes[:i] + passes[i + 1:]
            counter[0] += 1
            c = Case("m%d" % counter[0], case.file, trial)
            terms = run_harness(ctx, binp, [c], "min", export=(ff[3] == "check"))
            if ff[3] == "check": judge_terms(ctx, terms, judged)
            f2 = first_failure(c, judged)
            if f2 is not None and f2[0] == len(trial) and fail_class(f2) == target:
                passes = trial; changed = True; break
    return passes


def run(ctx):
    ctx.level = "translation_validation"
    coq.build(["C04/Judge.vo"])          # separately: parallel make would interleave its output with the Print Assumptions of Props.v
    ok, out = coq.check_props(ctx, "C04")
    if not ok:
        ctx.log(out[-3000:])
        ctx.violation("proof", {"theorems": [o for o in ctx.obligations if not o[1]], "log": out[-2000:]},
                      "C04 proofs do not check", no_input=True)
    binp, bout = rust.build("c04")
    if binp is None:
        ctx.violation("harness-build", {"log": bout[-4000:]}, "harness c04 does not build against /repo", no_input=True)
        return
    rng = ctx.rng
    ir_tests, ir_gen = corpus_files()
    files = ir_tests + ir_gen
    if len(ir_tests) < 50 or len(ir_gen) < 50:
        ctx.violation("corpus", {"ir_tests": len(ir_tests), "irgen": len(ir_gen)}, "IR corpus not found", no_input=True)
        return
    quick = ctx.quick
    cases, n = [], [0]
    def add(file, passes, mut="-"):
        n[0] += 1
        cases.append(Case("c%d" % n[0], file, passes, mut)); return cases[-1]
    # (a) systematic: every single pass, and every ordered pair of transformation passes
    for f in files:
        for p in PASSES: add(f, [p])
        for p in TRANSFORMS:
            for q in TRANSFORMS: add(f, [p, q])
    # longer sequences that are known to matter (kept first so that minimised keys stay the same from run to run)
    for rel, seq in REGRESSION:
        add(os.path.join(REPO, "sway-ir/tests", rel), seq)
    if not quick:
        for f in ir_tests:
            for p in TRANSFORMS:
                for q in TRANSFORMS:
                    for r in TRANSFORMS: add(f, [p, q, r])
    n_sys = len(cases)
    # (b) random sequences
    maxlen = 8 if quick else 12
    per_file = 30 if quick else 400
    for f in files:
        for _ in range(per_file):
            L = rng.randint(3, maxlen)
            pool = TRANSFORMS if rng.random() < 0.8 else PASSES
            add(f, [rng.choice(pool) for _ in range(L)])
    n_valid = len(cases)
    # (c) malformed stream: short pass prefix, then one in-memory malformation
    per_file_m = 25 if quick else 250
    for f in files:
        for _ in range(per_file_m):
            pre = [rng.choice(TRANSFORMS) for _ in range(rng.choice([0, 0, 1, 2]))]
            kind = rng.choice(MUT_KINDS)
            add(f, pre, "%s:%d:%d:%d:%d" % (kind, rng.randrange(1000), rng.randrange(1000), rng.randrange(1000), rng.randrange(1000)))
    ctx.log("cases: %d systematic, %d random sequences, %d malformed" % (n_sys, n_valid - n_sys, len(cases) - n_valid))
    try:
        terms = run_harness(ctx, binp, cases, "main")
    except RuntimeError as e:
        ctx.violation("harness-run", {"log": str(e)[-3000:]}, "harness c04 failed to run", no_input=True)
        return
    ctx.log("harness done: %d distinct function CFGs" % len(terms))
    judged = {}
    judge_failed = None
    try:
        judge_terms(ctx, terms, judged)
    except RuntimeError as e:
        # keep going with the implementation's own verdicts (panics, verifier errors): they may still give a failing
        # input; the missing proved-checker verdicts are reported at the end
        judge_failed = str(e)[-3000:]
    hist = collections.Counter(CODES.get(c, c) for c in judged.values())
    ctx.log("judged: %s" % dict(hist))

    # ---- (ii) the property on the valid stream
    counter = [0]
    gaps = {}             # canonical gap key -> (case, text, code)
    initial_bad = {}
    outcomes = collections.Counter()
    corr = collections.Counter()
    groups = {}           # (file, failure class) -> (case, ff); systematic cases come first, shortest first
    for c in cases[:n_valid]:
        ff = first_failure(c, judged)
        if ff is None:
            outcomes["ok"] += 1; continue
        outcomes[ff[3]] += 1
        if ff[0] == 0:
            # the corpus module itself: parse/verify fails, or check_fn rejects what verify() accepted
            initial_bad.setdefault(c.file, ff); continue
        if ff[3] == "rust" and ff[2].split(":", 1)[-1] in STRUCT_CLASSES:
            codes = [judged.get(h, 0) for _, h in c.fns.get(ff[0], [])]
            corr["verify-rejects/check_fn-" + ("rejects" if any(codes) else "ACCEPTS")] += 1
            if not any(codes):
                ctx.violation("corr:%s:%s" % (short(c.file), ",".join(c.passes[:ff[0]])),
                              {"ir_file": c.file, "passes": c.passes[:ff[0]], "verify": ff[2], "correspondence": "verify() vs check_fn"},
                              "verify() rejects (%s) a state that check_fn accepts" % ff[2], no_input=True)
        groups.setdefault((c.file, fail_class(ff)), (c, ff))
    reported = {}
    for (file, fc), (c, ff) in groups.items():
        mp = minimise(ctx, binp, c, ff, judged, counter) if ff[0] > 1 else c.passes[:1]
        key = "%s:%s" % (short(file), ",".join(mp))
        if key in reported: continue
        reported[key] = True
        ctx.violation(key, {"ir_file": file, "passes": mp, "original_passes": c.passes, "failure": ff[2], "decided_by": ff[3],
                            "replay": "printf 'x\\t%s\\t%s\\t-\\t1\\n' | harness/target/debug/c04 /dev/stdout" % (file, ",".join(mp))},
                      "after pass sequence [%s] on %s: %s at pass %s" % (",".join(mp), short(file), ff[2], ff[1]))
    for f, ff in sorted(initial_bad.items()):
        code = max([judged.get(h, 0) for c in cases[:n_valid] if c.file == f for _, h in c.fns.get(0, [])][:200] or [0])
        if ff[3] == "check" and code in GAP_KEYS:
            gaps.setdefault(GAP_KEYS[code], ({"ir_file": f, "passes": [], "mutation": "-", "state": "corpus module as parsed"}, GAP_TEXT[code]))
        else:
            ctx.violation("%s:initial" % short(f), {"ir_file": f, "failure": ff[2], "decided_by": ff[3]},
                          "corpus module %s: %s before any pass" % (short(f), ff[2]))

    # ---- (i) verifier correspondence on the malformed stream
    agree = collections.Counter()
    weaker, stricter = [], []
    for c in cases[n_valid:]:
        ms = [s for s in c.steps if s[1].startswith("mut")]
        if not ms or ms[0][2] == "na" or first_failure(c, judged) is not None:
            agree["not-applicable"] += 1; continue
        step, name, status = ms[0]
        codes = set(judged.get(h, 0) for _, h in c.fns.get(step, []))
        bad = codes - {0}
        if status.startswith("panic"):
            agree["verify-panic"] += 1
            ctx.violation("verify-panic:%s:%s:%s" % (short(c.file), ",".join(c.passes) or "-", c.mut),
                          {"ir_file": c.file, "passes": c.passes, "mutation": c.mut, "status": status}, "Context::verify() panics: " + status)
            continue
        if status == "ok":
            if not bad: agree["both-accept"] += 1
            elif bad <= set(GAP_KEYS):
                code = max(bad)
                agree["verify-accepts/check_fn-rejects:" + CODES[code]] += 1
                gaps.setdefault(GAP_KEYS[code], ({"ir_file": c.file, "passes": c.passes, "mutation": c.mut, "state": name}, GAP_TEXT[code]))
            else:
                agree["VERIFY-WEAKER"] += 1; weaker.append((c, name, max(bad)))
        else:
            cls = status.split(":", 1)[1]
            if cls not in STRUCT_CLASSES: agree["other-class:" + cls] += 1
            elif bad: agree["both-reject"] += 1
            else:
                agree["CHECK-WEAKER"] += 1; stricter.append((c, name, cls))
    ctx.log("valid stream: %s ; %s" % (dict(outcomes), dict(corr)))
    ctx.log("malformed stream: %s" % dict(agree))
    for key, (rep, text) in sorted(gaps.items()):
        ctx.violation(key, rep, text)
    for c, name, worst in weaker[:5]:
        key = "verifier:%s:%s:%s" % (short(c.file), ",".join(c.passes) or "-", c.mut)
        ctx.violation(key, {"ir_file": c.file, "passes": c.passes, "mutation": c.mut, "descr": name, "check_fn": CODES.get(worst, worst)},
                      "Context::verify() accepts a malformed function that the proved checker rejects (%s) after %s" % (CODES.get(worst, worst), name))
    for c, name, cls in stricter[:5]:
        key = "corr:%s:%s:%s" % (short(c.file), ",".join(c.passes) or "-", c.mut)
        ctx.violation(key, {"ir_file": c.file, "passes": c.passes, "mutation": c.mut, "descr": name, "verify": cls,
                            "correspondence": "verify() vs check_fn on the structural/dominance subset"},
                      "verify() rejects (%s) what check_fn accepts after %s: the proved checker no longer covers the verifier's structural subset" % (cls, name),
                      no_input=True)
    if judge_failed:
        ctx.violation("model-eval", {"log": judge_failed}, "C04 judge could not be evaluated on exported CFGs (the implementation-only verdicts found no further failing input)", no_input=True)
    nrej = agree["both-reject"]
    if nrej < 50 and not judge_failed:
        ctx.violation("malformed-stream-empty", {"agree": dict(agree)}, "malformed stream produced too few rejected cases to compare the verifiers", no_input=True)

    valid_states = sum(len(c.steps) for c in cases[:n_valid])
    distinct_seq = len({(c.file, tuple(c.passes)) for c in cases[:n_valid] if len(c.passes) >= 2})
    ctx.coverage.update({
        "programs": len(files),
        "disagreements_checked": len(cases) - n_valid,
        "samples": [{"file": short(c.file), "passes": c.passes, "mut": c.mut, "steps": [s[2] for s in c.steps][:12]}
                    for c in (cases[n_sys:n_sys + 2] + cases[n_valid:n_valid + 2])],
        "evaluations": len(cases),
        "distinct_nontrivial": distinct_seq,
        "rule": "a case = (corpus IR module, pass sequence); non-trivial = at least two passes; distinct by (file, sequence). "
                "Systematic: all %d registered passes alone and all ordered pairs of the %d transformation passes on each of %d modules "
                "(%d hand-written sway-ir test inputs, %d modules compiled from test/src/ir_generation sources); random: %d sequences per "
                "module of length 3..%d; malformed: %d per module" % (len(PASSES), len(TRANSFORMS), len(files), len(ir_tests), len(ir_gen), per_file, maxlen, per_file_m),
        "ir_states_verified": valid_states,
        "distinct_function_cfgs_checked_in_coq": len(judged),
        "check_fn_codes": {str(k): v for k, v in hist.items()},
        "valid_stream_outcomes": dict(outcomes),
        "malformed_stream": dict(agree), "verify_vs_check_on_rejected_valid_states": dict(corr),
        "checker_cmd": "make -C coq C04/Props.vo C04/Judge.vo; coqc vm_compute judge_all over exported CFGs",
        "trusted_base": ["Coq 8.16.1 kernel + vm_compute", "harness/src/ir_common.rs export_fn (CFG export through sway-ir public accessors)",
                         "props/c04.py (case generation, bookkeeping)"],
        "explanation": "check_fn is proved sound for path-based SSA well-formedness; per-instruction type rules are only checked by Context::verify().",
    })
    ctx.assumptions += ["the exported CFG is the function's CFG (exporter trusted; it uses Function::block_iter, Block::arg_iter/instruction_iter, InstOp::get_operands)",
                        "instruction type rules are not in the Coq model; they are decided by Context::verify() alone",
                        "completeness of check_fn (no false rejection) is not proved; it is observed: both verifiers accept every valid state"]
