"""C11 — contract calls dispatch to the named method with intact arguments.
Theorems: coq/C11/Props.v (pool offsets valid, dispatch = name lookup, fallback / revert).
Tie: generated contracts with random ABIs (shared prefixes, equal lengths, names that are substrings of
each other or straddle two pooled names, non-ASCII names) are built with the real forc pipeline
(harness bin c11).  The `_method_names` pool and the `addi r name i<offset>` arm offsets are read from the
initial IR of the generated `__entry` and compared exactly with the Coq model; every method and a set of
absent names are then called in the VM (`abi(MyAbi, CONTRACT_ID).m(..)`, absent names through a second
ABI cast onto the same contract) from the package's own `#[test]` functions and judged in Coq."""
import os, re, json, hashlib, concurrent.futures as cf
from vlib import coq, rust, sway
from vlib.core import NCPU
from vlib.coqterm import nlist

KEYWORDS = set("""script contract predicate library mod pub use as struct enum self fn trait impl for abi const storage str asm
return if else match mut let while where ref true false break continue configurable type in dep deref panic
u8 u16 u32 u64 u256 b256 bool log main fallback test Self super crate move dyn static unsafe extern loop yield async await
abstract become box do final macro override priv typeof unsized virtual try""".split())

ARG_TYPES = ["u64", "bool", "u8", "u32", "b256", "str[4]", "(u64, bool)"]

def enc(t, v):
    if t == "u64": return v.to_bytes(8, "big")
    if t == "u32": return v.to_bytes(4, "big")
    if t == "u8": return v.to_bytes(1, "big")
    if t == "bool": return b"\x01" if v else b"\x00"
    if t == "b256": return v.to_bytes(32, "big")
    if t == "str[4]": return v
    if t == "(u64, bool)": return v[0].to_bytes(8, "big") + (b"\x01" if v[1] else b"\x00")
    raise ValueError(t)

def lit(t, v):
    if t in ("u64", "u32", "u8"): return "%d%s" % (v, t)
    if t == "bool": return "true" if v else "false"
    if t == "b256": return "0x%064x" % v
    if t == "str[4]": return '__to_str_array("%s")' % v.decode()
    if t == "(u64, bool)": return "(%du64, %s)" % (v[0], "true" if v[1] else "false")
    raise ValueError(t)

def rand_val(rng, t):
    if t == "u64": return rng.choice([0, (1 << 64) - 1, rng.getrandbits(64)])
    if t == "u32": return rng.getrandbits(32)
    if t == "u8": return rng.getrandbits(8)
    if t == "bool": return rng.random() < 0.5
    if t == "b256": return rng.getrandbits(256)
    if t == "str[4]": return bytes(rng.choice(b"abcdxyz0189") for _ in range(4))
    if t == "(u64, bool)": return (rng.getrandbits(64), rng.random() < 0.5)
    raise ValueError(t)

def ok_name(n):
    return n not in KEYWORDS and re.match(r"^[A-Za-zÀ-￿][A-Za-z0-9_À-￿]*$", n) and not n.startswith("__") and n != "_"

def gen_names(rng, n):
    names = []
    def add(x):
        if ok_name(x) and x not in names and len(names) < n: names.append(x)
    alpha = "abcdexyz"
    style = rng.choice(["prefix", "sub", "eqlen", "mixed", "mixed", "unicode"])
    tries = 0
    while len(names) < n and tries < 400:
        tries += 1
        c = rng.random()
        if style == "prefix" or (style == "mixed" and c < 0.25):
            base = rng.choice(names) if names and rng.random() < 0.7 else "".join(rng.choice(alpha) for _ in range(rng.randint(1, 4)))
            add(base + rng.choice(["", "_", "a", "b", "_from", "x1", "ab"]) if rng.random() < 0.8 else base[:max(1, len(base) - 1)])
        elif style == "sub" or (style == "mixed" and c < 0.55):
            pool = "".join(names)
            if len(pool) >= 2 and rng.random() < 0.75:
                i = rng.randrange(len(pool)); j = min(len(pool), i + rng.randint(1, 6))
                add(pool[i:j])                                   # substring of the pool, may straddle two names
            else:
                add("".join(rng.choice(alpha) for _ in range(rng.randint(2, 8))))
        elif style == "eqlen" or (style == "mixed" and c < 0.8):
            L = len(names[0]) if names else rng.randint(1, 5)
            add("".join(rng.choice("ab") for _ in range(L)))
        elif style == "unicode":
            add(rng.choice(["é", "naïve", "ïv", "日本", "本", "ab", "aé", "éa", "a", "über", "ber", "b"]) + rng.choice(["", "", "x", "é"]))
        else:
            add("".join(rng.choice(alpha + "_0") for _ in range(rng.randint(1, 10))))
    if not names: names = ["m"]
    rng.shuffle(names)             # declaration order in the source (ABI and impl): irrelevant, see compiler_order
    return names

def compiler_order(names):
    """contract_fns = the impl's items after type checking: kept in a BTreeMap<Ident, _>, i.e. sorted by
    the UTF-8 bytes of the name.  The model takes the names in this order; the pool/offset comparison
    against the IR detects a wrong order."""
    return sorted(names, key=lambda n: n.encode())

def gen_ghosts(rng, names, k):
    pool = "".join(names)
    out = []
    def add(x):
        if ok_name(x) and x not in names and x not in out and len(out) < k: out.append(x)
    lens = sorted({len(n) for n in names})
    for _ in range(200):
        if len(out) >= k: break
        c = rng.random()
        n = rng.choice(names)
        if c < 0.2: add(n[:-1])
        elif c < 0.4: add(n + rng.choice(["x", "_", "a"]))
        elif c < 0.7 and pool:
            L = rng.choice(lens); i = rng.randrange(len(pool)); add(pool[i:i + L])     # right length, lies inside the pool
        elif c < 0.85: add(n[1:] + n[:1])
        else: add("".join(rng.choice("abxyz") for _ in range(rng.choice(lens))))
    return out

def tiny_names(rng, n):
    toks = rng.choice([["a", "b", "_"], ["ab", "ba", "x"], ["a", "b"], ["a", "b", "c"], ["ab", "b", "_a"]])
    maxl = 7 if max(len(t) for t in toks) == 1 else 4
    names = []
    for _ in range(40 * n):
        if len(names) >= n: break
        x = "".join(rng.choice(toks) for _ in range(rng.randint(1, maxl)))
        if ok_name(x) and x not in names: names.append(x)
    return names

def gadget_names(rng, block):
    """L contains X in its interior, M is appended after L (so X is reused from the middle of the pool),
    and Y, the next name in byte order after X, starts with the last 1-3 letters of X."""
    c0, c1, c2 = block
    k = rng.randint(1, 3)
    tail = c2 + "".join(rng.choice(block) for _ in range(k - 1))
    X = c1 + "".join(rng.choice(c0 + c1) for _ in range(rng.randint(0, 3))) + tail
    L = c0 + "".join(rng.choice(block + "_") for _ in range(rng.randint(1, 3))) + X + rng.choice(["", "", c0, "_" + c1])
    M = c0 + "z" + "".join(rng.choice(block) for _ in range(rng.randint(0, 3)))
    Y = tail + "".join(rng.choice(block + "xy") for _ in range(rng.randint(1, 5)))
    out = [L, M, X, Y]
    if rng.random() < 0.4: out.append(X[1:])                 # one more reuse, sorts inside the block
    return out

def chain_names(rng, n):
    w = "".join(rng.choice(rng.choice(["abc", "abcde", "ab_", "xyzab"])) for _ in range(rng.randint(8, 16)))
    if not w[0].isalpha(): w = "a" + w
    L = rng.choice([2, 3, 3, 4])
    names = []
    for i in range(0, len(w) - L + 1):
        x = w[i:i + L + rng.choice([0, 0, 0, 1])]
        if ok_name(x) and x not in names: names.append(x)
    rng.shuffle(names)
    return names[:n]

def dense_names(rng, n):
    kind = rng.choice(["tiny", "tiny", "gadget", "gadget", "chain", "mix"])
    names = []
    def addall(xs):
        for x in xs:
            if ok_name(x) and x not in names and len(names) < n: names.append(x)
    if kind == "tiny": addall(tiny_names(rng, n))
    elif kind == "chain": addall(chain_names(rng, n))
    else:
        blocks = ["abc", "def", "ghi", "jkl", "mno"]
        for b in rng.sample(blocks, rng.randint(1, min(4, max(1, n // 4)))): addall(gadget_names(rng, b))
        if kind == "mix":
            addall(["p" + x for x in tiny_names(rng, n)] if rng.random() < 0.5 else chain_names(rng, n))
        else:
            addall(["w" + x for x in tiny_names(rng, rng.randint(0, 4))])
    if not names: names = ["m"]
    rng.shuffle(names)
    return names

def gen_dense_case(rng, lo=8, hi=20):
    decl = dense_names(rng, rng.randint(lo, hi))
    names = compiler_order(decl)
    methods = []
    for nm in names:
        args = [rng.choice(ARG_TYPES) for _ in range(rng.choice([0, 0, 0, 1, 2]))]
        methods.append({"name": nm, "args": args, "vals": [rand_val(rng, t) for t in args]})
    return {"methods": methods, "decl_order": decl, "fallback": rng.random() < 0.4, "ghosts": gen_ghosts(rng, names, rng.randint(3, 6)), "dense": True}

def overlap_case():
    """corpus: `balance` is reused from inside `add_balance` (not the end of the pool) and `execute`, next in
    byte order, starts with its last letter"""
    decl = ["execute", "balance", "add_balance", "approved"]
    ms = [{"name": n, "args": [], "vals": []} for n in compiler_order(decl)]
    return {"methods": ms, "decl_order": decl, "fallback": False, "ghosts": ["xecute", "dxecute", "balanc", "e", "approve"], "dense": True}

def gen_case(rng, maxm):
    decl = gen_names(rng, rng.randint(1, maxm))
    names = compiler_order(decl)
    methods = []
    for i, nm in enumerate(names):
        args = [rng.choice(ARG_TYPES) for _ in range(rng.choice([0, 0, 1, 1, 2, 3]))]
        methods.append({"name": nm, "args": args, "vals": [rand_val(rng, t) for t in args]})
    return {"methods": methods, "decl_order": decl, "fallback": rng.random() < 0.5, "ghosts": gen_ghosts(rng, names, rng.randint(2, 6))}

def fixed_case(fb):
    decl = ["transfer", "ab", "xab", "abcd", "bc", "cd", "é", "transfer_from", "ans", "fer_", "b", "a"]
    names = compiler_order(decl)
    ms = [{"name": n, "args": [ARG_TYPES[i % len(ARG_TYPES)]] * (i % 3), "vals": None} for i, n in enumerate(names)]
    import random
    r = random.Random(7)
    for m in ms: m["vals"] = [rand_val(r, t) for t in m["args"]]
    return {"methods": ms, "decl_order": decl, "fallback": fb, "ghosts": ["bcd", "da", "ba", "transfe", "rans", "c", "zz", "abc"]}

def big_case(k=70):
    """k methods with distinct 60-byte names: the pool offset of the last arms exceeds the 12-bit immediate"""
    import random
    r = random.Random(1)
    decl = sorted({"m" + "".join(r.choice("abcdefghij") for _ in range(59)) for _ in range(k)})
    ms = [{"name": n, "args": [], "vals": []} for n in compiler_order(decl)]
    return {"methods": ms, "decl_order": decl, "fallback": False, "ghosts": ["zz"], "big": True}

FB_MARK, FB_RET = 999999, 424242

def ret_type(m):
    a = m["args"]
    return "u64" if not a else a[0] if len(a) == 1 else "(%s)" % ", ".join(a)

def contract_src(c):
    ms = c["methods"]
    sig = lambda m: "fn %s(%s) -> %s" % (m["name"], ", ".join("p%d: %s" % (i, t) for i, t in enumerate(m["args"])), ret_type(m))
    by_name = {m["name"]: (i, m) for i, m in enumerate(ms)}
    order = [by_name[n] for n in c["decl_order"]]
    abi = "\n".join("    %s;" % sig(m) for _, m in order)
    impl = []
    for i, m in order:
        a = m["args"]
        body = "%du64" % (1000 + i) if not a else "p0" if len(a) == 1 else "(%s)" % ", ".join("p%d" % j for j in range(len(a)))
        impl.append("    %s { log(%du64); %s }" % (sig(m), i, body))
    ghost = "\n".join("    fn %s() -> u64;" % g for g in c["ghosts"])
    fb = "#[fallback]\nfn zz_fallback_fn() -> u64 { log(%du64); %d }\n" % (FB_MARK, FB_RET) if c["fallback"] else ""
    tests = []
    for i, m in enumerate(ms):
        tests.append("#[test] fn t%d() { let r = abi(MyAbi, CONTRACT_ID).%s(%s); log(r); }" % (
            i, m["name"], ", ".join(lit(t, v) for t, v in zip(m["args"], m["vals"]))))
    for j, g in enumerate(c["ghosts"]):
        tests.append("#[test] fn g%d() { let r = abi(Ghost, CONTRACT_ID).%s(); log(r); }" % (j, g))
    return "contract;\n\nabi MyAbi {\n%s\n}\n\nabi Ghost {\n%s\n}\n\nimpl MyAbi for Contract {\n%s\n}\n\n%s\n%s\n" % (
        abi, ghost, "\n".join(impl), fb, "\n".join(tests))

def unescape(s):
    out, i = bytearray(), 0
    while i < len(s):
        ch = s[i]
        if ch == "\\" and i + 1 < len(s):
            n = s[i + 1]
            if n == "x": out.append(int(s[i + 2:i + 4], 16)); i += 4; continue
            out += {"n": b"\n", "t": b"\t", "\\": b"\\", '"': b'"', "0": b"\0", "r": b"\r"}.get(n, n.encode()); i += 2; continue
        out += ch.encode("utf-8"); i += 1
    return bytes(out)

def parse_entry(ir):
    """(pool bytes, [arm offsets in source order]) of the first `__entry` in the printed IR, or None."""
    m = re.search(r"^\s*pub entry fn __entry\(\).*?\n(.*?)^    \}", ir, re.S | re.M)
    if not m: return None
    body = m.group(1)
    g = re.search(r"get_global __ptr string<(\d+)>, (\S+)", body)
    if not g: return None
    gname = re.escape(g.group(2))
    defs = [d for d in re.finditer(r"global %s : string<\d+> = const string<\d+> \"((?:[^\"\\]|\\.)*)\"" % gname, ir[:m.start()])]
    if not defs: return None
    pool = unescape(defs[-1].group(1))
    offs = [int(x) for x in re.findall(r"addi\s+r name i(\d+)", body)]
    return pool, offs

STRUCT = {0: "pool-and-offsets-agree", 1: "pool-differs", 5: "dup-names"}
CALL = {0: "ok", 2: "wrong-dispatch", 3: "model-not-lookup", 4: "result-bytes-differ"}
HDR = "From SwayV Require Import Base.Util C11.Model C11.Spec C11.Judge."

def observe(t):
    logs = [x for x in (t["receipts"] if t else []) if x["k"] == "LogData"]
    st = t.get("state", "") if t else ""
    mrev = re.match(r"Revert\((\d+)\)", st)
    if mrev: return "(ORevert %s)" % mrev.group(1), b"", st
    if len(logs) >= 2 and len(logs[0]["data"]) == 16:
        mk = int(logs[0]["data"], 16)
        return ("OFallback" if mk == FB_MARK else "(OMethod %d)" % mk), bytes.fromhex(logs[1]["data"]), st
    return "OOther", b"", st

def evaluate(ctx, binp, cases, tag, stats):
    """Build and run the cases, judge them in Coq.  Real violations (a failing call is known) are recorded
    immediately; returns (ok, [tie-break records]) where a tie-break record is (key, replay) of an ABI
    whose pool / arm offsets differ from the model."""
    base = os.path.join(ctx.work, "pkgs")
    dirs = [sway.write_pkg(base, "%s_%d" % (tag, i), {"main.sw": contract_src(c)}, entry="main.sw") for i, c in enumerate(cases)]

    def one(i):
        rc, o = rust.run(binp, (["--no-run"] if cases[i].get("big") else ["--ir"]) + [dirs[i]], timeout=3000)
        res = None
        for line in o.split("\n"):
            if line.startswith('{"'):
                try: res = json.loads(line)
                except Exception: pass
        if res is None:
            return {"status": "harness_error", "error": "rc=%s %s" % (rc, o[-800:])}
        res["entry"] = parse_entry(o)
        return res
    with cf.ThreadPoolExecutor(max_workers=NCPU) as ex:
        results = list(ex.map(one, range(len(cases))))

    shards, meta, ties = [], [], []
    for i, (c, r) in enumerate(zip(cases, results)):
        rep = {"names": [m["name"] for m in c["methods"]], "fallback": c["fallback"], "source": contract_src(c),
               "status": r.get("status"), "error": (r.get("error") or "")[:600]}
        key = "abi_" + hashlib.sha256(contract_src(c).encode()).hexdigest()[:12]
        if r.get("status") == "harness_error":
            ctx.violation("harness-run", {"pkg": dirs[i], "out": r.get("error")}, "harness c11 failed to run", no_input=True)
            return False, ties
        if c.get("big"):
            try:
                lim = coq.run_cases(ctx, "c11lim", HDR, ["Eval vm_compute in (judge_limit [%s])." % ";".join(nlist(m["name"].encode()) for m in c["methods"])])[0][0][0]
            except RuntimeError as e:
                ctx.violation("model-eval", {"log": str(e)[-2000:]}, "C11 judge_limit could not be evaluated", no_input=True); continue
            if lim == 6 and r.get("status") == "build_error":
                ctx.violation("method-name-pool-over-4095", dict(rep, source=rep["source"][:3000] + "..."),
                              "a contract whose pooled method names push an arm offset past 4095 (12-bit immediate of `addi r name i<offset>`) is rejected by the compiler")
            elif lim == 6 and r.get("status") == "ok":
                ctx.log("note: the 4095-byte method-name pool limit no longer applies; update entry_ok and KNOWN_FINDINGS")
            else:
                ctx.violation(key, dict(rep, correspondence="C11.entry_ok"), "model and compiler disagree on the corpus ABI with a large name pool (model code %s, status %s)" % (lim, r.get("status")), no_input=True)
            continue
        if r.get("status") == "panic":
            ctx.violation(key, rep, "compiler panic on a generated contract ABI: %s" % rep["error"][:200]); continue
        if r.get("status") != "ok":
            ctx.violation(key, rep, "generated contract ABI rejected: %s" % rep["error"][:300]); continue
        if not r.get("entry"):
            ctx.violation(key, dict(rep, correspondence="C11.build_pool"), "`_method_names` pool / arm offsets not found in the printed IR of __entry (tie to the model lost)", no_input=True); continue
        pool, offs = r["entry"]
        tests = {t["name"]: t for t in r.get("tests") or []}
        calls, cmeta = [], []
        for j, m in enumerate(c["methods"]):
            o, got, st = observe(tests.get("t%d" % j))
            a = m["args"]
            want = (1000 + j).to_bytes(8, "big") if not a else b"".join(enc(t, v) for t, v in zip(a, m["vals"]))
            calls.append("(%s, %s, %s, %s)" % (nlist(m["name"].encode()), o, nlist(got), nlist(want)))
            cmeta.append(("method", m["name"], o, st))
        for j, g in enumerate(c["ghosts"]):
            o, got, st = observe(tests.get("g%d" % j))
            calls.append("(%s, %s, %s, %s)" % (nlist(g.encode()), o, nlist(got), nlist(FB_RET.to_bytes(8, "big"))))
            cmeta.append(("absent", g, o, st))
        shards.append("Eval vm_compute in (judge [%s] %s %s %s [%s])." % (
            ";".join(nlist(m["name"].encode()) for m in c["methods"]), "true" if c["fallback"] else "false",
            nlist(pool), ("[%s]%%nat" % ";".join(str(x) for x in offs)) if offs else "[]", ";\n ".join(calls)))
        meta.append((key, rep, c, cmeta, pool, offs))
    try:
        res = coq.run_cases(ctx, tag, HDR, shards) if shards else []
    except RuntimeError as e:
        ctx.violation("model-eval", {"log": str(e)[-3000:]}, "C11 judge could not be evaluated (correspondence C11.build_pool not checked)", no_input=True)
        return False, ties
    for (key, rep, c, cmeta, pool, offs), rr in zip(meta, res):
        codes = rr[0]
        s0 = codes[0]
        stats["struct"][STRUCT.get(s0, str(s0))] = stats["struct"].get(STRUCT.get(s0, str(s0)), 0) + 1
        rep = dict(rep, observed_pool=pool.decode("utf-8", "replace"), observed_arm_offsets=offs)
        if s0 == 1:
            ties.append((key, rep))
        elif s0 == 5:
            ctx.violation(key, dict(rep, correspondence="C11.generator"), "generator produced duplicate method names", no_input=True)
        for (kind, nm, o, st), code in zip(cmeta, codes[1:]):
            stats["calls"] += 1; stats["absent"] += kind == "absent"
            stats["call"][CALL.get(code, str(code))] = stats["call"].get(CALL.get(code, str(code)), 0) + 1
            crep = dict(rep, call={"kind": kind, "name": nm, "observed": o, "state": st}, pool_differs_from_model=(s0 == 1))
            if code == 2:
                stats["real"] += 1
                ctx.violation(key + "_" + nm, crep, "contract with methods %s: call naming %s method `%s` was dispatched to %s (state %s)" % (
                    rep["names"], "the" if kind == "method" else "the absent", nm, o, st))
            elif code == 4:
                stats["real"] += 1
                ctx.violation(key + "_" + nm, crep, "call to `%s` reached the right target but the returned bytes differ from the echoed arguments" % nm)
            elif code == 3:
                ctx.violation(key + "_" + nm, dict(crep, theorem="C11_dispatch_is_lookup"), "model dispatch differs from name lookup", no_input=True)
    return True, ties

def run(ctx):
    ctx.level = "proof"
    ok, out = coq.check_props(ctx, "C11", extra_targets=["C11/Judge.vo"])
    if not ok:
        ctx.log(out[-3000:])
        ctx.violation("proof", {"theorems": [o for o in ctx.obligations if not o[1]], "log": out[-2000:]}, "C11 proofs do not check", no_input=True)
    binp, bout = rust.build("c11")
    if binp is None:
        ctx.violation("harness-build", {"log": bout[-4000:]}, "harness c11 does not build against the repository under test", no_input=True)
        return
    npk, maxm, (dlo, dhi) = (8, 8, (8, 12)) if ctx.quick else (96, 28, (8, 20))
    cases = [fixed_case(True), fixed_case(False), big_case(), overlap_case()]
    while len(cases) < npk:
        # three out of four random ABIs are of the dense kind (tiny alphabets, reuse-then-overlap gadgets, chains)
        cases.append(gen_dense_case(ctx.rng, dlo, dhi) if len(cases) % 4 != 3 else gen_case(ctx.rng, maxm))
    stats = {"struct": {}, "call": {}, "calls": 0, "absent": 0, "real": 0}
    good, ties = evaluate(ctx, binp, cases, "c11", stats)
    searched = 0
    if good and ties and stats["real"] == 0:
        # The pool / arm offsets differ from the model but every call made so far was dispatched correctly:
        # the theorems no longer speak about this code.  Search for a failing call on extra ABIs with dense
        # substring / overlap relations before giving up.
        nsearch = 24 if ctx.quick else 64
        ctx.log("pool differs from the model on %d ABI(s) with no mis-dispatched call: searching %d dense ABIs" % (len(ties), nsearch))
        extra = [gen_dense_case(ctx.rng, 8, 20) for _ in range(nsearch)]
        searched = len(extra)
        cases += extra
        good2, ties2 = evaluate(ctx, binp, extra, "c11s", stats)
        ties += ties2
    if ties and stats["real"] == 0:
        for key, rep in ties[:5]:
            ctx.violation(key, dict(rep, correspondence="C11.build_pool", search_abis=searched),
                          "the `_method_names` pool or the arm offsets of the generated __entry differ from the Coq model: theorems C11_* no longer tied to the code (no mis-dispatched call found on %d extra dense ABIs)" % searched, no_input=True)
    elif ties:
        ctx.log("pool / arm offsets differ from the model on %d ABI(s); failing calls reported above" % len(ties))
    distinct = len({tuple(m["name"] for m in c["methods"]) for c in cases if len(c["methods"]) >= 2})
    ctx.coverage.update({
        "checker_cmd": "make -C coq C11/Props.vo C11/Judge.vo (coqc 8.16.1) + coqc vm_compute judge over harness output",
        "trusted_base": ["Coq 8.16.1 kernel + vm_compute", "harness/src/bin/c11.rs (forc_pkg build with IR printing, forc_test run)",
                         "props/c11.py (contract text generation, parsing of the printed IR of __entry, ABI encoding of the expected echo)",
                         "the generated Sway source of __entry is compiled by the rest of the compiler (meq/addi semantics, if-chains): validated by the in-VM calls only",
                         "argument/result integrity is C09's round trip; here validated per call, not proved"],
        "evaluations": stats["calls"], "distinct_nontrivial": distinct,
        "rule": "one evaluation = one in-VM contract call (a declared method, or an absent name through a second ABI cast on the same contract); distinct_nontrivial = distinct method-name lists with at least 2 methods",
        "samples": [{"names": [m["name"] for m in c["methods"]], "fallback": c["fallback"], "absent": c["ghosts"]} for c in cases[3:7]],
        "contracts": len(cases), "dense_contracts": sum(1 for c in cases if c.get("dense")), "search_contracts": searched,
        "absent_name_calls": stats["absent"], "structure_judgements": stats["struct"], "call_judgements": stats["call"],
        "methods_per_contract": sorted(len(c["methods"]) for c in cases),
        "pool_reuse_contracts": sum(1 for c in cases if any(
            m["name"] in "".join(x["name"] for x in c["methods"][:i]) for i, m in enumerate(c["methods"]) if i)),
        "explanation": "Theorems (all method-name lists, all called names): every arm of the generated entry compares against its own method's name (loop invariant of the append-or-reuse pool), dispatch returns Method i exactly when the i-th name is the called name (given distinct names, which the compiler enforces), otherwise the fallback or revert 123. The pool string and the arm offsets are read from the compiler's IR and compared exactly with the model; most generated ABIs have dense substring / overlap relations between names (tiny alphabets, names reused from the middle of the pool followed by names starting with their last letters, suffix/prefix chains). If the tie breaks without a failing call, extra dense ABIs are searched.",
    })
    ctx.assumptions += ["model = code is established by exact comparison of the pool and arm offsets on the generated ABIs only",
                        "argument and result integrity inherits C09 (validated here on the echoed calls, not proved)"]
