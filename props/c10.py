"""C10 — trivial-encoding fast path is sound.

Theorems: coq/C10/Props.v over the classification exactly as the compiler/std compute it (flags generated
from codec.sw on every run).  Tie, all observed inside fuel-vm through generated #[test] functions:
 * is_encode_trivial::<T>() / is_decode_trivial::<T>() logged for random type trees == model;
 * encode(v) (fast path when trivial), the explicit abi_encode path and the raw memory of v, compared in
   Coq with the canonical encoding;
 * valid encodings corrupted at a bool byte / enum tag must revert in abi_decode::<T>."""
import os, re
from vlib import coq, sway
from vlib.core import NCPU
from props import abigen as ag

CODES = {0: "agree", 1: "corr-classification", 2: "encode-not-canonical", 3: "abi_encode-not-canonical",
         4: "trivial-but-memory-differs", 5: "invalid-bytes-accepted", 6: "corr-model-accepts-vm-reverts",
         7: "machinery-ill-typed", 8: "corr-model-encode"}
KINDS = ["bool", "u8", "u16", "u32", "u64", "u64", "u256", "b256", "strarr", "array", "array", "tuple", "tuple", "struct", "struct",
         "enum", "enum", "option", "result"]
LEAFS = ["bool", "u8", "u16", "u32", "u64", "u64", "u64", "u256", "b256", "b256", "strarr"]


def corpus(decls):
    S = lambda fs: ("struct", decls.add("struct", fs), fs)
    E = lambda vs: ("enum", decls.add("enum", vs), vs)
    u64, u8, b, unit, b256, u16, u32 = ("u64",), ("u8",), ("bool",), ("unit",), ("b256",), ("u16",), ("u32",)
    return [("tuple", [u8]), S([u64, u64]), E([u64, u64]), E([unit, u64]), E([unit, unit]), ("array", u8, 3), ("tuple", [u64, ("array", u8, 8)]),
            ("strarr", 8), ("strarr", 5), ("tuple", [b]), S([b256, u64]), ("option", u64), ("tuple", [u64, ("array", u8, 3)]),
            S([E([u64, u64]), u64]), ("array", ("tuple", [u64, u64]), 2), ("tuple", [u16]), E([b256, ("tuple", [u64, u64, u64, u64])]),
            ("array", b, 4), ("tuple", [("array", b, 8)]), E([("array", u64, 0)]), S([("tuple", [u64])]), ("result", u64, u64),
            E([("strarr", 8), u64]), ("tuple", [("strarr", 16), u64]), ("tuple", [u32, u32]), E([S([u64]), ("tuple", [u64])]), u64, b, u8,
            ("array", ("tuple", [u8]), 3), ("array", E([u64, u64]), 2), ("tuple", [b256]), ("array", ("tuple", [b]), 2), ("array", ("option", u64), 2)]


# std's opt-in wrapper TrivialEnum<T> declares itself trivially encodable whatever T is (known finding)
TRIVIAL_ENUM_PROBE = """enum ProbeE { A: u8, B: u64 }
#[test]
fn x0001() {
    let x = TrivialEnum::from(ProbeE::A(7u8));
    log(is_encode_trivial::<TrivialEnum<ProbeE>>());
    log(encode(x));
    log(encode_configurable(x));
}"""


def corruptions(t, v, off=0):
    """(offset, new byte values) that make the encoding of v invalid: bool bytes and enum tags."""
    k = t[0]
    out = []
    if k == "bool":
        out.append((off, 1, "bool"))
    elif k in ("array",):
        for x in v:
            out += corruptions(t[1], x, off); off += len(ag.enc(t[1], x))
    elif k in ("tuple", "struct"):
        for f, x in zip(ag.fields(t), v):
            out += corruptions(f, x, off); off += len(ag.enc(f, x))
    elif k in ("enum", "option", "result"):
        tag, pv = v
        out.append((off, 8, "tag%d" % len(ag.variants(t))))
        out += corruptions(ag.variants(t)[tag], pv, off + 8)
    return out


def gen_tests(rng, types, idx0):
    tests, metas = [], []
    for j, t in enumerate(types):
        i = idx0 + j
        ty = ag.sway_type(t)
        tests.append("#[test]\nfn c%04d() { log(is_encode_trivial::<%s>()); log(is_decode_trivial::<%s>()); }" % (i, ty, ty))
        v = ag.gen_value(rng, t)
        pre = []
        ex = ag.sway_expr(t, v, pre, ag.Fresh())
        tests.append("#[test]\nfn e%04d() {\n%s    let v: %s = %s;\n    log(encode(v));\n    log(encode_configurable(v));\n"
                     "    log(raw_slice::from_parts::<u8>(__addr_of(v), __size_of::<%s>()));\n}" % (i, "".join("    %s\n" % x for x in pre), ty, ex, ty))
        bad = None
        cs = corruptions(t, v)
        if cs:
            off, ln, kind = rng.choice(cs)
            raw = bytearray(ag.enc(t, v))
            if kind == "bool":
                raw[off] = rng.choice([2, 3, 128, 255])
            else:
                nv = int(kind[3:])
                newtag = rng.choice([nv, nv + 1, 255, 1 << 32, (1 << 64) - 1])
                raw[off:off + 8] = newtag.to_bytes(8, "big")
            bad = bytes(raw)
            tests.append("#[test]\nfn d%04d() {\n    let raw: [u8; %d] = [%s];\n    let d = abi_decode::<%s>(raw_slice::from_parts::<u8>(__addr_of(raw), %d));\n    log(d);\n}"
                         % (i, len(bad), ", ".join("%du8" % b for b in bad), ty, len(bad)))
        metas.append({"i": i, "t": t, "v": v, "bad": bad})
    return tests, metas


def run(ctx):
    ctx.level = "proof"
    from tools import facts_layout
    # A translator failure means the source no longer has the shape the model was written against.  The run
    # goes on with the last good facts and searches for a concrete failing input; the break itself is
    # reported at the end (no_input).
    facts_ok, facts_err = facts_layout.prepare()
    if not facts_ok:
        ctx.log("facts translator failed (%s): continuing with the last good facts, searching for a failing input" % facts_err)
    coq.build(["C10/Judge.vo"])
    ok, out = coq.check_props(ctx, "C10")
    if not ok:
        ctx.log(out[-3000:])
    if ok and facts_ok:
        facts_layout.save_snapshot()
    tie_broken = not (ok and facts_ok)
    base = os.path.join(ctx.work, "pkgs")
    npk, per = (5, 14) if ctx.quick else (48, 24)
    pk = []
    idx = 0
    ncorp = 5 if ctx.quick else 8
    plans = []
    for p in range(npk):
        decls = ag.Decls("P%d" % p)
        plans.append((decls, corpus(decls)[p::ncorp] if p < ncorp else [], per))
    if tie_broken:
        # focused search in the neighbourhood of the classification boundary
        for k in range(0, len(ag.neighbourhood(ag.Decls("N"), with_heap=True)), 24):
            dk = ag.Decls("N%d" % k)
            plans.append((dk, ag.neighbourhood(dk, with_heap=True)[k:k + 24], 0))
    for p, (decls, types, per) in enumerate(plans):
        types = list(types)
        while len(types) < per:
            d = ctx.rng.choice([0, 1, 1, 2, 2, 3])
            types.append(ag.gen_type(ctx.rng, d, decls, KINDS, LEAFS, max_fields=3))
        tests, metas = gen_tests(ctx.rng, types, idx)
        idx += len(types)
        if p == 0:
            tests.append(TRIVIAL_ENUM_PROBE)
        src = "library;\nuse std::codec::*;\n%s\n%s\n" % (decls.sway(), "\n".join(tests))
        d = sway.write_pkg(base, "c10_%d" % p, {"lib.sw": src})
        pk.append({"dir": d, "src": src, "metas": metas, "decls": decls.sway()})
    res = sway.run_pkgs([p["dir"] for p in pk], jobs=min(NCPU, 8))
    items, imeta = [], []
    stats = {"types": 0, "trivial_enc": 0, "trivial_dec": 0, "invalid_patterns": 0, "kinds": {}}
    shapes = set()
    for p in pk:
        r = res[p["dir"]]
        if r["status"] != "ok":
            if r["status"] == "panic":
                ctx.violation("compiler-panic-" + os.path.basename(p["dir"]), {"src": p["src"], "error": r.get("error")}, "compiler panics on generated codec tests: %s" % r.get("error"))
            else:
                ctx.violation("generated-package-rejected", {"src": p["src"][:6000], "error": r.get("error")}, "generated package does not build: %s" % (r.get("error") or "")[:300], no_input=True)
            continue
        tests = {t["name"]: t for t in r["tests"]}
        px = tests.get("x0001")
        if px:
            pl = [bytes.fromhex(x["data"]) for x in px.get("receipts", []) if x["k"] == "LogData"]
            if len(pl) == 3 and pl[0] == b"\x01" and pl[1][8:] != pl[2][8:]:
                ctx.violation("trivialenum-fast-path-not-canonical", {"src": TRIVIAL_ENUM_PROBE, "encode": pl[1][8:].hex(), "abi_encode": pl[2][8:].hex()},
                              "TrivialEnum<E> (E with variants of different sizes) is classified trivially encodable but encode() returns the memory image %s, not the canonical encoding %s" % (pl[1][8:].hex(), pl[2][8:].hex()))
        for m in p["metas"]:
            t, v, i = m["t"], m["v"], m["i"]
            stats["types"] += 1; shapes.add(ag.shape(t)); stats["kinds"][t[0]] = stats["kinds"].get(t[0], 0) + 1
            ct = tests.get("c%04d" % i, {})
            cl = [x["data"] for x in ct.get("receipts", []) if x["k"] == "LogData"]
            if len(cl) != 2:
                ctx.violation("no-observation", {"type": ag.sway_type(t), "test": ct}, "classification test produced no logs", no_input=True); continue
            oe, od = cl[0] == "01", cl[1] == "01"
            stats["trivial_enc"] += oe; stats["trivial_dec"] += od
            ta = ag.coq_aty(t)
            items.append("(CClass %s %s %s)" % (ta, str(oe).lower(), str(od).lower())); imeta.append((p, m, "class", {"enc": oe, "dec": od}))
            et = tests.get("e%04d" % i, {})
            el = [bytes.fromhex(x["data"]) for x in et.get("receipts", []) if x["k"] == "LogData"]
            if len(el) != 3 or any(len(b) < 8 or int.from_bytes(b[:8], "big") != len(b) - 8 for b in el):
                ctx.violation("encode-observation-%s" % ag.shape(t)[:40], {"type": ag.sway_type(t), "decls": p["decls"], "value": ag.sway_expr(t, v), "test": et},
                              "encode test did not produce three well-formed raw_slice logs (state %s)" % et.get("state")); continue
            fast, slow, mem = [b[8:] for b in el]
            items.append("(CEncode %s %s %s %s %s %s)" % (ta, ag.coq_aval(t, v), str(oe).lower(), ag.coq_bytes(fast), ag.coq_bytes(slow), ag.coq_bytes(mem)))
            imeta.append((p, m, "encode", {"fast": fast.hex(), "slow": slow.hex(), "mem": mem.hex()}))
            if m["bad"] is not None:
                dt = tests.get("d%04d" % i, {})
                rev = dt.get("state", "").startswith("Revert")
                stats["invalid_patterns"] += 1
                items.append("(CDecode %s %s %s)" % (ta, ag.coq_bytes(m["bad"]), str(rev).lower()))
                imeta.append((p, m, "decode", {"bytes": m["bad"].hex(), "state": dt.get("state")}))
    nsh = max(1, min(NCPU, len(items) // 40))
    shards = ["Eval vm_compute in (map judge [%s])." % ";\n".join(items[k::nsh]) for k in range(nsh)]
    try:
        rs = coq.run_cases(ctx, "c10", "From SwayV Require Import Base.Util Layout.Bytes Layout.Abi C10.Model C10.Judge.\nLocal Open Scope N_scope.", shards)
    except RuntimeError as e:
        ctx.violation("model-eval", {"log": str(e)[-3000:]}, "C10 judge could not be evaluated", no_input=True)
        if not facts_ok:
            ctx.violation("layout-facts", {"error": facts_err}, "layout/codec facts can no longer be translated from the source (%s)" % facts_err, no_input=True)
        if not ok:
            ctx.violation("proof", {"theorems": [o for o in ctx.obligations if not o[1]], "log": out[-2000:]}, "C10 proofs do not check", no_input=True)
        return
    hist = {}
    for k, sh_ in enumerate(rs):
        for c, (p, m, what, obs) in zip(sh_[0], imeta[k::nsh]):
            hist[CODES[c]] = hist.get(CODES[c], 0) + 1
            if c == 0: continue
            rep = {"type": ag.sway_type(m["t"]), "decls": p["decls"], "value": ag.sway_expr(m["t"], m["v"]), "kind": what, "observed": obs, "code": CODES[c]}
            key = "%s-%s" % (what, ag.shape(m["t"])[:60])
            if c in (2, 3, 4, 5):
                ctx.violation(key, rep, "%s for type %s" % (CODES[c], ag.shape(m["t"])))
            else:
                ctx.violation(key, dict(rep, correspondence="C10.model=vm"), "model and VM observation differ (%s) for type %s; theorems no longer tied to the code" % (CODES[c], ag.shape(m["t"])), no_input=True)
    if not facts_ok:
        ctx.violation("layout-facts", {"error": facts_err, "searched": len(items)},
                      "layout/codec facts can no longer be translated from the source (%s); the run used the last good facts" % facts_err, no_input=True)
    if not ok:
        ctx.violation("proof", {"theorems": [o for o in ctx.obligations if not o[1]], "log": out[-2000:]}, "C10 proofs do not check", no_input=True)
    ctx.coverage.update({
        "checker_cmd": "make -C coq C10/Props.vo C10/Judge.vo (coqc 8.16.1) + coqc vm_compute judge over fuel-vm observations",
        "trusted_base": ["Coq 8.16.1 kernel + vm_compute", "tools/facts_layout.py (codec.sw/irtype.rs -> Generated/LayoutFacts.v)",
                         "equality of the two 64-bit DefaultHasher ids (__runtime_mem_id / __encoding_mem_id) is modelled as structural equality of the representation trees",
                         "harness swayrun (forc-test on fuel-vm 0.66)", "props/c10.py + props/abigen.py (generator)",
                         "mem_bytes writes padding as zeros; only padding-free (trivial) types are compared byte for byte with real memory"],
        "evaluations": len(items), "distinct_nontrivial": len(shapes),
        "rule": "random type trees depth<=4 over bool,u8,u16,u32,u64,u256,b256,str[N],arrays,tuples,structs,enums (unit variants, zero-sized variants),Option,Result plus a fixed corpus of padding boundary cases; per type: classification, one random value encoded three ways, one corrupted encoding; distinct = distinct type shapes",
        "samples": [{"type": ag.shape(m["t"]), "obs": obs} for (p, m, w, obs) in imeta[:4]],
        "judgements": hist, "generator": stats,
        "explanation": "Proved for all type trees: classified trivially encodable => memory image = canonical encoding of every value; classified trivially decodable => every byte pattern of the right size is a valid value; the reader path returns only well-typed values whose consumed bytes are canonical, bad bool bytes and unknown tags revert.",
    })
    ctx.assumptions += ["hash-id equality modelled as structural equality of MemoryRepresentation trees",
                        "model of the classification = compiler only established on the generated type trees (exact agreement required)",
                        "TrivialBool / TrivialEnum<T> declare themselves trivial by fiat; their unwrap functions are modelled and proved to reject invalid discriminants, the wrappers' own flags are not part of trivial_enc/trivial_dec"]
