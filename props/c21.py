"""C21 — reading any lock file never crashes.
Theorems: coq/C21/Props.v (totality of the modelled readers for every behaviour of the external
parsers).  Correspondence: real `source::Pinned::from_str` and `Lock::from_path` + `to_graph`
against the Coq model, judged in Coq (C21/Judge.v); the external url/cid/semver parsers are
instantiated by the verdicts measured on the real parsers for exactly the strings the model asks
about (C21.Model.queries).  An implementation panic is a violation with the input as replay.
C21_ORIG=1 compares with the ORIGINAL slicing model (C21/Orig.v) instead: used to validate the
slicing model against the unrepaired tree (there every panic must be predicted)."""
import json, os, hashlib
from vlib import coq, rust
from vlib.core import NCPU
from vlib.coqterm import App

H40 = "0123456789abcdef"
CIDS = ["QmdMgs46mWz2tWmJa9qvqLMvZzLQ8WjAyUEzXkLqZjXYZw", "QmYwAPJzv5CZsnA625s3Xf2nemtYgPpHdWEz79ojWnPbdG",
        "bafybeigdyrzt5sfp7udm7hu76uh7y26nf3efuylqabf3oclgtqy55fbzdi", "Qmabc", "", "Qm" + "1" * 44,
        "QmdMgs46mWz2tWmJa9qvqLMvZzLQ8WjAyUEzXkLqZjXYZ", " QmdMgs46mWz2tWmJa9qvqLMvZzLQ8WjAyUEzXkLqZjXYZw"]
URLS = ["https://github.com/FuelLabs/sway", "http://a.com", "ssh://git@github.com/x/y.git", "git@github.com:x/y.git",
        "file:///tmp/r", "/abs/path", "https://h.com/a?b=c", "https://h.com/é", "", "x", "https://h.com/a b",
        "https://github.com/FuelLabs/sway-libs", "../rel", "https://h.com:99999/x", "http://[::1]/r"]
NAMES = ["std", "core", "a", "foo_bar", "my-lib", "x1", "sway_libs", "é", "a b", "a)b", "(a", ""]
VERS = ["0.1.0", "1.2.3-rc.1+build5", "1.0", "v1.0.0", "", "0.66.4", "1.2.3 ", "01.2.3"]
NSS = ["", "fuel", "a!b", "é", " "]
WS = [" ", "\t", "\n", "\r", "\x0b", "\x0c", "\u00a0", "\u0085", "\u1680", "\u2003", "\u200a", "\u2028", "\u2029", "\u202f", "\u205f", "\u3000"]
NONASCII = ["\u00e9", "\u65e5", "\u00a0", "\u2003", "\u00df", "\U0001F600", "\u0080", "\u200b", "\u2000", "\u00c2", "\u0100"]
SEPS = list("+?#!() =-")


def rhex(rng, n, alpha=H40):
    return "".join(rng.choice(alpha) for _ in range(n))


def gen_commit(rng):
    r = rng.random()
    if r < 0.7: return rhex(rng, 40)
    if r < 0.8: return rhex(rng, 40, "0123456789abcdefXYZghz")
    if r < 0.85: return rhex(rng, rng.choice([0, 1, 39, 41, 64]))
    if r < 0.9: return rhex(rng, 39) + rng.choice(["-", "é", " ", "#"])
    return rhex(rng, 38) + "é"          # 40 bytes, not all ascii


def gen_ref(rng):
    return rng.choice(["branch=master", "tag=v0.1.0", "rev", "default-branch", "branch=", "tag=", "branch=a#b",
                       "tag=é", "branchy", "", "branch=feat/x", "rev=abc", "default", "branch=é", "tag=a?b", "Branch=x"])


def gen_root(rng):
    r = rng.random()
    if r < 0.6: return rhex(rng, 16, "0123456789ABCDEF")
    if r < 0.7: return rhex(rng, 16)
    if r < 0.75: return "+" + rhex(rng, rng.randint(0, 16))
    if r < 0.8: return rhex(rng, rng.choice([0, 1, 15, 17, 20]), "0123456789ABCDEF")
    if r < 0.85: return "0000" + rhex(rng, 16, "0123456789ABCDEF")
    if r < 0.9: return "-" + rhex(rng, 3)
    return rng.choice(["xyz", "é", "1 ", "_1", "0x10", "1from-root-2"])


def gen_source(rng, valid_bias=0.5):
    k = rng.choice(["member", "path", "git", "git", "ipfs", "reg", "reg"])
    ok = rng.random() < valid_bias
    if k == "member": return rng.choice(["member", "root", "member ", "Member", "roots"]) if not ok else rng.choice(["member", "root"])
    if k == "path":
        return "path+from-root-" + (rhex(rng, 16, "0123456789ABCDEF") if ok else gen_root(rng))
    if k == "git":
        if ok: return "git+%s?%s#%s" % (rng.choice(URLS[:5]), rng.choice(["branch=master", "tag=v1", "rev", "default-branch"]), rhex(rng, 40))
        return "git+%s?%s#%s" % (rng.choice(URLS), gen_ref(rng), gen_commit(rng))
    if k == "ipfs":
        return "ipfs+" + (rng.choice(CIDS[:3]) if ok else rng.choice(CIDS))
    if ok: return "registry+%s?%s#%s!%s" % (rng.choice(NAMES[:7]), rng.choice(VERS[:2]), rng.choice(CIDS[:2]), rng.choice(NSS[:2]))
    return "registry+%s?%s#%s!%s" % (rng.choice(NAMES), rng.choice(VERS), rng.choice(CIDS), rng.choice(NSS))


def mutate(rng, s):
    """one malformed-stream mutation of a text"""
    m = rng.randrange(11)
    if m == 0 and s: return s[:rng.randrange(len(s))]                         # truncate
    seps = [i for i, c in enumerate(s) if c in "+?#!() "]
    if m == 1 and seps:
        i = rng.choice(seps); return s[:i] + s[i + 1:]                         # drop a separator
    if m == 2 and seps:
        i = rng.choice(seps); return s[:i] + s[i] + s[i:]                      # duplicate a separator
    if m == 3:
        i = rng.randint(0, len(s)); return s[:i] + rng.choice(NONASCII) + s[i:]  # non-ASCII
    if m == 4: return rng.choice(WS) * rng.randint(1, 2) + s + rng.choice(WS + [""])
    if m == 5:
        i = rng.randint(0, len(s)); return s[:i] + rng.choice(SEPS) + s[i:]
    if m == 6 and seps:                                                        # empty a piece
        i = rng.choice(seps); j = min([x for x in seps if x > i] + [len(s)]); return s[:i + 1] + s[j:]
    if m == 7 and "+" in s:
        return rng.choice(["git", "path", "ipfs", "registry", "", "xregistry", "Git"]) + s[s.index("+"):]
    if m == 8: return s + rng.choice(WS)
    if m == 9 and s:
        i = rng.randrange(len(s)); return s[:i] + s[i + 1:]
    if m == 10: return s + rng.choice(["#", "?", "!", ")", "(", "from-root-", "é"])
    return s


def gen_salt(rng):
    r = rng.random()
    if r < 0.5: return rhex(rng, 64)
    if r < 0.6: return "0x" + rhex(rng, 64)
    if r < 0.7: return "0" * 64
    if r < 0.8: return rhex(rng, 64, "0123456789ABCDEFabcdef")
    return rng.choice(["", "1", rhex(rng, 63), rhex(rng, 65), "0x0x" + rhex(rng, 62), rhex(rng, 62) + "é", rhex(rng, 63) + "g", "0X" + rhex(rng, 64)])


def toml_str(s):
    out = []
    for ch in s:
        o = ord(ch)
        if ch == "\\": out.append("\\\\")
        elif ch == '"': out.append('\\"')
        elif o < 0x20 or o == 0x7f: out.append("\\u%04X" % o)
        else: out.append(ch)
    return '"' + "".join(out) + '"'


def gen_lock(rng, malformed):
    """a structured lock: list of (name, source, deps, cdeps, version)"""
    n = rng.randint(1, 5)
    pkgs = []
    for i in range(n):
        nm = rng.choice(NAMES[:7]) if rng.random() < 0.85 else rng.choice(NAMES)
        src = gen_source(rng, 0.9 if not malformed else 0.6)
        if malformed and rng.random() < 0.25: src = mutate(rng, src)
        pkgs.append([nm, src, [], [], None])
    names = [p[0] for p in pkgs]
    dup = {x for x in names if names.count(x) > 1}
    for p in pkgs:
        for _ in range(rng.choice([0, 0, 1, 2, 3])):
            t = rng.choice(pkgs)
            r = rng.random()
            key = t[0] + " " + t[1] if (t[0] in dup) != (r < 0.05) else t[0]
            line = key
            if rng.random() < 0.3: line = "(%s) %s" % (rng.choice(["dep", "std2", "é", "a b", ""]), line)
            contract = rng.random() < 0.4
            if contract and rng.random() < 0.7 or rng.random() < 0.05: line = "%s (%s)" % (line, gen_salt(rng))
            if malformed and rng.random() < 0.5: line = mutate(rng, line)
            if malformed and rng.random() < 0.1: line = rng.choice(["std (", "(abc", "x ()", "x (é", "(", ")", "()", "( ) ( )", " ", "", "a (0x)", "x ( "])
            (p[3] if contract else p[2]).append(line)
        if p[1].startswith("registry+") and rng.random() < 0.5:
            p[4] = rng.choice(["0.1.0", "1.2.3-rc.1+build5"] if not malformed else VERS)
    return pkgs


def lock_text(rng, pkgs, malformed):
    out = []
    for nm, src, deps, cdeps, ver in pkgs:
        out.append("[[package]]")
        out.append("name = %s" % toml_str(nm))
        if ver is not None: out.append("version = %s" % toml_str(ver))
        out.append("source = %s" % toml_str(src))
        if deps or rng.random() < 0.1: out.append("dependencies = [%s]" % ", ".join(toml_str(d) for d in deps))
        if cdeps: out.append("contract-dependencies = [\n%s]" % "".join("    %s,\n" % toml_str(d) for d in cdeps))
        out.append("")
    return "\n".join(out)


def raw_mutate(rng, b):
    b = bytearray(b)
    for _ in range(rng.randint(1, 3)):
        m = rng.randrange(6)
        if not b: b = bytearray(b"x")
        i = rng.randrange(len(b))
        if m == 0: del b[i:i + rng.randint(1, 8)]
        elif m == 1: b[i] = rng.randrange(256)
        elif m == 2: b[i:i] = bytes(rng.randrange(256) for _ in range(rng.randint(1, 4)))
        elif m == 3: b = b[:i]
        elif m == 4:
            j = rng.randrange(len(b)); b[i:i] = b[min(i, j):max(i, j)][:40]
        else: b[i:i] = rng.choice([b'"', b"[[", b"]]", b"\n", b"=", b"\\", b"'''", b"#", "é".encode()])
    return bytes(b)


# ---- rendering to Coq -------------------------------------------------------------------
def nl(b):
    if isinstance(b, str): b = b.encode()
    return "[" + ";".join(str(x) for x in b) + "]"


def unhex(h):
    return bytes.fromhex(h)


def coq_src(j):
    t = j["t"]
    if t == "member": return "PMember"
    if t == "path": return "(PPath %d)" % int(j["root"], 16)
    if t == "git":
        r = {"B": "(RBranch %s)", "T": "(RTag %s)", "R": "(RRev %s)"}.get(j["rk"])
        r = r % nl(unhex(j["r"])) if r else "RDefault"
        return "(PGit %s %s %s)" % (nl(unhex(j["url"])), r, nl(unhex(j["commit"])))
    if t == "ipfs": return "(PIpfs %s)" % nl(unhex(j["cid"]))
    ns = "NsFlat" if j["ns"] is None else "(NsDomain %s)" % nl(unhex(j["ns"]))
    return "(PReg %s %s %s %s)" % (nl(unhex(j["name"])), nl(unhex(j["ver"])), nl(unhex(j["cid"])), ns)


def coq_graph(g):
    nodes = sorted(g["nodes"], key=lambda n: n["ix"])
    assert [n["ix"] for n in nodes] == list(range(len(nodes)))
    ns = ";".join("{| gn_name := %s; gn_src := %s |}" % (nl(unhex(n["name"])), coq_src(n["src"])) for n in nodes)
    es = ";".join("{| ge_from := %d%%nat; ge_to := %d%%nat; ge_name := %s; ge_kind := %s |}" %
                  (a, b, nl(unhex(nm)), "Lib" if k == "L" else "(Contract %d)" % int(salt, 16)) for a, b, nm, k, salt in g["edges"])
    return "{| g_nodes := [%s]; g_edges := [%s] |}" % (ns, es)


def coq_lock(l):
    return "[" + ";".join("{| pl_name := %s; pl_source := %s; pl_deps := [%s]; pl_cdeps := [%s] |}" %
                          (nl(unhex(p["name"])), nl(unhex(p["source"])), ";".join(nl(unhex(d)) for d in p["deps"]),
                           ";".join(nl(unhex(d)) for d in p["cdeps"])) for p in l) + "]"


HEADER = "From SwayV Require Import Base.Util C21.Str C21.Model C21.Orig C21.Spec C21.Judge.\nOpen Scope N_scope."
QK = {"QUrl": "U", "QCid": "C", "QVer": "V"}
QKR = {v: k for k, v in QK.items()}


def shard(items, n):
    n = max(1, min(n, len(items)))
    per = (len(items) + n - 1) // n
    return [items[k * per:(k + 1) * per] for k in range(n) if items[k * per:(k + 1) * per]]


def oracle_tables(ctx, binp, sources, tag, orig=False):
    """sources: list of distinct byte strings. Returns ({source: [(kind, qbytes)]}, {(kind, qbytes): verdict-json})."""
    srcs = sorted(set(sources))
    shards = ["Eval vm_compute in (queries_all %s [%s])." % ("true" if orig else "false", ";\n".join(nl(s) for s in ch)) for ch in shard(srcs, NCPU)]
    res = coq.run_cases(ctx, tag, HEADER, shards) if srcs else []
    qs, k = {}, 0
    for sh_ in res:
        for ql in sh_[0]:
            qs[srcs[k]] = [(QK[q[0].head], bytes(q[1])) for q in ql]
            k += 1
    assert k == len(srcs), (k, len(srcs))
    allq = sorted({q for v in qs.values() for q in v})
    verd = {}
    if allq:
        rc, outp = rust.run(binp, input="".join("%s %s\n" % (kd, qb.hex() or "-") for kd, qb in allq))
        lines = [l for l in outp.split("\n") if l.strip()]
        if rc != 0 or len(lines) != len(allq):
            raise RuntimeError("oracle run failed rc=%s: %s" % (rc, outp[-1500:]))
        for q, l in zip(allq, lines):
            verd[q] = json.loads(l)
    return qs, verd


def coq_table(qs, verd, sources):
    ent, seen = [], set()
    for s in sources:
        for q in qs.get(s, []):
            if q in seen or q not in verd: continue
            seen.add(q)
            v = verd[q]
            if v["res"] == "panic": continue            # left out on purpose: shows as code 9 + reported
            ent.append("(%s, %s, %s)" % (QKR[q[0]], nl(q[1]), "Some " + nl(unhex(v["disp"])) if v["res"] == "ok" else "None"))
    return "[" + ";".join(ent) + "]"


CODES = {0: "agree", 1: "model-differs", 5: "impl-panic", 7: "not-sync", 9: "oracle-miss"}
CORPUS_S = ["abc", "git+http://a.com", "registry+x", "git+", "path+from-root-", "", "registry+", "ipfs+", "path+",
            "xxxxxxxxxstd?0.1.0#QmdMgs46mWz2tWmJa9qvqLMvZzLQ8WjAyUEzXkLqZjXYZw!", "git+http://a.com?branch=é#" + "a" * 40,
            "git+http://a.com?branch=é", "registry+é", " member", "member", "root", "a registry+x",
            "git+https://github.com/FuelLabs/sway?rev#" + "b" * 40, "path+from-root-00000000000000AB",
            "path+zzfrom-root-+1Ffrom-root-q", "ipfs+QmdMgs46mWz2tWmJa9qvqLMvZzLQ8WjAyUEzXkLqZjXYZw",
            "registry+std?0.1.0#QmdMgs46mWz2tWmJa9qvqLMvZzLQ8WjAyUEzXkLqZjXYZw!fuel", " git+http://a.com?rev#" + "c" * 40 + " "]
CORPUS_DEP = ["std (", "(abc", "x ()", "x (é", "(", "()", ")", "a", "(d) a", "a (" + "0" * 64 + ")", "a (0x" + "1" * 64 + ")",
              "a (" + "1" * 64, "a (" + "1" * 64 + "Z", "(d)a(" + "f" * 64 + ") junk", " a ", "a ( "]


def run(ctx):
    ctx.level = "proof"
    orig = os.environ.get("C21_ORIG") == "1"
    ok, out = coq.check_props(ctx, "C21", extra_targets=["C21/Judge.vo"])
    if not ok:
        ctx.log(out[-3000:])
        ctx.violation("proof", {"theorems": [o for o in ctx.obligations if not o[1]], "log": out[-2000:]},
                      "C21 proofs do not check", no_input=True)
    ctx.log("proofs checked: %s" % ok)
    binp, bout = rust.build("c21")
    ctx.log("harness built")
    if binp is None:
        ctx.violation("harness-build", {"log": bout[-4000:]}, "harness c21 does not build against /repo", no_input=True)
        return
    rng = ctx.rng
    n_s = 900 if ctx.quick else 20000
    n_l = 500 if ctx.quick else 10000
    n_raw = 300 if ctx.quick else 6000
    cases = []        # (kind, bytes, meta)
    for s in CORPUS_S: cases.append(("S", s.encode(), "corpus"))
    for d in CORPUS_DEP:
        pk = [["a", "member", [d], [], None]]
        cases.append(("L", lock_text(rng, pk, False).encode(), "corpus-dep"))
        pk = [["a", "member", [], [d], None], ["a", "path+from-root-0000000000000001", [], [], None]]
        cases.append(("L", lock_text(rng, pk, False).encode(), "corpus-dep"))
    for s in CORPUS_S[:12]:
        cases.append(("L", lock_text(rng, [["p", s, [], [], None]], False).encode(), "corpus-src"))
    dist = {"S-valid": 0, "S-mutated": 0, "L-valid": 0, "L-malformed": 0, "L-raw": 0}
    for _ in range(n_s):
        if rng.random() < 0.4:
            s = gen_source(rng, 0.8); dist["S-valid"] += 1
        else:
            s = gen_source(rng, 0.5)
            for _ in range(rng.randint(1, 2)): s = mutate(rng, s)
            dist["S-mutated"] += 1
        cases.append(("S", s.encode(), "gen"))
    base_texts = []
    for _ in range(n_l):
        mal = rng.random() < 0.6
        t = lock_text(rng, gen_lock(rng, mal), mal).encode()
        base_texts.append(t)
        dist["L-malformed" if mal else "L-valid"] += 1
        cases.append(("L", t, "gen"))
    for _ in range(n_raw):
        cases.append(("L", raw_mutate(rng, rng.choice(base_texts)), "raw")); dist["L-raw"] += 1
    inp = "".join("%s %s\n" % (k, b.hex() or "-") for k, b, _ in cases)
    rc, outp = rust.run(binp, input=inp)
    lines = [l for l in outp.split("\n") if l.strip()]
    if rc != 0 or len(lines) != len(cases):
        ctx.violation("harness-run", {"rc": rc, "out": outp[-2000:]}, "harness c21 failed to run", no_input=True)
        return
    results = [json.loads(l) for l in lines]
    ctx.log("implementation run on %d cases" % len(cases))
    # strings whose external-parser queries are needed
    sources = []
    for (k, b, _), r in zip(cases, results):
        if k == "S": sources.append(b)
        elif r.get("load") == "ok": sources += [unhex(p["source"]) for p in r["lock"]]
    try:
        qs, verd = oracle_tables(ctx, binp, sources, "c21q", orig)
    except RuntimeError as e:
        ctx.violation("oracle-eval", {"log": str(e)[-3000:]}, "C21 oracle queries could not be evaluated (correspondence not checked)", no_input=True)
        return
    ctx.log("oracle verdicts: %d" % len(verd))
    for q, v in verd.items():
        if v["res"] == "panic":
            ctx.violation("extparser-panic:%s:%s" % (q[0], q[1].hex()[:60]), {"kind": q[0], "input_hex": q[1].hex(), "msg": v.get("msg")},
                          "external parser (%s) panicked on a substring of a source string" % {"U": "gix_url", "C": "cid", "V": "semver"}[q[0]])
    items, idx, stats = [], [], {}
    def st(k): stats[k] = stats.get(k, 0) + 1
    for ci, ((k, b, meta), r) in enumerate(zip(cases, results)):
        if k == "S":
            st("S-" + r["res"])
            impl = "(IOk %s)" % coq_src(r["src"]) if r["res"] == "ok" else ("IErr" if r["res"] == "err" else "IPanic")
            items.append("CS %s %s %s" % (coq_table(qs, verd, [b]), nl(b), impl)); idx.append(ci)
        else:
            if r["load"] == "panic":
                st("L-load-panic")
                ctx.violation("L:" + hashlib.sha1(b).hexdigest()[:16], {"kind": "L", "lock_text_hex": b.hex(), "msg": r.get("msg")},
                              "Lock::from_path panicked: %s" % r.get("msg"))
                continue
            if r["load"] == "err":
                st("L-toml-err"); continue                 # rejected by the trusted toml layer: an error, not a crash
            st("L-graph-" + r["graph"])
            impl = "(IOk %s)" % coq_graph(r["g"]) if r["graph"] == "ok" else ("IErr" if r["graph"] == "err" else "IPanic")
            srcs = [unhex(p["source"]) for p in r["lock"]]
            items.append("CL %s %s %s" % (coq_table(qs, verd, srcs), coq_lock(r["lock"]), impl)); idx.append(ci)
    shards = ["Definition cs : list case := [\n%s\n].\nEval vm_compute in (judge_all %s cs)." % (";\n".join(ch), "true" if orig else "false")
              for ch in shard(items, NCPU)]
    try:
        res = coq.run_cases(ctx, "c21", HEADER, shards)
    except RuntimeError as e:
        ctx.violation("model-eval", {"log": str(e)[-3000:]}, "C21 model/judge could not be evaluated (correspondence C21.corr not checked)", no_input=True)
        return
    codes = [c for sh_ in res for c in sh_[0]]
    assert len(codes) == len(items), (len(codes), len(items))
    hist, diffs = {}, []
    for c, ci in zip(codes, idx):
        k, b, meta = cases[ci]; r = results[ci]
        hist[CODES.get(c, str(c))] = hist.get(CODES.get(c, str(c)), 0) + 1
        rep = {"kind": k, "input_hex": b.hex(), "input": b.decode("utf-8", "replace"), "impl": {x: r[x] for x in r if x in ("res", "load", "graph", "msg")}}
        if c == 5:
            key = "%s:%s" % (k, b.hex()[:64] if k == "S" else hashlib.sha1(b).hexdigest()[:16])
            ctx.violation(key, rep, "%s panicked on %r: %s" % ("source::Pinned::from_str" if k == "S" else "Lock::to_graph", rep["input"][:120], r.get("msg")))
        elif c != 0:
            diffs.append((c, rep))
    for c, rep in diffs[:5]:
        ctx.violation("corr-%s" % hashlib.sha1(rep["input_hex"].encode()).hexdigest()[:12],
                      dict(rep, correspondence="C21.corr/%s" % CODES.get(c, c)),
                      "model and implementation differ (%s) with no panic; theorems C21_* no longer tied to the code" % CODES.get(c, c), no_input=True)
    distinct = len({cases[ci][1] for ci in idx})
    ctx.coverage.update({
        "checker_cmd": "make -C coq C21/Props.vo (coqc 8.16.1) + coqc vm_compute judge (C21/Judge.v) over harness output",
        "trusted_base": ["Coq 8.16.1 kernel + vm_compute", "harness/src/bin/c21.rs + c20_common.rs (dumps)", "props/c21.py (case text)",
                         "toml crate (deserialisation of Forc.lock happens before the model starts; exercised, not modelled)",
                         "gix_url / cid / semver parsers are arbitrary functions in the theorems; in the correspondence run they are the measured verdicts"],
        "evaluations": len(cases), "distinct_nontrivial": distinct,
        "rule": "distinct input texts that reached modelled code (every source string; every lock text that the toml layer accepted), judged against the model in Coq",
        "samples": [{"kind": cases[ci][0], "input": cases[ci][1].decode("utf-8", "replace")[:200], "impl": results[ci].get("res") or results[ci].get("graph")} for ci in idx[60:66]],
        "generator": dist, "impl_outcomes": stats, "judgements": hist, "oracle_queries": len(verd),
        "compared_with": "Orig.v (unrepaired slicing)" if orig else "Model.v (repaired code)",
        "explanation": "Theorems: for every behaviour of the external url/cid/semver parsers and every input whose ASCII bytes are not followed by continuation bytes (true of all valid UTF-8), parse_pinned, parse_dep_line and to_graph of the model return a value or an error. The model is tied to the code by exact comparison of results (parsed sources, whole graphs) on generated and mutated inputs.",
    })
    ctx.assumptions += ["model = code is established by exact comparison on the generated inputs only",
                        "TOML deserialisation (toml crate) and the external url/cid/semver parsers are not modelled; their panics would be caught by the harness but are not excluded by proof"]
